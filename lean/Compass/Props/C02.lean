/-
C02 — the returned route has least total cost under the query's own objective.

Setting (`SearchOpt.Uniform`): validity is edge-local, the cost of an edge is a strictly positive
function `c e` of the edge alone (no access model, linear non-negative rates; see the harness for
which configurations meet this), the heuristic is a non-negative function of the vertex.  Walks
are in the search direction, so the statements cover forward and reverse search alike.
Every statement is for every instance, origin, destination and every schedule the queue may take
(ties, re-opened vertices).  A* needs admissibility (`hv v ≤` cost of every walk from `v` to the
target) — on metrically consistent networks with weight factor ≤ 1 that is what the great-circle
estimate provides; Dijkstra (`h = 0`) needs nothing.

`Uniform` / `UniformCost` quantify over *every* state vector and previous edge, which no concrete
configuration meets (a malformed state makes the traversal fail).  The `_on` theorems take the
premises only on the calls the search really makes and only of calls that answer
(`UniformOn` / `UniformCostOn`, relative to an invariant `S` of the (last edge, state) pairs), and the
`config_…` theorems discharge them for every *edge-local* configuration (`Config.EdgeLocal`: no access
model, no turn restrictions, consistent adjacency) — with the distance or the speed-table traversal
model, any weights, rates (offsets too), surcharges, aggregation and feature units: there the cost of
an edge is `Config.costOf c e`, the floor applied to the C07 formula of the edge's own state change.
Admissibility of the configuration's own estimate `Config.hOf` is a premise of
`config_astar_route_least_cost` and is proved (`config_distance_estimate_admissible`,
`config_speed_estimate_admissible`) on metrically consistent great-circle tables: sum aggregation,
rates from the property's list (`zero / raw / factor ≥ 0 / combined`, no offset), weights, surcharges
and lengths ≥ 0, `0 ≤ weight_factor ≤ 1`, `max_speed ≥` every table speed.
-/
import Compass.Proofs.SearchOpt
import Compass.Proofs.SearchRoute
import Compass.Proofs.ConfigUniform
import Compass.Proofs.ConfigAdmissible
import Compass.Proofs.Build

namespace Compass
namespace C02

open SearchOpt

variable {α : Type} [Field α] [LinearOrder α] [IsStrictOrderedRing α] [Lit α] [LawfulLit α]

/-- A*: when the search returns, the destination's label is the minimum total cost over all valid
origin–destination walks (it is attained by a walk and is a lower bound for every walk). -/
theorem astar_label_least_cost {I : Inst α} {ok : Nat → Bool} {c hv : Nat → α}
    (U : Uniform I ok c hv) {source t : Nat} (hts : t ≠ source) (hadm : Admissible I ok c hv t)
    {sched : List Nat} {s : SState α} (hrun : runAStar I source (some t) sched = .ok s) :
    ∃ d, s.g t = some d ∧ (∃ es, Walk I ok source es t ∧ cost c es = d) ∧
      ∀ es, Walk I ok source es t → d ≤ cost c es :=
  label_optimal U hts hadm hrun

/-- Dijkstra (zero heuristic) on every network: no admissibility premise. -/
theorem dijkstra_label_least_cost {I : Inst α} {ok : Nat → Bool} {c : Nat → α}
    (U : UniformCost I ok c) (h0 : ∀ v st, I.h v st = .ok 0) {source t : Nat} (hts : t ≠ source)
    {sched : List Nat} {s : SState α} (hrun : runAStar I source (some t) sched = .ok s) :
    ∃ d, s.g t = some d ∧ (∃ es, Walk I ok source es t ∧ cost c es = d) ∧
      ∀ es, Walk I ok source es t → d ≤ cost c es :=
  dijkstra_label_optimal U h0 hts hrun

/-- Consequently Dijkstra and A* report the same cost, whatever schedules they take. -/
theorem astar_cost_eq_dijkstra_cost {I : Inst α} {ok : Nat → Bool} {c hv : Nat → α}
    (U : Uniform I ok c hv) {source t : Nat} (hadm : Admissible I ok c hv t)
    {sched sched' : List Nat} {s s' : SState α}
    (hrun : runAStar I source (some t) sched = .ok s)
    (hrun' : runAStar { I with h := fun _ _ => .ok 0 } source (some t) sched' = .ok s') :
    s.g t = s'.g t :=
  astar_eq_dijkstra U hadm hrun hrun'

/-- A consistent heuristic (`hv v ≤ c e + hv (head e)` on every valid edge, `hv t ≤ 0`) is admissible;
a pointwise smaller heuristic of an admissible one (weight factor ≤ 1) is admissible. -/
theorem consistent_is_admissible {I : Inst α} {ok : Nat → Bool} {c hv : Nat → α} {t : Nat}
    (hcons : ∀ v, ∀ e ∈ I.incident v, ok e = true → hv v ≤ c e + hv (I.keyV e)) (ht : hv t ≤ 0) :
    Admissible I ok c hv t :=
  admissible_of_consistent hcons ht

theorem smaller_heuristic_admissible {I : Inst α} {ok : Nat → Bool} {c hv hv' : Nat → α} {t : Nat}
    (h : Admissible I ok c hv t) (hle : ∀ v, hv' v ≤ hv v) : Admissible I ok c hv' t :=
  h.mono hle

/-- A destination-less search labels every reached vertex with its least cost. -/
theorem tree_labels_least_cost {I : Inst α} {ok : Nat → Bool} {c : Nat → α} (U : UniformCost I ok c)
    {source : Nat} {sched : List Nat} {s : SState α}
    (hrun : runAStar I source none sched = .ok s) (v : Nat) (x : α) (hx : s.g v = some x) :
    (∃ es, Walk I ok source es v ∧ cost c es = x) ∧ ∀ es, Walk I ok source es v → x ≤ cost c es :=
  tree_labels_optimal U hrun v x hx


/-- The property itself: the summed cost of the route A* returns equals the destination label,
equals the cost of the route as a walk, and is the minimum over all valid origin–destination walks. -/
theorem astar_route_least_cost {I : Inst α} {ok : Nat → Bool} {c hv : Nat → α}
    (U : Uniform I ok c hv) {source t : Nat} (hts : t ≠ source) (hadm : Admissible I ok c hv t)
    {sched : List Nat} {res : SearchResult α}
    (h : runVertexOriented I source (some t) sched = .ok res) :
    ∃ route d, res.route = some route ∧ route ≠ [] ∧
      Walk I ok source (route.map (·.edge)) t ∧
      (route.map (fun b => b.access + b.traversal)).sum = cost c (route.map (·.edge)) ∧
      res.final.g t = some d ∧
      (route.map (fun b => b.access + b.traversal)).sum = d ∧
      ∀ es, Walk I ok source es t → (route.map (fun b => b.access + b.traversal)).sum ≤ cost c es :=
  SearchRoute.route_optimal U hts hadm h

/-- Dijkstra: the same on every network, no premise on the heuristic. -/
theorem dijkstra_route_least_cost {I : Inst α} {ok : Nat → Bool} {c : Nat → α}
    (U : UniformCost I ok c) (h0 : ∀ v st, I.h v st = .ok 0) {source t : Nat} (hts : t ≠ source)
    {sched : List Nat} {res : SearchResult α}
    (h : runVertexOriented I source (some t) sched = .ok res) :
    ∃ route d, res.route = some route ∧ route ≠ [] ∧
      Walk I ok source (route.map (·.edge)) t ∧
      (route.map (fun b => b.access + b.traversal)).sum = cost c (route.map (·.edge)) ∧
      res.final.g t = some d ∧
      (route.map (fun b => b.access + b.traversal)).sum = d ∧
      ∀ es, Walk I ok source es t → (route.map (fun b => b.access + b.traversal)).sum ≤ cost c es :=
  SearchRoute.dijkstra_route_optimal U h0 hts h

/-- Dijkstra and A* report the same route cost, whatever schedules they take. -/
theorem astar_route_cost_eq_dijkstra {I : Inst α} {ok : Nat → Bool} {c hv : Nat → α}
    (U : Uniform I ok c hv) {source t : Nat} (hts : t ≠ source) (hadm : Admissible I ok c hv t)
    {sched sched' : List Nat} {res res' : SearchResult α}
    (h : runVertexOriented I source (some t) sched = .ok res)
    (h' : runVertexOriented { I with h := fun _ _ => .ok 0 } source (some t) sched' = .ok res') :
    ∃ route route', res.route = some route ∧ res'.route = some route' ∧
      (route.map (fun b => b.access + b.traversal)).sum
        = (route'.map (fun b => b.access + b.traversal)).sum :=
  SearchRoute.astar_route_cost_eq_dijkstra_route_cost U hts hadm h h'

/-! ### Non-vacuity: an instance with a forbidden shortcut, a cycle and a non-zero, inconsistent but
admissible heuristic meets every premise, and the theorem applies to an actual run. -/

example : Uniform Example.exInst Example.exOk Example.exCost Example.exH := Example.ex_uniform
example : Admissible Example.exInst Example.exOk Example.exCost Example.exH 3 := Example.ex_admissible

/-! ### The same with the premises restricted to the calls the search makes (`UniformOn`) -/

/-- every instance in the old setting is in the new one (invariant `True`) -/
theorem uniform_is_uniform_on {I : Inst α} {ok : Nat → Bool} {c hv : Nat → α}
    (U : Uniform I ok c hv) : UniformOn I (fun _ _ => True) ok c hv :=
  U.toOn

/-- A*, label: premises only on the (last edge, state) pairs satisfying the invariant `S` -/
theorem astar_label_least_cost_on {I : Inst α} {S : Option Nat → List α → Prop} {ok : Nat → Bool}
    {c hv : Nat → α} (U : UniformOn I S ok c hv) {source t : Nat} (hts : t ≠ source)
    (hadm : Admissible I ok c hv t) {sched : List Nat} {s : SState α}
    (hrun : runAStar I source (some t) sched = .ok s) :
    ∃ d, s.g t = some d ∧ (∃ es, Walk I ok source es t ∧ cost c es = d) ∧
      ∀ es, Walk I ok source es t → d ≤ cost c es :=
  label_optimal_on U hts hadm hrun

/-- A*, route (`WF I`: every answered traversal charges a positive cost) -/
theorem astar_route_least_cost_on {I : Inst α} {S : Option Nat → List α → Prop} {ok : Nat → Bool}
    {c hv : Nat → α} (hI : SearchTree.WF I) (U : UniformOn I S ok c hv) {source t : Nat}
    (hts : t ≠ source) (hadm : Admissible I ok c hv t) {sched : List Nat} {res : SearchResult α}
    (h : runVertexOriented I source (some t) sched = .ok res) :
    ∃ route d, res.route = some route ∧ route ≠ [] ∧
      Walk I ok source (route.map (·.edge)) t ∧
      (route.map (fun b => b.access + b.traversal)).sum = cost c (route.map (·.edge)) ∧
      res.final.g t = some d ∧
      (route.map (fun b => b.access + b.traversal)).sum = d ∧
      ∀ es, Walk I ok source es t → (route.map (fun b => b.access + b.traversal)).sum ≤ cost c es :=
  SearchRoute.route_optimal_on hI U hts hadm h

/-- Dijkstra, route: whenever the heuristic answers, it answers 0 -/
theorem dijkstra_route_least_cost_on {I : Inst α} {S : Option Nat → List α → Prop}
    {ok : Nat → Bool} {c : Nat → α} (hI : SearchTree.WF I) (U : UniformCostOn I S ok c)
    (h0 : VertexHOn I S (fun _ => 0)) {source t : Nat} (hts : t ≠ source)
    {sched : List Nat} {res : SearchResult α}
    (h : runVertexOriented I source (some t) sched = .ok res) :
    ∃ route d, res.route = some route ∧ route ≠ [] ∧
      Walk I ok source (route.map (·.edge)) t ∧
      (route.map (fun b => b.access + b.traversal)).sum = cost c (route.map (·.edge)) ∧
      res.final.g t = some d ∧
      (route.map (fun b => b.access + b.traversal)).sum = d ∧
      ∀ es, Walk I ok source es t → (route.map (fun b => b.access + b.traversal)).sum ≤ cost c es :=
  SearchRoute.dijkstra_route_optimal_on hI U h0 hts h

/-! ### Concrete configurations -/

/-- `StateIndep`, proved: in an edge-local configuration, whenever the frontier models answer the
verdict is `okOf c e`, and whenever `forward_traversal` / `reverse_traversal` answers — from any
state, after any previous edge — the record's `access + traversal` is `costOf c e > 0` -/
theorem config_edge_cost_uniform (c : Config α) (h : c.EdgeLocal) :
    UniformCostOn c.inst (fun _ _ => True) c.okOf c.costOf :=
  c.uniformCostOn h

/-- what `costOf` is under sum aggregation: the floor applied to
`Σᵢ wᵢ·rateᵢ(Δᵢ e) + Σᵢ wᵢ·lookupᵢ(e)`, `Δ e` the state change of the edge
(`Config.edgeDelta_distance`, `Config.edgeDelta_speed`) -/
theorem config_edge_cost_formula (c : Config α) (hs : c.cost.agg = .sum) (e : Nat) :
    c.costOf e = enforceStrictlyPositive
      ((c.cost.indices.map fun i => c.cost.wt i * (c.cost.vr i).mapValue (c.edgeDelta e i)).sum
        + (c.cost.indices.map fun i => c.cost.wt i * (c.cost.nr i).traversalCost e).sum) :=
  c.costOf_sum hs e

/-- whenever `estimate_traversal_cost` answers it answers `hOf c v`, whatever the state -/
theorem config_estimate_vertex_function (c : Config α) (v : Nat) (st : List α) (x : α)
    (h : estimate c v st = .ok x) : x = c.hOf v :=
  estimate_eq c v st x h

/-- **Dijkstra on a concrete configuration** (`weight_factor = 0`): every edge-local configuration,
every origin, destination and schedule — the returned route is a valid walk whose summed cost is
`Σ costOf` over its edges and is the least over all valid walks -/
theorem config_dijkstra_route_least_cost (c : Config α) (h : c.EdgeLocal) (hwf : c.wf = some 0)
    {source t : Nat} (hts : t ≠ source)
    {sched : List Nat} {r : AlgResult α} (hrun : c.runVertex source (some t) sched = .ok r) :
    ∃ route, r.routes = [route] ∧ route ≠ [] ∧
      Walk c.inst c.okOf source (route.map (·.edge)) t ∧
      (route.map (fun b => b.access + b.traversal)).sum = cost c.costOf (route.map (·.edge)) ∧
      ∀ es, Walk c.inst c.okOf source es t →
        (route.map (fun b => b.access + b.traversal)).sum ≤ cost c.costOf es :=
  _root_.Compass.config_dijkstra_route_least_cost c h hwf hts hrun

/-- **A\* on a concrete configuration**: the same for any non-negative weight factor when the
configuration's estimate `hOf` is admissible for the destination (e.g. consistent,
`consistent_is_admissible`) -/
theorem config_astar_route_least_cost (c : Config α) (h : c.EdgeLocal) (hwf : 0 ≤ c.wfOf)
    {source t : Nat} (hts : t ≠ source) (hadm : Admissible c.inst c.okOf c.costOf c.hOf t)
    {sched : List Nat} {r : AlgResult α} (hrun : c.runVertex source (some t) sched = .ok r) :
    ∃ route, r.routes = [route] ∧ route ≠ [] ∧
      Walk c.inst c.okOf source (route.map (·.edge)) t ∧
      (route.map (fun b => b.access + b.traversal)).sum = cost c.costOf (route.map (·.edge)) ∧
      ∀ es, Walk c.inst c.okOf source es t →
        (route.map (fun b => b.access + b.traversal)).sum ≤ cost c.costOf es :=
  _root_.Compass.config_astar_route_least_cost c h hwf hts hadm hrun

/-- **through the edge-oriented wrapper** (`run_edge_oriented`, origin and destination edges not
adjacent): the returned route's summed cost is the least cost of a valid walk from the origin edge's
head to the destination edge's tail -/
theorem config_edge_oriented_route_least_cost (c : Config α) (h : c.EdgeLocal) (hwf : 0 ≤ c.wfOf)
    (source tgt : Nat) (sched : List Nat) (r : AlgResult α)
    (e1 e2 : EdgeRec α) (h1 : c.edges[source]? = some e1) (h2 : c.edges[tgt]? = some e2)
    (hne : source ≠ tgt) (hnadj : e1.dst ≠ e2.src)
    (hadm : Admissible c.inst c.okOf c.costOf c.hOf e2.src)
    (hrun : c.runEdge source (some tgt) sched = .ok r) :
    ∃ (route inner : List (Branch α)) (last : Branch α), r.routes = [route] ∧
      route = SearchRoute.originBranch c source e1 :: inner
        ++ [SearchRoute.destBranch tgt e2 last.state] ∧
      Walk c.inst c.okOf e1.dst (inner.map (·.edge)) e2.src ∧
      (route.map (fun b => b.access + b.traversal)).sum = cost c.costOf (inner.map (·.edge)) ∧
      ∀ es, Walk c.inst c.okOf e1.dst es e2.src →
        (route.map (fun b => b.access + b.traversal)).sum ≤ cost c.costOf es :=
  _root_.Compass.config_edge_oriented_route_least_cost c h hwf source tgt sched r e1 e2 h1 h2 hne
    hnadj hadm hrun

/-- **`estimate_admissible`** (distance model): sum aggregation, rates in use linear and
non-decreasing (the property's list `zero / raw / factor ≥ 0 / combined`, no offset:
`CostModel.rates_of_offsetFree`), weights, surcharges, lengths ≥ 0, weight factor in `[0, 1]`, and a
great-circle table that is ≥ 0, zero at the destination and consistent with the lengths of the
permitted edges (`Config.DistanceMetric`): the configuration's own estimate is admissible -/
theorem config_distance_estimate_admissible (c : Config α) (hadj : c.AdjConsistent)
    {du : DistanceUnit} {t : Nat} (M : c.DistanceMetric du t) :
    Admissible c.inst c.okOf c.costOf c.hOf t :=
  c.distance_estimate_admissible hadj M

/-- **A\* on a concrete configuration with its own estimate** (distance model): no premise on the
heuristic is left -/
theorem config_astar_distance_route_least_cost (c : Config α) (h : c.EdgeLocal)
    {du : DistanceUnit} {source t : Nat} (M : c.DistanceMetric du t) (hts : t ≠ source)
    {sched : List Nat} {r : AlgResult α} (hrun : c.runVertex source (some t) sched = .ok r) :
    ∃ route, r.routes = [route] ∧ route ≠ [] ∧
      Walk c.inst c.okOf source (route.map (·.edge)) t ∧
      (route.map (fun b => b.access + b.traversal)).sum = cost c.costOf (route.map (·.edge)) ∧
      ∀ es, Walk c.inst c.okOf source es t →
        (route.map (fun b => b.access + b.traversal)).sum ≤ cost c.costOf es :=
  _root_.Compass.config_astar_distance_route_least_cost c h M hts hrun

/-- **`estimate_admissible`** (speed-table model): as for the distance model, with positive
lengths, positive table speeds and `max_speed ≥` every table speed (`Config.SpeedMetric`) -/
theorem config_speed_estimate_admissible (c : Config α) (hadj : c.AdjConsistent)
    {su : SpeedUnit} {du : DistanceUnit} {tu : TimeUnit} {ms : α} {table : List α} {t : Nat}
    (M : c.SpeedMetric su du tu ms table t) : Admissible c.inst c.okOf c.costOf c.hOf t :=
  c.speed_estimate_admissible hadj M

/-- **A\* on a concrete configuration with its own estimate** (speed-table model) -/
theorem config_astar_speed_route_least_cost (c : Config α) (h : c.EdgeLocal)
    {su : SpeedUnit} {du : DistanceUnit} {tu : TimeUnit} {ms : α} {table : List α}
    {source t : Nat} (M : c.SpeedMetric su du tu ms table t) (hts : t ≠ source)
    {sched : List Nat} {r : AlgResult α} (hrun : c.runVertex source (some t) sched = .ok r) :
    ∃ route, r.routes = [route] ∧ route ≠ [] ∧
      Walk c.inst c.okOf source (route.map (·.edge)) t ∧
      (route.map (fun b => b.access + b.traversal)).sum = cost c.costOf (route.map (·.edge)) ∧
      ∀ es, Walk c.inst c.okOf source es t →
        (route.map (fun b => b.access + b.traversal)).sum ≤ cost c.costOf es :=
  _root_.Compass.config_astar_speed_route_least_cost c h M hts hrun

/-- the premise on the rates is the property's own list: rates built from
`zero / raw / factor f ≥ 0 / combined` of those are linear and non-decreasing -/
theorem listed_rates_linear (m : CostModel α)
    (h : ∀ i ∈ m.indices, (m.vr i).offsetFree = true ∧ 0 ≤ m.wt i) :
    m.LinearRates ∧ m.NonnegRates :=
  m.rates_of_offsetFree h

/-! ### Non-vacuity of the generalisation itself: `Example.exInstS` prices malformed states wrongly, so
it is outside `UniformCost`, and inside `UniformOn` with the invariant "the state has one slot" -/

example : ¬ UniformCost Example.exInstS Example.exOk Example.exCost := Example.ex_not_uniformCost
example : UniformOn Example.exInstS (fun _ st => st.length = 1) Example.exOk Example.exCost
    Example.exH := Example.ex_uniform_on

/-! ### Non-vacuity on concrete configurations (`ConfigUniform.Example`): an offset rate, an edge
surcharge, a unit conversion, a forbidden shortcut, a cycle and self loops; the speed-table model;
A* with a non-zero admissible estimate; a reverse search. -/

section
open ConfigUniform.Example SearchRoute.Example

/-- Dijkstra on `exC`: the run returns `[0, 7]` (not the shortest-by-length `[0, 1, 2]`, not the
forbidden shortcut `[6]`), and the theorem bounds every valid walk `0 ⇝ 3` by its cost -/
example : ∃ r route, exC.runVertex 0 (some 3) [0, 1, 2, 3] = .ok r ∧ r.routes = [route] ∧
    route.map (·.edge) = [0, 7] ∧
    ∀ es, Walk exC.inst exC.okOf 0 es 3 →
      (route.map (fun b => b.access + b.traversal)).sum ≤ cost exC.costOf es := by
  obtain ⟨r, hr⟩ := ok_of_routeEdgesOf exC_run
  obtain ⟨route, h1, _, _, _, h5⟩ :=
    config_dijkstra_route_least_cost exC exC_edgeLocal rfl (by decide) hr
  refine ⟨r, route, hr, h1, ?_, h5⟩
  have := exC_run
  rw [hr] at this
  simpa [routeEdgesOf, h1] using this

/-- the quantifier over walks is not empty, and the cheaper shortcut is indeed excluded -/
example : Walk exC.inst exC.okOf 0 [0, 1, 2] 3 ∧ ¬ Walk exC.inst exC.okOf 0 [6] 3 ∧
    cost exC.costOf [6] < cost exC.costOf [0, 7] ∧
    cost exC.costOf [0, 7] < cost exC.costOf [0, 1, 2] := by
  simp only [Walk]
  decide +kernel

/-- the speed-table model (`exS`), A* with a non-zero estimate (`exA`), a reverse search (`exR`) -/
example : ∃ r route, exS.runVertex 0 (some 3) [0, 1, 2, 3] = .ok r ∧ r.routes = [route] ∧
    ∀ es, Walk exS.inst exS.okOf 0 es 3 →
      (route.map (fun b => b.access + b.traversal)).sum ≤ cost exS.costOf es := by
  obtain ⟨r, hr⟩ := ok_of_routeEdgesOf exS_run
  obtain ⟨route, h1, _, _, _, h5⟩ :=
    config_dijkstra_route_least_cost exS exS_edgeLocal rfl (by decide) hr
  exact ⟨r, route, hr, h1, h5⟩

example : exA.hOf 0 ≠ 0 ∧ ∃ r route, exA.runVertex 0 (some 3) [0, 1, 2, 3] = .ok r ∧
    r.routes = [route] ∧
    ∀ es, Walk exA.inst exA.okOf 0 es 3 →
      (route.map (fun b => b.access + b.traversal)).sum ≤ cost exA.costOf es := by
  refine ⟨by rw [exA_h0]; norm_num, ?_⟩
  obtain ⟨r, hr⟩ := ok_of_routeEdgesOf exA_run
  obtain ⟨route, h1, _, _, _, h5⟩ :=
    config_astar_route_least_cost exA exA_edgeLocal (by simp [Config.wfOf, exA]) (by decide)
      exA_admissible hr
  exact ⟨r, route, hr, h1, h5⟩

example : ∃ r route, exR.runVertex 3 (some 0) [3, 2, 1, 0] = .ok r ∧ r.routes = [route] ∧
    ∀ es, Walk exR.inst exR.okOf 3 es 0 →
      (route.map (fun b => b.access + b.traversal)).sum ≤ cost exR.costOf es := by
  obtain ⟨r, hr⟩ := ok_of_routeEdgesOf exR_run
  obtain ⟨route, h1, _, _, _, h5⟩ :=
    config_dijkstra_route_least_cost exR exR_edgeLocal rfl (by decide) hr
  exact ⟨r, route, hr, h1, h5⟩

/-- the edge-oriented wrapper on `exC`: origin edge 0 (0→1), destination edge 4 (3→1); the inner
route is `[7]` -/
example : ∃ r route, exC.runEdge 0 (some 4) [1, 2, 3] = .ok r ∧ r.routes = [route] ∧
    route.map (·.edge) = [0, 7, 4] ∧
    ∀ es, Walk exC.inst exC.okOf 1 es 3 →
      (route.map (fun b => b.access + b.traversal)).sum ≤ cost exC.costOf es := by
  have hobs : routeEdgesOf (exC.runEdge 0 (some 4) [1, 2, 3]) = some [[0, 7, 4]] := by
    decide +kernel
  obtain ⟨r, hr⟩ := ok_of_routeEdgesOf hobs
  obtain ⟨route, inner, last, h1, _, _, _, h5⟩ :=
    config_edge_oriented_route_least_cost exC exC_edgeLocal (by simp [Config.wfOf, exC]) 0 4
      [1, 2, 3] r ⟨0, 1, 1000⟩ ⟨3, 1, 700⟩ rfl rfl (by decide) (by decide)
      (exC.admissible_dijkstra rfl 3) hr
  refine ⟨r, route, hr, h1, ?_, h5⟩
  rw [hr] at hobs
  simpa [routeEdgesOf, h1] using hobs

/-- why the property excludes offset rates *for A\**: with an offset the estimate at the destination
itself is positive (`exC` with weight factor one: `hOf 3 = 2`), so it is not admissible.  Dijkstra
(weight factor 0, the examples above) is not affected: the cost of an edge is still a function of the
edge alone. -/
example : ¬ Admissible ({ exC with wf := none } : Config ℚ).inst ({ exC with wf := none } : Config ℚ).okOf
    ({ exC with wf := none } : Config ℚ).costOf ({ exC with wf := none } : Config ℚ).hOf 3 := by
  intro h
  have h3 := h 3 [] rfl
  revert h3
  simp only [cost]
  decide +kernel

/-- `exA` meets `DistanceMetric`, so its A* run needs no premise on the estimate -/
example : ∃ r route, exA.runVertex 0 (some 3) [0, 1, 2, 3] = .ok r ∧ r.routes = [route] ∧
    ∀ es, Walk exA.inst exA.okOf 0 es 3 →
      (route.map (fun b => b.access + b.traversal)).sum ≤ cost exA.costOf es := by
  obtain ⟨r, hr⟩ := ok_of_routeEdgesOf exA_run
  obtain ⟨route, h1, _, _, _, h5⟩ :=
    config_astar_distance_route_least_cost exA exA_edgeLocal exA_metric (by decide) hr
  exact ⟨r, route, hr, h1, h5⟩

/-- `exSA` (speed table, time cost, weight factor one) meets `SpeedMetric` -/
example : exSA.hOf 0 ≠ 0 ∧ ∃ r route, exSA.runVertex 0 (some 3) [0, 1, 2, 3] = .ok r ∧
    r.routes = [route] ∧
    ∀ es, Walk exSA.inst exSA.okOf 0 es 3 →
      (route.map (fun b => b.access + b.traversal)).sum ≤ cost exSA.costOf es := by
  refine ⟨exSA_h0, ?_⟩
  obtain ⟨r, hr⟩ := ok_of_routeEdgesOf exSA_run
  obtain ⟨route, h1, _, _, _, h5⟩ :=
    config_astar_speed_route_least_cost exSA exSA_edgeLocal exSA_metric (by decide) hr
  exact ⟨r, route, hr, h1, h5⟩

end

/-! ### The maximum speed the time estimate divides by, and the weight factor of the query

`SpeedTraversalEngine::new` reads the speed table from a file and hands `get_max_speed` of it to the
model; `SpeedMetric` (the premise of `config_speed_estimate_admissible`) asks `0 < max_speed` and
`table speed ≤ max_speed` on every edge.  Both hold of every engine the constructor returns, for
every file. -/

open Build

/-- `get_max_speed` answers `m` exactly when `m` is an entry of the table, positive, and no entry is
larger: the maximum, never anything else -/
theorem max_speed_is_table_maximum (table : List α) (m : α) :
    getMaxSpeed table = .ok m ↔ (m ∈ table ∧ 0 < m ∧ ∀ s ∈ table, s ≤ m) :=
  getMaxSpeed_ok_iff table m

/-- … and it refuses exactly the tables that have no maximum to offer: no entry at all, or no
positive entry (nothing could be traversed, and the estimate would divide by zero) -/
theorem max_speed_refused_iff (table : List α) :
    (getMaxSpeed table = .error .empty ↔ table = []) ∧
    (getMaxSpeed table = .error .zero ↔ (table ≠ [] ∧ ∀ s ∈ table, s ≤ 0)) ∧
    (∀ k, getMaxSpeed table = .error k → k = .empty ∨ k = .zero) :=
  ⟨getMaxSpeed_empty_iff table, getMaxSpeed_zero_iff table, fun _ h => getMaxSpeed_error_kind h⟩

/-- Every engine `SpeedTraversalEngine::new` returns — whatever the file, the units given or left
to their defaults — carries a positive `max_speed` that is a table entry and bounds every table
entry, and no negative entry: the `ms_pos` and `sp ≤ ms` premises of `SpeedMetric`. -/
theorem speed_engine_estimate_premise (file : Option (List (NumRow α))) (su : SpeedUnit)
    (duOpt : Option DistanceUnit) (tuOpt : Option TimeUnit) (e : SpeedEngine α)
    (h : speedEngineNew file su duOpt tuOpt = .ok e) :
    0 < e.maxSpeed ∧ e.maxSpeed ∈ e.table ∧
      ∀ (i : Nat) (sp : α), e.table[i]? = some sp → 0 ≤ sp ∧ sp ≤ e.maxSpeed := by
  obtain ⟨rows, _, hrows, hmax, _⟩ := (speedEngineNew_ok_iff file su duOpt tuOpt e).1 h
  obtain ⟨hm, hpos, hall⟩ := (getMaxSpeed_ok_iff _ _).1 hmax
  refine ⟨hpos, hm, fun i sp hsp => ⟨?_, hall sp (List.mem_of_getElem? hsp)⟩⟩
  obtain ⟨x, _, hx⟩ := (allSome_getElem? hrows i).2 sp hsp
  exact ((parseSpeed_iff x sp).1 hx).2

/-- the same through the application's builder (`SpeedLookupBuilder::build`): whatever the
configuration and the file, a service that is built estimates with the table's maximum -/
theorem speed_builder_estimate_premise (cfg : Json) (file : Option (List (NumRow α))) (e : SpeedEngine α)
    (h : speedLookupBuild cfg file = .ok e) :
    0 < e.maxSpeed ∧ ∀ (i : Nat) (sp : α), e.table[i]? = some sp → sp ≤ e.maxSpeed := by
  unfold speedLookupBuild at h
  split at h
  · cases h
  · split at h
    · cases h
    · split at h
      · cases h
      · split at h
        · cases h
        · have := speed_engine_estimate_premise _ _ _ _ e h
          exact ⟨this.1, fun i sp hsp => (this.2.2 i sp hsp).2⟩

/-- a speed table file with a row that is not a number, is negative or is NaN, a file without rows,
a file without a positive row, and a file that cannot be read are all refused -/
theorem speed_engine_refuses (su : SpeedUnit) (duOpt : Option DistanceUnit) (tuOpt : Option TimeUnit) :
    (speedEngineNew (α := α) none su duOpt tuOpt = .error .read) ∧
    (∀ rows : List (NumRow α), (∃ r ∈ rows, parseSpeed r = none) →
      speedEngineNew (some rows) su duOpt tuOpt = .error .read) ∧
    (speedEngineNew (α := α) (some []) su duOpt tuOpt = .error .empty) ∧
    (∀ (rows : List (NumRow α)) (table : List α), Build.allSome parseSpeed rows = some table → table ≠ [] →
      (∀ s ∈ table, s ≤ 0) → speedEngineNew (some rows) su duOpt tuOpt = .error .zero) :=
  speedEngineNew_errors su duOpt tuOpt

theorem speed_row_accepted_iff (r : NumRow α) (x : α) : parseSpeed r = some x ↔ (r = .val x ∧ 0 ≤ x) :=
  parseSpeed_iff r x

omit [Field α] [LinearOrder α] [IsStrictOrderedRing α] [Lit α] [LawfulLit α] in
/-- The weight factor in force is the query's own number whenever the query has the field —
whatever is configured, Dijkstra's zero included —, the configured one otherwise; a field that is
not a number is an error response (`BuildError`), never a default. -/
theorem weight_factor_of_query (dec : Nat → α) (q : Json) (configured : Option α) :
    (q.get? "weight_factor" = none → weightFactorOfQuery dec q configured = .ok configured) ∧
    (∀ l b, q.get? "weight_factor" = some (.num l b) →
      weightFactorOfQuery dec q configured = .ok (some (dec b))) ∧
    (∀ v, q.get? "weight_factor" = some v → v.isNumber = false →
      weightFactorOfQuery dec q configured = .error .build) := by
  refine ⟨fun h => by simp [weightFactorOfQuery, h], fun l b h => by simp [weightFactorOfQuery, h, Json.asF64Bits?], ?_⟩
  intro v h hv
  cases v <;> simp_all [weightFactorOfQuery, Json.asF64Bits?, Json.isNumber]

/-! Non-vacuity: a three-row file (36, 72, 18 km/h) gives the engine with maximum 72; files with a
negative row, a junk row, no row and only zero rows are refused. -/
example : (speedEngineNew (some [.val (36 : ℚ), .val 72, .val 18]) .kilometersPerHour none none).toOption.map
      (fun e => (e.maxSpeed, e.table, e.timeUnit, e.distanceUnit)) =
    some (72, [36, 72, 18], baseTimeUnit, baseDistanceUnit) := by decide +kernel
example : errOf (speedEngineNew (α := ℚ) (some [.val 36, .val (-1)]) .kilometersPerHour none none) = some .read := by decide +kernel
example : errOf (speedEngineNew (α := ℚ) (some [.val 36, .junk]) .kilometersPerHour none none) = some .read := by decide +kernel
example : errOf (speedEngineNew (α := ℚ) (some [.val 36, .nan]) .kilometersPerHour none none) = some .read := by decide +kernel
example : errOf (speedEngineNew (α := ℚ) (some []) .kilometersPerHour none none) = some .empty := by decide +kernel
example : errOf (speedEngineNew (α := ℚ) (some [.val 0, .val 0]) .kilometersPerHour none none) = some .zero := by decide +kernel
example : weightFactorOfQuery (fun b => (b : ℚ)) (.obj [("weight_factor", .str "1.0")]) (some 1) = .error .build := by decide +kernel

end C02
end Compass
