/-
C02 — the returned route has least total cost under the query's own objective.

Setting (`SearchOpt.Uniform`): validity is edge-local, the cost of an edge is a strictly positive
function `c e` of the edge alone (no access model, linear non-negative rates; see the harness for
which configurations meet this), the heuristic is a non-negative function of the vertex.  Walks
are in the search direction, so the statements cover forward and reverse search alike.
Every statement is for every instance, origin, destination and every schedule the queue may take
(ties, re-opened vertices).  A* needs admissibility (`hv v ≤` cost of every walk from `v` to the
target) — on metrically consistent networks with weight factor ≤ 1 that is what the great-circle
estimate provides; Dijkstra (`h = 0`) needs nothing.
-/
import Compass.Proofs.SearchOpt
import Compass.Proofs.SearchRoute

namespace Compass
namespace C02

open SearchOpt

variable {α : Type} [Field α] [LinearOrder α] [IsStrictOrderedRing α] [Lit α] [LawfulLit α]

/-- A*: when the search returns, the destination's label is the minimum total cost over all valid
origin–destination walks (it is attained by a walk and is a lower bound for every walk). -/
theorem astar_label_least_cost {I : Inst α} {ok : Nat → Bool} {c hv : Nat → α}
    (U : Uniform I ok c hv) {source t : Nat} (hts : t ≠ source) (hadm : Admissible I ok c hv t)
    {sched : List Nat} {s : SState α} (hrun : runAStar I source (some t) sched = .ok s) :
    ∃ d, s.g t = some d ∧ (∃ es, Walk I ok source es t ∧ cost c es = d) ∧
      ∀ es, Walk I ok source es t → d ≤ cost c es :=
  label_optimal U hts hadm hrun

/-- Dijkstra (zero heuristic) on every network: no admissibility premise. -/
theorem dijkstra_label_least_cost {I : Inst α} {ok : Nat → Bool} {c : Nat → α}
    (U : UniformCost I ok c) (h0 : ∀ v st, I.h v st = .ok 0) {source t : Nat} (hts : t ≠ source)
    {sched : List Nat} {s : SState α} (hrun : runAStar I source (some t) sched = .ok s) :
    ∃ d, s.g t = some d ∧ (∃ es, Walk I ok source es t ∧ cost c es = d) ∧
      ∀ es, Walk I ok source es t → d ≤ cost c es :=
  dijkstra_label_optimal U h0 hts hrun

/-- Consequently Dijkstra and A* report the same cost, whatever schedules they take. -/
theorem astar_cost_eq_dijkstra_cost {I : Inst α} {ok : Nat → Bool} {c hv : Nat → α}
    (U : Uniform I ok c hv) {source t : Nat} (hadm : Admissible I ok c hv t)
    {sched sched' : List Nat} {s s' : SState α}
    (hrun : runAStar I source (some t) sched = .ok s)
    (hrun' : runAStar { I with h := fun _ _ => .ok 0 } source (some t) sched' = .ok s') :
    s.g t = s'.g t :=
  astar_eq_dijkstra U hadm hrun hrun'

/-- A consistent heuristic (`hv v ≤ c e + hv (head e)` on every valid edge, `hv t ≤ 0`) is admissible;
a pointwise smaller heuristic of an admissible one (weight factor ≤ 1) is admissible. -/
theorem consistent_is_admissible {I : Inst α} {ok : Nat → Bool} {c hv : Nat → α} {t : Nat}
    (hcons : ∀ v, ∀ e ∈ I.incident v, ok e = true → hv v ≤ c e + hv (I.keyV e)) (ht : hv t ≤ 0) :
    Admissible I ok c hv t :=
  admissible_of_consistent hcons ht

theorem smaller_heuristic_admissible {I : Inst α} {ok : Nat → Bool} {c hv hv' : Nat → α} {t : Nat}
    (h : Admissible I ok c hv t) (hle : ∀ v, hv' v ≤ hv v) : Admissible I ok c hv' t :=
  h.mono hle

/-- A destination-less search labels every reached vertex with its least cost. -/
theorem tree_labels_least_cost {I : Inst α} {ok : Nat → Bool} {c : Nat → α} (U : UniformCost I ok c)
    {source : Nat} {sched : List Nat} {s : SState α}
    (hrun : runAStar I source none sched = .ok s) (v : Nat) (x : α) (hx : s.g v = some x) :
    (∃ es, Walk I ok source es v ∧ cost c es = x) ∧ ∀ es, Walk I ok source es v → x ≤ cost c es :=
  tree_labels_optimal U hrun v x hx


/-- The property itself: the summed cost of the route A* returns equals the destination label,
equals the cost of the route as a walk, and is the minimum over all valid origin–destination walks. -/
theorem astar_route_least_cost {I : Inst α} {ok : Nat → Bool} {c hv : Nat → α}
    (U : Uniform I ok c hv) {source t : Nat} (hts : t ≠ source) (hadm : Admissible I ok c hv t)
    {sched : List Nat} {res : SearchResult α}
    (h : runVertexOriented I source (some t) sched = .ok res) :
    ∃ route d, res.route = some route ∧ route ≠ [] ∧
      Walk I ok source (route.map (·.edge)) t ∧
      (route.map (fun b => b.access + b.traversal)).sum = cost c (route.map (·.edge)) ∧
      res.final.g t = some d ∧
      (route.map (fun b => b.access + b.traversal)).sum = d ∧
      ∀ es, Walk I ok source es t → (route.map (fun b => b.access + b.traversal)).sum ≤ cost c es :=
  SearchRoute.route_optimal U hts hadm h

/-- Dijkstra: the same on every network, no premise on the heuristic. -/
theorem dijkstra_route_least_cost {I : Inst α} {ok : Nat → Bool} {c : Nat → α}
    (U : UniformCost I ok c) (h0 : ∀ v st, I.h v st = .ok 0) {source t : Nat} (hts : t ≠ source)
    {sched : List Nat} {res : SearchResult α}
    (h : runVertexOriented I source (some t) sched = .ok res) :
    ∃ route d, res.route = some route ∧ route ≠ [] ∧
      Walk I ok source (route.map (·.edge)) t ∧
      (route.map (fun b => b.access + b.traversal)).sum = cost c (route.map (·.edge)) ∧
      res.final.g t = some d ∧
      (route.map (fun b => b.access + b.traversal)).sum = d ∧
      ∀ es, Walk I ok source es t → (route.map (fun b => b.access + b.traversal)).sum ≤ cost c es :=
  SearchRoute.dijkstra_route_optimal U h0 hts h

/-- Dijkstra and A* report the same route cost, whatever schedules they take. -/
theorem astar_route_cost_eq_dijkstra {I : Inst α} {ok : Nat → Bool} {c hv : Nat → α}
    (U : Uniform I ok c hv) {source t : Nat} (hts : t ≠ source) (hadm : Admissible I ok c hv t)
    {sched sched' : List Nat} {res res' : SearchResult α}
    (h : runVertexOriented I source (some t) sched = .ok res)
    (h' : runVertexOriented { I with h := fun _ _ => .ok 0 } source (some t) sched' = .ok res') :
    ∃ route route', res.route = some route ∧ res'.route = some route' ∧
      (route.map (fun b => b.access + b.traversal)).sum
        = (route'.map (fun b => b.access + b.traversal)).sum :=
  SearchRoute.astar_route_cost_eq_dijkstra_route_cost U hts hadm h h'

/-! ### Non-vacuity: an instance with a forbidden shortcut, a cycle and a non-zero, inconsistent but
admissible heuristic meets every premise, and the theorem applies to an actual run. -/

example : Uniform Example.exInst Example.exOk Example.exCost Example.exH := Example.ex_uniform
example : Admissible Example.exInst Example.exOk Example.exCost Example.exH 3 := Example.ex_admissible

end C02
end Compass
