/-
C05 — "no path" is reported exactly when the destination is unreachable; a destination-less search
returns exactly the reachable set.

For restrictions that depend only on the edge (`valid_eq : I.valid e st le = .ok (ok e)`), every
heuristic that is a function of the vertex (any weight factor), every schedule.  The termination
model is only required never to answer "no path" itself (it answers `terminated`).

The `_on` theorems take the premises only on the calls the search really makes and only of calls
that answer (`UniformCostOn`, `VertexHOn`; no component may answer "no path" itself,
`NoSpuriousNoPath`); the `config_…` theorems discharge all of them for every edge-local concrete
configuration (`Config.EdgeLocal`), at the level of `Config.runVertex`, for any weight factor.
-/
import Compass.Proofs.SearchOpt
import Compass.Proofs.ConfigUniform
import Compass.Proofs.ConfigProgress

namespace Compass
namespace C05

open SearchOpt

variable {α : Type} [Field α] [LinearOrder α] [IsStrictOrderedRing α] [Lit α] [LawfulLit α]

/-- a returned result implies the destination is reachable through permitted edges -/
theorem route_implies_reachable {I : Inst α} {ok : Nat → Bool} {c hv : Nat → α}
    (U : UniformCost I ok c) (hh : VertexH I hv) {source t : Nat} (hts : t ≠ source)
    {sched : List Nat} {s : SState α} (hrun : runAStar I source (some t) sched = .ok s) :
    ∃ es, Walk I ok source es t := by
  obtain ⟨_, es, _, hw, _⟩ := ok_imp_reachable U hh hts hrun
  exact ⟨es, hw⟩

/-- "no path" implies the destination is unreachable -/
theorem nopath_implies_unreachable {I : Inst α} {ok : Nat → Bool} {c hv : Nat → α}
    (U : UniformCost I ok c) (hh : VertexH I hv) (hterm : TermNotNoPath I)
    {source t : Nat} {sched : List Nat}
    (hrun : runAStar I source (some t) sched = .error .noPath) :
    ¬ ∃ es, Walk I ok source es t :=
  nopath_imp_unreachable U hh hterm hrun

/-- among the two outcomes "a result" and "no path", the search returns a result if and only if the
destination is reachable, and "no path" if and only if it is not — for any weight factor -/
theorem result_iff_reachable {I : Inst α} {ok : Nat → Bool} {c hv : Nat → α}
    (U : UniformCost I ok c) (hh : VertexH I hv) (hterm : TermNotNoPath I)
    {source t : Nat} {sched : List Nat}
    (hres : (∃ s, runAStar I source (some t) sched = .ok s) ∨
      runAStar I source (some t) sched = .error .noPath) :
    ((∃ s, runAStar I source (some t) sched = .ok s) ↔ ∃ es, Walk I ok source es t) ∧
    (runAStar I source (some t) sched = .error .noPath ↔ ¬ ∃ es, Walk I ok source es t) :=
  ⟨ok_iff_reachable U hh hterm hres, nopath_iff_unreachable U hh hterm hres⟩

/-- a search without a destination labels precisely the vertices reachable from the origin -/
theorem tree_is_reachable_set {I : Inst α} {ok : Nat → Bool} {c : Nat → α} (U : UniformCost I ok c)
    {source : Nat} {sched : List Nat} {s : SState α}
    (hrun : runAStar I source none sched = .ok s) (v : Nat) :
    (∃ x, s.g v = some x) ↔ ∃ es, Walk I ok source es v :=
  tree_eq_reachable U hrun v

/-- … each labelled with its least cost -/
theorem tree_labels_least_cost {I : Inst α} {ok : Nat → Bool} {c : Nat → α} (U : UniformCost I ok c)
    {source : Nat} {sched : List Nat} {s : SState α}
    (hrun : runAStar I source none sched = .ok s) (v : Nat) (x : α) (hx : s.g v = some x) :
    (∃ es, Walk I ok source es v ∧ cost c es = x) ∧ ∀ es, Walk I ok source es v → x ≤ cost c es :=
  tree_labels_optimal U hrun v x hx

/-! ### Non-vacuity: a run that ends in "no path" and one that returns a result on the same instance -/

example : runAStar Example.exInst 0 (some 7) [0, 1, 2, 3] = .error .noPath := Example.ex_run_nopath
example : ∃ s, runAStar Example.exInst 0 (some 3) [0, 1, 2, 3] = .ok s ∧ s.g 3 = some 3 := Example.ex_run_ok

/-! ### The same with the premises restricted to the calls the search makes -/

/-- result ⇔ reachable and "no path" ⇔ unreachable, premises only on the pairs satisfying `S` -/
theorem result_iff_reachable_on {I : Inst α} {S : Option Nat → List α → Prop} {ok : Nat → Bool}
    {c hv : Nat → α} (U : UniformCostOn I S ok c) (hh : VertexHOn I S hv)
    (hyg : NoSpuriousNoPath I) {source t : Nat} {sched : List Nat}
    (hres : (∃ s, runAStar I source (some t) sched = .ok s) ∨
      runAStar I source (some t) sched = .error .noPath) :
    ((∃ s, runAStar I source (some t) sched = .ok s) ↔ ∃ es, Walk I ok source es t) ∧
    (runAStar I source (some t) sched = .error .noPath ↔ ¬ ∃ es, Walk I ok source es t) :=
  ⟨ok_iff_reachable_on U hh hyg hres, nopath_iff_unreachable_on U hh hyg hres⟩

/-- destination-less search: labelled = reachable, each label the least cost -/
theorem tree_is_reachable_set_on {I : Inst α} {S : Option Nat → List α → Prop} {ok : Nat → Bool}
    {c : Nat → α} (U : UniformCostOn I S ok c) {source : Nat} {sched : List Nat} {s : SState α}
    (hrun : runAStar I source none sched = .ok s) (v : Nat) :
    ((∃ x, s.g v = some x) ↔ ∃ es, Walk I ok source es v) ∧
    ∀ x, s.g v = some x →
      (∃ es, Walk I ok source es v ∧ cost c es = x) ∧ ∀ es, Walk I ok source es v → x ≤ cost c es :=
  ⟨tree_eq_reachable_on U hrun v, fun x hx => tree_labels_optimal_on U hrun v x hx⟩

/-! ### Concrete configurations -/

/-- no component of a configuration's instance answers "no path" itself -/
theorem config_no_spurious_nopath (c : Config α) : NoSpuriousNoPath c.inst :=
  c.noSpuriousNoPath

/-- **C05 on a concrete configuration**: for every edge-local configuration, any weight factor,
termination model and schedule, among the outcomes "a result" and "no path" `Config.runVertex`
answers "no path" exactly when the destination is unreachable through permitted edges -/
theorem config_nopath_iff_unreachable (c : Config α) (h : c.EdgeLocal) {source t : Nat}
    {sched : List Nat}
    (hres : (∃ r, c.runVertex source (some t) sched = .ok r) ∨
      c.runVertex source (some t) sched = .error .noPath) :
    (c.runVertex source (some t) sched = .error .noPath ↔
        ¬ ∃ es, Walk c.inst c.okOf source es t) ∧
    ((∃ r, c.runVertex source (some t) sched = .ok r) ↔ ∃ es, Walk c.inst c.okOf source es t) :=
  _root_.Compass.config_nopath_iff_unreachable c h hres

/-- the two implications, without the premise on the outcome -/
theorem config_nopath_implies_unreachable (c : Config α) (h : c.EdgeLocal) {source t : Nat}
    {sched : List Nat} (hrun : c.runVertex source (some t) sched = .error .noPath) :
    ¬ ∃ es, Walk c.inst c.okOf source es t :=
  _root_.Compass.config_nopath_implies_unreachable c h hrun

theorem config_result_implies_reachable (c : Config α) (h : c.EdgeLocal) {source t : Nat}
    {sched : List Nat} {r : AlgResult α} (hrun : c.runVertex source (some t) sched = .ok r) :
    ∃ es, Walk c.inst c.okOf source es t :=
  _root_.Compass.config_result_implies_reachable c h hrun

/-- destination-less search on a concrete configuration: the tree holds exactly the reachable
vertices, and the parent chain of each is a valid walk of least summed cost -/
theorem config_tree_reachable_least_cost (c : Config α) (h : c.EdgeLocal) {source : Nat}
    {sched : List Nat} {r : AlgResult α} (hrun : c.runVertex source none sched = .ok r) :
    ∃ tree, r.trees = [tree] ∧
      (∀ v, (v = source ∨ (tree v).isSome) ↔ ∃ es, Walk c.inst c.okOf source es v) ∧
      ∀ v path, SearchTree.PathTo source tree v path →
        Walk c.inst c.okOf source (path.map (·.edge)) v ∧
        (path.map (fun b => b.access + b.traversal)).sum = cost c.costOf (path.map (·.edge)) ∧
        ∀ es, Walk c.inst c.okOf source es v →
          (path.map (fun b => b.access + b.traversal)).sum ≤ cost c.costOf es :=
  _root_.Compass.config_tree_reachable_least_cost c h hrun

/-- the premise "among the outcomes result / no path" excludes nothing but terminations: on a
well-formed configuration (distance model: the distance feature exists, the cost vectors cover the
features, no frontier model errs on a graph edge, listed edge ids are graph edges, the great-circle
table covers the vertices) a run returns a result or ends in "no path", the explicit termination
(or the zero-frequency panic of the runtime limit) or one of the two schedule-replay errors of the
model — never in a network / frontier / traversal / access / cost / state / internal error.  This is
where the state invariant "one slot per feature, last edge in the graph" is needed. -/
theorem config_run_result_or_benign (c : Config α) {du : DistanceUnit}
    (W : c.WellFormedDistance du) {source : Nat} {target : Option Nat}
    (G : c.GraphOK source target.isSome) (sched : List Nat) (k : ErrKind)
    (h : c.runVertex source target sched = .error k) :
    k = .noPath ∨ (∃ ks, k = .terminated ks) ∨ k = .panic "termination-frequency-zero" ∨
      k = .badSchedule ∨ k = .scheduleExhausted :=
  config_run_benign c W G sched k h

/-- the total form of the premises (what DESIGN §5 C02 calls `StateIndep`): on a well-formed
configuration, from every (last edge, state) pair with one slot per feature and a graph edge as last
edge, the frontier models answer `okOf` and the traversal answers, charges `costOf` and passes the
invariant on -/
theorem config_calls_answer (c : Config α) {du : DistanceUnit} (W : c.WellFormedDistance du)
    {e : Nat} (he : e < c.edges.length) {le : Option Nat} {st : List α} (hS : c.StateOK le st) :
    c.inst.valid e st le = .ok (c.okOf e) ∧
    ∃ ac tc st', c.inst.trav e le st = .ok (ac, tc, st') ∧ ac + tc = c.costOf e ∧
      c.StateOK (some e) st' :=
  ⟨c.valid_total W he le st, c.trav_total W he hS⟩

/-! ### Non-vacuity on a concrete configuration: the isolated vertex 4 of `exC` gives "no path",
vertex 3 a result, and the theorem turns each into the (un)reachability statement -/

section
open ConfigUniform.Example SearchRoute.Example

example : ¬ ∃ es, Walk exC.inst exC.okOf 0 es 4 :=
  config_nopath_implies_unreachable exC exC_edgeLocal exC_nopath

example : ∃ es, Walk exC.inst exC.okOf 0 es 3 := by
  obtain ⟨r, hr⟩ := ok_of_routeEdgesOf exC_run
  exact ((config_nopath_iff_unreachable exC exC_edgeLocal (Or.inl ⟨r, hr⟩)).2).1 ⟨r, hr⟩

/-- destination-less run on `exC`: vertices 0–3 are in the tree (or the source), 4 is not -/
example : ∃ r tree, exC.runVertex 0 none [0, 1, 2, 3] = .ok r ∧ r.trees = [tree] ∧
    (tree 3).isSome ∧ (tree 4).isNone ∧ ¬ ∃ es, Walk exC.inst exC.okOf 0 es 4 := by
  have hobs : treeEntriesOf (exC.runVertex 0 none [0, 1, 2, 3]) [3, 4] = some [[some (1, 7), none]] := by
    decide +kernel
  cases hr : exC.runVertex 0 none [0, 1, 2, 3] with
  | error k => rw [hr] at hobs; simp [treeEntriesOf] at hobs
  | ok r =>
    obtain ⟨tree, ht, hreach, _⟩ := config_tree_reachable_least_cost exC exC_edgeLocal hr
    rw [hr] at hobs
    simp only [treeEntriesOf, ht, List.map_cons, List.map_nil, Option.some.injEq, List.cons.injEq,
      and_true] at hobs
    have h3 : (tree 3).isSome := by
      cases h : tree 3 <;> simp [h] at hobs ⊢
    have h4 : tree 4 = none := by
      cases h : tree 4 <;> simp [h] at hobs ⊢
    refine ⟨r, tree, rfl, ht, h3, by simp [h4], ?_⟩
    intro hex
    have := (hreach 4).2 hex
    simp [h4] at this

/-- `exC` is well formed: whatever the schedule, a run from vertex 0 returns or ends benignly -/
example (target : Option Nat) (sched : List Nat) (k : ErrKind)
    (h : exC.runVertex 0 target sched = .error k) :
    k = .noPath ∨ (∃ ks, k = .terminated ks) ∨ k = .panic "termination-frequency-zero" ∨
      k = .badSchedule ∨ k = .scheduleExhausted :=
  config_run_result_or_benign exC exC_wellFormed (exC_graphOK 0 (by decide) _) sched k h

end

end C05
end Compass
