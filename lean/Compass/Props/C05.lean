/-
C05 — "no path" is reported exactly when the destination is unreachable; a destination-less search
returns exactly the reachable set.

"Restrictions that depend only on the edge itself" is all the first two clauses need
(`SearchReach.ValidLocal`: consistent incident lists, and a frontier verdict that — whenever the
model answers — is a function `ok` of the edge): *which* vertices get labelled does not depend on
what is charged.  So the reachability theorems hold for **every** traversal, access (turn delays
included) and cost model, every estimate and weight factor, every termination model, direction and
schedule: `result_iff_reachable_local`, `tree_is_reachable_set_local`, and for concrete
configurations `Config.RestrictionLocal` = consistent adjacency + no turn-restriction model
(`config_nopath_iff_unreachable`, `config_tree_reachable`), vertex- and edge-oriented
(`config_edge_oriented_…`).  Calls that fail fail the run with their own error kind, and every theorem
is about runs that returned a result or "no path"; no component answers "no path" itself
(`config_no_spurious_nopath`).  The failing calls: a missing delay-table entry, a heading outside the
turn classes, a short state vector; `create_time` on a **zero length** or a **zero table speed**
under the speed-table model (C09 demands that rejection — `Time::create` has no answer for a
non-positive distance or speed —, but the search does not skip the edge: the error leaves
`run_a_star`, so one zero-length edge relaxed on the way fails a query whose destination is
reachable; example `zero_length_edge_fails_the_query` below, corpus cases of harness/src/searchprops.rs);
and the **estimate of a vertex whose coordinates the haversine function refuses** (outside
[-180, 180] × [-90, 90], e.g. latitude and longitude swapped): `run_a_star` asks for the estimate of
every vertex it labels whatever the weight factor, so such a vertex fails the query with a traversal
error for Dijkstra too, while the destination-less search (no estimate) returns its tree (model: a
negative entry of the great-circle table is the marker "no value", `Model/Instance.lean` `estimate`;
example `out_of_range_vertex_fails_the_query`).  `Config.WellFormedDistance` therefore carries the
premise `gc_nonneg` (every vertex in range) — added with the marker; the vertex file is read without
a range check, so this is a premise on the network, not a guarantee of the loader.

The third clause — each tree vertex labelled with its least cost — is claimed by the property only
"when edge costs do not depend on how the edge was reached": `Config.EdgeLocal` (additionally no
access model), `config_tree_reachable_least_cost`; `tree_is_reachable_set_on` is its instance-level
form (`UniformCostOn`: premises only on the calls the search makes).

The reachability theorems of the first sections are of the form "if the run returned …": there
"reachable ⇒ a route is returned" holds among the outcomes result / "no path" (the premise `hres`),
which excludes the explicit termination and the failing calls listed in
`config_run_result_or_benign`, and the model's two schedule-replay errors.  That a run *ends*, and ends
in one of these two outcomes, is the last section ("The search ends, and ends with the right
answer"): `dijkstra_decides_reachability`, `search_decides_reachability`, `tree_search_returns` — on
well-formed distance configurations (`Config.WellFormedDistance`: distance traversal model, no access
model, no turn restrictions, every vertex in range) whose limits do not fire within the bounds the
termination proofs give (a configured limit that is large enough is inside the premise) — and, with
any access model, `dijkstra_with_access_model_ends_and_decides` (the end may then be a component error
or a termination).  Not proved: that the pops the implementation makes form an accepted schedule
(evidenced by the correspondence run, which replays them).

Outside every theorem (ordered fields have no +∞, NaN or overflow), tied by the correspondence run
only, oracles silent: a tentative cost of +∞ (1e308 m at weight 10) or NaN never improves on a
*missing* label — `tentative < Cost::INFINITY` in the code, `Lit.belowInf` in the model (constantly
true in a field: `LawfulLit.belowInf_eq`; the IEEE test at `Float`) —, so the far end of such an edge
stays unlabelled and a destination behind it is answered "no path" (corpus witnesses; the
extreme-value stream of harness/src/searchprops.rs).  Modelled rather than verified — the NaN-free
domain: the code orders costs by `OrderedFloat`'s total order (NaN greatest, NaN = NaN), the model by
IEEE `<`; they differ only on NaN operands, which no file or JSON document can supply.
-/
import Compass.Gen.Decisions
import Compass.Proofs.Num
import Compass.Model.Search
import Compass.Proofs.SearchOpt
import Compass.Proofs.ConfigUniform
import Compass.Proofs.ConfigProgress
import Compass.Proofs.SearchReach
import Compass.Proofs.SearchTermination

namespace Compass
namespace C05

open SearchOpt

variable {α : Type} [Field α] [LinearOrder α] [IsStrictOrderedRing α] [Lit α] [LawfulLit α]

/-! ### Every instance with an edge-local frontier verdict — no premise on costs -/

/-- among the two outcomes "a result" and "no path", the search returns a result if and only if the
destination is reachable through permitted edges, and "no path" if and only if it is not — any
traversal / access / cost model, any heuristic (state-dependent or not), any weight factor -/
theorem result_iff_reachable_local {I : Inst α} {ok : Nat → Bool} (L : SearchReach.ValidLocal I ok)
    (hyg : NoSpuriousNoPath I) {source t : Nat} {sched : List Nat}
    (hres : (∃ s, runAStar I source (some t) sched = .ok s) ∨
      runAStar I source (some t) sched = .error .noPath) :
    ((∃ s, runAStar I source (some t) sched = .ok s) ↔ ∃ es, Walk I ok source es t) ∧
    (runAStar I source (some t) sched = .error .noPath ↔ ¬ ∃ es, Walk I ok source es t) := by
  have h1 : (∃ s, runAStar I source (some t) sched = .ok s) → ∃ es, Walk I ok source es t := by
    rintro ⟨s, hs⟩
    by_cases hts : t = source
    · exact ⟨[], hts.symm⟩
    · exact (SearchReach.ok_imp_reachable L hyg hts hs).2
  have h2 := SearchReach.nopath_imp_unreachable L hyg (source := source) (t := t) (sched := sched)
  refine ⟨⟨h1, fun hex => ?_⟩, ⟨h2, fun hno => ?_⟩⟩
  · rcases hres with h | h
    · exact h
    · exact absurd hex (h2 h)
  · rcases hres with h | h
    · exact absurd (h1 h) hno
    · exact h

/-- the two implications, without the premise on the outcome -/
theorem result_implies_reachable_local {I : Inst α} {ok : Nat → Bool} (L : SearchReach.ValidLocal I ok)
    (hyg : NoSpuriousNoPath I) {source t : Nat} {sched : List Nat} {s : SState α}
    (hrun : runAStar I source (some t) sched = .ok s) : ∃ es, Walk I ok source es t := by
  by_cases hts : t = source
  · exact ⟨[], hts.symm⟩
  · exact (SearchReach.ok_imp_reachable L hyg hts hrun).2

theorem nopath_implies_unreachable_local {I : Inst α} {ok : Nat → Bool} (L : SearchReach.ValidLocal I ok)
    (hyg : NoSpuriousNoPath I) {source t : Nat} {sched : List Nat}
    (hrun : runAStar I source (some t) sched = .error .noPath) : ¬ ∃ es, Walk I ok source es t :=
  SearchReach.nopath_imp_unreachable L hyg hrun

/-- a search without a destination labels precisely the vertices reachable from the origin -/
theorem tree_is_reachable_set_local {I : Inst α} {ok : Nat → Bool} (L : SearchReach.ValidLocal I ok)
    (hyg : NoSpuriousNoPath I) {source : Nat} {sched : List Nat} {s : SState α}
    (hrun : runAStar I source none sched = .ok s) (v : Nat) :
    (s.g v).isSome ↔ ∃ es, Walk I ok source es v :=
  SearchReach.tree_eq_reachable L hyg hrun v

/-! ### The same with the premises restricted to the calls the search makes -/

/-- result ⇔ reachable and "no path" ⇔ unreachable, premises only on the pairs satisfying `S` -/
theorem result_iff_reachable_on {I : Inst α} {S : Option Nat → List α → Prop} {ok : Nat → Bool}
    {c hv : Nat → α} (U : UniformCostOn I S ok c) (hh : VertexHOn I S hv)
    (hyg : NoSpuriousNoPath I) {source t : Nat} {sched : List Nat}
    (hres : (∃ s, runAStar I source (some t) sched = .ok s) ∨
      runAStar I source (some t) sched = .error .noPath) :
    ((∃ s, runAStar I source (some t) sched = .ok s) ↔ ∃ es, Walk I ok source es t) ∧
    (runAStar I source (some t) sched = .error .noPath ↔ ¬ ∃ es, Walk I ok source es t) :=
  ⟨ok_iff_reachable_on U hh hyg hres, nopath_iff_unreachable_on U hh hyg hres⟩

/-- destination-less search: labelled = reachable, each label the least cost -/
theorem tree_is_reachable_set_on {I : Inst α} {S : Option Nat → List α → Prop} {ok : Nat → Bool}
    {c : Nat → α} (U : UniformCostOn I S ok c) {source : Nat} {sched : List Nat} {s : SState α}
    (hrun : runAStar I source none sched = .ok s) (v : Nat) :
    ((∃ x, s.g v = some x) ↔ ∃ es, Walk I ok source es v) ∧
    ∀ x, s.g v = some x →
      (∃ es, Walk I ok source es v ∧ cost c es = x) ∧ ∀ es, Walk I ok source es v → x ≤ cost c es :=
  ⟨tree_eq_reachable_on U hrun v, fun x hx => tree_labels_optimal_on U hrun v x hx⟩

/-! ### Concrete configurations -/

/-- no component of a configuration's instance answers "no path" itself -/
theorem config_no_spurious_nopath (c : Config α) : NoSpuriousNoPath c.inst :=
  c.noSpuriousNoPath

/-- **C05 on a concrete configuration**: for every configuration without turn-restriction model —
any traversal model, **any access model (turn delays included)**, any cost model, weight factor,
termination model, direction and schedule — among the outcomes "a result" and "no path"
`Config.runVertex` answers "no path" exactly when the destination is unreachable through permitted
edges (`okOf`: every frontier model permits the edge) -/
theorem config_nopath_iff_unreachable (c : Config α) (h : c.RestrictionLocal) {source t : Nat}
    {sched : List Nat}
    (hres : (∃ r, c.runVertex source (some t) sched = .ok r) ∨
      c.runVertex source (some t) sched = .error .noPath) :
    (c.runVertex source (some t) sched = .error .noPath ↔
        ¬ ∃ es, Walk c.inst c.okOf source es t) ∧
    ((∃ r, c.runVertex source (some t) sched = .ok r) ↔ ∃ es, Walk c.inst c.okOf source es t) :=
  SearchReach.config_nopath_iff_unreachable c h hres

/-- the two implications, without the premise on the outcome -/
theorem config_nopath_implies_unreachable (c : Config α) (h : c.RestrictionLocal) {source t : Nat}
    {sched : List Nat} (hrun : c.runVertex source (some t) sched = .error .noPath) :
    ¬ ∃ es, Walk c.inst c.okOf source es t :=
  SearchReach.config_nopath_implies_unreachable c h hrun

theorem config_result_implies_reachable (c : Config α) (h : c.RestrictionLocal) {source t : Nat}
    {sched : List Nat} {r : AlgResult α} (hrun : c.runVertex source (some t) sched = .ok r) :
    ∃ es, Walk c.inst c.okOf source es t :=
  SearchReach.config_result_implies_reachable c h hrun

/-- destination-less search on a concrete configuration (same premise: any access model): the
returned tree holds exactly the vertices reachable from the origin through permitted edges, other
than the origin itself, which has no entry -/
theorem config_tree_reachable (c : Config α) (h : c.RestrictionLocal) {source : Nat}
    {sched : List Nat} {r : AlgResult α} (hrun : c.runVertex source none sched = .ok r) :
    ∃ tree, r.trees = [tree] ∧ tree source = none ∧
      ∀ v, (v = source ∨ (tree v).isSome) ↔ ∃ es, Walk c.inst c.okOf source es v :=
  SearchReach.config_tree_reachable c h hrun

/-- **edge-oriented query with a destination** (`search_algorithm::run_edge_oriented`, distinct
origin and destination edges; the vertex-level origin is the origin edge's head `e1.dst`, the
vertex-level destination the destination edge's tail `e2.src`): a result implies that `e2.src` is
reachable from `e1.dst` through permitted edges, "no path" that it is not, and among these two
outcomes each happens exactly then.  The origin and destination edges themselves are the query's and
are not subject to the restrictions (C04 `edge_oriented_endpoint_edges_counterexample`); when they
are adjacent the connecting walk is empty and "no path" is never answered. -/
theorem config_edge_oriented_nopath_iff_unreachable (c : Config α) (h : c.RestrictionLocal)
    (source tgt : Nat) (sched : List Nat) (e1 e2 : EdgeRec α)
    (h1 : c.edges[source]? = some e1) (h2 : c.edges[tgt]? = some e2) (hne : source ≠ tgt) :
    ((∃ r, c.runEdge source (some tgt) sched = .ok r) → ∃ es, Walk c.inst c.okOf e1.dst es e2.src) ∧
    (c.runEdge source (some tgt) sched = .error .noPath →
      ¬ ∃ es, Walk c.inst c.okOf e1.dst es e2.src) ∧
    ((∃ r, c.runEdge source (some tgt) sched = .ok r) ∨
        c.runEdge source (some tgt) sched = .error .noPath →
      ((∃ r, c.runEdge source (some tgt) sched = .ok r) ↔
        ∃ es, Walk c.inst c.okOf e1.dst es e2.src) ∧
      (c.runEdge source (some tgt) sched = .error .noPath ↔
        ¬ ∃ es, Walk c.inst c.okOf e1.dst es e2.src)) := by
  obtain ⟨hok, hnp⟩ :=
    SearchReach.config_edge_oriented_reachability c h source tgt sched e1 e2 h1 h2 hne
  have hok' : (∃ r, c.runEdge source (some tgt) sched = .ok r) →
      ∃ es, Walk c.inst c.okOf e1.dst es e2.src := fun ⟨r, hr⟩ => hok r hr
  refine ⟨hok', hnp, fun hres => ⟨⟨hok', fun hex => ?_⟩, ⟨hnp, fun hno => ?_⟩⟩⟩
  · rcases hres with hr | hr
    · exact hr
    · exact absurd hex (hnp hr)
  · rcases hres with hr | hr
    · exact absurd (hok' hr) hno
    · exact hr

/-- **destination-less edge-oriented search**: the returned tree holds exactly the vertices reachable
from the origin edge's head through permitted edges — the head itself included, under which the
wrapper stores the origin edge's own entry -/
theorem config_edge_oriented_tree_reachable (c : Config α) (h : c.RestrictionLocal)
    (source : Nat) (sched : List Nat) (r : AlgResult α) (e1 : EdgeRec α)
    (h1 : c.edges[source]? = some e1) (hrun : c.runEdge source none sched = .ok r) :
    ∃ tree, r.trees = [tree] ∧
      ∀ v, (tree v).isSome ↔ ∃ es, Walk c.inst c.okOf e1.dst es v :=
  SearchReach.config_edge_oriented_tree_reachable c h source sched r e1 h1 hrun

/-- destination-less search, third clause — "each labelled with its least cost when edge costs do
not depend on how the edge was reached" (`Config.EdgeLocal`: additionally no access model): the tree
holds exactly the reachable vertices, and the parent chain of each is a valid walk of least summed
cost -/
theorem config_tree_reachable_least_cost (c : Config α) (h : c.EdgeLocal) {source : Nat}
    {sched : List Nat} {r : AlgResult α} (hrun : c.runVertex source none sched = .ok r) :
    ∃ tree, r.trees = [tree] ∧
      (∀ v, (v = source ∨ (tree v).isSome) ↔ ∃ es, Walk c.inst c.okOf source es v) ∧
      ∀ v path, SearchTree.PathTo source tree v path →
        Walk c.inst c.okOf source (path.map (·.edge)) v ∧
        (path.map (fun b => b.access + b.traversal)).sum = cost c.costOf (path.map (·.edge)) ∧
        ∀ es, Walk c.inst c.okOf source es v →
          (path.map (fun b => b.access + b.traversal)).sum ≤ cost c.costOf es :=
  _root_.Compass.config_tree_reachable_least_cost c h hrun

/-- the premise "among the outcomes result / no path" excludes nothing but terminations: on a
well-formed configuration (distance model: the distance feature exists, the cost vectors cover the
features, no frontier model errs on a graph edge, listed edge ids are graph edges, the great-circle
table covers the vertices) a run returns a result or ends in "no path", the explicit termination
(or the zero-frequency panic of the runtime limit) or one of the two schedule-replay errors of the
model — never in a network / frontier / traversal / access / cost / state / internal error.  This is
where the state invariant "one slot per feature, last edge in the graph" is needed. -/
theorem config_run_result_or_benign (c : Config α) {du : DistanceUnit}
    (W : c.WellFormedDistance du) {source : Nat} {target : Option Nat}
    (G : c.GraphOK source target.isSome) (sched : List Nat) (k : ErrKind)
    (h : c.runVertex source target sched = .error k) :
    k = .noPath ∨ (∃ ks, k = .terminated ks) ∨ k = .panic "termination-frequency-zero" ∨
      k = .badSchedule ∨ k = .scheduleExhausted :=
  config_run_benign c W G sched k h

/-- the total form of the premises (what DESIGN §5 C02 calls `StateIndep`): on a well-formed
configuration, from every (last edge, state) pair with one slot per feature and a graph edge as last
edge, the frontier models answer `okOf` and the traversal answers, charges `costOf` and passes the
invariant on -/
theorem config_calls_answer (c : Config α) {du : DistanceUnit} (W : c.WellFormedDistance du)
    {e : Nat} (he : e < c.edges.length) {le : Option Nat} {st : List α} (hS : c.StateOK le st) :
    c.inst.valid e st le = .ok (c.okOf e) ∧
    ∃ ac tc st', c.inst.trav e le st = .ok (ac, tc, st') ∧ ac + tc = c.costOf e ∧
      c.StateOK (some e) st' :=
  ⟨c.valid_total W he le st, c.trav_total W he hS⟩

/-! ### Non-vacuity on a concrete configuration: the isolated vertex 4 of `exC` gives "no path",
vertex 3 a result, and the theorem turns each into the (un)reachability statement -/

section
open ConfigUniform.Example SearchRoute.Example

example : ¬ ∃ es, Walk exC.inst exC.okOf 0 es 4 :=
  config_nopath_implies_unreachable exC exC_edgeLocal.restrictionLocal exC_nopath

example : ∃ es, Walk exC.inst exC.okOf 0 es 3 := by
  obtain ⟨r, hr⟩ := ok_of_routeEdgesOf exC_run
  exact ((config_nopath_iff_unreachable exC exC_edgeLocal.restrictionLocal (Or.inl ⟨r, hr⟩)).2).1 ⟨r, hr⟩

/-- destination-less run on `exC`: vertices 0–3 are in the tree (or the source), 4 is not -/
example : ∃ r tree, exC.runVertex 0 none [0, 1, 2, 3] = .ok r ∧ r.trees = [tree] ∧
    (tree 3).isSome ∧ (tree 4).isNone ∧ ¬ ∃ es, Walk exC.inst exC.okOf 0 es 4 := by
  have hobs : treeEntriesOf (exC.runVertex 0 none [0, 1, 2, 3]) [3, 4] = some [[some (1, 7), none]] := by
    decide +kernel
  cases hr : exC.runVertex 0 none [0, 1, 2, 3] with
  | error k => rw [hr] at hobs; simp [treeEntriesOf] at hobs
  | ok r =>
    obtain ⟨tree, ht, hreach, _⟩ := config_tree_reachable_least_cost exC exC_edgeLocal hr
    rw [hr] at hobs
    simp only [treeEntriesOf, ht, List.map_cons, List.map_nil, Option.some.injEq, List.cons.injEq,
      and_true] at hobs
    have h3 : (tree 3).isSome := by
      cases h : tree 3 <;> simp [h] at hobs ⊢
    have h4 : tree 4 = none := by
      cases h : tree 4 <;> simp [h] at hobs ⊢
    refine ⟨r, tree, rfl, ht, h3, by simp [h4], ?_⟩
    intro hex
    have := (hreach 4).2 hex
    simp [h4] at this

/-- `exC` is well formed: whatever the schedule, a run from vertex 0 returns or ends benignly -/
example (target : Option Nat) (sched : List Nat) (k : ErrKind)
    (h : exC.runVertex 0 target sched = .error k) :
    k = .noPath ∨ (∃ ks, k = .terminated ks) ∨ k = .panic "termination-frequency-zero" ∨
      k = .badSchedule ∨ k = .scheduleExhausted :=
  config_run_result_or_benign exC exC_wellFormed (exC_graphOK 0 (by decide) _) sched k h

end

/-! ### Non-vacuity with a turn-delay access model

`delayConfig`: five vertices (4 is isolated), edges 0: 0→1, 1: 1→2, 2: 0→2 (cut), 3: 2→3; a
turn-delay access model (headings per edge, a delay for every turn class — the right turn costs
30 s), distance and time both in the cost; weight factor one.  The charge for edge 1 depends on the
edge it is reached by, so the configuration is outside `Config.EdgeLocal`; it is
`Config.RestrictionLocal`, and the theorems apply to its runs. -/

def delayConfig : Config ℚ where
  nV := 5
  edges := [⟨0, 1, 100⟩, ⟨1, 2, 100⟩, ⟨0, 2, 50⟩, ⟨2, 3, 100⟩]
  outAdj := [[0, 2], [1], [3], [], []]
  inAdj := [[], [0], [1, 2], [3], []]
  feats := [{ name := "distance", kind := .dist .meters, init := 0 },
            { name := "time", kind := .time .seconds, init := 0 }]
  trav := .distance .meters
  access := .turnDelay .seconds [(0, none), (90, none), (45, none), (90, some 180)]
    [some 0, some 1, some 2, some 30, some 4, some 5, some 6, some 7]
  cost := { indices := [0, 1], weights := [1, 1], vehicleRates := [.raw, .raw],
            networkRates := [.zero, .zero], agg := .sum }
  frontier := [.edgeCut [2]]
  term := .combined []
  reverse := false
  gc := [0, 0, 0, 0, 0]
  wf := none

theorem delayConfig_local : delayConfig.RestrictionLocal := by
  refine ⟨?_, rfl⟩
  intro v e he
  match v with
  | 0 => simp [Config.inst, delayConfig] at he; rcases he with rfl | rfl <;> rfl
  | 1 => simp [Config.inst, delayConfig] at he; subst he; rfl
  | 2 => simp [Config.inst, delayConfig] at he; subst he; rfl
  | 3 => simp [Config.inst, delayConfig] at he
  | 4 => simp [Config.inst, delayConfig] at he
  | n + 5 => simp [Config.inst, delayConfig] at he

/-- the access model is really in play: edge 1 after edge 0 is a right turn and costs its length
plus the 30 s delay, and the configuration has an access model (so it is not `EdgeLocal`) -/
example : SearchRoute.Example.routeCostsOf (delayConfig.runVertex 0 (some 3) [0, 1, 2, 3]) =
    some [[100, 130, 100]] ∧ delayConfig.access ≠ .noAccess := by
  refine ⟨by decide +kernel, ?_⟩
  intro h; cases h

/-- a result towards vertex 3 (round the cut edge), "no path" towards the isolated vertex 4; each is
turned into the (un)reachability statement -/
example : (∃ es, Walk delayConfig.inst delayConfig.okOf 0 es 3) ∧
    ¬ ∃ es, Walk delayConfig.inst delayConfig.okOf 0 es 4 := by
  obtain ⟨r, hr⟩ := SearchRoute.Example.ok_of_routeEdgesOf
    (show SearchRoute.Example.routeEdgesOf (delayConfig.runVertex 0 (some 3) [0, 1, 2, 3]) =
      some [[0, 1, 3]] by decide +kernel)
  refine ⟨config_result_implies_reachable delayConfig delayConfig_local hr, ?_⟩
  have herr : ConfigUniform.Example.errOf (delayConfig.runVertex 0 (some 4) [0, 1, 2, 3]) =
      some .noPath := by decide +kernel
  cases hr4 : delayConfig.runVertex 0 (some 4) [0, 1, 2, 3] with
  | ok r4 => rw [hr4] at herr; simp [ConfigUniform.Example.errOf] at herr
  | error k =>
    rw [hr4] at herr
    simp only [ConfigUniform.Example.errOf, Option.some.injEq] at herr
    subst herr
    exact config_nopath_implies_unreachable delayConfig delayConfig_local hr4

/-- destination-less: vertices 1, 2, 3 are in the tree, the isolated vertex 4 is not -/
example : ∃ r tree, delayConfig.runVertex 0 none [0, 1, 2, 3] = .ok r ∧ r.trees = [tree] ∧
    ((tree 4).isSome ↔ ∃ es, Walk delayConfig.inst delayConfig.okOf 0 es 4) ∧ (tree 4).isNone := by
  have hobs : SearchRoute.Example.treeEntriesOf (delayConfig.runVertex 0 none [0, 1, 2, 3]) [3, 4] =
      some [[some (2, 3), none]] := by decide +kernel
  cases hr : delayConfig.runVertex 0 none [0, 1, 2, 3] with
  | error k => rw [hr] at hobs; simp [SearchRoute.Example.treeEntriesOf] at hobs
  | ok r =>
    obtain ⟨tree, ht, _, hreach⟩ := config_tree_reachable delayConfig delayConfig_local hr
    rw [hr] at hobs
    simp only [SearchRoute.Example.treeEntriesOf, ht, List.map_cons, List.map_nil, Option.some.injEq,
      List.cons.injEq, and_true] at hobs
    have h4 : tree 4 = none := by
      cases h : tree 4 <;> simp [h] at hobs ⊢
    refine ⟨r, tree, rfl, ht, ?_, by simp [h4]⟩
    have := hreach 4
    simpa using this

/-- a vertex out of the coordinate range (`delayConfig` with "no great-circle value" at vertex 1,
run as Dijkstra: weight factor 0): the query 0 → 3 ends in a traversal error when vertex 1 is
labelled — although 3 is reachable —, the destination-less search from 0 returns its tree -/
theorem out_of_range_vertex_fails_the_query :
    ConfigUniform.Example.errOf (({ delayConfig with gc := [0, -1, 0, 0, 0], wf := some 0 } : Config ℚ).runVertex
      0 (some 3) [0, 1, 2, 3]) = some .traversal ∧
    SearchRoute.Example.treeEntriesOf (({ delayConfig with gc := [], wf := some 0 } : Config ℚ).runVertex
      0 none [0, 1, 2, 3]) [1, 3] = some [[some (0, 0), some (2, 3)]] := by
  constructor <;> decide +kernel

/-- a zero-length edge under the speed-table model (`exS`, 36 km/h everywhere, edge 7 = 1→3 of length
0): the search that relaxes it fails with a traversal error — `create_time` refuses the zero distance,
as C09 demands, and the search does not skip the edge — although vertex 3 is reachable -/
theorem zero_length_edge_fails_the_query :
    ConfigUniform.Example.errOf (({ ConfigUniform.Example.exS with
      edges := ConfigUniform.Example.exS.edges.set 7 ⟨1, 3, 0⟩ } : Config ℚ).runVertex
      0 (some 3) [0, 1, 2, 3]) = some .traversal := by
  decide +kernel

/-- edge-oriented on the same configuration: from edge 0 (0→1) to edge 3 (2→3) the answer is
`[0, 1, 3]`, and the theorem gives the connecting walk 1 ⇝ 2 -/
example : ∃ es, Walk delayConfig.inst delayConfig.okOf 1 es 2 := by
  obtain ⟨r, hr⟩ := SearchRoute.Example.ok_of_routeEdgesOf
    (show SearchRoute.Example.routeEdgesOf (delayConfig.runEdge 0 (some 3) [1, 2]) =
      some [[0, 1, 3]] by decide +kernel)
  exact (config_edge_oriented_nopath_iff_unreachable delayConfig delayConfig_local 0 3 [1, 2]
    ⟨0, 1, 100⟩ ⟨2, 3, 100⟩ rfl rfl (by decide)).1 ⟨r, hr⟩

/-! ### The search ends, and ends with the right answer (no premise on the outcome)

The theorems above start from a run that ended in a result or in "no path".  That every run can be
brought to such an end — the loop is never stuck, and under the Dijkstra discipline ends within
|V| + 1 pops — is `Proofs/SearchTermination.lean`; these are its C05-facing forms. -/

/-- **a deciding run exists, and every run can be completed to one** (Dijkstra;
`Config.WellFormedDistance`: distance traversal model, no access model, no turn restrictions, every
vertex in the coordinate range; limits large enough for the network): on a well-formed
configuration over the vertices `< n` whose termination model does not fire within `n` iterations
and `n · D` tree entries (`D` a bound on the number of incident edges of a vertex — the most a run
can reach, so a configured iterations / solution-size / runtime limit above that is inside the
premise; the empty combined model trivially) there is a schedule of at most `n + 1` pops on which the
search returns a route or "no path" — a route exactly when the destination is reachable through
permitted edges —, and every accepted, unfinished schedule (whatever ties the implementation broke
so far) has at most `n` pops and extends to such a one.  So "reachable ⇒ a route is returned,
unreachable ⇒ no path" holds without assuming how the run ended.  (Until the second review the
premise was `∀ sz it, c.term.test sz it = .ok ()`, met by the empty combined model only.) -/
theorem dijkstra_decides_reachability (c : Config α) {du : DistanceUnit}
    (W : c.WellFormedDistance du) {source t : Nat} (G : c.GraphOK source true)
    (hwf : c.wf = some 0) {n D : Nat} (hD : ∀ v, (c.inst.incident v).length ≤ D)
    (hlim : ∀ sz it, it ≤ n → sz ≤ n * D → c.term.test sz it = .ok ())
    (hsrc : source < n) (hV : c.VerticesBelow n) :
    (∃ sched, sched.length ≤ n + 1 ∧
      ((∃ r, c.runVertex source (some t) sched = .ok r) ∨
        c.runVertex source (some t) sched = .error .noPath) ∧
      ((∃ r, c.runVertex source (some t) sched = .ok r) ↔
        ∃ es, Walk c.inst c.okOf source es t)) ∧
    ∀ pre, c.runVertex source (some t) pre = .error .scheduleExhausted →
      pre.length ≤ n ∧ ∃ ext, (pre ++ ext).length ≤ n + 1 ∧
        ((∃ r, c.runVertex source (some t) (pre ++ ext) = .ok r) ∨
          c.runVertex source (some t) (pre ++ ext) = .error .noPath) ∧
        ((∃ r, c.runVertex source (some t) (pre ++ ext) = .ok r) ↔
          ∃ es, Walk c.inst c.okOf source es t) :=
  SearchTermination.config_dijkstra_decides c W G hwf hD hlim hsrc hV

/-- the same for **any weight factor** (A* with re-opening included; well-formed distance
configuration as above): a deciding schedule exists and every accepted unfinished schedule extends
to one; the bound `N = |walks| + 1` on the expansions is the number of walks of fewer than `n` edges
from the source (finite, exponential: it proves that the search ends, not that it ends soon — the
iteration limit of C10 is the practical bound there), and the termination model must not fire within
`N` iterations and `N · D` tree entries -/
theorem search_decides_reachability (c : Config α) {du : DistanceUnit}
    (W : c.WellFormedDistance du) {source t : Nat} (G : c.GraphOK source true) {n D : Nat}
    (hD : ∀ v, (c.inst.incident v).length ≤ D)
    (hlim : ∀ sz it, it ≤ (SearchTermination.walks c.inst source n).length + 1 →
      sz ≤ ((SearchTermination.walks c.inst source n).length + 1) * D →
      c.term.test sz it = .ok ())
    (hsrc : source < n) (hV : c.VerticesBelow n) :
    (∃ sched, sched.length ≤ (SearchTermination.walks c.inst source n).length + 2 ∧
      ((∃ r, c.runVertex source (some t) sched = .ok r) ∨
        c.runVertex source (some t) sched = .error .noPath) ∧
      ((∃ r, c.runVertex source (some t) sched = .ok r) ↔
        ∃ es, Walk c.inst c.okOf source es t)) ∧
    ∀ pre, c.runVertex source (some t) pre = .error .scheduleExhausted →
      pre.length ≤ (SearchTermination.walks c.inst source n).length + 1 ∧
      ∃ ext, (pre ++ ext).length ≤ (SearchTermination.walks c.inst source n).length + 2 ∧
        ((∃ r, c.runVertex source (some t) (pre ++ ext) = .ok r) ∨
          c.runVertex source (some t) (pre ++ ext) = .error .noPath) ∧
        ((∃ r, c.runVertex source (some t) (pre ++ ext) = .ok r) ↔
          ∃ es, Walk c.inst c.okOf source es t) :=
  SearchTermination.config_search_decides c W G hD hlim hsrc hV

/-- **with any access model** (turn delays included; a failing lookup fails the run, so the end may be
a component error): under the Dijkstra discipline a schedule of at most `n + 1` pops ends the run,
every accepted unfinished schedule has at most `n` pops and extends to one that ends, and whenever
a run ends in a result or "no path" it is a result exactly when the destination is reachable -/
theorem dijkstra_with_access_model_ends_and_decides (c : Config α) (h : c.RestrictionLocal)
    (hwf : c.wf = some 0) {source n : Nat} (hsrc : source < n) (hV : c.VerticesBelow n) (t : Nat) :
    (∃ sched, sched.length ≤ n + 1 ∧
      SearchTermination.Ended (c.runVertex source (some t) sched)) ∧
    (∀ pre, c.runVertex source (some t) pre = .error .scheduleExhausted →
      pre.length ≤ n ∧ ∃ ext, (pre ++ ext).length ≤ n + 1 ∧
        SearchTermination.Ended (c.runVertex source (some t) (pre ++ ext))) ∧
    ∀ sched, ((∃ r, c.runVertex source (some t) sched = .ok r) ∨
        c.runVertex source (some t) sched = .error .noPath) →
      ((∃ r, c.runVertex source (some t) sched = .ok r) ↔
        ∃ es, Walk c.inst c.okOf source es t) ∧
      (c.runVertex source (some t) sched = .error .noPath ↔
        ¬ ∃ es, Walk c.inst c.okOf source es t) :=
  SearchTermination.config_restrictionLocal_dijkstra_decides c h hwf hsrc hV t

/-- a destination-less search returns its tree (well-formed distance configuration, limits silent
within `n` iterations and `n · D` tree entries): a schedule of at most `n + 1` pops returns, and
every accepted unfinished schedule extends to one that returns (with `config_tree_reachable`: the
tree it returns is the reachable set) -/
theorem tree_search_returns (c : Config α) {du : DistanceUnit} (W : c.WellFormedDistance du)
    {source : Nat} (G : c.GraphOK source false) {n D : Nat}
    (hD : ∀ v, (c.inst.incident v).length ≤ D)
    (hlim : ∀ sz it, it ≤ n → sz ≤ n * D → c.term.test sz it = .ok ())
    (hsrc : source < n) (hV : c.VerticesBelow n) :
    (∃ sched r, sched.length ≤ n + 1 ∧ c.runVertex source none sched = .ok r) ∧
    ∀ pre, c.runVertex source none pre = .error .scheduleExhausted →
      pre.length ≤ n ∧ ∃ ext r, (pre ++ ext).length ≤ n + 1 ∧
        c.runVertex source none (pre ++ ext) = .ok r :=
  SearchTermination.config_tree_search_returns c W G hD hlim hsrc hV

/-- no vertex of `exC` has more than three incident edges (whatever the termination model) -/
theorem exC_degree (m : TermM) (v : Nat) :
    (({ ConfigUniform.Example.exC with term := m } : Config ℚ).inst.incident v).length ≤ 3 := by
  match v with
  | 0 | 1 | 2 | 3 => simp [Config.inst, ConfigUniform.Example.exC]
  | n + 4 => simp [Config.inst, ConfigUniform.Example.exC]

/-- a REAL limit inside the premise: an iterations limit of 1000 beside a solution-size limit of
1000 does not fire within 5 iterations and 15 tree entries -/
theorem real_limits_silent (sz it : Nat) (hit : it ≤ 5) (hsz : sz ≤ 5 * 3) :
    (TermM.combined [.iters 1000, .size 1000]).test sz it = .ok () := by
  rw [SearchLimits.test_ok_iff]
  have h1 : ¬ (it + 1 > 1000) := by omega
  have h2 : ¬ (sz > 1000) := by omega
  simp [TermM.fires, TermM.fires.firesList, h1, h2]

/-- non-vacuity with **configured limits**: the example configuration of `Proofs/ConfigUniform.lean`
(5 vertices, at most 3 incident edges) under an iterations limit of 1000 and a solution-size limit of
1000 is well formed; the theorem applies to it, and since vertex 3 is reachable from 0 (walk
`[0, 7]`) the deciding schedule it gives returns a route; the destination-less search returns too -/
example : (∃ sched r, sched.length ≤ 6 ∧
    ({ ConfigUniform.Example.exC with term := .combined [.iters 1000, .size 1000] } :
      Config ℚ).runVertex 0 (some 3) sched = .ok r) ∧
    ∃ sched r, sched.length ≤ 6 ∧
    ({ ConfigUniform.Example.exC with term := .combined [.iters 1000, .size 1000] } :
      Config ℚ).runVertex 0 none sched = .ok r := by
  let c : Config ℚ :=
    { ConfigUniform.Example.exC with term := .combined [.iters 1000, .size 1000] }
  have W : c.WellFormedDistance .meters :=
    ⟨ConfigUniform.Example.exC_wellFormed.trav, ConfigUniform.Example.exC_wellFormed.noAccess,
      ConfigUniform.Example.exC_wellFormed.noTurn, ConfigUniform.Example.exC_wellFormed.slot,
      ConfigUniform.Example.exC_wellFormed.cost_range,
      ConfigUniform.Example.exC_wellFormed.frontier_total,
      ConfigUniform.Example.exC_wellFormed.gc_nonneg⟩
  have G0 := ConfigUniform.Example.exC_graphOK 0 (by decide) true
  have G : c.GraphOK 0 true := ⟨G0.adj, G0.inc_range, G0.gc_source, G0.gc_range⟩
  have G1 := ConfigUniform.Example.exC_graphOK 0 (by decide) false
  have G' : c.GraphOK 0 false := ⟨G1.adj, G1.inc_range, G1.gc_source, G1.gc_range⟩
  obtain ⟨⟨sched, hlen, _, hiff⟩, _⟩ := dijkstra_decides_reachability c W (source := 0) (t := 3) G rfl
    (exC_degree _) real_limits_silent (n := 5) (by decide) (by decide)
  have hw : Walk c.inst c.okOf 0 [0, 7] 3 := by simp only [Walk]; decide +kernel
  obtain ⟨r, hr⟩ := hiff.2 ⟨[0, 7], hw⟩
  obtain ⟨⟨sched', r', hlen', hr'⟩, _⟩ := tree_search_returns c W (source := 0) G'
    (exC_degree _) real_limits_silent (n := 5) (by decide) (by decide)
  exact ⟨⟨sched, r, hlen, hr⟩, sched', r', hlen', hr'⟩

/-- the empty combined model (no limit configured) is inside the premise as before -/
example : ∃ sched r, sched.length ≤ 6 ∧
    ({ ConfigUniform.Example.exC with term := .combined [] } : Config ℚ).runVertex 0 (some 3) sched
      = .ok r := by
  let c : Config ℚ := { ConfigUniform.Example.exC with term := .combined [] }
  have W : c.WellFormedDistance .meters :=
    ⟨ConfigUniform.Example.exC_wellFormed.trav, ConfigUniform.Example.exC_wellFormed.noAccess,
      ConfigUniform.Example.exC_wellFormed.noTurn, ConfigUniform.Example.exC_wellFormed.slot,
      ConfigUniform.Example.exC_wellFormed.cost_range,
      ConfigUniform.Example.exC_wellFormed.frontier_total,
      ConfigUniform.Example.exC_wellFormed.gc_nonneg⟩
  have G0 := ConfigUniform.Example.exC_graphOK 0 (by decide) true
  have G : c.GraphOK 0 true := ⟨G0.adj, G0.inc_range, G0.gc_source, G0.gc_range⟩
  obtain ⟨⟨sched, hlen, _, hiff⟩, _⟩ := dijkstra_decides_reachability c W (source := 0) (t := 3) G rfl
    (exC_degree _) (fun sz it _ _ => SearchLimits.combined_nil_test sz it) (n := 5) (by decide)
    (by decide)
  have hw : Walk c.inst c.okOf 0 [0, 7] 3 := by simp only [Walk]; decide +kernel
  obtain ⟨r, hr⟩ := hiff.2 ⟨[0, 7], hw⟩
  exact ⟨sched, r, hlen, hr⟩

end C05
end Compass

namespace Compass
namespace C05
open Src

/-! ### Source decision ties

The relational operators at the named comparison sites of the Rust source are re-extracted on every run
by `tools/gen_model.py` into `Compass/Gen/Decisions.lean` (`Src.<site> : Src.Rel`).  Each theorem below
says that the hand-written model decides at that site by exactly the operator the source has there
(`Rel.nat` / `Rel.int` / `Rel.num` interpret the extracted operator; an unrecognised line is `none`).  A
source change that turns `<` into `<=`, `>` into `>=`, … at a site changes the generated constant and this
proof obligation stops checking, whether or not a generated case lands on the tie. -/

/-- shared by every search property: the label test of `run_a_star`'s relaxation (`improves`) is the
source's `tentative_gscore < existing_gscore`; with `<=` an equal-cost arrival re-labels an expanded vertex -/
theorem src_relax_improves {α : Type} [Field α] [LinearOrder α] [IsStrictOrderedRing α] [Lit α] [LawfulLit α] (tent ex : α) :
    some (improves tent (some ex)) = relax_improves.num tent ex := by
  simp [improves, relax_improves, Rel.num]

end C05
end Compass
