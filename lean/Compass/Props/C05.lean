/-
C05 — "no path" is reported exactly when the destination is unreachable; a destination-less search
returns exactly the reachable set.

For restrictions that depend only on the edge (`valid_eq : I.valid e st le = .ok (ok e)`), every
heuristic that is a function of the vertex (any weight factor), every schedule.  The termination
model is only required never to answer "no path" itself (it answers `terminated`).
-/
import Compass.Proofs.SearchOpt

namespace Compass
namespace C05

open SearchOpt

variable {α : Type} [Field α] [LinearOrder α] [IsStrictOrderedRing α] [Lit α] [LawfulLit α]

/-- a returned result implies the destination is reachable through permitted edges -/
theorem route_implies_reachable {I : Inst α} {ok : Nat → Bool} {c hv : Nat → α}
    (U : UniformCost I ok c) (hh : VertexH I hv) {source t : Nat} (hts : t ≠ source)
    {sched : List Nat} {s : SState α} (hrun : runAStar I source (some t) sched = .ok s) :
    ∃ es, Walk I ok source es t := by
  obtain ⟨_, es, _, hw, _⟩ := ok_imp_reachable U hh hts hrun
  exact ⟨es, hw⟩

/-- "no path" implies the destination is unreachable -/
theorem nopath_implies_unreachable {I : Inst α} {ok : Nat → Bool} {c hv : Nat → α}
    (U : UniformCost I ok c) (hh : VertexH I hv) (hterm : TermNotNoPath I)
    {source t : Nat} {sched : List Nat}
    (hrun : runAStar I source (some t) sched = .error .noPath) :
    ¬ ∃ es, Walk I ok source es t :=
  nopath_imp_unreachable U hh hterm hrun

/-- among the two outcomes "a result" and "no path", the search returns a result if and only if the
destination is reachable, and "no path" if and only if it is not — for any weight factor -/
theorem result_iff_reachable {I : Inst α} {ok : Nat → Bool} {c hv : Nat → α}
    (U : UniformCost I ok c) (hh : VertexH I hv) (hterm : TermNotNoPath I)
    {source t : Nat} {sched : List Nat}
    (hres : (∃ s, runAStar I source (some t) sched = .ok s) ∨
      runAStar I source (some t) sched = .error .noPath) :
    ((∃ s, runAStar I source (some t) sched = .ok s) ↔ ∃ es, Walk I ok source es t) ∧
    (runAStar I source (some t) sched = .error .noPath ↔ ¬ ∃ es, Walk I ok source es t) :=
  ⟨ok_iff_reachable U hh hterm hres, nopath_iff_unreachable U hh hterm hres⟩

/-- a search without a destination labels precisely the vertices reachable from the origin -/
theorem tree_is_reachable_set {I : Inst α} {ok : Nat → Bool} {c : Nat → α} (U : UniformCost I ok c)
    {source : Nat} {sched : List Nat} {s : SState α}
    (hrun : runAStar I source none sched = .ok s) (v : Nat) :
    (∃ x, s.g v = some x) ↔ ∃ es, Walk I ok source es v :=
  tree_eq_reachable U hrun v

/-- … each labelled with its least cost -/
theorem tree_labels_least_cost {I : Inst α} {ok : Nat → Bool} {c : Nat → α} (U : UniformCost I ok c)
    {source : Nat} {sched : List Nat} {s : SState α}
    (hrun : runAStar I source none sched = .ok s) (v : Nat) (x : α) (hx : s.g v = some x) :
    (∃ es, Walk I ok source es v ∧ cost c es = x) ∧ ∀ es, Walk I ok source es v → x ≤ cost c es :=
  tree_labels_optimal U hrun v x hx

/-! ### Non-vacuity: a run that ends in "no path" and one that returns a result on the same instance -/

example : runAStar Example.exInst 0 (some 7) [0, 1, 2, 3] = .error .noPath := Example.ex_run_nopath
example : ∃ s, runAStar Example.exInst 0 (some 3) [0, 1, 2, 3] = .ok s ∧ s.g 3 = some 3 := Example.ex_run_ok

end C05
end Compass
