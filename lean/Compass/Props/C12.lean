/-
C12 — no query batch can make the application panic, abort or run without bound.

Model: the batch pipeline of `Model/Batch.lean` in its `…O` form: every place where the Rust code can do
something a total function cannot — `par_chunks(0)`, `value[key] = …` on a non-object, `bin_totals[i]` /
`assignments[i]` out of bounds (and, until /repo ae1b946 made `MultiSet` total, its behaviour on an empty or
missing axis, C17) — is an explicit `panic` / `diverges` outcome.  "No panic" is therefore a theorem about the guards, not an artefact of totalisation.
Tie to the code: `harness/src/c06.rs`, profile C12 — structurally mutated batches under every plugin
configuration, each run in a forked child with an alarm and an address-space limit.

SCOPE.  What is proved is the batch pipeline AROUND the single-query function.  `run_single_query` (the search,
the `InputJsonExtensions` getters it uses, the origin / destination guards of the search wrappers, the cost /
state / traversal models, every output plugin incl. `construct_route_output`) is the parameter `respond`, and the
r-tree matchers and the haversine load balancer are recorded tables (`Plugin.table`): both are total by type, so
a panic inside them cannot be expressed in `runO`, and `never_panics_partial` says nothing about them.
`run_returns_iff_single_query_returns` (over `runRO`: the single-query function with outcomes,
`ResponseSink::None`, the per-run configuration already parsed, table plugins still total — `TableEntry` has
only `ok | err`, a panic inside an r-tree / haversine plugin is inexpressible there too) states what the pipeline
adds IN THAT MODEL: the call returns iff parallelism is 0 or the single-query function returns on every query
that reaches the search.  That the real single-query function and the real matchers return on the input classes
the property names is evidenced by the forked differential run (per-class counters `input_class_*` in the
evidence; corpus `corpus_input_classes`) and by theorems of the properties that own those pieces:

| input class of the property | where it is decided | cited theorems (not re-proved here) |
|---|---|---|
| empty batch, wrong JSON type, degenerate grid section, plugin fields | this file / C17 | `empty_batch`, `non_object_query_echoed`, `batch_of_wrong_json_type`, `grid_search_fuel_suffices`, `plugins_never_panic` |
| missing / ill-typed search fields (`origin_vertex`, …) | getters, inside `respond` | `C16.id_reader_errors_name_their_field`, `C16.coordinate_readers_agree` (the getters are total; errors are values) |
| out-of-range coordinates | r-tree matchers (`Plugin.table`) | `C16.vertex_beyond_tolerance_is_error`, `C16.vertex_destination_beyond_tolerance_is_error`, `C16.edge_beyond_tolerance_is_error` |
| out-of-range ids | search wrappers, inside `respond` | harness only (oracle `search/unknown-origin-accepted`, fix 7b74719); `C05.config_calls_answer` for ids in the graph |
| identical origin and destination | search + traversal output plugin | `C20.empty_route_is_error_response` |
| unknown vehicle name | energy traversal service | `C08.select_rejected` |
| zero / unknown / bad weights | cost model service | `C07.service_build_returns`, `C07.service_build_unknown_weights` |
| vehicle parameters, termination section | frontier / termination builders | `C04.vehicle_parameters_refusals`, `C10.builder_total` |

Proved, for every list of JSON values, every plugin list of the model (grid search, inject in both modes,
numeric / categorical load balancer, user-defined plugins, table plugins with arbitrary recorded effects), every
TOTAL `respond`, the per-run configuration already parsed and `ResponseSink::None` (`runO`):
* `never_panics_partial` — every parallelism (0 included), both policies: `runO` is `Ok` or the whole-batch `Err`
  of parallelism 0, never `panic` / `diverges` (the four modelled sites);
* `returns_responses`, `whole_batch_error_iff` — for parallelism ≥ 1 it is `Ok`; the other whole-call `Err` exits
  of the real `run` are in the model with entry points: `call_never_panics_partial`, `call_error_cases`;
* `empty_batch` — `[]` returns `[]`;
* `every_query_accounted_for` — parallelism ≥ 1: under the persist policy each query contributes its expanded
  queries' responses or one error response; under the discard policy exactly its input-stage error response.
The repaired defects stay visible as statements about the unguarded operations
(`par_chunks_zero_panics`, `inject_unguarded_assignment_panics`, C17's `unguarded_*`).

Answering and echoing (input stage):
* `every_query_answered_partial` — hypothesis `ObjOp`: every plugin maps an object to an object or a non-empty
  array of objects.  Proved for grid search, inject, custom load balancer, user split / fail
  (`every_query_answered_builtin_partial`); for a recorded table plugin — all map-matching configurations — when
  its recorded results are objects (`table_plugin_keeps_objects`; checked on every recorded table by the harness,
  key `table/non-object-result`); false for a plugin that answers `[]`
  (`table_plugin_can_erase_a_query_counterexample`, `invariant_breaker_is_answered_with_the_query`);
* `non_object_query_echoed`, `error_echoes_request` (no hypothesis) — a non-object query is echoed verbatim; a
  plugin-broken invariant names the original query (fix 755333a); otherwise the request is the expanded query on
  which a plugin failed AS THAT PLUGIN LEFT IT: unchanged for the model's own plugins (`own_plugins_fail_clean`),
  the recorded value for a table plugin (the vertex matcher that has written `origin_vertex` before the
  destination fails).  Echo by the search stage is C06 (`single_query_echoes_request`, premise `hr`).

Where the code still deviates (finding with counterexample; key as in the harness oracle):
* `pipeline/sibling-responses-lost` — `C06.sibling_responses_lost_counterexample`, restated here: "the
  remaining queries are served" fails for the siblings of a failing expanded query.

Entry points and builders: `call_never_panics_partial` (`_partial` as `never_panics_partial`: TOTAL `respond`,
total table plugins; every JSON value, each of the three entries `run` on a value / on a vector / `run_queries`
on texts, every per-run configuration and every sink OF THE MODEL — none or a JSON file), `call_error_cases`
(necessary conditions of each whole-call `Err`; sufficiency: `C06.invalid_run_config_fails_call`,
`C06.sink_build_errors`, `C06.failing_sink_fails_call`, `whole_batch_error_iff`), `batch_of_wrong_json_type`, `inject_builder_never_panics` /
`inject_builder_toml_is_error` (fix bdada7d: the `toml` format was `todo!()`), `inject_builder_builds_the_plugin`.

Modelled rather than verified / not modelled: the single-query function and the opaque plugins (above); abort
(allocation failure — reachable from one small query: a grid section with 12 axes of 10 options asks for 10^12
queries; stack depth); the time a search takes; the two "could not build progress bar" exits, a poisoned sink
mutex, the `Combined` output policy and the CSV output format (C19) — a per-run or configured policy of either
kind is accepted by the code and is answered `runConfig` by the model (`decodePolicy` = `none`), so for such a
value `call_never_panics_partial` and the first disjunct of `call_error_cases` describe the model, not the code
(`C06.isCombined`, `C06.isCsvFile`; the harness offers neither); one `writeOk` flag stands for every write of a
call; the internals of serde_json / rstar / rayon / kdam; real thread interleavings.
-/
import Compass.Props.C06
import Compass.Proofs.BatchEntry
import Compass.Props.C17

namespace Compass
namespace C12
open Batch
open MultiSet (Outcome)
open GridSearch (noRequest)

/-! ## the guards -/

/-- every input plugin of the model is a total function: no panic, no divergence, on any JSON value
(grid search: `C17.process_never_panics_or_diverges`, fuel sufficiency of `MultiSet` included) -/
theorem plugins_never_panic (p : Plugin) (q : Json) : processO p q = .ok (processT p q) :=
  processO_eq p q

theorem grid_search_fuel_suffices (q : Json) : GridSearch.processO q = .ok (GridSearch.process q) :=
  C17.process_never_panics_or_diverges q

/-- `apply_input_plugins` never panics, whatever the plugins and the query -/
theorem input_processing_never_panics (plugins : List Plugin) (q : Json) :
    prepO plugins q = .ok (prepT plugins q) :=
  prepO_eq plugins q

/-- the defect repaired by 93abeee, visible in the model: `par_chunks(0)` panics … -/
theorem par_chunks_zero_panics {α : Type} (l : List α) :
    parChunksO 0 l = .panic "rayon/par_chunks-zero" := rfl

/-- … the unguarded chunk size of an empty batch is 0, and the guard makes it 1 -/
theorem chunk_size_guard (selfPar : Nat) :
    (0 + selfPar - 1) / selfPar = 0 ∧ chunkSize 0 selfPar = 1 := by
  constructor
  · cases selfPar with
    | zero => rfl
    | succ n => exact Nat.div_eq_of_lt (by omega)
  · unfold chunkSize
    cases selfPar with
    | zero => rfl
    | succ n =>
      have : n / (n + 1) = 0 := Nat.div_eq_of_lt (Nat.lt_succ_self n)
      simp [this]

/-- the defect repaired by 0edf6bd, visible in the model: index assignment on anything but an object or
`null` panics inside `serde_json` … -/
theorem inject_unguarded_assignment_panics (q : Json) (k : String) (v : Json) (ho : q.isObject = false)
    (hn : q.isNull = false) : q.indexAssign k v = none := by
  cases q <;> simp_all [Json.indexAssign, Json.isObject, Json.isNull]

/-- … and the guard answers every non-object query with an error instead (either mode) -/
theorem inject_rejects_non_object (key : String) (value : Json) (overwrite : Bool) (q : Json)
    (ho : q.isObject = false) :
    processO (.inject key value overwrite) q = .ok (.error { kind := "UnexpectedQueryStructure" }) := by
  rw [processO_eq]
  cases q <;> cases overwrite <;> simp_all [processT, injectGuard, Json.isObject]

/-- the bins are indexed with the result of `min_bin`, which is always in range: the loop neither fails nor
panics for `p ≥ 1` bins -/
theorem load_balancing_never_panics {α : Type} (W : WOps α) (p : Nat) (qs : List Json) :
    ∃ r, balanceO W p qs = .ok r := by
  cases p with
  | zero => rw [balanceO_zero]; split <;> exact ⟨_, rfl⟩
  | succ n =>
    obtain ⟨bins, h, _⟩ := balanceO_spec W (n + 1) (by omega) qs
    exact ⟨_, h⟩

/-! ## the whole call -/

/- Full statement (the property): for every JSON batch, every plugin and search configuration, the real
`CompassApp::run` — input plugins incl. the r-tree matchers, `run_single_query` (search + output plugins) on
every expanded query, the sink — neither panics nor fails to return.  What is proved here is the part of it that
lies in the batch pipeline AROUND the single-query function; the single-query function and the opaque plugins
enter the model as total functions (`respond : Json → Json`, `Plugin.table`), so a panic inside them is not even
expressible in `runO`.  `run_returns_iff_single_query_returns` below says what the pipeline adds in the model `runRO` (sink `None`, parsed configuration, total table plugins). -/

/-- **The batch pipeline around the single-query function never panics** (`_partial`: for every TOTAL
single-query function `respond` and every plugin list of the model, whose table plugins are total by
construction): chunking, `apply_input_plugins` over grid search / inject / load balancer / user plugins,
partition, `apply_load_balancing_policy`, assembly — for every list of JSON values, every parallelism
(configured and per run, 0 included), both policies, every weight arithmetic.  The panics it excludes are the
four modelled sites `par_chunks(0)`, `value[key] = …` on a non-object, bin indexing, `MultiSet` on a degenerate
axis.  It says nothing about a panic inside `run_single_query` or inside an r-tree / haversine plugin. -/
theorem never_panics_partial {α : Type} (W : WOps α) (cfg : Config) (respond : Json → Json)
    (batch : List Json) : ∃ r, runO W cfg respond batch = .ok r := by
  rw [runO_eq]
  obtain ⟨r, h⟩ := load_balancing_never_panics W cfg.parallelism (processed cfg.plugins batch)
  rw [h]
  cases r <;> exact ⟨_, rfl⟩

/-- **What the pipeline adds to the single-query function, in the model `runRO`**: over a single-query function
WITH outcomes (`respondO : Json → Outcome Json` — it may panic, it may not return), with `ResponseSink::None`,
the per-run configuration already parsed and the table plugins still total (`TableEntry` has only `ok | err`: a
panic inside an r-tree / haversine plugin is inexpressible here as well), the call returns if and only if
parallelism is 0 (the call is then `Ok []` or the whole-batch `Err` before any search) or the single-query
function returns on every query that reaches the search.  So IN THIS MODEL "no batch makes `run` panic or run
without bound" is equivalent to "`run_single_query` returns on every expanded query of every batch" — which is
NOT proved here, and which does not cover the opaque plugins: both are evidenced by the forked differential
run (every case in a child process with an alarm and a memory limit) and by the theorems of the properties
that own the pieces (table in the header). -/
theorem run_returns_iff_single_query_returns {α : Type} (W : WOps α) (cfg : Config)
    (respondO : Json → Outcome Json) (batch : List Json) :
    (∃ r, runRO W cfg respondO batch = .ok r) ↔
      (cfg.parallelism = 0 ∨ ∀ q ∈ processed cfg.plugins batch, ∃ v, respondO q = .ok v) := by
  by_cases hp : 1 ≤ cfg.parallelism
  · have aux : (∃ r, runRO W cfg respondO batch = .ok r) ↔
        ∀ q ∈ processed cfg.plugins batch, ∃ v, respondO q = .ok v := by
      obtain ⟨bins, hb, hperm, _, hnil⟩ := balanceO_spec W cfg.parallelism hp (processed cfg.plugins batch)
      have hmem : ∀ q, q ∈ bins.flatten ↔ q ∈ processed cfg.plugins batch := fun q => hperm.mem_iff
      unfold runRO
      rw [searchedO_eq, hb]
      simp only
      by_cases he : bins.isEmpty = true
      · have hb0 : bins = [] := List.isEmpty_iff.mp he
        have : processed cfg.plugins batch = [] := by
          have := hperm; rw [hb0] at this; simpa using this.symm
        simp [he, this]
      · simp only [he, Bool.false_eq_true, if_false]
        rw [← (show (∀ q ∈ bins.flatten, ∃ v, respondO q = .ok v) ↔ _ from
          ⟨fun h q hq => h q ((hmem q).mpr hq), fun h q hq => h q ((hmem q).mp hq)⟩)]
        rw [← respondAllO_ok_iff]
        cases respondAllO respondO bins.flatten <;> simp
    constructor
    · intro h; exact Or.inr (aux.mp h)
    · rintro (h0 | h)
      · omega
      · exact aux.mpr h
  · have h0 : cfg.parallelism = 0 := by omega
    refine ⟨fun _ => Or.inl h0, fun _ => ?_⟩
    unfold runRO
    rw [searchedO_eq, h0, balanceO_zero]
    by_cases he : (processed cfg.plugins batch).isEmpty = true <;> simp [he]

/-- with a total single-query function the model with outcomes is the model the other theorems are about -/
theorem run_with_total_single_query {α : Type} (W : WOps α) (cfg : Config) (respond : Json → Json)
    (batch : List Json) :
    runRO W cfg (fun q => .ok (respond q)) batch = runO W cfg respond batch := by
  unfold runRO
  rw [searchedO_eq, runO_eq]
  cases balanceO W cfg.parallelism (processed cfg.plugins batch) with
  | panic s => rfl
  | diverges => rfl
  | ok r =>
    cases r with
    | error e => rfl
    | ok bins =>
      simp only [respondAllO_total, assemble]
      by_cases he : bins.isEmpty = true
      · simp [he]
      · have : (bins.map (fun b => b.map respond)).flatten = bins.flatten.map respond := by
          induction bins with
          | nil => rfl
          | cons b bs ih => simp [List.flatten_cons]
        simp only [he, Bool.false_eq_true, if_false, this]

/-- for parallelism ≥ 1 `run` as modelled by `runO` — a parsed per-run configuration, `ResponseSink::None`,
total `respond` — returns responses, never the whole-batch `Err` (fix 1eb0c7f: an ill-typed weight estimate
used to produce one).  The other whole-batch `?` exits of the real `run` (per-run configuration that does not
deserialize, sink that cannot be built, failed write) are in the model with entry points: `call_error_cases`;
the two "could not build progress bar" exits are not modelled (no bar format is ever set) -/
theorem returns_responses {α : Type} (W : WOps α) (cfg : Config) (respond : Json → Json)
    (batch : List Json) (hp : 1 ≤ cfg.parallelism) :
    ∃ out, runO W cfg respond batch = .ok (.ok out) := by
  obtain ⟨out, h, _⟩ := C06.run_multiset W cfg respond batch hp
  exact ⟨out, h⟩

/-- the only whole-batch `Err` of the model: parallelism 0 with at least one processed query -/
theorem whole_batch_error_iff {α : Type} (W : WOps α) (cfg : Config) (respond : Json → Json)
    (batch : List Json) (e : AppErr) :
    runO W cfg respond batch = .ok (.error e) ↔
      (cfg.parallelism = 0 ∧ processed cfg.plugins batch ≠ []) := by
  constructor
  · intro h
    by_cases hp : 1 ≤ cfg.parallelism
    · obtain ⟨out, ho⟩ := returns_responses W cfg respond batch hp
      rw [ho] at h; cases h
    · have h0 : cfg.parallelism = 0 := by omega
      refine ⟨h0, ?_⟩
      intro hq
      rw [runO_eq, h0, balanceO_zero, hq] at h
      simp at h
  · rintro ⟨h0, hq⟩
    cases e
    exact C06.parallelism_zero_fails_batch W cfg respond batch h0 hq

/-- **The empty batch returns `[]`** (it used to panic in `par_chunks(0)`), under every configuration -/
theorem empty_batch {α : Type} (W : WOps α) (cfg : Config) (respond : Json → Json) :
    runO W cfg respond [] = .ok (.ok []) := by
  rw [runO_eq]
  simp [processed, oks, errs, balanceO, assemble]

/-- **Every query is accounted for and the others are served** — for parallelism `≥ 1` (parallelism 0 is the
whole-batch `Err` of `whole_batch_error_iff`: nothing is served), `ResponseSink::None`, total `respond`.  Under
the persist policy the responses are, as a multiset, `⨄_q answer q`; under the discard policy exactly the
error responses of the input stage, `⨄_q answerErr q` (the search responses exist only in the sink).  A query
whose input processing fails contributes exactly one response, `{"request": …, "error": …}`, under both
policies, and the answers of the queries around it are unchanged -/
theorem every_query_accounted_for {α : Type} (W : WOps α) (cfg : Config) (respond : Json → Json)
    (pre post : List Json) (q : Json) (hp : 1 ≤ cfg.parallelism) :
    ∃ out, runO W cfg respond (pre ++ q :: post) = .ok (.ok out) ∧
      out.Perm (if cfg.persist then
          answers cfg.plugins respond pre ++ answer cfg.plugins respond q ++ answers cfg.plugins respond post
        else answersErr cfg.plugins pre ++ answerErr cfg.plugins q ++ answersErr cfg.plugins post) ∧
      (∀ e, prepT cfg.plugins q = .error e →
        answer cfg.plugins respond q = [e] ∧ answerErr cfg.plugins q = [e] ∧
        ∃ req kind, e = .obj [("request", req), ("error", .str kind)]) := by
  obtain ⟨out, h1, h2⟩ := C06.run_multiset W cfg respond (pre ++ q :: post) hp
  refine ⟨out, h1, ?_, ?_⟩
  · cases hpers : cfg.persist with
    | true => rw [hpers] at h2; simpa [answers] using h2
    | false => rw [hpers] at h2; simpa [answersErr] using h2
  · intro e he
    exact ⟨by simp [answer, he], by simp [answerErr, he], C06.error_response_shape cfg.plugins q e he⟩

/-! ## every query is answered, every error response echoes the request -/

/- Full statement: for every plugin configuration, every JSON value offered as a query gets at least one
response.  False when a plugin answers with the empty array (`table_plugin_can_erase_a_query_counterexample`);
proved under `ObjOp` (every plugin maps an object to an object or a non-empty array of objects), which holds of
grid search, inject, the custom load balancer and the user split / fail plugins, and of a recorded table plugin
— vertex / edge r-tree matching, haversine load balancer — when its recorded results are objects
(`table_plugin_keeps_objects`; checked on every recorded table by the harness, key `table/non-object-result`). -/

/-- **Every query is answered** (`_partial`: plugins that keep objects): whatever JSON value is offered (number,
string, `null`, array, `[]`, object with any fields) it gets at least one response -/
theorem every_query_answered_partial (plugins : List Plugin) (hw : ∀ p ∈ plugins, ObjOp (processT p))
    (respond : Json → Json) (q : Json) : answer plugins respond q ≠ [] :=
  C06.every_query_answered_partial plugins hw respond q

/-- a recorded table plugin (r-tree matcher, haversine load balancer) keeps objects when every recorded result
is an object — which the real matchers' results are (they only insert fields) -/
theorem table_plugin_keeps_objects (t : List (String × TableEntry))
    (h : ∀ k v, (k, TableEntry.ok v) ∈ t → v.isObject = true) : ObjOp (processT (.table t)) := by
  intro q r _ hr
  simp only [processT] at hr
  cases hl : lookupStr t q.toCompact with
  | none => simp [hl] at hr
  | some e =>
    cases e with
    | err k l => simp [hl] at hr
    | ok v =>
      simp only [hl, Except.ok.injEq] at hr
      subst hr
      left
      unfold lookupStr at hl
      cases hf : t.find? (fun p => p.1 == q.toCompact) with
      | none => simp [hf] at hl
      | some p =>
        simp only [hf, Option.some.injEq] at hl
        have hm := List.mem_of_find?_eq_some hf
        exact h p.1 v (by rw [← hl]; exact hm)

/-- without the hypothesis the statement is false: a (table) plugin that answers with the empty array erases
the query — no response at all -/
theorem table_plugin_can_erase_a_query_counterexample (respond : Json → Json) :
    answer [.table [("{\"a\":null}", .ok (.arr []))]] respond (.obj [("a", .null)]) = [] := by
  rfl

/-- … in particular under every configuration made of grid search, inject, load balancer and the user-defined
split / fail-on-marker plugins -/
theorem every_query_answered_builtin_partial (plugins : List Plugin) (hb : ∀ p ∈ plugins, p.wellBehaved = true)
    (respond : Json → Json) (q : Json) : answer plugins respond q ≠ [] :=
  C06.every_query_answered_partial plugins (fun p hp => processT_objOp p (hb p hp)) respond q

/-- a query that fails input processing is answered with exactly one response, its error response -/
theorem failing_query_answered (plugins : List Plugin) (respond : Json → Json) (q e : Json)
    (h : prepT plugins q = .error e) : answer plugins respond q = [e] := by
  simp [answer, h]

/-- **A non-object query is echoed verbatim** (fix 6b89952), whatever the plugins -/
theorem non_object_query_echoed (plugins : List Plugin) (q : Json) (h : q.isObject = false) :
    prepT plugins q = .error (.obj [("request", q), ("error", .str "UnexpectedQueryStructure")]) :=
  prepT_non_object plugins q h

/-- **Every error response of the input stage echoes the request** — for every plugin list, user-defined and
invariant-breaking plugins included: the query itself when it is not an object; the query `x` — `q`, or one of
the queries the earlier plugins made of `q` — on which plugin `p` failed, as `p` left it (or the original
query); the original query when a plugin broke the invariant (fix 755333a).  The placeholder request is gone. -/
theorem error_echoes_request (plugins : List Plugin) (q e : Json) (h : prepT plugins q = .error e) :
    (q.isObject = false ∧ e = .obj [("request", q), ("error", .str "UnexpectedQueryStructure")]) ∨
    (∃ pre p post xs x pe req, plugins = pre ++ p :: post ∧
      GridSearch.applyOps (pre.map processT) (.arr [q]) = .ok (.arr xs) ∧ x ∈ xs ∧
      processT p x = .error pe ∧
      e = .obj [("request", req), ("error", .str pe.kind)] ∧ (req = pe.left.getD x ∨ req = q)) ∨
    (q.isObject = true ∧ e = .obj [("request", q), ("error", .str invariantKind)]) :=
  C06.error_echoes_request plugins q e h

-- non-vacuity of the echo group: the no-overwrite inject plugin rejects an object that already has the key,
-- and the error response carries that object
example : prepT [.inject "k" .null false] (.obj [("k", .bool true)])
    = .error (.obj [("request", .obj [("k", .bool true)]), ("error", .str "InputPluginFailed")]) := by
  rfl

/-- an object query rejected by the first plugin is echoed verbatim (grid search, inject, load balancer: they
fail before touching the query) -/
theorem error_echoes_request_first_plugin (p : Plugin) (rest : List Plugin) (kvs : List (String × Json))
    (e : PErr) (h : processT p (.obj kvs) = .error e) (hl : e.left = none) :
    prepT (p :: rest) (.obj kvs)
      = .error (.obj [("request", .obj kvs), ("error", .str e.kind)]) := by
  simp [prepT, GridSearch.applyInputPlugins, Json.isObject, GridSearch.applyOps, GridSearch.jsonArrayOp,
    GridSearch.mapOp, h, errorResponse, hl]

theorem injectGuard_left {key : String} {overwrite : Bool} {q : Json} {e : PErr}
    (h : injectGuard key overwrite q = some e) : e.left = none := by
  unfold injectGuard at h
  split at h
  · split at h
    · split at h
      · cases h; rfl
      · cases h
    · cases h; rfl
  · split at h
    · cases h; rfl
    · cases h

/-- the model's own plugins never leave a modified query behind when they fail (only recorded table plugins —
the r-tree matcher that has written `origin_vertex` before the destination fails — do) -/
theorem own_plugins_fail_clean (p : Plugin) (q : Json) (e : PErr) (h : processT p q = .error e)
    (hp : ∀ t, p ≠ .table t) : e.left = none := by
  cases p with
  | gridSearch =>
    simp only [processT] at h
    cases hg : GridSearch.process q <;> simp [hg] at h
    subst h; rfl
  | inject key value overwrite =>
    simp only [processT] at h
    cases hg : injectGuard key overwrite q with
    | some e' =>
      simp only [hg, Except.error.injEq] at h
      subst h
      exact injectGuard_left hg
    | none =>
      simp only [hg] at h
      cases q <;> simp at h <;> (subst h; rfl)
  | lbNumeric col fmt =>
    simp only [processT] at h
    cases hc : customWeight (.lbNumeric col fmt) q with
    | error e' =>
      simp only [hc, Except.error.injEq] at h
      subst h
      simp only [customWeight] at hc
      split at hc <;> simp_all <;> (subst hc; rfl)
    | ok b =>
      simp only [hc, addWeight] at h
      cases q <;> simp at h <;> (subst h; rfl)
  | lbCategorical col m d fmt =>
    simp only [processT] at h
    cases hc : customWeight (.lbCategorical col m d fmt) q with
    | error e' =>
      simp only [hc, Except.error.injEq] at h
      subst h
      simp only [customWeight] at hc
      split at hc
      · split at hc <;> simp_all <;> (subst hc; rfl)
      · simp at hc; subst hc; rfl
    | ok b =>
      simp only [hc, addWeight] at h
      cases q <;> simp at h <;> (subst h; rfl)
  | table t => exact absurd rfl (hp t)
  | userSplit key =>
    simp only [processT, userT] at h
    cases q with
    | obj kvs =>
      simp only at h
      split at h <;> simp at h
    | _ => simp at h
  | userFailOn m =>
    simp only [processT, userT] at h
    cases hm : q.get? m with
    | some v => simp only [hm, Except.error.injEq] at h; subst h; rfl
    | none => simp [hm] at h
  | userBreaker key =>
    simp only [processT, userT] at h
    split at h <;> simp at h

/-- a plugin that breaks the invariant does not break the pipeline: it never panics; a scalar left behind is
answered with an invariant error that names the query (fix 755333a: it named the placeholder, key
`pipeline/invariant-error-loses-request`).  `every_query_answered_partial` still needs its hypothesis: a plugin that
answers with the empty array erases the query (no expanded query, no response). -/
theorem invariant_breaker_is_answered_with_the_query (respond : Json → Json) :
    answer [.userBreaker "break"] respond (.obj [("break", .str "scalar")])
      = [.obj [("request", .obj [("break", .str "scalar")]), ("error", .str invariantKind)]] ∧
    answer [.userBreaker "break"] respond (.obj [("break", .str "empty")]) = [] ∧
    (∀ q, ∃ r, prepO [.userBreaker "break"] q = .ok r) :=
  ⟨by rfl, by rfl, fun q => ⟨_, prepO_eq _ q⟩⟩

/-- **Finding `pipeline/sibling-responses-lost`** (C06): one failing expanded query takes its siblings with
it — "the remaining queries are served" fails for them -/
theorem sibling_responses_lost_counterexample (respond : Json → Json) :
    (∃ c₁ c₂, processT .gridSearch C06.s1Query = .ok (.arr [c₁, c₂]) ∧
      (∃ c, processT C06.s1Inject c₂ = .ok c)) ∧
    (answer [.gridSearch, C06.s1Inject] respond C06.s1Query).length = 1 := by
  obtain ⟨h1, _, h3, h4, _⟩ := C06.sibling_responses_lost_counterexample respond
  exact ⟨⟨_, _, h1, h3⟩, by rw [h4]; rfl⟩

-- non-vacuity: a batch mixing an object, a number, a degenerate grid section and an empty array, under grid
-- search + inject, parallelism 3 over a configured 0, returns (and the model says what)
example : ∃ out, runO C06.natOps
    { plugins := [.gridSearch, .inject "k" .null true], selfPar := 0, runPar := some 3, persist := true }
    (fun q => .arr [q])
    [.obj [("a", .null)], .num "5" 0, .obj [("grid_search", .obj [])], .arr []] = .ok (.ok out) :=
  returns_responses _ _ _ _ (by decide)

/-! ## the entry points and the builders never panic either -/

/-- **Whatever JSON value is offered as a batch, through each of the three entries (`run` on a value, `run` on a
vector, `run_queries` on texts), with whatever per-run configuration and sink of the model, the call returns**:
`Ok(responses)` or an `Err` for the call — never a panic, never a divergence.  `_partial` exactly as
`never_panics_partial`: for every TOTAL single-query function `respond` and every plugin list of the model,
whose table plugins are total by construction — it says nothing about a panic inside `run_single_query` or
inside an r-tree / haversine plugin; the panics it excludes are the modelled sites of the pipeline.  A
`Combined` policy or a CSV file policy is answered `runConfig` by the model and is accepted by the code: for
such a per-run value this is a statement about the model only (the harness offers neither). -/
theorem call_never_panics_partial {α : Type} (W : WOps α) (env : String → Bool × Bool) (app : App)
    (runCfg : Option Json) (respond : Json → Json) (v : Json) :
    (∃ r, callValueO W env app runCfg respond v = .ok r) ∧
    (∀ batch, ∃ r, callO W env app runCfg respond batch = .ok r) ∧
    (∀ (textCfg : Option (Option Json)) (texts : List (Option Json)),
      ∃ r, runQueriesO W env app textCfg respond texts = .ok r) := by
  have hcallAny : ∀ (runCfg : Option Json) batch, ∃ r, callO W env app runCfg respond batch = .ok r := by
    intro runCfg batch
    unfold callO
    cases parseRunConfig env runCfg with
    | none => exact ⟨_, rfl⟩
    | some o =>
      simp only
      cases buildSink (o.policy.getD app.policy) with
      | error e => exact ⟨_, rfl⟩
      | ok u =>
        simp only
        rw [callCoreO_eq]
        obtain ⟨r, hr⟩ := load_balancing_never_panics W (app.config o).parallelism
          (processed (app.config o).plugins batch)
        rw [hr]
        cases r with
        | error e => exact ⟨_, rfl⟩
        | ok bins =>
          simp only
          split
          · exact ⟨_, rfl⟩
          · split
            · exact ⟨_, rfl⟩
            · split <;> exact ⟨_, rfl⟩
  have hcall := hcallAny runCfg
  refine ⟨?_, hcall, ?_⟩
  · rw [C06.call_value_spec]
    cases getQueries v with
    | none => exact ⟨_, rfl⟩
    | some batch => exact hcall batch
  · intro textCfg texts
    unfold runQueriesO
    split
    · exact ⟨_, rfl⟩
    · split
      · exact ⟨_, rfl⟩
      · exact hcallAny _ _

/-- **Every whole-call `Err` of the modelled call: NECESSARY conditions** (the statement is one-directional —
from the `Err` to its cause): a per-run value that does not deserialize (in the model: a `Combined` or CSV
policy is answered `runConfig` too, which is not the code's answer — not modelled); a sink whose file cannot be
opened or whose flush rate is `≤ 0`; parallelism 0 with a query to run; a failed write with something to write
— an input-stage error response or a query to run (a failing sink on a batch with nothing to write returns
`Ok []`: `failing_sink_with_nothing_to_write`).  The converses are `C06.invalid_run_config_fails_call`,
`C06.sink_build_errors` (with `callO`'s definition), `C06.failing_sink_fails_call` (parallelism ≥ 1) and
`whole_batch_error_iff`.  (Not modelled: the two "could not build progress bar" exits — no bar format is ever
set — and a poisoned sink mutex.) -/
theorem call_error_cases {α : Type} (W : WOps α) (env : String → Bool × Bool) (app : App)
    (runCfg : Option Json) (respond : Json → Json) (batch : List Json) (e : CallErr)
    (h : callO W env app runCfg respond batch = .ok (.error e)) :
    (parseRunConfig env runCfg = none ∧ e = .runConfig) ∨
    (∃ o, parseRunConfig env runCfg = some o ∧
      (buildSink (o.policy.getD app.policy) = .error e ∨
       (e = .app .minBinEmpty ∧ (app.config o).parallelism = 0 ∧
         processed (app.config o).plugins batch ≠ []) ∨
       (e = .sinkWrite ∧ sinkFails (o.policy.getD app.policy) = true ∧
         (errs (app.config o).plugins batch ≠ [] ∨ processed (app.config o).plugins batch ≠ [])))) := by
  unfold callO at h
  cases hp : parseRunConfig env runCfg with
  | none => left; simp [hp] at h; exact ⟨rfl, h.symm⟩
  | some o =>
    right
    refine ⟨o, rfl, ?_⟩
    simp only [hp] at h
    cases hb : buildSink (o.policy.getD app.policy) with
    | error e' => simp [hb] at h; left; rw [h]
    | ok u =>
      right
      simp only [hb] at h
      rw [callCoreO_eq] at h
      have hne : ∀ l : List Json, ¬ l.isEmpty = true → l ≠ [] := by
        intro l hl hq; exact hl (by simp [hq])
      by_cases hpar : 1 ≤ (app.config o).parallelism
      · obtain ⟨bins, hbal, hbe⟩ := bins_isEmpty_iff W (app.config o).parallelism hpar
          (processed (app.config o).plugins batch)
        rw [hbal] at h
        simp only at h
        right
        by_cases hs : sinkFails (o.policy.getD app.policy) = true
        · by_cases he : (errs (app.config o).plugins batch).isEmpty = true
          · by_cases hbb : bins.isEmpty = true
            · simp [hs, he, hbb] at h
            · simp [hs, he, hbb] at h
              exact ⟨h.symm, hs, Or.inr (fun hq => hbb (hbe.mpr hq))⟩
          · simp [hs, he] at h
            exact ⟨h.symm, hs, Or.inl (hne _ he)⟩
        · simp [hs] at h
          split at h <;> simp at h
      · have h0 : (app.config o).parallelism = 0 := by omega
        rw [h0, balanceO_zero] at h
        by_cases hq : (processed (app.config o).plugins batch).isEmpty = true
        · simp only [hq, if_true] at h
          right
          by_cases hs : sinkFails (o.policy.getD app.policy) = true
          · by_cases he : (errs (app.config o).plugins batch).isEmpty = true
            · simp [hs, he] at h
            · simp [hs, he] at h
              exact ⟨h.symm, hs, Or.inl (hne _ he)⟩
          · simp [hs] at h
        · simp only [hq, Bool.false_eq_true, if_false, Outcome.ok.injEq, Except.error.injEq] at h
          left
          exact ⟨h.symm, h0, hne _ hq⟩

/-- a failing sink on a batch with nothing to write — no input-stage error, no query to run; the empty batch
in particular — does not fail the call: nothing is written, `Ok []` (any parallelism, 0 included) -/
theorem failing_sink_with_nothing_to_write {α : Type} (W : WOps α) (cfg : Config) (s : SinkSpec)
    (respond : Json → Json) (batch : List Json) (he : errs cfg.plugins batch = [])
    (hq : processed cfg.plugins batch = []) :
    callCoreO W cfg (.file s) respond batch = .ok (.ok []) := by
  rw [callCoreO_eq, hq, he]
  have hb : balanceO W cfg.parallelism [] = .ok (.ok []) := by
    unfold balanceO; rfl
  rw [hb]
  simp

/-- a value that is not a batch — a number, a string, `null`, an object whose `queries` is not an array — is
refused with an error for the call; every array and every other object is run -/
theorem batch_of_wrong_json_type (v : Json) :
    (getQueries v = none ↔
      (v.isArray = false ∧ v.isObject = false) ∨
      (∃ kvs w, v = .obj kvs ∧ Json.lookup kvs queriesKey = some w ∧ w.isArray = false)) := by
  constructor
  · intro h
    cases v with
    | arr qs => simp [getQueries] at h
    | obj kvs =>
      right
      cases hl : Json.lookup kvs queriesKey with
      | none => simp [getQueries, hl] at h
      | some w => exact ⟨kvs, w, rfl, hl, by cases w <;> simp_all [getQueries, Json.isArray]⟩
    | _ => left; exact ⟨rfl, rfl⟩
  · rintro (⟨ha, ho⟩ | ⟨kvs, w, rfl, hl, hw⟩)
    · exact C06.get_queries_spec.2.2.2.2 v ha ho
    · exact C06.get_queries_spec.2.2.2.1 kvs w hl hw

/-- **`InjectPluginBuilder::build` never panics** (fix bdada7d: `format = "toml"` was `todo!()`, a panic while
the application is built), on any parameters and whatever `serde_json` makes of the value text.  (True BY
CONSTRUCTION of the model: its only panic arm was the `toml` format, removed with the fix — what ties the
statement to the code is the forked builder stream of the harness.  The load-balancer builder's model,
`buildLoadBalancer`, has no panic outcome in its type at all.) -/
theorem inject_builder_never_panics (params : Json) (ps pj : Option Json) :
    ∃ r, buildInject params ps pj = .ok r := by
  unfold buildInject
  cases cfgString params "key" with
  | error e => exact ⟨_, rfl⟩
  | ok key =>
    simp only
    cases cfgString params "value" with
    | error e => exact ⟨_, rfl⟩
    | ok v =>
      simp only
      cases params.get? "format" with
      | none => exact ⟨_, rfl⟩
      | some f =>
        simp only
        cases decodeInjectFormat f with
        | none => exact ⟨_, rfl⟩
        | some fmt =>
          simp only
          cases fmt <;> cases ps <;> cases pj <;> simp only <;>
            (first
              | exact ⟨_, rfl⟩
              | (cases params.get? "overwrite" with
                 | none => exact ⟨_, rfl⟩
                 | some o => cases o <;> exact ⟨_, rfl⟩))

/-- the `toml` format is a configuration error, whatever else the parameters say -/
theorem inject_builder_toml_is_error (params : Json) (ps pj : Option Json) (key value : String)
    (hk : cfgString params "key" = .ok key) (hv : cfgString params "value" = .ok value)
    (hf : params.get? "format" = some (.str "toml")) :
    buildInject params ps pj = .ok (.error .userConfig) := by
  simp [buildInject, hk, hv, hf, decodeInjectFormat, injectFormatName]

/-- a well-formed configuration builds the inject plugin it describes; `overwrite` defaults to `true` -/
theorem inject_builder_builds_the_plugin (params : Json) (ps : Option Json) (key value : String) (v : Json)
    (hk : cfgString params "key" = .ok key) (hv : cfgString params "value" = .ok value)
    (hf : params.get? "format" = some (.str "json")) :
    (params.get? "overwrite" = none →
      buildInject params ps (some v) = .ok (.ok (.inject key v true))) ∧
    (∀ b, params.get? "overwrite" = some (.bool b) →
      buildInject params ps (some v) = .ok (.ok (.inject key v b))) ∧
    buildInject params ps none = .ok (.error .userConfig) := by
  refine ⟨?_, ?_, ?_⟩
  · intro ho; simp [buildInject, hk, hv, hf, decodeInjectFormat, injectFormatName, ho]
  · intro b ho; simp [buildInject, hk, hv, hf, decodeInjectFormat, injectFormatName, ho]
  · simp [buildInject, hk, hv, hf, decodeInjectFormat, injectFormatName]

/-! ## the command-line entry (`app/cli/run.rs::command_line_runner`, `app/cli/cli_args.rs`)

Model: `Model/Cli.lean` (the batch runner a parameter, here `callO`); run against the real `command_line_runner`
by the `cli` stream of harness/src/c06/cli.rs.  The partition / one-response statements are `C06.cli_*`. -/

/-- **(a) `CliArgs::validate` refuses exactly** a chunk size without `newline_delimited` and a chunk size below 1 —
an iff on the arguments, for every `chunksize: Option<i64>` and both flags -/
theorem cli_validate_refuses_iff (a : Cli.CliArgs) :
    Cli.validate (ε := CallErr) a = .ok () ↔
      ¬ (a.chunksize.isSome = true ∧ a.newlineDelimited = false) ∧ ∀ c, a.chunksize = some c → 1 ≤ c :=
  Cli.validate_ok_iff a

/-- what the second refusal is there for: `run_newline_json` with a chunk size of 0 panics
(`itertools::chunks`: `assert!(size != 0)`), whatever the file holds and whatever the runner -/
theorem cli_chunksize_zero_panics {ε ρ : Type} (run : List Json → Outcome (Except ε ρ)) (doc : Option Json)
    (lines : List (Option Json)) :
    Cli.runNewlineJsonO run (some 0) (.content doc lines) = .panic "itertools/chunks-zero" := rfl

/-- … and the cast alone would not protect: `-1 as usize` is `usize::MAX`, `i64::MIN as usize` is `2^63` — it is
the comparison `c > 0` of `get_chunksize_option` (and `c < 1` of `validate`) that keeps 0 away -/
theorem cli_cast_wraps : Cli.asUsize (-1) = 2 ^ 64 - 1 ∧ Cli.asUsize (-(2 ^ 63)) = 2 ^ 63 ∧ Cli.asUsize 0 = 0 := by
  decide

/-- **the dispatch on validated arguments** (`chunksize` an `i64`): one document through `run_json`; chunks of
exactly `chunksize` lines through `run_newline_json` — the cast loses nothing and the value is never 0; the arms
"not yet implemented" and the error of `get_chunksize_option` are dead; `--newline-delimited` WITHOUT a chunk size
passes `validate` and is then refused with the internal error "invalid argument combination should have been
caught during CLI validation" (see the `_counterexample` below) -/
theorem cli_dispatch_of_validated {ε ρ : Type} (run : List Json → Outcome (Except ε ρ)) (a : Cli.CliArgs)
    (hv : Cli.validate (ε := ε) a = .ok ()) (hi : ∀ c, a.chunksize = some c → c < 2 ^ 63) (file : Cli.QueryFile) :
    Cli.dispatchO run a file =
      (match a.chunksize with
       | none =>
         if a.newlineDelimited then .ok { log := [], result := .error .invalidCombination }
         else Cli.runJsonO run file
       | some c => Cli.runNewlineJsonO run (some c.toNat) file) ∧
    (∀ c, a.chunksize = some c → c.toNat ≠ 0) := by
  obtain ⟨cs, nd⟩ := a
  have hv' := (Cli.validate_ok_iff (ε := ε) ⟨cs, nd⟩).mp hv
  cases cs with
  | none => cases nd <;> exact ⟨rfl, by simp⟩
  | some c =>
    have h1 : 1 ≤ c := hv'.2 c rfl
    have hnd : nd = true := by
      cases nd with
      | true => rfl
      | false => exact absurd ⟨rfl, rfl⟩ hv'.1
    subst hnd
    have hpos : c > 0 := by omega
    have hcast := Cli.asUsize_of_pos c h1 (hi c rfl)
    refine ⟨?_, ?_⟩
    · simp only [Cli.dispatchO, Cli.getChunksizeOption, hpos, if_true, hcast.1]
    · intro c' hc'
      cases hc'
      rw [← hcast.1]; exact hcast.2

/-- **`validate` does not refuse everything the dispatch refuses** — a `_counterexample` to "validate accepts
exactly the argument combinations the runner serves": `--newline-delimited` without `--chunksize` passes
`validate` (its doc comment: "chunksize must be set if newline_delimited_queries is true" is the MESSAGE of the
opposite arm), the application is built, the query file opened, and the call then ends with `InternalError` on
every file — although `run_newline_json` is written for it (`chunksize_option.unwrap_or(usize::MAX)`) -/
theorem cli_validate_accepts_what_dispatch_refuses_counterexample {ε ρ : Type}
    (run : List Json → Outcome (Except ε ρ)) (doc : Option Json) (lines : List (Option Json)) :
    Cli.validate (ε := ε) { chunksize := none, newlineDelimited := true } = .ok () ∧
    Cli.commandLineRunnerO run { chunksize := none, newlineDelimited := true } .good (.content doc lines)
      = .ok { log := [], result := .error .invalidCombination } :=
  ⟨rfl, rfl⟩

/-- **(a) `command_line_runner` never panics and returns**, for every argument combination (`chunksize` any `i64`,
both flags), every configuration file (unreadable, unbuildable, good), EVERY query file — missing, a directory
(opens, cannot be read), readable with blank lines, lines that are not JSON, a document that is no batch —, every
per-run configuration: an `Ok` or an `Err` of the call.  `_partial` as `call_never_panics_partial`: total
`respond`, the plugins of the model.  Built into the model's types rather than proved: reading and building the
configuration return (`ConfigFile` has three total outcomes), and a readable query file is a FINITE list of
lines (a FIFO or a character device such as /dev/urandom passes the directory test and is outside the model).
(Before fix 08a69e9 the statement needed "the query file is not
`unreadable`": see `cli_unreadable_query_file_refused`.) -/
theorem cli_never_panics_partial {α : Type} (W : WOps α) (env : String → Bool × Bool) (app : App)
    (runCfg : Option Json) (respond : Json → Json) (a : Cli.CliArgs)
    (hi : ∀ c, a.chunksize = some c → c < 2 ^ 63) (cfg : Cli.ConfigFile) (file : Cli.QueryFile) :
    ∃ o, Cli.commandLineRunnerO (callO W env app runCfg respond) a cfg file = .ok o :=
  Cli.commandLineRunnerO_returns _
    (fun b => (call_never_panics_partial W env app runCfg respond .null).2.1 b) a hi cfg file

/-- **`command_line_runner` does not run without bound unless a run does**: for EVERY batch runner that never
diverges (it may fail, it may panic), every argument combination (any integer as chunk size), every
configuration file and every query file of the model — the directory included — the call does not diverge: the
loop over the chunks makes one run per chunk of a finite file and stops at the first failing one.  (Same
environment assumptions as `cli_never_panics_partial`: the application build returns, the file is finite.) -/
theorem cli_never_diverges {ε ρ : Type} (run : List Json → Outcome (Except ε ρ))
    (hrun : ∀ b, run b ≠ .diverges) (a : Cli.CliArgs) (cfg : Cli.ConfigFile) (file : Cli.QueryFile) :
    Cli.commandLineRunnerO run a cfg file ≠ .diverges :=
  Cli.commandLineRunnerO_ne_diverges run hrun a cfg file

/-- **a query "file" that opens but cannot be read (a directory) is refused like a missing file** (fix fffeda5:
`query_file.metadata().is_dir()` right after `File::open`), for every validated argument combination and every
batch runner: `BuildFailure("Could not find query file …")`, nothing is run. -/
theorem cli_unreadable_query_file_refused {ε ρ : Type} (run : List Json → Outcome (Except ε ρ)) (a : Cli.CliArgs)
    (hv : Cli.validate (ε := ε) a = .ok ()) :
    Cli.commandLineRunnerO run a .good .unreadable = .ok { log := [], result := .error .queryFileMissing } := by
  simp only [Cli.commandLineRunnerO, hv, Cli.afterValidateO]

/-- what the refusal is there for: ON such a file `run_newline_json` itself runs without bound —
`BufRead::lines` yields the read error (`EISDIR`) on every call, each item is collected as an unparsable row, and
as soon as the run of the empty batch succeeds (it does: `empty_batch`) the loop over the chunks never ends; with
a chunk size the machine cannot collect the first chunk is never complete.  This was the outcome of
`--query-file <a directory> --chunksize 2 --newline-delimited` before the fix.  (`run_json` on the same file
returns the read error.) -/
theorem cli_run_newline_json_on_unreadable_file_diverges {ε ρ : Type} (run : List Json → Outcome (Except ε ρ))
    (res : ρ) (h : run [] = .ok (.ok res)) (n : Nat) (hn : n ≠ 0) :
    Cli.runNewlineJsonO run (some n) .unreadable = .diverges ∧
    Cli.runJsonO run .unreadable = .ok { log := [], result := .error .notJson } := by
  refine ⟨?_, rfl⟩
  simp only [Cli.runNewlineJsonO, Option.getD_some, hn, if_false, h]

-- `cli_never_diverges` for the model of the application: whatever the arguments (any integer as chunk size)
example {α : Type} (W : WOps α) (env : String → Bool × Bool) (app : App) (runCfg : Option Json)
    (respond : Json → Json) (a : Cli.CliArgs) (cfg : Cli.ConfigFile) (file : Cli.QueryFile) :
    Cli.commandLineRunnerO (callO W env app runCfg respond) a cfg file ≠ .diverges :=
  cli_never_diverges _ (fun b h => by
    obtain ⟨r, hr⟩ := (call_never_panics_partial W env app runCfg respond .null).2.1 b
    rw [hr] at h; cases h) a cfg file
-- non-vacuity of the hypothesis: the run of the empty batch succeeds in the model of the application
example : callO C06.natOps (fun _ => (true, true))
    { plugins := [], parallelism := 2, persist := true, policy := .none } none id [] = .ok (.ok []) := by rfl

/-- **(d) what `run_newline_json` returns: the first failing run wins.**  If the runs of the chunks before `c`
succeed and the run of chunk `c` fails with `e`, the call is `Err(e)`: the chunks before `c` have been served,
the unparsable lines of `c` are not reported, and NOTHING of what comes after `c` matters — the statement does
not mention `post`: those chunks are never run. -/
theorem cli_first_failing_chunk_ends_the_call {ε ρ : Type} (run : List Json → Outcome (Except ε ρ))
    (r : List (Option Json) → ρ) (n : Nat) (hn : 1 ≤ n) (doc : Option Json) (lines : List (Option Json))
    (pre : List (List (Option Json))) (c : List (Option Json)) (post : List (List (Option Json))) (e : ε)
    (hcs : chunks n lines = pre ++ c :: post)
    (hpre : ∀ p ∈ pre, run (Cli.chunkBatch p) = .ok (.ok (r p)))
    (hc : run (Cli.chunkBatch c) = .ok (.error e)) :
    Cli.runNewlineJsonO run (some n) (.content doc lines)
      = .ok { log := pre.map (fun p => { served := r p, parseErrors := Cli.chunkBad p }),
              result := .error (.run e) } := by
  have hn0 : n ≠ 0 := by omega
  simp only [Cli.runNewlineJsonO, Option.getD_some, Cli.itChunksO, hn0, if_false, hcs]
  exact Cli.runChunksO_first_failure run r c post e hc pre hpre

/-- … and when no run fails every chunk is served and the call is `Ok` (`C06.cli_newline_json_all_chunks_run`).
`_partial` reading of C12's "the call returns so the remaining queries are served": it holds for the chunks up to
the first failing run only. -/
theorem cli_remaining_chunks_served_partial {ε ρ : Type} (run : List Json → Outcome (Except ε ρ))
    (r : List (Option Json) → ρ) (n : Nat) (hn : 1 ≤ n) (doc : Option Json) (lines : List (Option Json))
    (hok : ∀ c ∈ chunks n lines, run (Cli.chunkBatch c) = .ok (.ok (r c))) :
    Cli.runNewlineJsonO run (some n) (.content doc lines)
      = .ok { log := (chunks n lines).map (fun c => { served := r c, parseErrors := Cli.chunkBad c }),
              result := .ok () } := by
  have hn0 : n ≠ 0 := by omega
  simp only [Cli.runNewlineJsonO, Option.getD_some, Cli.itChunksO, hn0, if_false]
  exact Cli.runChunksO_all_ok run r _ hok

/-- the witness of the harness (`cli_corpus_failing_run_then_servable_chunk`): application without plugins, a
per-run `parallelism` that reads as 0, `--chunksize 1 --newline-delimited` -/
def cliWitnessApp : App := { plugins := [], parallelism := 2, persist := true, policy := .none }
def cliWitnessQuery : Json := .obj [("origin_vertex", .num "0" 0), ("destination_vertex", .num "3" 0)]
def cliWitnessFive : Json := .num "5" 0

/-- **later chunks are NOT served after a failing run** — a `_counterexample` to "the call returns so the remaining
queries are served" at the level of the command line: the file `{"origin_vertex":0,"destination_vertex":3}` / `5`
in chunks of one line under a per-run parallelism of 0.  The run of the first chunk fails (`MinBinEmpty`: a query
to balance over 0 bins), the call ends with that error and the line `5` is never run — although the same line as
the FIRST chunk of a file is served: its run returns its (error) response and the call is `Ok`.  (Every run error
of the model is a matter of configuration or of the sink, not of the queries; what the witness shows is that the
loop gives up the whole file on the first of them.) -/
theorem cli_later_chunks_not_served_counterexample (zero : Json) (h0 : zero.asU64? = some 0) :
    let run := callO C06.natOps (fun _ => (true, true)) cliWitnessApp (some (.obj [("parallelism", zero)])) id
    let args : Cli.CliArgs := { chunksize := some 1, newlineDelimited := true }
    Cli.commandLineRunnerO run args .good (.content none [some cliWitnessQuery, some cliWitnessFive])
      = .ok { log := [], result := .error (.run (.app .minBinEmpty)) } ∧
    (∃ resp, Cli.commandLineRunnerO run args .good (.content none [some cliWitnessFive])
      = .ok { log := [{ served := [resp], parseErrors := 0 }], result := .ok () }) := by
  have hp : parseRunConfig (fun _ => (true, true)) (some (.obj [("parallelism", zero)]))
      = some { par := some 0, persist := none, policy := none } := by
    simp [parseRunConfig, runConfigKey, Json.get?, Json.lookup, decodeUsize, h0]
  have h1 : callO C06.natOps (fun _ => (true, true)) cliWitnessApp (some (.obj [("parallelism", zero)])) id
      [cliWitnessQuery] = .ok (.error (.app .minBinEmpty)) := by
    unfold callO; rw [hp]; rfl
  obtain ⟨resp, h2⟩ : ∃ resp, callO C06.natOps (fun _ => (true, true)) cliWitnessApp
      (some (.obj [("parallelism", zero)])) id [cliWitnessFive] = .ok (.ok [resp]) := by
    unfold callO; rw [hp]; exact ⟨_, rfl⟩
  refine ⟨?_, resp, ?_⟩
  · have := cli_first_failing_chunk_ends_the_call
      (callO C06.natOps (fun _ => (true, true)) cliWitnessApp (some (.obj [("parallelism", zero)])) id)
      (fun _ => []) 1 (Nat.le_refl 1) none [some cliWitnessQuery, some cliWitnessFive]
      [] [some cliWitnessQuery] [[some cliWitnessFive]] (.app .minBinEmpty) (by rfl) (by simp) h1
    exact this
  · have := cli_remaining_chunks_served_partial
      (callO C06.natOps (fun _ => (true, true)) cliWitnessApp (some (.obj [("parallelism", zero)])) id)
      (fun _ => [resp]) 1 (Nat.le_refl 1) none [some cliWitnessFive]
      (by
        intro c hc
        have : c = [some cliWitnessFive] := by
          have hcs : chunks 1 [some cliWitnessFive] = [[some cliWitnessFive]] := by rfl
          rw [hcs] at hc; simpa using hc
        subst this; exact h2)
    exact this

-- non-vacuity: the chunks of the witness
example : chunks 1 [some cliWitnessQuery, some cliWitnessFive] = [[some cliWitnessQuery], [some cliWitnessFive]] := by
  rfl

end C12
end Compass
