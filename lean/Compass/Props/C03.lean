/-
C03 — reported state and costs along a route are the true sums over its edges.

Component statements over `Model/Instance.lean`: state accumulation (`add_distance`, `add_time` as
repaired: the delta is converted to the feature's unit and added to the feature's own slot),
the distance and speed-table traversal models, turn classification and heading wrap.
(Route-level accumulation is added from `Proofs/SearchDiscipline`.)
-/
import Compass.Proofs.Num
import Compass.Model.Instance
import Mathlib.Tactic.IntervalCases
import Compass.Proofs.SearchDiscipline

namespace Compass
namespace C03

variable {α : Type} [Field α] [LinearOrder α] [IsStrictOrderedRing α] [Lit α] [LawfulLit α]

/-- `add_distance` touches exactly the named slot and adds the delta expressed in the feature's unit -/
theorem addDistance_spec (fs : List (Feat α)) (state : List α) (name : String) (d : α)
    (fromU : DistanceUnit) (st' : List α) (h : addDistance fs state name d fromU = some st') :
    ∃ i x fu, featIndex fs name = some i ∧ state[i]? = some x ∧
      (fs[i]?.map (·.kind)) = some (FeatKind.dist fu) ∧
      st' = state.set i (x + fromU.convert fu d) ∧ st'.length = state.length := by
  unfold addDistance at h
  split at h
  · simp at h
  · rename_i i hi
    split at h
    · rename_i x f hx hf
      split at h
      · rename_i fu hk
        simp only [Option.some.injEq] at h
        exact ⟨i, x, fu, hi, hx, by simp [hf, hk], h.symm, by rw [← h]; simp⟩
      · simp at h
    · simp at h

/-- `add_time` likewise -/
theorem addTime_spec (fs : List (Feat α)) (state : List α) (name : String) (t : α)
    (fromU : TimeUnit) (st' : List α) (h : addTime fs state name t fromU = some st') :
    ∃ i x fu, featIndex fs name = some i ∧ state[i]? = some x ∧
      (fs[i]?.map (·.kind)) = some (FeatKind.time fu) ∧
      st' = state.set i (x + fromU.convert fu t) ∧ st'.length = state.length := by
  unfold addTime at h
  split at h
  · simp at h
  · rename_i i hi
    split at h
    · rename_i x f hx hf
      split at h
      · rename_i fu hk
        simp only [Option.some.injEq] at h
        exact ⟨i, x, fu, hi, hx, by simp [hf, hk], h.symm, by rw [← h]; simp⟩
      · simp at h
    · simp at h

/-- every other slot is unchanged by an accumulation -/
theorem set_other_slot (state : List α) (i j : Nat) (v : α) (hij : j ≠ i) :
    (state.set i v)[j]? = state[j]? := by
  simp [List.getElem?_set, Ne.symm hij]

/-- the initial state holds the declared initial values, one per feature, in slot order -/
theorem initialState_spec (fs : List (Feat α)) :
    (initialState fs).length = fs.length ∧ ∀ i : Nat, (initialState fs)[i]? = (fs[i]?).map Feat.init := by
  simp [initialState]

/-- distance traversal: the distance slot grows by the edge length (metres → model unit → feature unit) -/
theorem distance_traverse_spec (fs : List (Feat α)) (edges : List (EdgeRec α)) (du : DistanceUnit)
    (e : Nat) (state st' : List α) (h : (TravModel.distance du).traverse fs edges e state = some st') :
    ∃ er i x fu, edges[e]? = some er ∧ featIndex fs "distance" = some i ∧ state[i]? = some x ∧
      st' = state.set i (x + du.convert fu (baseDistanceUnit.convert du er.dist)) := by
  unfold TravModel.traverse at h
  split at h
  · simp at h
  · rename_i er her
    obtain ⟨i, x, fu, hi, hx, _, hst, _⟩ := addDistance_spec _ _ _ _ _ _ h
    exact ⟨er, i, x, fu, her, hi, hx, hst⟩

/-! ### Turn classification and heading wrap (tables regenerated from the source) -/

/-- every angle in [-180, 180] has a turn class (the `Err` arm of `Turn::from_angle` is
unreachable for wrapped bearings) -/
theorem turn_total : ∀ i : Fin 361, (turnOfAngle ((i : Int) - 180)).isSome = true := by decide +kernel

theorem turn_total' (a : Int) (h1 : -180 ≤ a) (h2 : a ≤ 180) : (turnOfAngle a).isSome = true := by
  have h := turn_total ⟨(a + 180).toNat, by omega⟩
  have e : ((⟨(a + 180).toNat, by omega⟩ : Fin 361) : Int) - 180 = a := by
    simp only [Int.toNat_of_nonneg (by omega : 0 ≤ a + 180)]; omega
  rw [e] at h; exact h

/-- angles outside [-180, 180] are rejected -/
theorem turn_rejects_outside : turnOfAngle 181 = none ∧ turnOfAngle (-181) = none := by decide +kernel

/-- the class boundaries as the property describes them: straight ahead is "no turn",
a quarter turn to the right is "right", a reversal is a U-turn (spot checks on the generated table;
the full table is compared with the implementation bit for bit by the correspondence run) -/
theorem turn_spot_checks :
    turnOfAngle 0 = some .noTurn ∧ turnOfAngle 90 = some .right ∧ turnOfAngle (-90) = some .left ∧
    turnOfAngle 180 = some .uTurn ∧ turnOfAngle (-180) = some .uTurn ∧
    turnOfAngle 30 = some .slightRight ∧ turnOfAngle (-30) = some .slightLeft ∧
    turnOfAngle 150 = some .sharpRight ∧ turnOfAngle (-150) = some .sharpLeft := by decide +kernel

/-- for headings in [0, 360) the bearing from one edge to the next is wrapped into [-180, 180]
and is congruent to (arrival of next − departure of previous) modulo 360 -/
theorem bearing_wrapped (a₁ a₂ : Int) (d₁ d₂ : Option Int) (h1 : 0 ≤ a₂ ∧ a₂ < 360)
    (h2 : ∀ d, d₁ = some d → 0 ≤ d ∧ d < 360) (h3 : 0 ≤ a₁ ∧ a₁ < 360) :
    -180 ≤ bearing (a₁, d₁) (a₂, d₂) ∧ bearing (a₁, d₁) (a₂, d₂) ≤ 180 ∧
      ∃ k : Int, bearing (a₁, d₁) (a₂, d₂) = a₂ - (d₁.getD a₁) + 360 * k := by
  have hw : headingWrap = (180, 360, 180, 360) := by decide
  cases d₁ with
  | none =>
    simp only [bearing, hw]
    split
    · refine ⟨by omega, by omega, -1, by simp; omega⟩
    · split
      · refine ⟨by omega, by omega, 1, by simp⟩
      · refine ⟨by omega, by omega, 0, by simp⟩
  | some d =>
    have := h2 d rfl
    simp only [bearing, hw]
    split
    · refine ⟨by omega, by omega, -1, by simp; omega⟩
    · split
      · refine ⟨by omega, by omega, 1, by simp⟩
      · refine ⟨by omega, by omega, 0, by simp⟩

/-- hence a turn delay lookup never fails on classification for headings in [0, 360) -/
theorem bearing_classified (a₁ a₂ : Int) (d₁ d₂ : Option Int) (h1 : 0 ≤ a₂ ∧ a₂ < 360)
    (h2 : ∀ d, d₁ = some d → 0 ≤ d ∧ d < 360) (h3 : 0 ≤ a₁ ∧ a₁ < 360) :
    (turnOfAngle (bearing (a₁, d₁) (a₂, d₂))).isSome = true := by
  obtain ⟨hlo, hhi, _⟩ := bearing_wrapped a₁ a₂ d₁ d₂ h1 h2 h3
  exact turn_total' _ hlo hhi


/-! ### Route level: the reported states and costs are the accumulation along the route -/

open SearchDiscipline SearchTree in
/-- Dijkstra (effective weight factor 0), every configuration — with or without turn delays, any
units, forward or reverse: along the returned route the first element was produced from the initial
state with no previous edge, and every further element from its predecessor's reported state and
edge by the traversal (access model, then traversal model, then cost model): state₀ = initial,
stateᵢ = stepᵢ(stateᵢ₋₁, eᵢ₋₁, eᵢ), and each reported cost is the cost model's value for that step. -/
theorem dijkstra_route_accumulates (c : Config α) (hadj : c.AdjConsistent) (hwf : c.wf = some 0)
    {source t : Nat} {sched : List Nat} {res : SearchResult α} (hts : t ≠ source)
    (hrun : runVertexOriented c.inst source (some t) sched = .ok res) :
    ∃ route, res.route = some route ∧ route ≠ [] ∧
      (∀ b, route.head? = some b →
        edgeTraversal c b.edge none (initialState c.feats) = .ok (b.access, b.traversal, b.state)) ∧
      ∀ i (hi : i + 1 < route.length),
        edgeTraversal c route[i + 1].edge (some route[i].edge) route[i].state =
          .ok (route[i + 1].access, route[i + 1].traversal, route[i + 1].state) := by
  obtain ⟨route, h1, h2, _, _, h5, h6⟩ :=
    route_links_fresh (c.inst_wf hadj) (config_zeroH c hwf) hts hrun
  refine ⟨route, h1, h2, ?_, ?_⟩
  · intro b hb; exact (h5 b hb).2
  · intro i hi; exact (h6 i hi).2

open SearchDiscipline in
/-- … and the summed reported cost equals the destination's label. -/
theorem dijkstra_route_cost_is_label (c : Config α) (hadj : c.AdjConsistent) (hwf : c.wf = some 0)
    {source t : Nat} {sched : List Nat} {res : SearchResult α} (hts : t ≠ source)
    (hrun : runVertexOriented c.inst source (some t) sched = .ok res) :
    ∃ route gt, res.route = some route ∧ res.final.g t = some gt ∧
      (route.map (fun b => b.access + b.traversal)).sum = gt :=
  route_cost_eq_label (c.inst_wf hadj) (config_zeroH c hwf) hts hrun

/- Full statement ("for every algorithm") is FALSE of model and code for A* runs whose estimate is
inconsistent for the network: see known_findings.txt key route/stale-link-after-reopening and the
5-vertex witness in harness/src/searchprops.rs (`stale_link_witness`); the theorem above is the
`_partial` form (Dijkstra; `SearchDiscipline.route_links_fresh_of_heur` extends it to every
consistent vertex heuristic). -/


/-! ### The stale-link counterexample (recorded finding `route/stale-link-after-reopening`)

The 5-vertex witness of harness/src/searchprops.rs `stale_link_witness(false)`, over ℚ: vertices
s=0, w=1, u=2, v=3, t=4; great-circle distances to t (data) 7000, 6000, 5000, 5200, 0; edge lengths
far below them, so the A* estimate (weight factor 1) is inconsistent for this network; a 2000 s delay
on the right turn (w→u, u→v).  Schedule: s, u, w, u again (re-opened), v, t. -/

def staleConfig : Config ℚ where
  nV := 5
  edges := [⟨0, 2, 1000⟩, ⟨0, 1, 100⟩, ⟨1, 2, 100⟩, ⟨2, 3, 100⟩, ⟨3, 4, 100⟩]
  outAdj := [[0, 1], [2], [3], [4], []]
  inAdj := [[], [1], [0, 2], [3], [4]]
  feats := [{ name := "distance", kind := .dist .meters, init := 0 },
            { name := "time", kind := .time .seconds, init := 0 }]
  trav := .distance .meters
  access := .turnDelay .seconds [(90, some 90), (0, some 0), (0, some 0), (90, some 90), (90, some 90)]
    [some 0, some 0, some 0, some 2000, some 0, some 0, some 0, some 0]
  cost := { indices := [0, 1], weights := [1, 1], vehicleRates := [.raw, .raw],
            networkRates := [.zero, .zero], agg := .sum }
  frontier := []
  term := .combined []
  reverse := false
  gc := [7000, 6000, 5000, 5200, 0]
  wf := some 1

/-- (edge, reported state) along the route of a result -/
def routeStatesOf (r : Except ErrKind (AlgResult ℚ)) : Option (List (List (Nat × List ℚ))) :=
  match r with
  | .ok res => some (res.routes.map (·.map (fun b => (b.edge, b.state))))
  | .error _ => none

/-- A* returns the route s→w→u→v→t whose third element reports distance 1100 and time 0 … -/
theorem stale_link_counterexample :
    routeStatesOf (staleConfig.runVertex 0 (some 4) [0, 2, 1, 2, 3, 4]) =
      some [[(1, [100, 0]), (2, [200, 0]), (3, [1100, 0]), (4, [1200, 0])]] := by
  decide +kernel

/-- … although traversing edge 3 (u→v) after edge 2 (w→u) from the state the route reports there
accumulates to distance 300 and time 2000: the reported state is not the route's accumulation. -/
theorem stale_link_true_accumulation :
    (edgeTraversal staleConfig 3 (some 2) [200, 0]).toOption.map (·.2.2) = some [300, 2000] := by
  decide +kernel

/-- The same configuration under Dijkstra (weight factor 0) returns a route whose states accumulate
(an instance of `dijkstra_route_accumulates`): s→w→u→v→t, the turn delay charged on u→v. -/
theorem stale_link_absent_under_dijkstra :
    routeStatesOf (({ staleConfig with wf := some 0 } : Config ℚ).runVertex 0 (some 4) [0, 1, 2, 3, 4]) =
      some [[(1, [100, 0]), (2, [200, 0]), (3, [300, 2000]), (4, [400, 2000])]] := by
  decide +kernel

/-! ### Non-vacuity -/
example : addDistance [⟨"distance", .dist .meters, (0 : ℚ)⟩] [5] "distance" 2 .meters = some [7] := by
  decide +kernel
example : bearing (10, some 10) (350, none) = -20 := by decide
example : bearing (350, none) (10, none) = 20 := by decide

end C03
end Compass
