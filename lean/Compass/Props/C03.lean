/-
C03 — reported state and costs along a route are the true sums over its edges.

Component statements over `Model/Instance.lean`: state accumulation (`add_distance`, `add_time` as
repaired: the delta is converted to the feature's unit and added to the feature's own slot),
the distance and speed-table traversal models, turn classification and heading wrap.
Route level (`Proofs/SearchDiscipline`, `Proofs/RouteSums`): the link relation and the closed forms
along every route of a Dijkstra search (`dijkstra_…`: the Dijkstra restriction is forced — for A* with
an estimate that is inconsistent for the network the statement is false of model and code, see
`stale_link_counterexample`; `SearchDiscipline.route_links_fresh_of_heur` extends the link relation to
every consistent vertex estimate), vertex-oriented and edge-oriented (`dijkstra_edge_oriented_…`,
`edge_oriented_adjacent_…`); the response's `traversal_summary`
(`traversal_summary_is_state_after_last_edge`).  The k-shortest-path routes (both halves of a
single-via alternative, Yen's root and spur parts) are C13's theorems
(`Props/C13.lean`: every alternative's re-created part is the forward re-accumulation from the last
edge and state of the part it continues), not restated here.

Modelled rather than verified, and why it is harmless here:
* the turn-delay access model writes its delay to the state feature named by its
  `time_feature_name` (configurable, default `"time"`); `AccessModel.access` of the search model writes
  to the feature called `"time"`.  The search harness always configures `"time"`; the builder stream
  (`bld heads`, `Drv/Build.lean`) covers other names by renaming the probe's state feature, and
  `turn_delay_builder_ok` says which name the builder hands over.  A configuration whose access model
  writes to a time feature other than the one the speed-table model writes to (`"time"`, fixed in
  `speed_traversal_model.rs`) is outside the route-level theorems.
-/
import Compass.Model.Search
import Compass.Gen.Decisions
import Compass.Gen.FnsC03
import Compass.Proofs.Num
import Compass.Model.Instance
import Mathlib.Tactic.IntervalCases
import Compass.Proofs.SearchDiscipline
import Compass.Proofs.RouteSums
import Compass.Proofs.StateRefine
import Compass.Proofs.Build
import Compass.Proofs.SearchRoute

namespace Compass
namespace C03

variable {α : Type} [Field α] [LinearOrder α] [IsStrictOrderedRing α] [Lit α] [LawfulLit α]

/-- `add_distance` touches exactly the named slot and adds the delta expressed in the feature's unit -/
theorem addDistance_spec (fs : List (Feat α)) (state : List α) (name : String) (d : α)
    (fromU : DistanceUnit) (st' : List α) (h : addDistance fs state name d fromU = some st') :
    ∃ i x fu, featIndex fs name = some i ∧ state[i]? = some x ∧
      (fs[i]?.map (·.kind)) = some (FeatKind.dist fu) ∧
      st' = state.set i (x + fromU.convert fu d) ∧ st'.length = state.length := by
  unfold addDistance at h
  split at h
  · simp at h
  · rename_i i hi
    split at h
    · rename_i x f hx hf
      split at h
      · rename_i fu hk
        simp only [Option.some.injEq] at h
        exact ⟨i, x, fu, hi, hx, by simp [hf, hk], h.symm, by rw [← h]; simp⟩
      · simp at h
    · simp at h

/-- `add_time` likewise -/
theorem addTime_spec (fs : List (Feat α)) (state : List α) (name : String) (t : α)
    (fromU : TimeUnit) (st' : List α) (h : addTime fs state name t fromU = some st') :
    ∃ i x fu, featIndex fs name = some i ∧ state[i]? = some x ∧
      (fs[i]?.map (·.kind)) = some (FeatKind.time fu) ∧
      st' = state.set i (x + fromU.convert fu t) ∧ st'.length = state.length := by
  unfold addTime at h
  split at h
  · simp at h
  · rename_i i hi
    split at h
    · rename_i x f hx hf
      split at h
      · rename_i fu hk
        simp only [Option.some.injEq] at h
        exact ⟨i, x, fu, hi, hx, by simp [hf, hk], h.symm, by rw [← h]; simp⟩
      · simp at h
    · simp at h

/-- every other slot is unchanged by an accumulation -/
theorem set_other_slot (state : List α) (i j : Nat) (v : α) (hij : j ≠ i) :
    (state.set i v)[j]? = state[j]? := by
  simp [List.getElem?_set, Ne.symm hij]

/-- the initial state holds the declared initial values, one per feature, in slot order -/
theorem initialState_spec (fs : List (Feat α)) :
    (initialState fs).length = fs.length ∧ ∀ i : Nat, (initialState fs)[i]? = (fs[i]?).map Feat.init := by
  simp [initialState]

/-- distance traversal: the distance slot grows by the edge length (metres → model unit → feature unit) -/
theorem distance_traverse_spec (fs : List (Feat α)) (edges : List (EdgeRec α)) (du : DistanceUnit)
    (e : Nat) (state st' : List α) (h : (TravModel.distance du).traverse fs edges e state = some st') :
    ∃ er i x fu, edges[e]? = some er ∧ featIndex fs "distance" = some i ∧ state[i]? = some x ∧
      st' = state.set i (x + du.convert fu (baseDistanceUnit.convert du er.dist)) := by
  unfold TravModel.traverse at h
  split at h
  · simp at h
  · rename_i er her
    obtain ⟨i, x, fu, hi, hx, _, hst, _⟩ := addDistance_spec _ _ _ _ _ _ h
    exact ⟨er, i, x, fu, her, hi, hx, hst⟩

/-! ### Turn classification and heading wrap (tables regenerated from the source) -/

/-- every angle in [-180, 180] has a turn class (the `Err` arm of `Turn::from_angle` is
unreachable for wrapped bearings) -/
theorem turn_total : ∀ i : Fin 361, (turnOfAngle ((i : Int) - 180)).isSome = true := by decide +kernel

theorem turn_total' (a : Int) (h1 : -180 ≤ a) (h2 : a ≤ 180) : (turnOfAngle a).isSome = true := by
  have h := turn_total ⟨(a + 180).toNat, by omega⟩
  have e : ((⟨(a + 180).toNat, by omega⟩ : Fin 361) : Int) - 180 = a := by
    simp only [Int.toNat_of_nonneg (by omega : 0 ≤ a + 180)]; omega
  rw [e] at h; exact h

/-- **every** angle outside [-180, 180] is rejected (the table's ranges all lie inside).  Headings
outside [0, 360) — the loader accepts any `i16`, and since /repo a90456f the difference is taken
without overflow — give an access error exactly when their (once-wrapped) difference leaves
[-180, 180]; two such headings whose difference is small are an ordinary turn (1000 → 1010 is
"no turn": `far_headings_small_difference_is_a_turn`). -/
theorem turn_rejects_every_angle_outside (a : Int) (h : a < -180 ∨ 180 < a) : turnOfAngle a = none := by
  have hall : turnRanges.all (fun r => decide (-180 ≤ r.1) && decide (r.2.1 ≤ 180)) = true := by
    decide +kernel
  unfold turnOfAngle
  have : turnRanges.find? (fun r => decide (r.1 ≤ a) && decide (a ≤ r.2.1)) = none := by
    rw [List.find?_eq_none]
    intro r hr
    have := List.all_eq_true.mp hall r hr
    simp only [Bool.and_eq_true, decide_eq_true_eq] at this
    simp only [Bool.and_eq_true, decide_eq_true_eq, not_and]
    omega
  rw [this]

/-- two headings far outside [0, 360) whose difference is small classify as an ordinary turn -/
theorem far_headings_small_difference_is_a_turn :
    turnOfAngle (bearing (1000, none) (1010, none)) = some .noTurn := by decide +kernel

/-- the code's final `wrapped.clamp(i16::MIN, i16::MAX) as i16` in `bearing_to_destination`, which
`Model/Instance.lean`'s `bearing` does not have -/
def clampI16 (a : Int) : Int := max (-32768) (min 32767 a)

/-- the clamp never changes the classification: leaving it out of the model's `bearing` is harmless for
`Turn::from_angle`, its only consumer (as numbers the two bearings can differ:
`bearing (0, some (-32768)) (32767, none) = 65175`, clamped to 32767 by the code) -/
theorem turnOfAngle_clamp (a : Int) : turnOfAngle (clampI16 a) = turnOfAngle a := by
  by_cases h : -180 ≤ a ∧ a ≤ 180
  · have : clampI16 a = a := by unfold clampI16; omega
    rw [this]
  · rw [turn_rejects_every_angle_outside a (by omega),
      turn_rejects_every_angle_outside (clampI16 a) (by unfold clampI16; omega)]

example : bearing (0, some (-32768)) (32767, none) = 65175 ∧ clampI16 65175 = 32767 ∧
    turnOfAngle (clampI16 65175) = none ∧ turnOfAngle 65175 = none := by decide +kernel

/-- the class boundaries as the property describes them: straight ahead is "no turn",
a quarter turn to the right is "right", a reversal is a U-turn (spot checks on the generated table;
the full table is compared with the implementation bit for bit by the correspondence run) -/
theorem turn_spot_checks :
    turnOfAngle 0 = some .noTurn ∧ turnOfAngle 90 = some .right ∧ turnOfAngle (-90) = some .left ∧
    turnOfAngle 180 = some .uTurn ∧ turnOfAngle (-180) = some .uTurn ∧
    turnOfAngle 30 = some .slightRight ∧ turnOfAngle (-30) = some .slightLeft ∧
    turnOfAngle 150 = some .sharpRight ∧ turnOfAngle (-150) = some .sharpLeft := by decide +kernel

/-- a turn seen in a mirror: left and right change places -/
def mirrorTurn : Turn → Turn
  | .slightRight => .slightLeft
  | .slightLeft => .slightRight
  | .right => .left
  | .left => .right
  | .sharpRight => .sharpLeft
  | .sharpLeft => .sharpRight
  | t => t

/-- how far a turn departs from straight ahead -/
def turnSeverity : Turn → Nat
  | .noTurn => 0
  | .slightRight | .slightLeft => 1
  | .right | .left => 2
  | .sharpRight | .sharpLeft => 3
  | .uTurn => 4

/-- **the classification does not prefer a side**: the turn through `-a` is the mirror image of the
turn through `a`, for every angle of the table regenerated from `Turn::from_angle` (so a left turn of
45° is a "left" exactly as a right turn of 45° is a "right": a class boundary moved on one side only
charges the wrong delay for the angles between the two boundaries) -/
theorem turn_mirror_symmetric : ∀ i : Fin 361,
    turnOfAngle (-((i : Int) - 180)) = (turnOfAngle ((i : Int) - 180)).map mirrorTurn := by
  decide +kernel

/-- **a larger deviation is never a milder turn**: from straight ahead to a reversal, on either side,
the class only grows in severity (the ranges are contiguous and ordered) -/
theorem turn_severity_monotone : ∀ i : Fin 180,
    ((turnOfAngle (i : Int)).map turnSeverity).getD 0 ≤ ((turnOfAngle ((i : Int) + 1)).map turnSeverity).getD 0 ∧
    ((turnOfAngle (-(i : Int))).map turnSeverity).getD 0 ≤ ((turnOfAngle (-((i : Int) + 1))).map turnSeverity).getD 0 := by
  decide +kernel

/-- for headings in [0, 360) the bearing from one edge to the next is wrapped into [-180, 180]
and is congruent to (arrival of next − departure of previous) modulo 360 -/
theorem bearing_wrapped (a₁ a₂ : Int) (d₁ d₂ : Option Int) (h1 : 0 ≤ a₂ ∧ a₂ < 360)
    (h2 : ∀ d, d₁ = some d → 0 ≤ d ∧ d < 360) (h3 : 0 ≤ a₁ ∧ a₁ < 360) :
    -180 ≤ bearing (a₁, d₁) (a₂, d₂) ∧ bearing (a₁, d₁) (a₂, d₂) ≤ 180 ∧
      ∃ k : Int, bearing (a₁, d₁) (a₂, d₂) = a₂ - (d₁.getD a₁) + 360 * k := by
  have hw : headingWrap = (180, 360, 180, 360) := by decide
  cases d₁ with
  | none =>
    simp only [bearing, hw]
    split
    · refine ⟨by omega, by omega, -1, by simp; omega⟩
    · split
      · refine ⟨by omega, by omega, 1, by simp⟩
      · refine ⟨by omega, by omega, 0, by simp⟩
  | some d =>
    have := h2 d rfl
    simp only [bearing, hw]
    split
    · refine ⟨by omega, by omega, -1, by simp; omega⟩
    · split
      · refine ⟨by omega, by omega, 1, by simp⟩
      · refine ⟨by omega, by omega, 0, by simp⟩

/-- hence a turn delay lookup never fails on classification for headings in [0, 360) -/
theorem bearing_classified (a₁ a₂ : Int) (d₁ d₂ : Option Int) (h1 : 0 ≤ a₂ ∧ a₂ < 360)
    (h2 : ∀ d, d₁ = some d → 0 ≤ d ∧ d < 360) (h3 : 0 ≤ a₁ ∧ a₁ < 360) :
    (turnOfAngle (bearing (a₁, d₁) (a₂, d₂))).isSome = true := by
  obtain ⟨hlo, hhi, _⟩ := bearing_wrapped a₁ a₂ d₁ d₂ h1 h2 h3
  exact turn_total' _ hlo hhi


/-! ### Route level: the reported states and costs are the accumulation along the route -/

/- FULL STATEMENT (the property): for every algorithm — any weight factor — along the returned route
the first element was produced from the initial state with no previous edge and every further element
from its predecessor's reported state and edge.  FALSE of model and code for A* with an estimate that
is inconsistent for the network (`stale_link_counterexample` below; recorded finding
`route/stale-link-after-reopening`).  Proved: the statement restricted to `weight_factor = 0`
(Dijkstra); `SearchDiscipline.route_links_fresh_of_heur` gives it for every consistent vertex estimate.
What is missing for the full statement is a repair of the code (refresh descendants on re-expansion,
or re-traverse the route at the end).  Every `dijkstra_…` theorem of this file is a corollary of this
partial theorem and shares its restriction. -/
open SearchDiscipline SearchTree in
/-- Dijkstra (effective weight factor 0), every configuration — with or without turn delays, any
units, forward or reverse: along the returned route the first element was produced from the initial
state with no previous edge, and every further element from its predecessor's reported state and
edge by the traversal (access model, then traversal model, then cost model): state₀ = initial,
stateᵢ = stepᵢ(stateᵢ₋₁, eᵢ₋₁, eᵢ), and each reported cost is the cost model's value for that step. -/
theorem route_accumulates_partial (c : Config α) (hadj : c.AdjConsistent) (hwf : c.wf = some 0)
    {source t : Nat} {sched : List Nat} {res : SearchResult α} (hts : t ≠ source)
    (hrun : runVertexOriented c.inst source (some t) sched = .ok res) :
    ∃ route, res.route = some route ∧ route ≠ [] ∧
      (∀ b, route.head? = some b →
        edgeTraversal c b.edge none (initialState c.feats) = .ok (b.access, b.traversal, b.state)) ∧
      ∀ i (hi : i + 1 < route.length),
        edgeTraversal c route[i + 1].edge (some route[i].edge) route[i].state =
          .ok (route[i + 1].access, route[i + 1].traversal, route[i + 1].state) := by
  obtain ⟨route, h1, h2, _, _, h5, h6⟩ :=
    route_links_fresh (c.inst_wf hadj) (config_zeroH c hwf) hts hrun
  refine ⟨route, h1, h2, ?_, ?_⟩
  · intro b hb; exact (h5 b hb).2
  · intro i hi; exact (h6 i hi).2

open SearchDiscipline in
/-- … and the summed reported cost equals the destination's label. -/
theorem dijkstra_route_cost_is_label (c : Config α) (hadj : c.AdjConsistent) (hwf : c.wf = some 0)
    {source t : Nat} {sched : List Nat} {res : SearchResult α} (hts : t ≠ source)
    (hrun : runVertexOriented c.inst source (some t) sched = .ok res) :
    ∃ route gt, res.route = some route ∧ res.final.g t = some gt ∧
      (route.map (fun b => b.access + b.traversal)).sum = gt :=
  route_cost_eq_label (c.inst_wf hadj) (config_zeroH c hwf) hts hrun

/-! #### Closed forms (`Proofs/RouteSums`): what the accumulation adds up to

The terms, all total functions of the configuration (`Proofs/RouteSums`):
`distTerm trav edges fu e` = length of `e` converted base unit → the traversal model's unit → the
feature's unit `fu`; `timeTerm trav edges ftu e` = the value `create_time` returned for `e` (table
speed, converted length; speed-table model — `0` under the distance model) converted from the model's
time unit to the feature's unit `ftu`; `turnDelayTerm c ftu l e` = the delay the table holds for the
turn classified from the headings of `l` and `e`, converted from the table's unit to `ftu` (`0`
without turn delays).  `prefixEdges route k` are the edges of the first `k + 1` elements, `pairs` the
consecutive pairs.  `RouteSums.route_times_defined / route_delays_defined` show that on a returned
route every `create_time` and every delay lookup returned a value, so no term is a default. -/

open SearchDiscipline in
/-- the route a Dijkstra run returns satisfies the link relation of `Proofs/RouteSums` -/
theorem dijkstra_route_links (c : Config α) (hadj : c.AdjConsistent) (hwf : c.wf = some 0)
    {source t : Nat} {sched : List Nat} {res : SearchResult α} (hts : t ≠ source)
    (hrun : runVertexOriented c.inst source (some t) sched = .ok res) :
    ∃ route, res.route = some route ∧ route ≠ [] ∧ RouteSums.Accumulates c route := by
  obtain ⟨route, h1, h2, _, h4⟩ := config_route_links_fresh c hadj hwf hts hrun
  exact ⟨route, h1, h2, RouteSums.accumulates_of_linksFresh c route h4⟩

/-- Dijkstra, every configuration (any traversal model, any access model, any units, forward or
reverse): the distance reported at route element `k` is the declared initial value plus the sum of
the lengths of the first `k + 1` edges, expressed in the feature's unit; every edge exists. -/
theorem dijkstra_route_distance_is_sum (c : Config α) (hadj : c.AdjConsistent) (hwf : c.wf = some 0)
    {source t : Nat} {sched : List Nat} {res : SearchResult α} (hts : t ≠ source)
    (hrun : runVertexOriented c.inst source (some t) sched = .ok res)
    {i : Nat} {fu : DistanceUnit} (hi : featIndex c.feats "distance" = some i)
    (hk : (c.feats[i]?).map (·.kind) = some (FeatKind.dist fu)) :
    ∃ route f, res.route = some route ∧ route ≠ [] ∧ c.feats[i]? = some f ∧
      (∀ k (hk : k < route.length), ∃ er, c.edges[route[k].edge]? = some er) ∧
      ∀ k (hk : k < route.length),
        route[k].state[i]? = some (f.init +
          ((RouteSums.prefixEdges route k).map (RouteSums.distTerm c.trav c.edges fu)).sum) := by
  obtain ⟨route, h1, h2, hacc⟩ := dijkstra_route_links c hadj hwf hts hrun
  obtain ⟨f, hf, hdef, hsum⟩ := RouteSums.route_distance_is_sum hacc ⟨hi, hk⟩
  exact ⟨route, f, h1, h2, hf, hdef, hsum⟩

/-- Dijkstra, every configuration: the time reported at route element `k` is the declared initial
value plus the traversal times of the first `k + 1` edges plus the delay of each of the `k` turns
between them, each once, everything in the feature's unit. -/
theorem dijkstra_route_time_is_sum (c : Config α) (hadj : c.AdjConsistent) (hwf : c.wf = some 0)
    {source t : Nat} {sched : List Nat} {res : SearchResult α} (hts : t ≠ source)
    (hrun : runVertexOriented c.inst source (some t) sched = .ok res)
    {j : Nat} {ftu : TimeUnit} (hj : featIndex c.feats "time" = some j)
    (hk : (c.feats[j]?).map (·.kind) = some (FeatKind.time ftu)) :
    ∃ route f, res.route = some route ∧ route ≠ [] ∧ c.feats[j]? = some f ∧
      ∀ k (hk : k < route.length),
        route[k].state[j]? = some (f.init +
          ((RouteSums.prefixEdges route k).map (RouteSums.timeTerm c.trav c.edges ftu)).sum +
          ((RouteSums.pairs (RouteSums.prefixEdges route k)).map
            (fun p => RouteSums.turnDelayTerm c ftu p.1 p.2)).sum) := by
  obtain ⟨route, h1, h2, hacc⟩ := dijkstra_route_links c hadj hwf hts hrun
  obtain ⟨f, hf, hsum⟩ := RouteSums.route_time_is_sum hacc ⟨hj, hk⟩
  exact ⟨route, f, h1, h2, hf, hsum⟩

/-- Dijkstra, every configuration with non-negative edge lengths and non-negative configured turn
delays: distance and time never decrease from the initial state to the first route element nor from
one route element to the next (table speeds need no
hypothesis: `create_time` fails the run on a non-positive speed or length).
The two premises are premises on the *data*, not on the run: `hlen` (no edge of the network has a
negative length — graph data, C15 reads lengths as they stand) and `hdel`
(`RouteSums.DelaysNonneg`: no configured turn delay is negative).  `hdel` holds of every access model
`TurnDelayAccessModelBuilder` returns (`turn_delay_builder_delays_nonneg`, since /repo c0bacb8; before,
any number was accepted).  Without either the statement is false:
`route_monotone_negative_delay_counterexample`, `route_monotone_negative_length_counterexample`.
Vertex-oriented; the edge-oriented form is `dijkstra_edge_oriented_route_monotone`.  The statement
speaks of both slots, so it also assumes that a "time" feature exists (`hj`, `hjk`); for a state model
with a distance feature only use `dijkstra_route_distance_monotone`, which needs neither. -/
theorem dijkstra_route_monotone (c : Config α) (hadj : c.AdjConsistent) (hwf : c.wf = some 0)
    {source t : Nat} {sched : List Nat} {res : SearchResult α} (hts : t ≠ source)
    (hrun : runVertexOriented c.inst source (some t) sched = .ok res)
    {i : Nat} {fu : DistanceUnit} (hi : featIndex c.feats "distance" = some i)
    (hik : (c.feats[i]?).map (·.kind) = some (FeatKind.dist fu))
    {j : Nat} {ftu : TimeUnit} (hj : featIndex c.feats "time" = some j)
    (hjk : (c.feats[j]?).map (·.kind) = some (FeatKind.time ftu))
    (hlen : ∀ er ∈ c.edges, 0 ≤ er.dist) (hdel : RouteSums.DelaysNonneg c.access) :
    ∃ route, res.route = some route ∧ route ≠ [] ∧
      (∀ (hr : 0 < route.length),
        (∀ x y, (initialState c.feats)[i]? = some x → route[0].state[i]? = some y → x ≤ y) ∧
        (∀ x y, (initialState c.feats)[j]? = some x → route[0].state[j]? = some y → x ≤ y)) ∧
      ∀ k (hk : k + 1 < route.length),
        (∀ x y, route[k].state[i]? = some x → route[k + 1].state[i]? = some y → x ≤ y) ∧
        (∀ x y, route[k].state[j]? = some x → route[k + 1].state[j]? = some y → x ≤ y) := by
  obtain ⟨route, h1, h2, hacc⟩ := dijkstra_route_links c hadj hwf hts hrun
  exact ⟨route, h1, h2,
    fun hr => ⟨(RouteSums.route_distance_monotone hacc ⟨hi, hik⟩ hlen).1 hr,
      (RouteSums.route_time_monotone hacc ⟨hj, hjk⟩ hdel).1 hr⟩,
    RouteSums.route_monotone hacc ⟨hi, hik⟩ ⟨hj, hjk⟩ hlen hdel⟩

/-- the distance half alone, without the premise that a "time" feature exists (distance-only state
models; no premise on the access model either): with non-negative edge lengths the reported distance
never decreases from the initial state to the first route element nor between consecutive elements -/
theorem dijkstra_route_distance_monotone (c : Config α) (hadj : c.AdjConsistent)
    (hwf : c.wf = some 0) {source t : Nat} {sched : List Nat} {res : SearchResult α}
    (hts : t ≠ source) (hrun : runVertexOriented c.inst source (some t) sched = .ok res)
    {i : Nat} {fu : DistanceUnit} (hi : featIndex c.feats "distance" = some i)
    (hik : (c.feats[i]?).map (·.kind) = some (FeatKind.dist fu))
    (hlen : ∀ er ∈ c.edges, 0 ≤ er.dist) :
    ∃ route, res.route = some route ∧ route ≠ [] ∧
      (∀ (hr : 0 < route.length) x y, (initialState c.feats)[i]? = some x →
        route[0].state[i]? = some y → x ≤ y) ∧
      ∀ k (hk : k + 1 < route.length) x y, route[k].state[i]? = some x →
        route[k + 1].state[i]? = some y → x ≤ y := by
  obtain ⟨route, h1, h2, hacc⟩ := dijkstra_route_links c hadj hwf hts hrun
  exact ⟨route, h1, h2, RouteSums.route_distance_monotone hacc ⟨hi, hik⟩ hlen⟩

/-- Dijkstra, every configuration: every slot other than "distance" and "time" reports its declared
initial value on every route element. -/
theorem dijkstra_route_other_slots (c : Config α) (hadj : c.AdjConsistent) (hwf : c.wf = some 0)
    {source t : Nat} {sched : List Nat} {res : SearchResult α} (hts : t ≠ source)
    (hrun : runVertexOriented c.inst source (some t) sched = .ok res)
    {j : Nat} (hjd : featIndex c.feats "distance" ≠ some j) (hjt : featIndex c.feats "time" ≠ some j) :
    ∃ route, res.route = some route ∧ route ≠ [] ∧
      ∀ k (hk : k < route.length), route[k].state[j]? = (c.feats[j]?).map (·.init) := by
  obtain ⟨route, h1, h2, hacc⟩ := dijkstra_route_links c hadj hwf hts hrun
  exact ⟨route, h1, h2, RouteSums.other_slots_unchanged hacc hjd hjt⟩

/-- Dijkstra, every configuration: the route summary (state of the last element) is the closed form
over the whole route. -/
theorem dijkstra_route_summary (c : Config α) (hadj : c.AdjConsistent) (hwf : c.wf = some 0)
    {source t : Nat} {sched : List Nat} {res : SearchResult α} (hts : t ≠ source)
    (hrun : runVertexOriented c.inst source (some t) sched = .ok res)
    {i : Nat} {fu : DistanceUnit} (hi : featIndex c.feats "distance" = some i)
    (hik : (c.feats[i]?).map (·.kind) = some (FeatKind.dist fu))
    {j : Nat} {ftu : TimeUnit} (hj : featIndex c.feats "time" = some j)
    (hjk : (c.feats[j]?).map (·.kind) = some (FeatKind.time ftu)) :
    ∃ route s fd ft, res.route = some route ∧ RouteSums.routeSummary route = some s ∧
      c.feats[i]? = some fd ∧ c.feats[j]? = some ft ∧
      s[i]? = some (fd.init + ((route.map (·.edge)).map (RouteSums.distTerm c.trav c.edges fu)).sum) ∧
      s[j]? = some (ft.init + ((route.map (·.edge)).map (RouteSums.timeTerm c.trav c.edges ftu)).sum
            + ((RouteSums.pairs (route.map (·.edge))).map
                (fun p => RouteSums.turnDelayTerm c ftu p.1 p.2)).sum) ∧
      ∀ l, featIndex c.feats "distance" ≠ some l → featIndex c.feats "time" ≠ some l →
        s[l]? = (c.feats[l]?).map (·.init) := by
  obtain ⟨route, h1, h2, hacc⟩ := dijkstra_route_links c hadj hwf hts hrun
  obtain ⟨s, fd, ft, hs, hfd, hft, hd, ht, ho⟩ :=
    RouteSums.summary_closed_form hacc h2 ⟨hi, hik⟩ ⟨hj, hjk⟩
  exact ⟨route, s, fd, ft, h1, hs, hfd, hft, hd, ht, ho⟩

/-- the distance statement with the values written out: `lens` are the stored lengths of the
route's edges; distance at element `k` = initial value + Σ of the first `k + 1` lengths, each
converted base unit → the traversal model's unit `du` → the feature's unit `fu` — equivalently the
total length converted once. -/
theorem dijkstra_route_distance_is_sum_explicit (c : Config α) (hadj : c.AdjConsistent)
    (hwf : c.wf = some 0) {source t : Nat} {sched : List Nat} {res : SearchResult α} (hts : t ≠ source)
    (hrun : runVertexOriented c.inst source (some t) sched = .ok res)
    {i : Nat} {fu : DistanceUnit} (hi : featIndex c.feats "distance" = some i)
    (hk : (c.feats[i]?).map (·.kind) = some (FeatKind.dist fu)) :
    ∃ (route : List (Branch α)) (f : Feat α) (lens : List α), res.route = some route ∧ route ≠ [] ∧
      c.feats[i]? = some f ∧ lens.length = route.length ∧
      (∀ k (hk : k < route.length), ∃ er, c.edges[route[k].edge]? = some er ∧
        lens[k]? = some er.dist) ∧
      ∀ k (hk : k < route.length),
        route[k].state[i]? = some (f.init + ((lens.take (k + 1)).map (fun len =>
          (RouteSums.travDu c.trav).convert fu
            (baseDistanceUnit.convert (RouteSums.travDu c.trav) len))).sum) ∧
        route[k].state[i]? = some (f.init + (RouteSums.travDu c.trav).convert fu
          (baseDistanceUnit.convert (RouteSums.travDu c.trav) (lens.take (k + 1)).sum)) := by
  obtain ⟨route, h1, h2, hacc⟩ := dijkstra_route_links c hadj hwf hts hrun
  obtain ⟨f, lens, hf, hl, hdef, hsum⟩ :=
    RouteSums.route_distance_is_sum_explicit hacc ⟨hi, hk⟩ rfl
  exact ⟨route, f, lens, h1, h2, hf, hl, hdef, hsum⟩

/-- the time statement with the values written out, speed-table model with turn delays:
`times[k]` is what `create_time` returned for edge `k` (its table speed in `su`, its length in `du`,
result in `tu`), `dls[k]` what the delay table returned for the turn from edge `k` to edge `k + 1`
(the pair is swapped in a reverse search: `prevEdge` / `nextEdge`); time at element `k` = initial
value + the first `k + 1` times + the first `k` delays, each converted to the feature's unit. -/
theorem dijkstra_route_time_is_sum_explicit (c : Config α) (hadj : c.AdjConsistent)
    (hwf : c.wf = some 0) {source t : Nat} {sched : List Nat} {res : SearchResult α} (hts : t ≠ source)
    (hrun : runVertexOriented c.inst source (some t) sched = .ok res)
    {j : Nat} {ftu : TimeUnit} (hj : featIndex c.feats "time" = some j)
    (hk : (c.feats[j]?).map (·.kind) = some (FeatKind.time ftu))
    {su : SpeedUnit} {du : DistanceUnit} {tu : TimeUnit} {ms : α} {table : List α}
    (htrav : c.trav = .speed su du tu ms table)
    {dtu : TimeUnit} {headings : List (Int × Option Int)} {delays : List (Option α)}
    (hac : c.access = .turnDelay dtu headings delays) :
    ∃ (route : List (Branch α)) (f : Feat α) (times dls : List α), res.route = some route ∧
      route ≠ [] ∧ c.feats[j]? = some f ∧
      times.length = route.length ∧ dls.length = route.length - 1 ∧
      (∀ k (hk : k < route.length), ∃ er sp tv, c.edges[route[k].edge]? = some er ∧
        table[route[k].edge]? = some sp ∧
        createTime sp su (baseDistanceUnit.convert du er.dist) du tu = some tv ∧
        times[k]? = some tv) ∧
      (∀ k (hk : k + 1 < route.length), ∃ d,
        turnDelayOf headings delays (RouteSums.prevEdge c route[k].edge route[k + 1].edge)
          (RouteSums.nextEdge c route[k].edge route[k + 1].edge) = some d ∧ dls[k]? = some d) ∧
      ∀ k (hk : k < route.length),
        route[k].state[j]? = some (f.init + ((times.take (k + 1)).map (tu.convert ftu)).sum
          + ((dls.take k).map (dtu.convert ftu)).sum) := by
  obtain ⟨route, h1, h2, hacc⟩ := dijkstra_route_links c hadj hwf hts hrun
  obtain ⟨f, times, dls, hf, ht, hd, htd, hdd, hsum⟩ :=
    RouteSums.route_time_is_sum_speed_turnDelay hacc ⟨hj, hk⟩ htrav hac
  exact ⟨route, f, times, dls, h1, h2, hf, ht, hd, htd, hdd, hsum⟩

/-! #### Edge-oriented queries (`search_algorithm::run_edge_oriented`)

By design the origin and the destination edge are reported with zero cost and unchanged state — the
origin element carries the initial state, the destination element the state of the last inner
element — and the accumulation runs over the edges between them: the inner route is the route of the
vertex-oriented search from the origin edge's head to the destination edge's tail, so everything above
applies to it.  The first inner element is traversed with *no* previous edge and the destination
element is not traversed at all: neither the turn from the origin edge onto the route nor the turn
from the route onto the destination edge is charged a delay (nor checked against a restriction — the
recorded C04 finding).  When the destination edge starts where the origin edge ends no search is run
and both edges are really traversed (`forward_traversal`, whatever the direction), the second after
the first: the accumulation then runs over both, turn delay included. -/

/-- **edge-oriented, origin and destination edges not adjacent** (Dijkstra; any traversal, access,
cost and frontier model, units, forward or reverse): the returned route is `origin :: inner ++ [dest]`;
`origin` carries the origin edge, zero access and traversal cost and the declared initial state; `dest`
carries the destination edge, zero costs and the state of the last inner element; the inner elements
satisfy the link relation (each is the traversal of its edge from its predecessor's reported state
and edge, the first from the initial state with no previous edge); the route summary is the inner
route's summary. -/
theorem dijkstra_edge_oriented_route_accumulates (c : Config α) (hadj : c.AdjConsistent)
    (hwf : c.wf = some 0) (source tgt : Nat) (sched : List Nat) (r : AlgResult α)
    (e1 e2 : EdgeRec α) (h1 : c.edges[source]? = some e1) (h2 : c.edges[tgt]? = some e2)
    (hne : source ≠ tgt) (hnadj : e1.dst ≠ e2.src)
    (hrun : c.runEdge source (some tgt) sched = .ok r) :
    ∃ (inner : List (Branch α)) (last origin dest : Branch α),
      r.routes = [origin :: inner ++ [dest]] ∧ inner ≠ [] ∧ inner.getLast? = some last ∧
      origin.edge = source ∧ origin.access = 0 ∧ origin.traversal = 0 ∧
      origin.state = initialState c.feats ∧
      dest.edge = tgt ∧ dest.access = 0 ∧ dest.traversal = 0 ∧ dest.state = last.state ∧
      RouteSums.Accumulates c inner ∧
      RouteSums.routeSummary (origin :: inner ++ [dest]) = RouteSums.routeSummary inner := by
  obtain ⟨res, inner, last, hres, hinner, hlast, _, _, hroutes⟩ :=
    SearchRoute.runEdge_nonadjacent c source tgt sched r e1 e2 h1 h2 hne hnadj hrun
  have hts : e2.src ≠ e1.dst := fun h => hnadj h.symm
  obtain ⟨route, hr, hnil, hacc⟩ := dijkstra_route_links c hadj hwf hts hres
  rw [hinner] at hr
  cases hr
  refine ⟨inner, last, SearchRoute.originBranch c source e1, SearchRoute.destBranch tgt e2 last.state,
    hroutes, hnil, hlast, rfl, zero_eq, zero_eq, rfl, rfl, zero_eq, zero_eq, rfl, hacc, ?_⟩
  have hl : (SearchRoute.originBranch c source e1 :: inner
      ++ [SearchRoute.destBranch tgt e2 last.state]).getLast?
      = some (SearchRoute.destBranch tgt e2 last.state) := by
    rw [show SearchRoute.originBranch c source e1 :: inner
        ++ [SearchRoute.destBranch tgt e2 last.state]
      = (SearchRoute.originBranch c source e1 :: inner)
        ++ [SearchRoute.destBranch tgt e2 last.state] from rfl]
    exact List.getLast?_concat
  simp only [RouteSums.routeSummary, hl, hlast, Option.map_some]
  rfl

/-- … hence the closed forms: the summary of an edge-oriented route is the declared initial value
plus the sums over the *inner* edges — lengths, traversal times, and the delays of the turns between
consecutive inner edges; the origin and destination edges and the two seam turns contribute nothing -/
theorem dijkstra_edge_oriented_route_summary (c : Config α) (hadj : c.AdjConsistent)
    (hwf : c.wf = some 0) (source tgt : Nat) (sched : List Nat) (r : AlgResult α)
    (e1 e2 : EdgeRec α) (h1 : c.edges[source]? = some e1) (h2 : c.edges[tgt]? = some e2)
    (hne : source ≠ tgt) (hnadj : e1.dst ≠ e2.src)
    (hrun : c.runEdge source (some tgt) sched = .ok r)
    {i : Nat} {fu : DistanceUnit} (hi : featIndex c.feats "distance" = some i)
    (hik : (c.feats[i]?).map (·.kind) = some (FeatKind.dist fu))
    {j : Nat} {ftu : TimeUnit} (hj : featIndex c.feats "time" = some j)
    (hjk : (c.feats[j]?).map (·.kind) = some (FeatKind.time ftu)) :
    ∃ (route inner : List (Branch α)) (s : List α) (fd ft : Feat α), r.routes = [route] ∧
      route.map (·.edge) = source :: inner.map (·.edge) ++ [tgt] ∧
      RouteSums.routeSummary route = some s ∧ c.feats[i]? = some fd ∧ c.feats[j]? = some ft ∧
      s[i]? = some (fd.init + ((inner.map (·.edge)).map (RouteSums.distTerm c.trav c.edges fu)).sum) ∧
      s[j]? = some (ft.init + ((inner.map (·.edge)).map (RouteSums.timeTerm c.trav c.edges ftu)).sum
            + ((RouteSums.pairs (inner.map (·.edge))).map
                (fun p => RouteSums.turnDelayTerm c ftu p.1 p.2)).sum) ∧
      ∀ l, featIndex c.feats "distance" ≠ some l → featIndex c.feats "time" ≠ some l →
        s[l]? = (c.feats[l]?).map (·.init) := by
  obtain ⟨inner, last, origin, dest, hroutes, hnil, _, ho, _, _, _, hd, _, _, _, hacc, hsum⟩ :=
    dijkstra_edge_oriented_route_accumulates c hadj hwf source tgt sched r e1 e2 h1 h2 hne hnadj hrun
  obtain ⟨s, fd, ft, hs, hfd, hft, hdist, htime, hother⟩ :=
    RouteSums.summary_closed_form hacc hnil ⟨hi, hik⟩ ⟨hj, hjk⟩
  refine ⟨_, inner, s, fd, ft, hroutes, ?_, by rw [hsum]; exact hs, hfd, hft, hdist, htime, hother⟩
  simp [ho, hd]

/-- **edge-oriented monotonicity** (origin and destination edges not adjacent; Dijkstra; premises
`hlen`, `hdel` as in `dijkstra_route_monotone`): along the inner elements of the route
`origin :: inner ++ [dest]` distance and time never decrease — from the declared initial state (which
`origin` carries) to the first inner element, and from one inner element to the next; `dest` repeats
the state of the last inner element (`dijkstra_edge_oriented_route_accumulates`), so the whole reported
route is monotone.  (Adjacent edges: the two-element route of `edge_oriented_adjacent_route_accumulates`
satisfies the link relation, so `RouteSums.route_monotone` applies to it in the same way.) -/
theorem dijkstra_edge_oriented_route_monotone (c : Config α) (hadj : c.AdjConsistent)
    (hwf : c.wf = some 0) (source tgt : Nat) (sched : List Nat) (r : AlgResult α)
    (e1 e2 : EdgeRec α) (h1 : c.edges[source]? = some e1) (h2 : c.edges[tgt]? = some e2)
    (hne : source ≠ tgt) (hnadj : e1.dst ≠ e2.src)
    (hrun : c.runEdge source (some tgt) sched = .ok r)
    {i : Nat} {fu : DistanceUnit} (hi : featIndex c.feats "distance" = some i)
    (hik : (c.feats[i]?).map (·.kind) = some (FeatKind.dist fu))
    {j : Nat} {ftu : TimeUnit} (hj : featIndex c.feats "time" = some j)
    (hjk : (c.feats[j]?).map (·.kind) = some (FeatKind.time ftu))
    (hlen : ∀ er ∈ c.edges, 0 ≤ er.dist) (hdel : RouteSums.DelaysNonneg c.access) :
    ∃ (inner : List (Branch α)) (origin dest : Branch α), r.routes = [origin :: inner ++ [dest]] ∧
      (∀ (hr : 0 < inner.length),
        (∀ x y, (initialState c.feats)[i]? = some x → inner[0].state[i]? = some y → x ≤ y) ∧
        (∀ x y, (initialState c.feats)[j]? = some x → inner[0].state[j]? = some y → x ≤ y)) ∧
      ∀ k (hk : k + 1 < inner.length),
        (∀ x y, inner[k].state[i]? = some x → inner[k + 1].state[i]? = some y → x ≤ y) ∧
        (∀ x y, inner[k].state[j]? = some x → inner[k + 1].state[j]? = some y → x ≤ y) := by
  obtain ⟨inner, last, origin, dest, hroutes, _, _, _, _, _, _, _, _, _, _, hacc, _⟩ :=
    dijkstra_edge_oriented_route_accumulates c hadj hwf source tgt sched r e1 e2 h1 h2 hne hnadj hrun
  exact ⟨inner, origin, dest, hroutes,
    fun hr => ⟨(RouteSums.route_distance_monotone hacc ⟨hi, hik⟩ hlen).1 hr,
      (RouteSums.route_time_monotone hacc ⟨hj, hjk⟩ hdel).1 hr⟩,
    RouteSums.route_monotone hacc ⟨hi, hik⟩ ⟨hj, hjk⟩ hlen hdel⟩

/-- **edge-oriented, adjacent edges** (`e1.dst = e2.src`; any algorithm and direction): the route is
the two edges, both really traversed in travel order — the origin edge from the declared initial state
with no previous edge, the destination edge from the origin edge's state with the origin edge as
previous edge — so the link relation holds of the whole route for the forward configuration, and the
summary is the closed form over both edges, the delay of the turn between them included -/
theorem edge_oriented_adjacent_route_accumulates (c : Config α)
    (source tgt : Nat) (sched : List Nat) (r : AlgResult α)
    (e1 e2 : EdgeRec α) (h1 : c.edges[source]? = some e1) (h2 : c.edges[tgt]? = some e2)
    (hne : source ≠ tgt) (hadj : e1.dst = e2.src)
    (hrun : c.runEdge source (some tgt) sched = .ok r) :
    ∃ b1 b2 : Branch α, r.routes = [[b1, b2]] ∧ b1.edge = source ∧ b2.edge = tgt ∧
      RouteSums.Accumulates ({ c with reverse := false } : Config α) [b1, b2] ∧
      RouteSums.routeSummary [b1, b2] = some b2.state := by
  obtain ⟨ac1, tc1, st1, ac2, tc2, st2, ht1, ht2, hroutes, _, _⟩ :=
    SearchRoute.runEdge_adjacent c source tgt sched r e1 e2 h1 h2 hne hadj hrun
  exact ⟨_, _, hroutes, rfl, rfl, ⟨ht1, ht2, trivial⟩, rfl⟩

/-- … with the sums written out -/
theorem edge_oriented_adjacent_route_summary (c : Config α)
    (source tgt : Nat) (sched : List Nat) (r : AlgResult α)
    (e1 e2 : EdgeRec α) (h1 : c.edges[source]? = some e1) (h2 : c.edges[tgt]? = some e2)
    (hne : source ≠ tgt) (hadj : e1.dst = e2.src)
    (hrun : c.runEdge source (some tgt) sched = .ok r)
    {i : Nat} {fu : DistanceUnit} (hi : featIndex c.feats "distance" = some i)
    (hik : (c.feats[i]?).map (·.kind) = some (FeatKind.dist fu))
    {j : Nat} {ftu : TimeUnit} (hj : featIndex c.feats "time" = some j)
    (hjk : (c.feats[j]?).map (·.kind) = some (FeatKind.time ftu)) :
    ∃ (route : List (Branch α)) (s : List α) (fd ft : Feat α), r.routes = [route] ∧
      route.map (·.edge) = [source, tgt] ∧
      RouteSums.routeSummary route = some s ∧ c.feats[i]? = some fd ∧ c.feats[j]? = some ft ∧
      s[i]? = some (fd.init + (RouteSums.distTerm c.trav c.edges fu source
                + (RouteSums.distTerm c.trav c.edges fu tgt + 0))) ∧
      s[j]? = some (ft.init + (RouteSums.timeTerm c.trav c.edges ftu source
                + (RouteSums.timeTerm c.trav c.edges ftu tgt + 0))
            + (RouteSums.turnDelayTerm ({ c with reverse := false } : Config α) ftu source tgt + 0)) := by
  obtain ⟨b1, b2, hroutes, hb1, hb2, hacc, _⟩ :=
    edge_oriented_adjacent_route_accumulates c source tgt sched r e1 e2 h1 h2 hne hadj hrun
  obtain ⟨s, fd, ft, hs, hfd, hft, hdist, htime, _⟩ :=
    RouteSums.summary_closed_form (c := ({ c with reverse := false } : Config α)) hacc (by simp)
      ⟨hi, hik⟩ ⟨hj, hjk⟩
  refine ⟨_, s, fd, ft, hroutes, by simp [hb1, hb2], hs, hfd, hft, ?_, ?_⟩
  · simpa [hb1, hb2] using hdist
  · simpa [hb1, hb2, RouteSums.pairs] using htime



/-! ### The stale-link counterexample (recorded finding `route/stale-link-after-reopening`)

The 5-vertex witness of harness/src/searchprops.rs `stale_link_witness(false)`, over ℚ: vertices
s=0, w=1, u=2, v=3, t=4; great-circle distances to t (data) 7000, 6000, 5000, 5200, 0; edge lengths
far below them, so the A* estimate (weight factor 1) is inconsistent for this network; a 2000 s delay
on the right turn (w→u, u→v).  Schedule: s, u, w, u again (re-opened), v, t. -/

def staleConfig : Config ℚ where
  nV := 5
  edges := [⟨0, 2, 1000⟩, ⟨0, 1, 100⟩, ⟨1, 2, 100⟩, ⟨2, 3, 100⟩, ⟨3, 4, 100⟩]
  outAdj := [[0, 1], [2], [3], [4], []]
  inAdj := [[], [1], [0, 2], [3], [4]]
  feats := [{ name := "distance", kind := .dist .meters, init := 0 },
            { name := "time", kind := .time .seconds, init := 0 }]
  trav := .distance .meters
  access := .turnDelay .seconds [(90, some 90), (0, some 0), (0, some 0), (90, some 90), (90, some 90)]
    [some 0, some 0, some 0, some 2000, some 0, some 0, some 0, some 0]
  cost := { indices := [0, 1], weights := [1, 1], vehicleRates := [.raw, .raw],
            networkRates := [.zero, .zero], agg := .sum }
  frontier := []
  term := .combined []
  reverse := false
  gc := [7000, 6000, 5000, 5200, 0]
  wf := some 1

/-- (edge, reported state) along the route of a result -/
def routeStatesOf (r : Except ErrKind (AlgResult ℚ)) : Option (List (List (Nat × List ℚ))) :=
  match r with
  | .ok res => some (res.routes.map (·.map (fun b => (b.edge, b.state))))
  | .error _ => none

/-- A* returns the route s→w→u→v→t whose third element reports distance 1100 and time 0 … -/
theorem stale_link_counterexample :
    routeStatesOf (staleConfig.runVertex 0 (some 4) [0, 2, 1, 2, 3, 4]) =
      some [[(1, [100, 0]), (2, [200, 0]), (3, [1100, 0]), (4, [1200, 0])]] := by
  decide +kernel

/-- … although traversing edge 3 (u→v) after edge 2 (w→u) from the state the route reports there
accumulates to distance 300 and time 2000: the reported state is not the route's accumulation. -/
theorem stale_link_true_accumulation :
    (edgeTraversal staleConfig 3 (some 2) [200, 0]).toOption.map (·.2.2) = some [300, 2000] := by
  decide +kernel

/-- The same configuration under Dijkstra (weight factor 0) returns a route whose states accumulate
(an instance of `route_accumulates_partial`): s→w→u→v→t, the turn delay charged on u→v. -/
theorem stale_link_absent_under_dijkstra :
    routeStatesOf (({ staleConfig with wf := some 0 } : Config ℚ).runVertex 0 (some 4) [0, 1, 2, 3, 4]) =
      some [[(1, [100, 0]), (2, [200, 0]), (3, [300, 2000]), (4, [400, 2000])]] := by
  decide +kernel

/-- `dijkstraConfig` with a delay of −50 s on the right turn, assembled in code (the application's
builder refuses this table) -/
def negativeDelayConfig : Config ℚ := { staleConfig with
  wf := some 0
  access := .turnDelay .seconds [(90, some 90), (0, some 0), (0, some 0), (90, some 90), (90, some 90)]
    [some 0, some 0, some 0, some (-50), some 0, some 0, some 0, some 0] }

/-- why `dijkstra_route_monotone` assumes non-negative delays: with a negative delay in the table the
Dijkstra route s→w→u→v→t reports time 0, 0, −50, −50 — the time decreases at the turn onto u→v
(the states still accumulate: `route_accumulates_partial` needs no such premise) -/
theorem route_monotone_negative_delay_counterexample :
    routeStatesOf (negativeDelayConfig.runVertex 0 (some 4) [0, 1, 2, 3, 4]) =
      some [[(1, [100, 0]), (2, [200, 0]), (3, [300, -50]), (4, [400, -50])]] ∧
    ¬ RouteSums.DelaysNonneg negativeDelayConfig.access := by
  refine ⟨by decide +kernel, ?_⟩
  intro h
  have := h (-50) (by simp [negativeDelayConfig])
  norm_num at this

/-! ### Non-vacuity -/
example : addDistance [⟨"distance", .dist .meters, (0 : ℚ)⟩] [5] "distance" 2 .meters = some [7] := by
  decide +kernel
example : bearing (10, some 10) (350, none) = -20 := by decide
example : bearing (350, none) (10, none) = 20 := by decide

/-- `staleConfig` run as Dijkstra (`weight_factor = 0`) -/
def dijkstraConfig : Config ℚ := { staleConfig with wf := some 0 }

theorem dijkstraConfig_adj : dijkstraConfig.AdjConsistent := by
  intro v e he
  match v with
  | 0 => simp [Config.inst, dijkstraConfig, staleConfig] at he; rcases he with rfl | rfl <;> rfl
  | 1 => simp [Config.inst, dijkstraConfig, staleConfig] at he; subst he; rfl
  | 2 => simp [Config.inst, dijkstraConfig, staleConfig] at he; subst he; rfl
  | 3 => simp [Config.inst, dijkstraConfig, staleConfig] at he; subst he; rfl
  | 4 => simp [Config.inst, dijkstraConfig, staleConfig] at he
  | n + 5 => simp [Config.inst, dijkstraConfig, staleConfig] at he

/-- the two data premises of the monotonicity theorems hold of `dijkstraConfig` -/
theorem dijkstraConfig_lengths_nonneg : ∀ er ∈ dijkstraConfig.edges, (0 : ℚ) ≤ er.dist := by
  intro er her
  simp only [dijkstraConfig, staleConfig, List.mem_cons, List.not_mem_nil, or_false] at her
  rcases her with rfl | rfl | rfl | rfl | rfl <;> norm_num

theorem dijkstraConfig_delays_nonneg : RouteSums.DelaysNonneg dijkstraConfig.access := by
  intro d hd
  have hd' : d = 0 ∨ d = 2000 ∨ d = 0 := by simpa [dijkstraConfig, staleConfig] using hd
  rcases hd' with rfl | rfl | rfl <;> norm_num

/-- `dijkstraConfig` with the edge w→u of length −50 m (the edge loader reads lengths as they stand) -/
def negLenConfig : Config ℚ := { dijkstraConfig with
  edges := [⟨0, 2, 1000⟩, ⟨0, 1, 100⟩, ⟨1, 2, -50⟩, ⟨2, 3, 100⟩, ⟨3, 4, 100⟩] }

/-- why the monotonicity theorems assume non-negative edge lengths (`hlen`): with one edge of length
−50 m the Dijkstra route s→w→u→v→t reports distance 100, 50, 150, 250 — the distance decreases on the
second edge -/
theorem route_monotone_negative_length_counterexample :
    routeStatesOf (negLenConfig.runVertex 0 (some 4) [0, 1, 2, 3, 4]) =
      some [[(1, [100, 0]), (2, [50, 0]), (3, [150, 2000]), (4, [250, 2000])]] ∧
    ¬ (∀ er ∈ negLenConfig.edges, (0 : ℚ) ≤ er.dist) := by
  refine ⟨by decide +kernel, ?_⟩
  intro h
  have := h ⟨1, 2, -50⟩ (by simp [negLenConfig, dijkstraConfig, staleConfig])
  norm_num at this

/-- the closed forms on the Dijkstra route s→w→u→v→t of `dijkstraConfig` (edges 1, 2, 3, 4; a 2000 s
delay for the right turn onto the third edge): the hypotheses of the route-level theorems are met,
the link relation holds, the summary is distance 400 and time 2000, and that is what the closed
forms evaluate to — four lengths of 100 m, no traversal time under the distance model, and the one
non-zero delay counted once. -/
example : ∃ res route, runVertexOriented dijkstraConfig.inst 0 (some 4) [0, 1, 2, 3, 4] = .ok res ∧
    res.route = some route ∧ route.map (·.edge) = [1, 2, 3, 4] ∧
    RouteSums.Accumulates dijkstraConfig route ∧
    RouteSums.routeSummary route = some [400, 2000] ∧
    (0 : ℚ) + (([1, 2, 3, 4] : List Nat).map
      (RouteSums.distTerm dijkstraConfig.trav dijkstraConfig.edges .meters)).sum = 400 ∧
    (0 : ℚ) + (([1, 2, 3, 4] : List Nat).map
      (RouteSums.timeTerm dijkstraConfig.trav dijkstraConfig.edges .seconds)).sum +
      ((RouteSums.pairs [1, 2, 3, 4]).map
        (fun p => RouteSums.turnDelayTerm dijkstraConfig .seconds p.1 p.2)).sum = 2000 := by
  have hadj : dijkstraConfig.AdjConsistent := dijkstraConfig_adj
  have hstates : routeStatesOf (dijkstraConfig.runVertex 0 (some 4) [0, 1, 2, 3, 4]) =
      some [[(1, [100, 0]), (2, [200, 0]), (3, [300, 2000]), (4, [400, 2000])]] := by
    decide +kernel
  cases hrun : runVertexOriented dijkstraConfig.inst 0 (some 4) [0, 1, 2, 3, 4] with
  | error k => simp [Config.runVertex, hrun, routeStatesOf] at hstates
  | ok res =>
    obtain ⟨route, hr, _, hacc⟩ := dijkstra_route_links dijkstraConfig hadj rfl (by decide) hrun
    simp only [Config.runVertex, hrun, hr, routeStatesOf, List.map_cons, List.map_nil,
      Option.some.injEq, List.cons.injEq, and_true] at hstates
    refine ⟨res, route, rfl, hr, ?_, hacc, ?_, by decide +kernel, by decide +kernel⟩
    · have := congrArg (List.map Prod.fst) hstates
      simpa [List.map_map, Function.comp_def] using this
    · have h1 : RouteSums.routeSummary route =
          ((route.map (fun b => (b.edge, b.state))).getLast?).map (·.2) := by
        simp [RouteSums.routeSummary, List.getLast?_map, Function.comp_def]
      rw [h1, hstates]
      rfl

/-- edge-oriented on `dijkstraConfig`: origin edge 1 (s→w), destination edge 4 (v→t); the inner route
is w→u→v (edges 2, 3) with the 2000 s right turn between them; the origin and destination elements
repeat the initial state and the last inner state, and the summary is the inner route's: distance 200,
time 2000 — the lengths of edges 1 and 4 and the two seam turns are not in it -/
example : routeStatesOf (dijkstraConfig.runEdge 1 (some 4) [1, 2, 3]) =
    some [[(1, [0, 0]), (2, [100, 0]), (3, [200, 2000]), (4, [200, 2000])]] := by decide +kernel

/-- adjacent edges on `dijkstraConfig`: origin edge 2 (w→u), destination edge 3 (u→v): both traversed,
the turn delay between them charged -/
example : routeStatesOf (dijkstraConfig.runEdge 2 (some 3) []) =
    some [[(2, [100, 0]), (3, [200, 2000])]] := by decide +kernel

/-- `dijkstra_edge_oriented_route_monotone` on that query: its premises are met by `dijkstraConfig`
(non-negative lengths and delays), and the inner route w→u→v is monotone in both slots -/
example : ∃ r inner origin dest, dijkstraConfig.runEdge 1 (some 4) [1, 2, 3] = .ok r ∧
    r.routes = [origin :: inner ++ [dest]] ∧
    ∀ k (hk : k + 1 < inner.length),
      (∀ x y, inner[k].state[0]? = some x → inner[k + 1].state[0]? = some y → x ≤ y) ∧
      (∀ x y, inner[k].state[1]? = some x → inner[k + 1].state[1]? = some y → x ≤ y) := by
  have hstates : routeStatesOf (dijkstraConfig.runEdge 1 (some 4) [1, 2, 3]) =
      some [[(1, [0, 0]), (2, [100, 0]), (3, [200, 2000]), (4, [200, 2000])]] := by decide +kernel
  cases hrun : dijkstraConfig.runEdge 1 (some 4) [1, 2, 3] with
  | error k => simp [hrun, routeStatesOf] at hstates
  | ok r =>
    obtain ⟨inner, origin, dest, hroutes, _, hmono⟩ :=
      dijkstra_edge_oriented_route_monotone dijkstraConfig dijkstraConfig_adj rfl 1 4 [1, 2, 3] r
        ⟨0, 1, 100⟩ ⟨3, 4, 100⟩ rfl rfl (by decide) (by decide) hrun
        (i := 0) (fu := .meters) (by decide) rfl (j := 1) (ftu := .seconds) (by decide) rfl
        dijkstraConfig_lengths_nonneg dijkstraConfig_delays_nonneg
    exact ⟨r, inner, origin, dest, rfl, hroutes, hmono⟩

/-- a state model with a distance feature only (no "time" feature, no access model): outside
`dijkstra_route_monotone`, inside `dijkstra_route_distance_monotone` -/
def distanceOnlyConfig : Config ℚ := { dijkstraConfig with
  feats := [{ name := "distance", kind := .dist .meters, init := 0 }]
  access := .noAccess
  cost := { indices := [0], weights := [1], vehicleRates := [.raw], networkRates := [.zero],
            agg := .sum } }

example : ∃ res route, runVertexOriented distanceOnlyConfig.inst 0 (some 4) [0, 1, 2, 3, 4] = .ok res ∧
    res.route = some route ∧ route ≠ [] ∧
    featIndex distanceOnlyConfig.feats "time" = none ∧
    ∀ k (hk : k + 1 < route.length) x y, route[k].state[0]? = some x →
      route[k + 1].state[0]? = some y → x ≤ y := by
  have hadj : distanceOnlyConfig.AdjConsistent := dijkstraConfig_adj
  have hstates : routeStatesOf (distanceOnlyConfig.runVertex 0 (some 4) [0, 1, 2, 3, 4]) =
      some [[(1, [100]), (2, [200]), (3, [300]), (4, [400])]] := by decide +kernel
  cases hrun : runVertexOriented distanceOnlyConfig.inst 0 (some 4) [0, 1, 2, 3, 4] with
  | error k => simp [Config.runVertex, hrun, routeStatesOf] at hstates
  | ok res =>
    obtain ⟨route, h1, h2, _, hmono⟩ :=
      dijkstra_route_distance_monotone distanceOnlyConfig hadj rfl (by decide) hrun
        (i := 0) (fu := .meters) (by decide) rfl dijkstraConfig_lengths_nonneg
    exact ⟨res, route, rfl, h1, h2, by decide, hmono⟩

/-! ### The route summary of the response (`construct_route_output`)

`construct_route_output` (`plugin/output/default/traversal/plugin.rs`) writes
`traversal_summary = state_model.serialize_state(&route.last().result_state)`: the state of the last
route element, named feature by feature.  C20's output model (`Model/Output.lean`) models the `path`
member and treats states as opaque payloads (its `constructRouteOutput` takes the same
`route.getLast?`); the `traversal_summary` member is modelled here, over C11's `serializeState`.
`RouteSums.routeSummary route = route.getLast?.map state` is therefore not only a definition: it is
the vector this member serialises (tie to the code: by reading, three lines; `serialize_state` itself
is tied by C11's correspondence run). -/

/-- the `traversal_summary` member of `construct_route_output`; `none`: the route is empty (an error
response, "cannot find result route state when route is empty") -/
def traversalSummary (m : StateModel α) (route : List (Branch α)) : Option (List (String × α)) :=
  route.getLast?.map (fun last => m.serializeState last.state)

/-- the reported summary is the serialisation of `routeSummary` — the state after the last edge
(this first conjunct holds **by construction of the model**: `traversalSummary` and `routeSummary` are
both defined through `route.getLast?`; its content is the reading of `construct_route_output` above) —
and, for a state model represented by the configuration's features, it pairs every feature's name with
that state's value in the feature's slot (hence with the closed forms of `dijkstra_route_summary` /
`dijkstra_edge_oriented_route_summary`) -/
theorem traversal_summary_is_state_after_last_edge (c : Config α) (m : StateModel α)
    (hm : StateRefine.Represents m c.feats) (route : List (Branch α)) :
    traversalSummary m route = (RouteSums.routeSummary route).map m.serializeState ∧
    ∀ s, RouteSums.routeSummary route = some s →
      traversalSummary m route = some ((c.feats.map (·.name)).zip s) ∧
      ∀ (i : Nat) (f : Feat α) (x : α), c.feats[i]? = some f → s[i]? = some x →
        (f.name, x) ∈ (c.feats.map (·.name)).zip s := by
  have hser : ∀ s : List α, m.serializeState s = (c.feats.map (·.name)).zip s := by
    intro s
    unfold StateModel.serializeState
    rw [StateModel.iter_eq hm.1, hm.2, ← StateRefine.toEntries_keys, List.zip_map_left]
    apply List.map_congr_left
    intro p _
    rfl
  refine ⟨by simp [traversalSummary, RouteSums.routeSummary, Option.map_map, Function.comp_def], ?_⟩
  intro s hs
  refine ⟨?_, ?_⟩
  · have : traversalSummary m route = (RouteSums.routeSummary route).map m.serializeState := by
      simp [traversalSummary, RouteSums.routeSummary, Option.map_map, Function.comp_def]
    rw [this, hs, Option.map_some, hser]
  · intro i f x hf hx
    rw [List.mem_iff_getElem?]
    refine ⟨i, ?_⟩
    rw [List.getElem?_zip_eq_some]
    exact ⟨by simp [hf], hx⟩

/-! ### The same statements over the full state model (`Model/StateModel.lean`, property C11)

`Proofs/StateRefine.lean`: the state layer these theorems run over (`featIndex`, `initialState`,
`addDistance`, `addTime` on the feature list) is `StateModel` of `Model/StateModel.lean` whenever the
feature names are pairwise distinct (`StateRefine.Represents m c.feats`, which holds for
`StateModel::new` and `StateModel::empty().extend(..)` of the features).  So the hypotheses about the
distance / time slot are `get_index` / `get_feature` facts of that state model, and the conclusion is
about `get_distance` / `get_time` of the reported state vectors. -/

/-- `dijkstra_route_distance_is_sum` through the state model: `get_distance` of the state reported at
route element `k`, in the feature's unit, is the feature's declared initial value plus the lengths of
the first `k + 1` edges -/
theorem dijkstra_route_distance_is_sum_state_model (c : Config α) (hadj : c.AdjConsistent)
    (hwf : c.wf = some 0) {source t : Nat} {sched : List Nat} {res : SearchResult α} (hts : t ≠ source)
    (hrun : runVertexOriented c.inst source (some t) sched = .ok res)
    (m : StateModel α) (hm : StateRefine.Represents m c.feats)
    {i : Nat} {fu : DistanceUnit} {init : α} (hi : m.getIndex "distance" = some i)
    (hf : m.getFeature "distance" = .ok (.distance fu init)) :
    ∃ route, res.route = some route ∧ route ≠ [] ∧
      ∀ k (hk : k < route.length),
        m.getDistance route[k].state "distance" fu = .ok (init +
          ((RouteSums.prefixEdges route k).map (RouteSums.distTerm c.trav c.edges fu)).sum) := by
  obtain ⟨f, hi', hf', hk', hinit⟩ := StateRefine.distSlot_of_feature hm hi hf
  have hkind : (c.feats[i]?).map (·.kind) = some (FeatKind.dist fu) := by simp [hf', hk']
  obtain ⟨route, f₂, h1, h2, hf₂, _, hsum⟩ :=
    dijkstra_route_distance_is_sum c hadj hwf hts hrun hi' hkind
  rw [hf'] at hf₂
  simp only [Option.some.injEq] at hf₂
  subst hf₂
  refine ⟨route, h1, h2, fun k hk => ?_⟩
  rw [StateRefine.getDistance_slot hm hi' hkind, hsum k hk, hinit]
  simp only [C09.distance_convert_id]

/-- `dijkstra_route_time_is_sum` through the state model -/
theorem dijkstra_route_time_is_sum_state_model (c : Config α) (hadj : c.AdjConsistent)
    (hwf : c.wf = some 0) {source t : Nat} {sched : List Nat} {res : SearchResult α} (hts : t ≠ source)
    (hrun : runVertexOriented c.inst source (some t) sched = .ok res)
    (m : StateModel α) (hm : StateRefine.Represents m c.feats)
    {j : Nat} {ftu : TimeUnit} {init : α} (hj : m.getIndex "time" = some j)
    (hf : m.getFeature "time" = .ok (.time ftu init)) :
    ∃ route, res.route = some route ∧ route ≠ [] ∧
      ∀ k (hk : k < route.length),
        m.getTime route[k].state "time" ftu = .ok (init +
          ((RouteSums.prefixEdges route k).map (RouteSums.timeTerm c.trav c.edges ftu)).sum +
          ((RouteSums.pairs (RouteSums.prefixEdges route k)).map
            (fun p => RouteSums.turnDelayTerm c ftu p.1 p.2)).sum) := by
  obtain ⟨f, hj', hf', hk', hinit⟩ := StateRefine.timeSlot_of_feature hm hj hf
  have hkind : (c.feats[j]?).map (·.kind) = some (FeatKind.time ftu) := by simp [hf', hk']
  obtain ⟨route, f₂, h1, h2, hf₂, hsum⟩ := dijkstra_route_time_is_sum c hadj hwf hts hrun hj' hkind
  rw [hf'] at hf₂
  simp only [Option.some.injEq] at hf₂
  subst hf₂
  refine ⟨route, h1, h2, fun k hk => ?_⟩
  rw [StateRefine.getTime_slot hm hj' hkind, hsum k hk, hinit]
  simp only [C09.time_convert_id]

/-- the link relation itself through the state model: every element of the Dijkstra route is one
`EdgeTraversal` step written against the `StateModel` API (`StateRefine.edgeTraversalSM`:
`state_model.add_distance / add_time`) from its predecessor, the first from
`state_model.initial_state()` -/
theorem dijkstra_route_accumulates_state_model [IntCodec α] (c : Config α)
    (hadj : c.AdjConsistent) (hwf : c.wf = some 0)
    {source t : Nat} {sched : List Nat} {res : SearchResult α} (hts : t ≠ source)
    (hrun : runVertexOriented c.inst source (some t) sched = .ok res)
    (m : StateModel α) (hm : StateRefine.Represents m c.feats) :
    ∃ route s0, res.route = some route ∧ route ≠ [] ∧ m.initialState = .ok s0 ∧
      (∀ b, route.head? = some b →
        StateRefine.edgeTraversalSM c m b.edge none s0 = .ok (b.access, b.traversal, b.state)) ∧
      ∀ i (hi : i + 1 < route.length),
        StateRefine.edgeTraversalSM c m route[i + 1].edge (some route[i].edge) route[i].state =
          .ok (route[i + 1].access, route[i + 1].traversal, route[i + 1].state) := by
  obtain ⟨route, h1, h2, h3, h4⟩ := route_accumulates_partial c hadj hwf hts hrun
  refine ⟨route, initialState c.feats, h1, h2, StateRefine.initialState_eq hm, ?_, ?_⟩
  · intro b hb
    rw [← StateRefine.edgeTraversal_eq hm]
    exact h3 b hb
  · intro i hi
    rw [← StateRefine.edgeTraversal_eq hm]
    exact h4 i hi

/-- non-vacuity: the hypotheses of the three theorems are met by `dijkstraConfig` with
`StateModel::new` of its features — distinct names, the distance feature in slot 0 (metres), the time
feature in slot 1 (seconds) — and `get_distance` / `get_time` of the reported summary `[400, 2000]`
return the closed forms evaluated in the example above -/
example : StateRefine.Represents (StateRefine.toStateModel dijkstraConfig.feats) dijkstraConfig.feats ∧
    (StateRefine.toStateModel dijkstraConfig.feats).getIndex "distance" = some 0 ∧
    (StateRefine.toStateModel dijkstraConfig.feats).getFeature "distance" = .ok (.distance .meters 0) ∧
    (StateRefine.toStateModel dijkstraConfig.feats).getIndex "time" = some 1 ∧
    (StateRefine.toStateModel dijkstraConfig.feats).getFeature "time" = .ok (.time .seconds 0) ∧
    (StateRefine.toStateModel dijkstraConfig.feats).getDistance [400, 2000] "distance" .meters = .ok 400 ∧
    (StateRefine.toStateModel dijkstraConfig.feats).getTime [400, 2000] "time" .seconds = .ok 2000 :=
  ⟨StateRefine.represents_new _ (by decide), by decide +kernel, rfl, by decide +kernel,
    rfl, by decide +kernel, by decide +kernel⟩

/-! ### The tables the sums run over are the files' rows

The time of an edge is its length over *its* table speed, the delay of a turn is looked up from
*these* two edges' headings and *this* class's delay: the loaders (`SpeedTraversalEngine::new`,
`TurnDelayAccessModelBuilder::build`) must hand the search exactly what the files and the
configuration say, entry `e` = row `e`, in the units given (or the defaults), or refuse. -/

open Build

/-- the loaded speed table is the file, line for line: as many entries as lines, entry `e` is the
number on line `e`, and the units are the ones given, metres / seconds when left out -/
theorem speed_table_is_the_file (rows : List (NumRow α)) (su : SpeedUnit) (duOpt : Option DistanceUnit)
    (tuOpt : Option TimeUnit) (e : SpeedEngine α) (h : speedEngineNew (some rows) su duOpt tuOpt = .ok e) :
    e.table.length = rows.length ∧ (∀ (i : Nat) (x : α), e.table[i]? = some x ↔ rows[i]? = some (NumRow.val x)) ∧
      e.speedUnit = su ∧ e.timeUnit = tuOpt.getD baseTimeUnit ∧ e.distanceUnit = duOpt.getD baseDistanceUnit ∧
      baseTimeUnit = .seconds ∧ baseDistanceUnit = .meters := by
  obtain ⟨rows', hr, hrows, _, h1, h2, h3⟩ := (speedEngineNew_ok_iff _ su duOpt tuOpt e).1 h
  injection hr with hr; subst hr
  refine ⟨allSome_length hrows, fun i x => ⟨?_, ?_⟩, h1, h2, h3, rfl, rfl⟩
  · intro hx
    obtain ⟨r, hr, hp⟩ := (allSome_getElem? hrows i).2 x hx
    rw [hr, ((parseSpeed_iff r x).1 hp).1]
  · intro hx
    obtain ⟨y, hp, hy⟩ := (allSome_getElem? hrows i).1 _ hx
    have := ((parseSpeed_iff _ y).1 hp).1
    injection this with this
    rw [hy, this]

/-- the model over the engine traverses edge `e` with the speed of line `e` (`TravModel.speed` over
the loaded table) and estimates with the loaded maximum -/
theorem speed_engine_model (e : SpeedEngine α) :
    e.model = .speed e.speedUnit e.distanceUnit e.timeUnit e.maxSpeed e.table := rfl

/-- the loaded headings are the file, record for record; a record is `arrival_heading` (an `i16`)
and `departure_heading` (an `i16` or empty = same as the arrival heading) -/
theorem headings_are_the_file (lines : List HeadLine) (hs : List (Int × Option Int))
    (h : loadHeadings true lines = some hs) :
    hs.length = lines.length ∧
      ∀ (i : Nat) (a : Int) (d : Option Int), hs[i]? = some (a, d) ↔
        ∃ dc : IntCell, lines[i]? = some (HeadLine.row (IntCell.int a) dc) ∧ (-32768 ≤ a ∧ a ≤ 32767) ∧
          ((dc = IntCell.empty ∧ d = none) ∨
            ∃ dv : Int, dc = IntCell.int dv ∧ (-32768 ≤ dv ∧ dv ≤ 32767) ∧ d = some dv) := by
  unfold loadHeadings at h
  split at h
  · injection h with h; subst h
    rename_i hl
    have : lines = [] := by simpa using hl
    subst this
    simp
  · simp only [Bool.not_true, Bool.false_eq_true, ↓reduceIte] at h
    refine ⟨allSome_length h, fun i a d => ⟨?_, ?_⟩⟩
    · intro hx
      obtain ⟨l, hl, hp⟩ := (allSome_getElem? h i).2 _ hx
      obtain ⟨dc, rfl, h2⟩ := (parseHeading_iff l a d).1 hp
      exact ⟨dc, hl, h2⟩
    · rintro ⟨dc, hl, h2⟩
      obtain ⟨y, hp, hy⟩ := (allSome_getElem? h i).1 _ hl
      rw [hy, ← hp, (parseHeading_iff _ a d).2 ⟨dc, rfl, h2⟩]

/-- a headings file with a record that is short, has a cell that is no `i16` or an empty arrival
heading is refused, and so is any file with records whose header does not name the two columns -/
theorem headings_refused (lines : List HeadLine) :
    ((∃ l ∈ lines, parseHeading l = none) → loadHeadings true lines = none) ∧
    (lines ≠ [] → loadHeadings false lines = none) := by
  constructor
  · rintro ⟨l, hl, hp⟩
    unfold loadHeadings
    have hne : lines.isEmpty = false := by cases lines <;> simp_all
    simp only [hne, Bool.false_eq_true, ↓reduceIte, Bool.not_true]
    exact (allSome_none_iff _ _).2 ⟨l, hl, hp⟩
  · intro hne
    unfold loadHeadings
    have : lines.isEmpty = false := by cases lines <;> simp_all
    simp [this]

/-- the delay table handed to the access model has one slot per turn class; the slot of a class
holds the number the configuration gives under that class's name, and is empty exactly when the
configuration has no entry of that name (then taking such a turn is an access error, not a free turn) -/
theorem delay_table_is_the_configuration (dec : Nat → α) (kvs : List (String × Json)) (ds : List (Option α))
    (h : delayTableOfJson dec kvs = some ds) :
    ds.length = Turn.all.length ∧
    ∀ t : Turn,
      (∀ x, ds[t.toNat]? = some (some x) →
        ∃ kv ∈ kvs, kv.1 = t.name ∧ ∃ b, kv.2.asF64Bits? = some b ∧ x = dec b) ∧
      (ds[t.toNat]? = some none → ∀ kv ∈ kvs, kv.1 ≠ t.name) :=
  delayTable_spec dec kvs ds h

/-- what `TurnDelayAccessModelBuilder::build` hands over is the file's headings, the configured
table and unit, and the configured (or default `time`) feature name — nothing else is accepted; and
no delay of the table is negative (since /repo c0bacb8) -/
theorem turn_delay_builder_ok (dec : Nat → α) (cfg : Json) (headerOk : Bool) (file : Option (List HeadLine))
    (b : TurnDelayBuilt α) (h : turnDelayBuild dec cfg headerOk file = .ok b) :
    ∃ lines hs m tu ds, file = some lines ∧ loadHeadings headerOk lines = some hs ∧
      cfg.get? "turn_delay_model" = some m ∧ turnDelayModelOfJson dec m = some (tu, ds) ∧
      b.model = .turnDelay tu hs ds ∧ (∀ x, some x ∈ ds → 0 ≤ x) ∧
      ((cfg.get? "time_feature_name" = none ∧ b.featureName = "time") ∨
        cfg.get? "time_feature_name" = some (.str b.featureName)) := by
  unfold turnDelayBuild at h
  split at h
  · cases h
  · split at h
    · cases h
    · rename_i lines _
      split at h
      · cases h
      · rename_i hs hhs
        split at h
        · cases h
        · rename_i m hm
          split at h
          · cases h
          · rename_i tu ds htd
            split at h
            · cases h
            · rename_i hneg
              have hnn : ∀ x, some x ∈ ds → 0 ≤ x := by
                intro x hx
                by_contra hlt
                apply hneg
                unfold hasNegativeDelay
                rw [List.any_eq_true]
                exact ⟨some x, hx, by simpa [zero_eq] using hlt⟩
              split at h
              · rename_i hn
                injection h with h; subst h
                exact ⟨lines, hs, m, tu, ds, rfl, hhs, hm, htd, rfl, hnn, Or.inl ⟨hn, rfl⟩⟩
              · rename_i s hn
                injection h with h; subst h
                exact ⟨lines, hs, m, tu, ds, rfl, hhs, hm, htd, rfl, hnn, Or.inr hn⟩
              · cases h

/-- **every access model the builder returns has non-negative delays**: the premise
`RouteSums.DelaysNonneg` of `dijkstra_route_monotone` holds of it, so along every Dijkstra route of a
configuration built by the application time never decreases at a turn -/
theorem turn_delay_builder_delays_nonneg (dec : Nat → α) (cfg : Json) (headerOk : Bool)
    (file : Option (List HeadLine)) (b : TurnDelayBuilt α)
    (h : turnDelayBuild dec cfg headerOk file = .ok b) : RouteSums.DelaysNonneg b.model := by
  obtain ⟨_, hs, _, tu, ds, _, _, _, _, hb, hnn, _⟩ := turn_delay_builder_ok dec cfg headerOk file b h
  rw [hb]
  exact hnn

/-- a delay table with a negative delay is refused, whatever else the configuration says -/
theorem turn_delay_builder_refuses_negative (dec : Nat → α) (cfg : Json) (headerOk : Bool)
    (file : Option (List HeadLine)) (m : Json) (tu : TimeUnit) (ds : List (Option α)) (x : α)
    (hm : cfg.get? "turn_delay_model" = some m) (htd : turnDelayModelOfJson dec m = some (tu, ds))
    (hx : some x ∈ ds) (hneg : x < 0) (b : TurnDelayBuilt α) :
    turnDelayBuild dec cfg headerOk file ≠ .ok b := by
  intro h
  obtain ⟨_, _, m', tu', ds', _, _, hm', htd', _, hnn, _⟩ :=
    turn_delay_builder_ok dec cfg headerOk file b h
  rw [hm] at hm'
  cases hm'
  rw [htd] at htd'
  cases htd'
  exact absurd (hnn x hx) (not_le.2 hneg)

/-! Non-vacuity: a two-line speed file in km/h with default units; a three-record headings file;
a configuration with two delays. -/
example : (speedEngineNew (some [.val (50 : ℚ), .val 30]) .kilometersPerHour none (some .minutes)).toOption.map
    (fun e => (e.table, e.timeUnit, e.distanceUnit)) = some ([50, 30], .minutes, .meters) := by decide +kernel
example : loadHeadings true [.row (.int 90) .empty, .row (.int 0) (.int 359), .row (.int (-10)) (.int 400)] =
    some [(90, none), (0, some 359), (-10, some 400)] := by decide
example : loadHeadings true [.row (.int 90) .empty, .row (.int 40000) .empty] = none := by decide
example : loadHeadings true [.row (.int 90) .empty, .short] = none := by decide
example : delayTableOfJson (fun b => (b : ℚ)) [("left", .num "3" 3), ("u_turn", .num "9.5" 19)] =
    some [none, none, none, none, some 3, none, none, some 19] := by decide +kernel
example : delayTableOfJson (fun b => (b : ℚ)) [("straight", .num "3" 3)] = none := by decide +kernel

/-! ### Non-vacuity: the delay-table configuration in serde's positional form -/

example :
    Build.turnDelayModelOfJson (fun b => (b : ℚ))
        (.arr [.str "tabular_discrete", .obj [("left", .num "2.0" 2)], .str "seconds"]) =
      Build.turnDelayModelOfJson (fun b => (b : ℚ))
        (.obj [("type", .str "tabular_discrete"), ("table", .obj [("left", .num "2.0" 2)]),
               ("time_unit", .obj [("seconds", .obj [])])]) ∧
    (Build.turnDelayModelOfJson (fun b => (b : ℚ))
        (.arr [.str "tabular_discrete", .obj [("left", .num "2.0" 2)], .str "seconds"])).isSome ∧
    Build.turnDelayModelOfJson (fun b => (b : ℚ))
        (.arr [.str "tabular_discrete", .obj [("left", .num "2.0" 2)]]) = none := by
  decide +kernel


end C03
end Compass

namespace Compass
namespace C03
open Src

/-! ### Source decision ties

The relational operators at the named comparison sites of the Rust source are re-extracted on every run
by `tools/gen_model.py` into `Compass/Gen/Decisions.lean` (`Src.<site> : Src.Rel`).  Each theorem below
says that the hand-written model decides at that site by exactly the operator the source has there
(`Rel.nat` / `Rel.int` / `Rel.num` interpret the extracted operator; an unrecognised line is `none`).  A
source change that turns `<` into `<=`, `>` into `>=`, … at a site changes the generated constant and this
proof obligation stops checking, whether or not a generated case lands on the tie. -/

theorem src_heading_wrap (src dst : Int × Option Int) :
    bearing src dst =
      (let endH := match src.2 with | some d => d | none => src.1
       let angle := dst.1 - endH
       if heading_wrap_high.int angle 180 = some true then angle - 360
       else if heading_wrap_low.int angle (-180) = some true then angle + 360 else angle) := by
  rcases src with ⟨a, _ | d⟩ <;> simp [bearing, headingWrap, heading_wrap_high, heading_wrap_low, Rel.int] <;>
    split_ifs <;> omega

/-- shared by every search property: the label test of `run_a_star`'s relaxation (`improves`) is the
source's `tentative_gscore < existing_gscore`; with `<=` an equal-cost arrival re-labels an expanded vertex -/
theorem src_relax_improves {α : Type} [Field α] [LinearOrder α] [IsStrictOrderedRing α] [Lit α] [LawfulLit α] (tent ex : α) :
    some (improves tent (some ex)) = relax_improves.num tent ex := by
  simp [improves, relax_improves, Rel.num]


/-! ### Generated function bodies

`tools/gen_fns.py` re-translates the body of the Rust function on every run into `Compass/Gen/FnsC03.lean`
(conventions in the header of the tool).  Each `gen_*_eq` theorem below says that the generated definition
*is* the hand-written model function the property theorems are about.  A source change to the function
changes the generated definition and the proof stops checking (a body the translator no longer recognises is
not emitted: the theorem no longer elaborates). -/

/-- the source's `bearing_to_destination` (with `start_heading`, `end_heading`, the `i32` clamp and the narrowing
`as i16`, a two's-complement wrap that the clamp makes the identity) is the model's `bearing` followed by the
clamp the model leaves out (`clampI16`, harmless for its only consumer: `turnOfAngle_clamp`) -/
theorem gen_bearing_to_destination_eq (src dst : Int × Option Int) :
    Gen.EdgeHeading_bearing_to_destination src dst = clampI16 (bearing src dst) := by
  have hb : ∀ x : Int, -32768 ≤ x → x ≤ 32767 → Int.bmod x 65536 = x := by
    intro x h1 h2
    unfold Int.bmod
    simp only [Nat.cast_ofNat]
    split_ifs <;> omega
  have hc : ∀ x : Int, (if x < -32768 then -32768 else if x > 32767 then 32767 else x) = clampI16 x := by
    intro x
    unfold clampI16
    split_ifs <;> omega
  have key : Gen.EdgeHeading_bearing_to_destination src dst =
      Int.bmod (if bearing src dst < -32768 then -32768 else if bearing src dst > 32767 then 32767
        else bearing src dst) 65536 := rfl
  rw [key, hc, hb _ (by unfold clampI16; omega) (by unfold clampI16; omega)]

end C03
end Compass
