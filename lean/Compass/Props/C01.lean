/-
C01 — routes are contiguous origin→destination walks; trees are rooted trees.

Model: `Model/Search.lean` (`run_a_star`, `backtrack::vertex_oriented_route`), instances built by
`Model/Instance.lean`.  All statements are for every instance / configuration, every source and
target, and every schedule the priority queue may take (ties included), for any ordered field.
The hypotheses are (H1) the adjacency lists agree with the edge list (what the loader guarantees,
C15) and (H2) edge costs are strictly positive — which for concrete configurations is *proved*
from the cost model (`Config.inst_wf`, using C07's floor).

Scope, said once:
* vertex-oriented searches (`run_vertex_oriented`): every theorem holds forward and reverse;
* edge-oriented searches (`search_algorithm::run_edge_oriented`): the *route* theorems are for the
  forward direction only (`…_forward`).  The application never runs an edge-oriented search in
  reverse (`SearchApp::run_edge_oriented` passes `Direction::Forward`; the harness forces
  `reverse = false` on edge-oriented cases for that reason), and the wrapper is wrong there: it takes
  the origin edge's head and the destination edge's tail in graph orientation whatever the direction
  (`edge_oriented_reverse_counterexample`).  The *tree* theorems say exactly what each of the three
  arms of the wrapper returns; the adjacent arm's two-entry map is not a rooted tree in general
  (`edge_oriented_adjacent_uturn_tree_counterexample`,
  `edge_oriented_adjacent_equal_heads_tree_counterexample`);
* the routes of the two k-shortest-path algorithms are not here: `Props/C13.lean` proves for every
  route they return that it is a contiguous loop-free origin–destination walk without repeated edge,
  and the C01 oracle judges every k-shortest-path route of the C01 run.
* **outside every theorem** (ordered fields have no +∞, NaN, overflow or underflow), tied by the
  correspondence run only — the oracles are silent on such cases: a tentative cost of +∞ (an
  overflowing sum) or NaN never improves on a *missing* label: the code tests
  `tentative < Cost::INFINITY`, the model `improves tent none = Lit.belowInf tent`, constantly true in
  an ordered field (`LawfulLit.belowInf_eq`, so no statement here changed) and the IEEE test at
  `Float`.  One generated case in six is pushed where the plain generator never goes (lengths,
  speeds, weights, rates, delays, initial values, weight factors, vehicle limits of 0, −0, negative,
  1e308, ±∞, NaN, subnormal; limits at the ends of `u64` / `usize`);
* **modelled rather than verified — the NaN-free domain**: the code orders `Cost`, `Distance`,
  `Weight`, `Speed` by `OrderedFloat`'s total order (NaN the greatest number, NaN = NaN), the model by
  IEEE `<` / `≤`.  They differ only on NaN operands (`push_increase` against a NaN priority; a NaN
  vehicle-restriction limit; `get_max_speed` of a table with a NaN), which no file or JSON document
  can supply — the readers refuse NaN — and which the extreme-value stream reaches only through
  values constructed in code, where model and code agreed on every generated case.
-/
import Compass.Gen.Decisions
import Compass.Proofs.Num
import Compass.Model.Search
import Compass.Proofs.SearchTree
import Compass.Proofs.Instance
import Compass.Proofs.SearchRoute
import Compass.Proofs.EdgeOrientedTree
import Compass.Proofs.ConfigUniform

namespace Compass
namespace C01

open SearchTree

variable {α : Type} [Field α] [LinearOrder α] [IsStrictOrderedRing α] [Lit α] [LawfulLit α]

/-- Every entry of a returned search tree records an edge that joins the entry's parent vertex
(`terminal`) to the entry's own vertex in the search direction, and that edge is one of the
parent's incident edges. (Search with or without destination.) -/
theorem tree_entry_joins (I : Inst α) (hI : WF I) (source : Nat) (target : Option Nat)
    (sched : List Nat) (res : SearchResult α) (hts : target ≠ some source)
    (h : runVertexOriented I source target sched = .ok res) :
    ∀ v b, res.final.sol v = some b →
      I.termV b.edge = b.terminal ∧ I.keyV b.edge = v ∧ b.edge ∈ I.incident b.terminal := by
  intro v b hb
  have hinv : TreeInv I source res.final := by
    cases target with
    | none => exact (runVertexOriented_tree hI source sched res h).2
    | some t =>
      have hts' : t ≠ source := fun e => hts (by rw [e])
      exact (runVertexOriented_route hI source t sched res hts' h).1
  obtain ⟨h1, h2, h3, _⟩ := hinv.entry v b hb
  exact ⟨h2, h1, h3⟩

/-- Following parents from any tree entry reaches the search origin after at most `solSize` steps
without visiting a vertex twice; the origin itself never has an entry. -/
theorem tree_rooted (I : Inst α) (hI : WF I) (source : Nat) (target : Option Nat)
    (sched : List Nat) (res : SearchResult α) (hts : target ≠ some source)
    (h : runVertexOriented I source target sched = .ok res) :
    res.final.sol source = none ∧
    ∀ v, (res.final.sol v).isSome →
      ∃ n, 0 < n ∧ n ≤ res.final.solSize ∧ (parent res.final.sol)^[n] v = source ∧
        (∀ i j, i < j → j ≤ n → (parent res.final.sol)^[i] v ≠ (parent res.final.sol)^[j] v) := by
  have hinv : TreeInv I source res.final := by
    cases target with
    | none => exact (runVertexOriented_tree hI source sched res h).2
    | some t =>
      have hts' : t ≠ source := fun e => hts (by rw [e])
      exact (runVertexOriented_route hI source t sched res hts' h).1
  refine ⟨hinv.sol_source, ?_⟩
  intro v hv
  obtain ⟨n, hn0, hn, hsrc, _, _, hne⟩ := SearchTree.tree_rooted hinv hv
  exact ⟨n, hn0, hn, hsrc, hne⟩

/-- Whenever a search towards a destination other than the origin succeeds, the returned route is
a non-empty contiguous walk in the search direction: its first edge leaves the origin, every edge
starts where the previous one ended, its last edge arrives at the destination, every edge is an
incident edge of the vertex it leaves, and no edge (indeed no vertex) occurs twice. -/
theorem route_walk (I : Inst α) (hI : WF I) (source t : Nat) (sched : List Nat)
    (res : SearchResult α) (hts : t ≠ source)
    (h : runVertexOriented I source (some t) sched = .ok res) :
    ∃ route, res.route = some route ∧ route ≠ [] ∧
      (∀ b, route.head? = some b → I.termV b.edge = source) ∧
      (∀ b, route.getLast? = some b → I.keyV b.edge = t) ∧
      (∀ i (hi : i + 1 < route.length), I.keyV route[i].edge = I.termV route[i + 1].edge) ∧
      (∀ b ∈ route, b.edge ∈ I.incident (I.termV b.edge)) ∧
      (route.map (·.edge)).Nodup ∧
      (route.map (fun b => I.keyV b.edge)).Nodup := by
  obtain ⟨_, _, route, gt, hr, hne, hc, _, _⟩ := runVertexOriented_route hI source t sched res hts h
  refine ⟨route, hr, hne, ?_, hc.last_key, ?_, ?_, hc.edges_nodup, hc.keys_nodup⟩
  · intro b hb
    have hmem : b ∈ route := List.mem_of_mem_head? hb
    rw [(hc.term_eq b hmem).1]
    exact hc.head_terminal b hb
  · intro i hi
    exact (hc.chain_getElem i hi).2
  · intro b hb
    have := hc.term_eq b hb
    rw [this.1]; exact this.2

/-- Building the route never fails on the tree the search returned: with a destination other
than the origin, `run_vertex_oriented` fails only where `run_a_star` itself fails (never with the
backtracker's "missing vertex" or "edge visited twice" errors). -/
theorem route_construction_never_fails (I : Inst α) (hI : WF I) (source t : Nat) (sched : List Nat)
    (k : ErrKind) (hts : t ≠ source)
    (h : runVertexOriented I source (some t) sched = .error k) :
    runAStar I source (some t) sched = .error k :=
  runVertexOriented_error hI source t sched k hts h

/-- The same for every concrete configuration (any network, traversal / access / cost / frontier /
termination configuration, forward or reverse): positivity of edge costs is discharged by the cost
model's floor, so only the loader's adjacency consistency remains as a hypothesis. -/
theorem config_route_walk (c : Config α) (hadj : c.AdjConsistent) (source t : Nat) (sched : List Nat)
    (r : AlgResult α) (hts : t ≠ source) (h : c.runVertex source (some t) sched = .ok r) :
    ∃ route, r.routes = [route] ∧ route ≠ [] ∧
      (∀ b, route.head? = some b → c.inst.termV b.edge = source) ∧
      (∀ b, route.getLast? = some b → c.inst.keyV b.edge = t) ∧
      (∀ i (hi : i + 1 < route.length), c.inst.keyV route[i].edge = c.inst.termV route[i + 1].edge) ∧
      (route.map (·.edge)).Nodup := by
  unfold Config.runVertex at h
  split at h
  · simp at h
  · rename_i res hres
    obtain ⟨route, hr, hne, h1, h2, h3, _, h5, _⟩ :=
      route_walk c.inst (c.inst_wf hadj) source t sched res hts hres
    simp only [Except.ok.injEq] at h
    refine ⟨route, ?_, hne, h1, h2, h3, h5⟩
    rw [← h]; simp [hr]


/-! ### Edge-oriented queries (`search_algorithm::run_edge_oriented`) -/

/-- Edge-oriented queries (origin and destination given as edges), **forward direction** — the only
direction the application runs them in (`SearchApp::run_edge_oriented` passes
`Direction::Forward`): the returned route starts with the origin edge, ends with the destination
edge, is contiguous in graph orientation and uses no edge twice — for adjacent and non-adjacent
origin / destination edges alike, self loops included.  False in reverse:
`edge_oriented_reverse_counterexample`. -/
theorem edge_oriented_route_walk_forward (c : Config α) (hadj : c.AdjConsistent) (hfwd : c.reverse = false)
    (source tgt : Nat) (sched : List Nat) (r : AlgResult α) (hne : source ≠ tgt)
    (h : c.runEdge source (some tgt) sched = .ok r) :
    ∃ route, r.routes = [route] ∧ 2 ≤ route.length ∧
      (∃ b, route.head? = some b ∧ b.edge = source) ∧
      (∃ b, route.getLast? = some b ∧ b.edge = tgt) ∧
      (∀ i (hi : i + 1 < route.length), c.inst.keyV route[i].edge = c.inst.termV route[i + 1].edge) ∧
      (∀ b ∈ route, c.inst.termV b.edge = b.terminal) ∧
      (route.map (·.edge)).Nodup :=
  SearchRoute.edge_oriented_route_walk c hadj hfwd source tgt sched r hne h

/-- The hypothesis `c.reverse = false` is needed.  The wrapper takes the origin edge's head `e1.dst`
and the destination edge's tail `e2.src` in graph orientation whatever the direction; run in reverse
from edge 0 (0→1) to edge 2 (2→3) on `SearchRoute.Example.exConfig` it answers `[0, 4, 2, 2]`: the
destination edge twice, and no walk in either orientation (edge 4 is 3→1, edge 2 is 2→3). -/
theorem edge_oriented_reverse_counterexample :
    SearchRoute.Example.routeEdgesOf
      ({ SearchRoute.Example.exConfig with reverse := true }.runEdge 0 (some 2) [1, 3, 0, 2]) =
        some [[0, 4, 2, 2]] := by
  decide +kernel

/-- Destination-less edge-oriented search, forward: every tree entry's edge joins its parent to its
vertex in graph orientation (the origin edge's own entry, stored at the origin edge's head,
included). -/
theorem edge_oriented_tree_entry_joins_forward (c : Config α) (hadj : c.AdjConsistent) (hfwd : c.reverse = false)
    (source : Nat) (sched : List Nat) (r : AlgResult α)
    (h : c.runEdge source none sched = .ok r) :
    ∀ tree ∈ r.trees, ∀ v b, tree v = some b →
      c.inst.keyV b.edge = v ∧ c.inst.termV b.edge = b.terminal :=
  SearchRoute.runEdge_none_tree_joins c hadj hfwd source sched r h

/-- Destination-less edge-oriented search, rootedness (either direction): the single returned tree
stores the origin edge's entry under the origin edge's head `e1.dst` — that vertex is the search
origin, recognised by *being the origin edge's head*, not by having no entry; every other entry
records an edge listed at its parent that joins the parent to the entry's vertex (search direction),
and following parents from it reaches `e1.dst` after `n ≥ 1` steps without visiting a vertex twice.
(Following parents *through* the origin entry leads to the origin edge's tail, which may lie on the
chain: see `edge_oriented_tree_origin_entry_counterexample`.) -/
theorem edge_oriented_tree_rooted (c : Config α) (hadj : c.AdjConsistent) (source : Nat)
    (sched : List Nat) (r : AlgResult α) (e1 : EdgeRec α) (h1 : c.edges[source]? = some e1)
    (h : c.runEdge source none sched = .ok r) :
    ∃ tree, r.trees = [tree] ∧
      (∃ o, tree e1.dst = some o ∧ o.edge = source ∧ o.terminal = e1.src) ∧
      ∀ v b, v ≠ e1.dst → tree v = some b →
        (c.inst.keyV b.edge = v ∧ c.inst.termV b.edge = b.terminal ∧
          b.edge ∈ c.inst.incident b.terminal) ∧
        ∃ n, 0 < n ∧ (parent tree)^[n] v = e1.dst ∧
          ∀ i j, i < j → j ≤ n → (parent tree)^[i] v ≠ (parent tree)^[j] v := by
  obtain ⟨tree, h1', h2, h3⟩ :=
    EdgeOrientedTree.runEdge_none_tree_rooted c hadj source sched r e1 h1 h
  exact ⟨tree, h1', ⟨_, h2, rfl, rfl⟩, h3⟩

/-- the origin entry points *out of* the tree: origin edge 4 (3→1) on `exConfig`, whose tail 3 is
reachable from its head 1 — the parent pointers of the returned map form the cycle 1 → 3 → 2 → 1, so
"follow parents until a vertex without entry" never ends; the root must be recognised as the origin
edge's head (as `edge_oriented_tree_rooted` does). -/
theorem edge_oriented_tree_origin_entry_counterexample :
    SearchRoute.Example.treeEntriesOf (SearchRoute.Example.exConfig.runEdge 4 none [1, 2, 3]) [0, 1, 2, 3] =
      some [[none, some (3, 4), some (1, 1), some (2, 2)]] := by
  decide +kernel

/-- Edge-oriented search with a destination, origin and destination edges **not adjacent** (either
direction): the returned tree is the tree of the inner vertex-oriented search, rooted at the origin
edge's head `e1.dst` — no entry there, every entry joins its parent to its vertex by an edge listed
at the parent, following parents reaches `e1.dst` without visiting a vertex twice.  Neither the
origin nor the destination edge has an entry of its own. -/
theorem edge_oriented_nonadjacent_tree_rooted (c : Config α) (hadj : c.AdjConsistent)
    (source tgt : Nat) (sched : List Nat) (r : AlgResult α) (e1 e2 : EdgeRec α)
    (h1 : c.edges[source]? = some e1) (h2 : c.edges[tgt]? = some e2) (hne : source ≠ tgt)
    (hnadj : e1.dst ≠ e2.src) (h : c.runEdge source (some tgt) sched = .ok r) :
    ∃ tree, r.trees = [tree] ∧ tree e1.dst = none ∧
      ∀ v b, tree v = some b →
        (c.inst.keyV b.edge = v ∧ c.inst.termV b.edge = b.terminal ∧
          b.edge ∈ c.inst.incident b.terminal) ∧
        ∃ n, 0 < n ∧ (parent tree)^[n] v = e1.dst ∧
          ∀ i j, i < j → j ≤ n → (parent tree)^[i] v ≠ (parent tree)^[j] v :=
  EdgeOrientedTree.runEdge_nonadjacent_tree_rooted c hadj source tgt sched r e1 e2 h1 h2 hne hnadj h

/-- Edge-oriented search with a destination, **adjacent** edges (`e1.dst = e2.src`: no search, the
two edges are traversed and stored as `HashMap::from([(e2.dst, b2), (e1.dst, b1)])`), forward — what
holds exactly: the origin edge's entry `b1` is stored under the origin edge's head, the destination
edge's entry `b2` under the destination edge's head with the origin edge's head as its parent —
unless the two heads coincide, in which case `b1` has overwritten `b2` and no entry carries the
destination edge; nothing else is stored; both entries join their `terminal` to the vertex they are
stored under.  So from `b2` one parent step reaches the origin edge's head; but the map is not a
tree rooted at a vertex without entry when the tail of the origin edge is one of the two heads
(`…_uturn_tree_counterexample`), and it loses the destination edge for equal heads
(`…_equal_heads_tree_counterexample`). -/
theorem edge_oriented_adjacent_tree_forward (c : Config α) (hfwd : c.reverse = false)
    (source tgt : Nat) (sched : List Nat) (r : AlgResult α) (e1 e2 : EdgeRec α)
    (h1 : c.edges[source]? = some e1) (h2 : c.edges[tgt]? = some e2) (hne : source ≠ tgt)
    (hadj' : e1.dst = e2.src) (h : c.runEdge source (some tgt) sched = .ok r) :
    ∃ (tree : Nat → Option (Branch α)) (b1 b2 : Branch α), r.trees = [tree] ∧ r.routes = [[b1, b2]] ∧
      b1.edge = source ∧ b1.terminal = e1.src ∧ b2.edge = tgt ∧ b2.terminal = e1.dst ∧
      c.inst.keyV b1.edge = e1.dst ∧ c.inst.termV b1.edge = b1.terminal ∧
      c.inst.keyV b2.edge = e2.dst ∧ c.inst.termV b2.edge = b2.terminal ∧
      tree e1.dst = some b1 ∧
      (e2.dst ≠ e1.dst → tree e2.dst = some b2) ∧
      (e2.dst = e1.dst → ∀ v b, tree v = some b → b.edge ≠ tgt) ∧
      (∀ v, v ≠ e1.dst → v ≠ e2.dst → tree v = none) :=
  EdgeOrientedTree.runEdge_adjacent_tree c hfwd source tgt sched r e1 e2 h1 h2 hne hadj' h

/-- a u-turn pair: edge 0 (0→1) then edge 1 (1→0) -/
def uturnConfig : Config ℚ :=
  { SearchRoute.Example.exConfig with
    nV := 2, edges := [⟨0, 1, 1000⟩, ⟨1, 0, 2000⟩], outAdj := [[0], [1]], inAdj := [[1], [0]],
    gc := [0, 0] }

/-- adjacent arm, u-turn pair: the returned map is `{1 ↦ (parent 0, edge 0), 0 ↦ (parent 1, edge 1)}`
— a 2-cycle of parent pointers; no vertex is without entry, so it is not a tree rooted at "the
vertex without entry" (the route `[0, 1]` is fine) -/
theorem edge_oriented_adjacent_uturn_tree_counterexample :
    SearchRoute.Example.treeEntriesOf (uturnConfig.runEdge 0 (some 1) []) [0, 1] =
      some [[some (1, 1), some (0, 0)]] ∧
    SearchRoute.Example.routeEdgesOf (uturnConfig.runEdge 0 (some 1) []) = some [[0, 1]] := by
  decide +kernel

/-- adjacent arm, equal heads: origin edge 0 (0→1), destination edge 3 (the self loop 1→1) on
`exConfig`: the route is `[0, 3]`, the returned map has the single entry `1 ↦ (parent 0, edge 0)` —
the destination edge's entry, stored first under the same key, is gone -/
theorem edge_oriented_adjacent_equal_heads_tree_counterexample :
    SearchRoute.Example.treeEntriesOf (SearchRoute.Example.exConfig.runEdge 0 (some 3) []) [0, 1, 2, 3] =
      some [[none, some (0, 0), none, none]] ∧
    SearchRoute.Example.routeEdgesOf (SearchRoute.Example.exConfig.runEdge 0 (some 3) []) =
      some [[0, 3]] := by
  decide +kernel

/-! ### Why `SearchAlgorithm` no longer calls `a_star_algorithm::run_a_star_edge_oriented`

The wrapper inside `a_star_algorithm.rs` (still public; modelled by `Config.runAStarEdge` +
`Config.edgeOrientedRoute`, checked against the code by direct calls) stores the destination edge's
entry under the destination edge's head in the vertex-keyed tree — unless the inner search has
already labelled that vertex.  Then the route read back by `backtrack::edge_oriented_route` stops
short.  Witness (the corpus case of the repaired C01 defect): origin edge 0 (0→1), destination edge
1 (2→3), the inner search 1 ⇝ 2 labels vertex 3 on its way (1→3→2). -/

def retiredWitness : Config ℚ where
  nV := 4
  edges := [⟨0, 1, 1⟩, ⟨2, 3, 1⟩, ⟨1, 3, 1⟩, ⟨3, 2, 5⟩, ⟨1, 2, 20⟩]
  outAdj := [[0], [2, 4], [1], [3]]
  inAdj := [[], [0], [3, 4], [1, 2]]
  feats := [{ name := "distance", kind := .dist .meters, init := 0 }]
  trav := .distance .meters
  access := .noAccess
  cost := { indices := [0], weights := [1], vehicleRates := [.raw], networkRates := [.zero], agg := .sum }
  frontier := []
  term := .combined []
  reverse := false
  gc := [0, 0, 0, 0]
  wf := some 0

/-- the route `edge_oriented_route` reads from the tree of `run_a_star_edge_oriented` is `[0, 2]`: it
ends at the destination edge's head without ever taking the destination edge, whereas
`search_algorithm::run_edge_oriented` (what every `SearchAlgorithm` runs) answers `[0, 2, 3, 1]` -/
theorem retired_edge_oriented_wrapper_counterexample :
    (match retiredWitness.runAStarEdge 0 (some 1) [1, 3, 2] with
     | .ok (tree, _) => (match retiredWitness.edgeOrientedRoute 0 1 tree 7 with
                         | .ok r => some (r.map (·.edge))
                         | .error _ => none)
     | .error _ => none) = some [0, 2] ∧
    (match retiredWitness.runEdge 0 (some 1) [1, 3, 2] with
     | .ok r => some (r.routes.map (·.map (·.edge)))
     | .error _ => none) = some [[0, 2, 3, 1]] := by
  decide +kernel

/-! ### Non-vacuity: a concrete instance with a parallel edge and a self loop meets the hypotheses,
and the theorem applies to an actual run (see `SearchTree.Example`). -/

example : WF SearchTree.Example.inst := SearchTree.Example.inst_wf

/-- the vertex-oriented theorems on an actual run: Dijkstra on `exC` (eight edges, two self loops, a
cycle, a forbidden shortcut) from 0 to 3 returns `[0, 7]`, and `config_route_walk` applies -/
example : ∃ r route, ConfigUniform.Example.exC.runVertex 0 (some 3) [0, 1, 2, 3] = .ok r ∧
    r.routes = [route] ∧ route.map (·.edge) = [0, 7] ∧ (route.map (·.edge)).Nodup := by
  obtain ⟨r, hr⟩ := SearchRoute.Example.ok_of_routeEdgesOf ConfigUniform.Example.exC_run
  obtain ⟨route, h1, _, _, _, _, h6⟩ := config_route_walk ConfigUniform.Example.exC
    ConfigUniform.Example.exC_edgeLocal.adj 0 3 [0, 1, 2, 3] r (by decide) hr
  have hobs := ConfigUniform.Example.exC_run
  rw [hr] at hobs
  simp only [SearchRoute.Example.routeEdgesOf, h1, List.map_cons, List.map_nil, Option.some.injEq,
    List.cons.injEq, and_true] at hobs
  exact ⟨r, route, hr, h1, hobs, h6⟩

/-- … and in reverse: the same network searched backwards from 3 to 0 returns `[7, 0]` (search
order), a walk of the reversed graph -/
example : ∃ r route, ConfigUniform.Example.exR.runVertex 3 (some 0) [3, 2, 1, 0] = .ok r ∧
    r.routes = [route] ∧
    (∀ i (hi : i + 1 < route.length),
      ConfigUniform.Example.exR.inst.keyV route[i].edge =
        ConfigUniform.Example.exR.inst.termV route[i + 1].edge) := by
  obtain ⟨r, hr⟩ := SearchRoute.Example.ok_of_routeEdgesOf ConfigUniform.Example.exR_run
  obtain ⟨route, h1, _, _, _, h5, _⟩ := config_route_walk ConfigUniform.Example.exR
    ConfigUniform.Example.exR_edgeLocal.adj 3 0 [3, 2, 1, 0] r (by decide) hr
  exact ⟨r, route, hr, h1, h5⟩

/-- the edge-oriented theorems on actual runs of `exConfig`: non-adjacent (origin edge 0, destination
edge 2: route `[0, 1, 2]`, the inner tree rooted at vertex 1) and, in the next example,
destination-less (origin edge 4) -/
example : ∃ r tree, SearchRoute.Example.exConfig.runEdge 0 (some 2) [1, 2] = .ok r ∧
    r.trees = [tree] ∧ tree 1 = none := by
  obtain ⟨r, hr⟩ := SearchRoute.Example.ok_of_routeEdgesOf
    (show SearchRoute.Example.routeEdgesOf (SearchRoute.Example.exConfig.runEdge 0 (some 2) [1, 2])
      = some [[0, 1, 2]] by decide +kernel)
  obtain ⟨tree, h1, h2, _⟩ := edge_oriented_nonadjacent_tree_rooted SearchRoute.Example.exConfig
    SearchRoute.Example.exConfig_adj 0 2 [1, 2] r ⟨0, 1, 1000⟩ ⟨2, 3, 500⟩ rfl rfl (by decide)
    (by decide) hr
  exact ⟨r, tree, hr, h1, h2⟩

/-- … the destination-less one: from origin edge 4 (3→1) the tree holds the origin edge's entry under
the origin edge's head, vertex 1, the root (`edge_oriented_tree_rooted`) -/
example : ∃ r tree o, SearchRoute.Example.exConfig.runEdge 4 none [1, 2, 3] = .ok r ∧
    r.trees = [tree] ∧ tree 1 = some o ∧ o.edge = 4 := by
  have hobs : (SearchRoute.Example.treeEntriesOf
      (SearchRoute.Example.exConfig.runEdge 4 none [1, 2, 3]) [0]).isSome = true := by
    decide +kernel
  cases hr : SearchRoute.Example.exConfig.runEdge 4 none [1, 2, 3] with
  | error k => rw [hr] at hobs; simp [SearchRoute.Example.treeEntriesOf] at hobs
  | ok r =>
    obtain ⟨tree, h1, ⟨o, h2, h3, _⟩, _⟩ := edge_oriented_tree_rooted SearchRoute.Example.exConfig
      SearchRoute.Example.exConfig_adj 4 [1, 2, 3] r ⟨3, 1, 700⟩ rfl hr
    exact ⟨r, tree, o, rfl, h1, h2, h3⟩

end C01
end Compass

namespace Compass
namespace C01
open Src

/-! ### Source decision ties

The relational operators at the named comparison sites of the Rust source are re-extracted on every run
by `tools/gen_model.py` into `Compass/Gen/Decisions.lean` (`Src.<site> : Src.Rel`).  Each theorem below
says that the hand-written model decides at that site by exactly the operator the source has there
(`Rel.nat` / `Rel.int` / `Rel.num` interpret the extracted operator; an unrecognised line is `none`).  A
source change that turns `<` into `<=`, `>` into `>=`, … at a site changes the generated constant and this
proof obligation stops checking, whether or not a generated case lands on the tie. -/

/-- shared by every search property: the label test of `run_a_star`'s relaxation (`improves`) is the
source's `tentative_gscore < existing_gscore`; with `<=` an equal-cost arrival re-labels an expanded vertex -/
theorem src_relax_improves {α : Type} [Field α] [LinearOrder α] [IsStrictOrderedRing α] [Lit α] [LawfulLit α] (tent ex : α) :
    some (improves tent (some ex)) = relax_improves.num tent ex := by
  simp [improves, relax_improves, Rel.num]

end C01
end Compass
