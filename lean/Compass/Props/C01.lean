/-
C01 — routes are contiguous origin→destination walks; trees are rooted trees.

Model: `Model/Search.lean` (`run_a_star`, `backtrack::vertex_oriented_route`), instances built by
`Model/Instance.lean`.  All statements are for every instance / configuration, every source and
target, and every schedule the priority queue may take (ties included), for any ordered field.
The hypotheses are (H1) the adjacency lists agree with the edge list (what the loader guarantees,
C15) and (H2) edge costs are strictly positive — which for concrete configurations is *proved*
from the cost model (`Config.inst_wf`, using C07's floor).
-/
import Compass.Proofs.SearchTree
import Compass.Proofs.Instance
import Compass.Proofs.SearchRoute

namespace Compass
namespace C01

open SearchTree

variable {α : Type} [Field α] [LinearOrder α] [IsStrictOrderedRing α] [Lit α] [LawfulLit α]

/-- Every entry of a returned search tree records an edge that joins the entry's parent vertex
(`terminal`) to the entry's own vertex in the search direction, and that edge is one of the
parent's incident edges. (Search with or without destination.) -/
theorem tree_entry_joins (I : Inst α) (hI : WF I) (source : Nat) (target : Option Nat)
    (sched : List Nat) (res : SearchResult α) (hts : target ≠ some source)
    (h : runVertexOriented I source target sched = .ok res) :
    ∀ v b, res.final.sol v = some b →
      I.termV b.edge = b.terminal ∧ I.keyV b.edge = v ∧ b.edge ∈ I.incident b.terminal := by
  intro v b hb
  have hinv : TreeInv I source res.final := by
    cases target with
    | none => exact (runVertexOriented_tree hI source sched res h).2
    | some t =>
      have hts' : t ≠ source := fun e => hts (by rw [e])
      exact (runVertexOriented_route hI source t sched res hts' h).1
  obtain ⟨h1, h2, h3, _⟩ := hinv.entry v b hb
  exact ⟨h2, h1, h3⟩

/-- Following parents from any tree entry reaches the search origin after at most `solSize` steps
without visiting a vertex twice; the origin itself never has an entry. -/
theorem tree_rooted (I : Inst α) (hI : WF I) (source : Nat) (target : Option Nat)
    (sched : List Nat) (res : SearchResult α) (hts : target ≠ some source)
    (h : runVertexOriented I source target sched = .ok res) :
    res.final.sol source = none ∧
    ∀ v, (res.final.sol v).isSome →
      ∃ n, 0 < n ∧ n ≤ res.final.solSize ∧ (parent res.final.sol)^[n] v = source ∧
        (∀ i j, i < j → j ≤ n → (parent res.final.sol)^[i] v ≠ (parent res.final.sol)^[j] v) := by
  have hinv : TreeInv I source res.final := by
    cases target with
    | none => exact (runVertexOriented_tree hI source sched res h).2
    | some t =>
      have hts' : t ≠ source := fun e => hts (by rw [e])
      exact (runVertexOriented_route hI source t sched res hts' h).1
  refine ⟨hinv.sol_source, ?_⟩
  intro v hv
  obtain ⟨n, hn0, hn, hsrc, _, _, hne⟩ := SearchTree.tree_rooted hinv hv
  exact ⟨n, hn0, hn, hsrc, hne⟩

/-- Whenever a search towards a destination other than the origin succeeds, the returned route is
a non-empty contiguous walk in the search direction: its first edge leaves the origin, every edge
starts where the previous one ended, its last edge arrives at the destination, every edge is an
incident edge of the vertex it leaves, and no edge (indeed no vertex) occurs twice. -/
theorem route_walk (I : Inst α) (hI : WF I) (source t : Nat) (sched : List Nat)
    (res : SearchResult α) (hts : t ≠ source)
    (h : runVertexOriented I source (some t) sched = .ok res) :
    ∃ route, res.route = some route ∧ route ≠ [] ∧
      (∀ b, route.head? = some b → I.termV b.edge = source) ∧
      (∀ b, route.getLast? = some b → I.keyV b.edge = t) ∧
      (∀ i (hi : i + 1 < route.length), I.keyV route[i].edge = I.termV route[i + 1].edge) ∧
      (∀ b ∈ route, b.edge ∈ I.incident (I.termV b.edge)) ∧
      (route.map (·.edge)).Nodup ∧
      (route.map (fun b => I.keyV b.edge)).Nodup := by
  obtain ⟨_, _, route, gt, hr, hne, hc, _, _⟩ := runVertexOriented_route hI source t sched res hts h
  refine ⟨route, hr, hne, ?_, hc.last_key, ?_, ?_, hc.edges_nodup, hc.keys_nodup⟩
  · intro b hb
    have hmem : b ∈ route := List.mem_of_mem_head? hb
    rw [(hc.term_eq b hmem).1]
    exact hc.head_terminal b hb
  · intro i hi
    exact (hc.chain_getElem i hi).2
  · intro b hb
    have := hc.term_eq b hb
    rw [this.1]; exact this.2

/-- Building the route never fails on the tree the search returned: with a destination other
than the origin, `run_vertex_oriented` fails only where `run_a_star` itself fails (never with the
backtracker's "missing vertex" or "edge visited twice" errors). -/
theorem route_construction_never_fails (I : Inst α) (hI : WF I) (source t : Nat) (sched : List Nat)
    (k : ErrKind) (hts : t ≠ source)
    (h : runVertexOriented I source (some t) sched = .error k) :
    runAStar I source (some t) sched = .error k :=
  runVertexOriented_error hI source t sched k hts h

/-- The same for every concrete configuration (any network, traversal / access / cost / frontier /
termination configuration, forward or reverse): positivity of edge costs is discharged by the cost
model's floor, so only the loader's adjacency consistency remains as a hypothesis. -/
theorem config_route_walk (c : Config α) (hadj : c.AdjConsistent) (source t : Nat) (sched : List Nat)
    (r : AlgResult α) (hts : t ≠ source) (h : c.runVertex source (some t) sched = .ok r) :
    ∃ route, r.routes = [route] ∧ route ≠ [] ∧
      (∀ b, route.head? = some b → c.inst.termV b.edge = source) ∧
      (∀ b, route.getLast? = some b → c.inst.keyV b.edge = t) ∧
      (∀ i (hi : i + 1 < route.length), c.inst.keyV route[i].edge = c.inst.termV route[i + 1].edge) ∧
      (route.map (·.edge)).Nodup := by
  unfold Config.runVertex at h
  split at h
  · simp at h
  · rename_i res hres
    obtain ⟨route, hr, hne, h1, h2, h3, _, h5, _⟩ :=
      route_walk c.inst (c.inst_wf hadj) source t sched res hts hres
    simp only [Except.ok.injEq] at h
    refine ⟨route, ?_, hne, h1, h2, h3, h5⟩
    rw [← h]; simp [hr]


/-- Edge-oriented queries (origin and destination given as edges; forward search, as the application
always runs them): the returned route starts with the origin edge, ends with the destination edge,
is contiguous in graph orientation and uses no edge twice — for adjacent and non-adjacent origin /
destination edges alike, self loops included. -/
theorem edge_oriented_route_walk (c : Config α) (hadj : c.AdjConsistent) (hfwd : c.reverse = false)
    (source tgt : Nat) (sched : List Nat) (r : AlgResult α) (hne : source ≠ tgt)
    (h : c.runEdge source (some tgt) sched = .ok r) :
    ∃ route, r.routes = [route] ∧ 2 ≤ route.length ∧
      (∃ b, route.head? = some b ∧ b.edge = source) ∧
      (∃ b, route.getLast? = some b ∧ b.edge = tgt) ∧
      (∀ i (hi : i + 1 < route.length), c.inst.keyV route[i].edge = c.inst.termV route[i + 1].edge) ∧
      (∀ b ∈ route, c.inst.termV b.edge = b.terminal) ∧
      (route.map (·.edge)).Nodup :=
  SearchRoute.edge_oriented_route_walk c hadj hfwd source tgt sched r hne h

/-- Destination-less edge-oriented search: every tree entry's edge joins its parent to its vertex
(the origin edge's own entry, stored at the origin edge's head, included). -/
theorem edge_oriented_tree_entry_joins (c : Config α) (hadj : c.AdjConsistent) (hfwd : c.reverse = false)
    (source : Nat) (sched : List Nat) (r : AlgResult α)
    (h : c.runEdge source none sched = .ok r) :
    ∀ tree ∈ r.trees, ∀ v b, tree v = some b →
      c.inst.keyV b.edge = v ∧ c.inst.termV b.edge = b.terminal :=
  SearchRoute.runEdge_none_tree_joins c hadj hfwd source sched r h

/-! ### Why `SearchAlgorithm` no longer calls `a_star_algorithm::run_a_star_edge_oriented`

The wrapper inside `a_star_algorithm.rs` (still public; modelled by `Config.runAStarEdge` +
`Config.edgeOrientedRoute`, checked against the code by direct calls) stores the destination edge's
entry under the destination edge's head in the vertex-keyed tree — unless the inner search has
already labelled that vertex.  Then the route read back by `backtrack::edge_oriented_route` stops
short.  Witness (the corpus case of the repaired C01 defect): origin edge 0 (0→1), destination edge
1 (2→3), the inner search 1 ⇝ 2 labels vertex 3 on its way (1→3→2). -/

def retiredWitness : Config ℚ where
  nV := 4
  edges := [⟨0, 1, 1⟩, ⟨2, 3, 1⟩, ⟨1, 3, 1⟩, ⟨3, 2, 5⟩, ⟨1, 2, 20⟩]
  outAdj := [[0], [2, 4], [1], [3]]
  inAdj := [[], [0], [3, 4], [1, 2]]
  feats := [{ name := "distance", kind := .dist .meters, init := 0 }]
  trav := .distance .meters
  access := .noAccess
  cost := { indices := [0], weights := [1], vehicleRates := [.raw], networkRates := [.zero], agg := .sum }
  frontier := []
  term := .combined []
  reverse := false
  gc := [0, 0, 0, 0]
  wf := some 0

/-- the route `edge_oriented_route` reads from the tree of `run_a_star_edge_oriented` is `[0, 2]`: it
ends at the destination edge's head without ever taking the destination edge, whereas
`search_algorithm::run_edge_oriented` (what every `SearchAlgorithm` runs) answers `[0, 2, 3, 1]` -/
theorem retired_edge_oriented_wrapper_counterexample :
    (match retiredWitness.runAStarEdge 0 (some 1) [1, 3, 2] with
     | .ok (tree, _) => (match retiredWitness.edgeOrientedRoute 0 1 tree 7 with
                         | .ok r => some (r.map (·.edge))
                         | .error _ => none)
     | .error _ => none) = some [0, 2] ∧
    (match retiredWitness.runEdge 0 (some 1) [1, 3, 2] with
     | .ok r => some (r.routes.map (·.map (·.edge)))
     | .error _ => none) = some [[0, 2, 3, 1]] := by
  decide +kernel

/-! ### Non-vacuity: a concrete instance with a parallel edge and a self loop meets the hypotheses,
and the theorem applies to an actual run (see `SearchTree.Example`). -/

example : WF SearchTree.Example.inst := SearchTree.Example.inst_wf

end C01
end Compass
