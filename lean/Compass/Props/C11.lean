/-
C11 — every state feature owns exactly one state-vector slot, at any feature count.

Part A: the ordered key-value container (`CompactOrderedHashMap`, Model/Container.lean) refines an
insertion-ordered association list, for every history of inserts and overwrites from `empty`, `new`
(every entry list, repeated keys included) and `from_iter`, at every size and in each of its five
representations.
`Container.abs` is the abstraction function, `Container.Inv` the representation invariant (keys
distinct; stored indices are exactly `0 … len-1`), `Spec.insert / Spec.get / Spec.indexOf` the
association-list specification (Proofs/Container.lean).

Part B: the state model (`StateModel`, Model/StateModel.lean): slots are `0 … n-1` bijectively, the
initial state has the declared values in slot order, setters touch only their own slot, getters read
only their own slot, get-after-set round-trips through the unit tables (C09's bound), add accumulates
in the feature's own unit, extension keeps existing slots.

Part C: the minimal state layer of the search model (`Model/Instance.lean`: `featIndex`, `initialState`,
`addDistance`, `addTime` over a feature list, used by C01–C05, C10, C13) is a refinement of this state
model whenever the feature names are pairwise distinct (`Proofs/StateRefine.lean`): same slots, same
initial state, `add_distance` / `add_time` agree on every input with the minimal layer's `none` being
exactly the full model's errors, positional reads are `get_state_variable` / `get_delta` /
`get_distance` / `get_time`, and a whole search step is the step written against the `StateModel` API.
With a repeated name the layers disagree (`search_state_layer_duplicate_name_counterexample`); the
full model is the one that follows the Rust constructors there.

Part D (coverage follow-up): the remaining arms of the anchor files — wrong-kind getters and codecs of
`state_feature.rs` / `custom_feature_format.rs`, the serde derives and `TryFrom<&Value> for StateModel`
(`Model/StateJson.lean`), `collect_features` in declaration order on the raw query,
`SearchApp::build_search_instance`, and the two arms shown unreachable.

What the theorems do NOT say (audit follow-up):
* Success is characterised, not assumed: `extend_ok_iff` / `extend_succeeds` / `extend_refuses_kind_change`,
  `set_*_ok_iff`, `get_*_ok_iff`, `add_*_ok_iff` (distance / time / energy), `set_custom_ok_iff` and
  `set_custom_{f64,i64,u64,bool}_ok_iff`, `get_custom_{f64,i64,bool}_ok_iff`, `get_custom_u64_ok_iff`
  (depends on the slot's value: `get_custom_u64_negative_slot_counterexample`), `get_delta_ok_iff`,
  `collect_features_ok_iff`; `initial_state` never fails (`initial_state_declared`).  The theorems that take
  `(h : … = .ok …)` describe the result of a call that succeeded.
* Exact arithmetic: the 0.1 % round-trip bound (`get_after_set_*_roundtrip`) and `add_distance_repeated`
  are statements over an ordered field, not over IEEE doubles; `add_*_accumulates`, `*_own_slot` and
  `get_after_set_*_same_unit` use no arithmetic law and hold for doubles as they stand.
* Integer codecs: exact only where the number type's casts invert each other (`|x| ≤ 2^53` for
  doubles): `custom_i64_roundtrip_partial`, `custom_u64_roundtrip_partial`,
  `custom_i64_roundtrip_counterexample` (finding `codec/integer-precision`).
* Serde: `parse_serialized_feature_partial` excludes non-finite initial values, which `serde_json`
  writes as `null` (`parse_serialized_feature_counterexample`, finding `feature/serde-nonfinite`).
* Restatements of the model's definitions, kept as arm-coverage lemmas and not what the claim rests on:
  `try_from_ok_iff`, `get_*_unit_ok_iff`, `get_custom_feature_format_ok_iff`, `encode_*_ok_iff`,
  `decode_*_ok_iff`, `get_feature_format_eq`, `build_search_instance_error_order`,
  `build_search_instance_ok_iff`, `query_state_features_cases`.

Modelled rather than verified:
* error payloads, `Display` texts and message strings (errors are compared by variant only);
* the order in which the query's `state_features` come out of their `HashMap` (list order in the model;
  the result of `extend` and the ok-iff do not depend on it; which of several offending entries is
  reported does);
* the path from a TOML file to the JSON object handed to `StateModel::try_from` (the `config` crate):
  the model starts at that JSON object, in declaration order; that the application delivers it in
  declaration order is evidenced by the `tomlstate` stream of the harness only (it did not before
  /repo 4baa6be: finding `state/config-order`, repaired);
* `f64` rounding, the `as` casts (class `IntCodec`, instantiated by Lean's `Float` in the driver) and
  decimal float lexemes (numbers cross the protocol as bit patterns).

History (key `container/new-duplicate-key`, repaired in /repo 6da9498): `CompactOrderedHashMap::new`
on a list with a repeated key used to keep each surviving key's enumerate position (gaps in the stored
indices: `len = 1`, empty iteration).  `new` now inserts one by one in that case; `new_refines` below
holds for EVERY entry list, and the old witnesses are positive theorems (`new_duplicate_key_repaired`,
`new_duplicate_key_then_insert_repaired`, `new_duplicate_name_repaired`).
-/
import Compass.Gen.Decisions
import Compass.Proofs.Num
import Compass.Model.StateModel
import Compass.Proofs.Container
import Compass.Proofs.StateModel
import Compass.Proofs.StateRefine
import Compass.Model.StateJson
import Compass.Proofs.StateJson
import Compass.Props.C09

namespace Compass
namespace C11

open List Container

set_option linter.unusedSectionVars false
set_option linter.unusedVariables false

/-! ## Part A — the container is an insertion-ordered map -/

section container
variable {K V : Type} [DecidableEq K]

/-! ### the specification means what it says -/

/-- a key that is not present is appended at the end -/
theorem spec_insert_new_key_appends (l : List (K × V)) (k : K) (v : V) (h : k ∉ l.map (·.1)) :
    Spec.insert l k v = l ++ [(k, v)] := Spec.insert_of_not_mem v h

/-- a key that is present keeps its place (the key sequence is unchanged) and gets the new value;
    no other key's value changes -/
theorem spec_insert_existing_overwrites_in_place (l : List (K × V)) (k : K) (v : V)
    (h : k ∈ l.map (·.1)) :
    (Spec.insert l k v).map (·.1) = l.map (·.1) ∧ Spec.get (Spec.insert l k v) k = some v ∧
      ∀ k₂, k₂ ≠ k → Spec.get (Spec.insert l k v) k₂ = Spec.get l k₂ :=
  ⟨Spec.keys_insert_of_mem v h, Spec.get_insert_self l k v, fun _ hne => Spec.get_insert_of_ne l v hne⟩

/-- `Spec.indexOf` is the position of the key in the list -/
theorem spec_indexOf_is_position (l : List (K × V)) (nd : (l.map (·.1)).Nodup) (k : K) (i : Nat) :
    Spec.indexOf l k = some i ↔ (l.map (·.1))[i]? = some k :=
  ⟨Spec.indexOf_eq_some, Spec.indexOf_of_getElem nd⟩

/-! ### insert -/

/-- `insert`, in every representation and at every size: the invariant is preserved, a new key is
    appended at the end, an existing key is overwritten in place, the previous value is returned -/
theorem insert_refines (c : Container K V) (h : Inv c) (k : K) (v : V) :
    Inv (c.insert k v).1 ∧ Container.abs (c.insert k v).1 = Spec.insert (Container.abs c) k v ∧
      (c.insert k v).2 = Spec.get (Container.abs c) k := Container.insert_refines h k v

/-! ### constructors -/

theorem empty_refines : Inv (empty : Container K V) ∧ Container.abs (empty : Container K V) = [] :=
  ⟨inv_empty, abs_empty⟩

/-- `new` on EVERY entry list, at every length, repeated keys included: the invariant holds and the
    container stands for the insertion-ordered association list of the entries (a repeated key keeps
    its first position and its last value) — exactly what `from_iter` builds -/
theorem new_refines (entries : List (K × V)) :
    Inv (new entries) ∧ Container.abs (new entries) = Spec.insertAll [] entries ∧
      Container.abs (new entries) = Container.abs (fromIter entries) :=
  ⟨(Container.new_refines entries).1, (Container.new_refines entries).2,
    by rw [(Container.new_refines entries).2, (fromIter_refines entries).2]⟩

/-- with pairwise distinct keys that list is the entry list itself -/
theorem new_refines_distinct (entries : List (K × V)) (nd : (entries.map (·.1)).Nodup) :
    Container.abs (new entries) = entries := by
  rw [(Container.new_refines entries).2, Spec.insertAll_nil_of_nodup entries nd]

/-- the old witness `new [(1,10),(1,20)]` (was: `len = 1`, empty iteration, claimed slot 1): now one
    entry at position 0 holding the last value -/
theorem new_duplicate_key_repaired :
    let c : Container Nat Nat := new [(1, 10), (1, 20)]
    c.len = 1 ∧ c.iter = [(1, 20)] ∧ c.toVec = [(1, ⟨20, 0⟩)] ∧ c.getPair 0 = some (1, 20) ∧
      c.getPair 1 = none ∧ c.getIndex 1 = some 0 ∧ c.keys = [1] ∧ Inv c := by
  decide

/-- the old witness of two keys sharing a stored index: now three entries in three slots -/
theorem new_duplicate_key_then_insert_repaired :
    let c : Container Nat Nat := ((new [(0, 10), (0, 20), (1, 30)]).insert 2 40).1
    c.len = 3 ∧ c.getIndex 0 = some 0 ∧ c.getIndex 1 = some 1 ∧ c.getIndex 2 = some 2 ∧
      c.iter = [(0, 20), (1, 30), (2, 40)] := by
  decide

/-- `from_iter` on any list (repeated keys included: the later value wins, the first position stays) -/
theorem from_iter_refines (entries : List (K × V)) :
    Inv (fromIter entries) ∧ Container.abs (fromIter entries) = Spec.insertAll [] entries :=
  fromIter_refines entries

/-! ### every history -/

/-- the three ways a history can start -/
inductive Start (K V : Type) where
  | empty
  | new (entries : List (K × V))
  | fromIter (entries : List (K × V))

def Start.build : Start K V → Container K V
  | .empty => Container.empty
  | .new es => Container.new es
  | .fromIter es => Container.fromIter es

def Start.spec : Start K V → List (K × V)
  | .empty => []
  | .new es => Spec.insertAll [] es
  | .fromIter es => Spec.insertAll [] es

/-- every history of inserts and overwrites, from every start, at every size: the container stands
    for exactly the association list the same history produces, and the invariant holds -/
theorem history_refines (s : Start K V) (ops : List (K × V)) :
    Inv (insertAll s.build ops) ∧ Container.abs (insertAll s.build ops) = Spec.insertAll s.spec ops := by
  have h0 : Inv s.build ∧ Container.abs s.build = s.spec := by
    cases s with
    | empty => exact ⟨inv_empty, abs_empty⟩
    | new es => exact Container.new_refines es
    | fromIter es => exact fromIter_refines es
  have := insertAll_refines h0.1 ops
  rw [h0.2] at this
  exact this

/-! ### accessors -/

theorem len_refines (c : Container K V) (h : Inv c) : c.len = (Container.abs c).length := len_abs h

theorem is_empty_refines (c : Container K V) (h : Inv c) : c.isEmpty = (Container.abs c).isEmpty := isEmpty_abs h

theorem get_refines (c : Container K V) (h : Inv c) (k : K) : c.get k = Spec.get (Container.abs c) k := get_abs h k

theorem contains_key_refines (c : Container K V) (h : Inv c) (k : K) :
    c.containsKey k = (Spec.get (Container.abs c) k).isSome := containsKey_abs h k

theorem get_index_refines (c : Container K V) (h : Inv c) (k : K) :
    c.getIndex k = Spec.indexOf (Container.abs c) k := getIndex_abs h k

/-- `get_pair i` is the `i`-th pair, `None` from `len` on (the code's guard is `index > len`, which is
    harmless only because no stored index equals `len` under the invariant) -/
theorem get_pair_refines (c : Container K V) (h : Inv c) (i : Nat) : c.getPair i = (Container.abs c)[i]? :=
  getPair_abs h i

/-- the code's guard in the `NEntries` arm is `index > len` rather than `≥`; this cannot be observed:
    in every reachable container (any start, any history) `get_pair` answers `None` at every index
    from `len` on, `len` itself included -/
theorem get_pair_out_of_range (s : Start K V) (ops : List (K × V)) (i : Nat)
    (hi : (insertAll s.build ops).len ≤ i) : (insertAll s.build ops).getPair i = none :=
  getPair_out_of_range (history_refines s ops).1 hi

theorem keys_refines (c : Container K V) : c.keys = (Container.abs c).map (·.1) := keys_abs c

/-- iteration yields every entry, once, in insertion order -/
theorem iter_refines (c : Container K V) (h : Inv c) : c.iter = Container.abs c := iter_abs h

theorem indexed_iter_refines (c : Container K V) (h : Inv c) :
    c.indexedIter = (Container.abs c).zipIdx.map (fun p => (p.2, p.1)) := indexedIter_abs h

theorem to_vec_refines (c : Container K V) (h : Inv c) : c.toVec = reindex (Container.abs c) := toVec_abs h

theorem into_iter_refines (c : Container K V) (h : Inv c) : c.intoIter = reindex (Container.abs c) := intoIter_abs h

/-- positions handed out by `to_vec` / `into_iter` are `0, 1, …` -/
theorem reindex_positions (a : List (K × V)) :
    (reindex a).map (·.2.index) = List.range a.length ∧ (reindex a).map kv = a := by
  constructor
  · simp only [reindex, map_map]
    have : ((fun x : K × IndexedEntry V => x.2.index) ∘
        fun p : (K × V) × Nat => (p.1.1, ({ v := p.1.2, index := p.2 } : IndexedEntry V))) = Prod.snd := by
      funext p; rfl
    rw [this, zipIdx_map_snd, range_eq_range']
  · simp only [reindex, map_map]
    have : (kv ∘ fun p : (K × V) × Nat => (p.1.1, ({ v := p.1.2, index := p.2 } : IndexedEntry V))) = Prod.fst := by
      funext p; rfl
    rw [this, zipIdx_map_fst]

/-! ### the invariant says: stored indices are exactly `0 … len-1`, keys are distinct -/

theorem invariant_indices_exact (m : HMap K (IndexedEntry V)) (h : Inv (.n m)) (i : Nat) :
    i < m.length ↔ ∃ e ∈ m, e.2.index = i := by
  have := h.2.mem_iff (a := i)
  simp only [mem_map, mem_range] at this
  exact this.symm

theorem invariant_indices_unique (m : HMap K (IndexedEntry V)) (h : Inv (.n m))
    (a b : K × IndexedEntry V) (ha : a ∈ m) (hb : b ∈ m) (hab : a.2.index = b.2.index) : a = b :=
  (sortedForm_of_inv h.2).inj ha hb hab

theorem invariant_keys_distinct (c : Container K V) (h : Inv c) : ((Container.abs c).map (·.1)).Nodup :=
  abs_keys_nodup h

/-- the unspecified iteration order of the `HashMap` cannot be observed: two `HashMap`s with the same
    entries in different order stand for the same association list (and every accessor above is a
    function of that list) -/
theorem hashmap_order_unobservable (m m' : HMap K (IndexedEntry V)) (p : m' ~ m) (h : Inv (.n m)) :
    Inv (.n m') ∧ Container.abs (.n m') = Container.abs (.n m) := by
  have sf := sortedForm_of_inv h.2
  have sf' : SortedForm m' (sortByIndex m) := ⟨sf.perm.trans p.symm, sf.idx⟩
  have nd' : (m'.map (·.1)).Nodup := (p.map _).nodup_iff.mpr h.1
  exact ⟨inv_of_sortedForm nd' sf', by rw [abs_n_of_sortedForm sf', abs_n_of_sortedForm sf]⟩

end container

/-- non-vacuity: ten inserts (eight new keys, two overwrites, one of them at size ≥ 6) — the history
    is well past every small representation, satisfies the invariant and is the expected list -/
example :
    let c : Container Nat Nat := insertAll empty
      [(7, 0), (3, 1), (9, 2), (1, 3), (4, 4), (8, 5), (3, 6), (2, 7), (6, 8), (8, 9)]
    Inv c ∧ c.len = 8 ∧ c.iter = [(7, 0), (3, 6), (9, 2), (1, 3), (4, 4), (8, 9), (2, 7), (6, 8)] ∧
      c.getIndex 6 = some 7 ∧ c.getPair 7 = some (6, 8) ∧ c.getPair 8 = none := by
  refine ⟨(history_refines Start.empty _).1, ?_⟩
  decide

example : Inv (new [(5, 0), (4, 1), (3, 2), (2, 3), (1, 4), (0, 5), (5, 7), (9, 6)] : Container Nat Nat) :=
  (new_refines _).1

/-! ## Part B — the state model -/

section state
variable {α : Type}

open StateModel

/-! ### construction -/

/-- EVERY feature list — any length, any kinds, repeated names included — yields a well-formed
    model whose ordered feature list is the insertion-ordered association list of the declarations
    (a repeated name keeps its first slot and its last declaration) -/
theorem new_wf (fs : List (String × StateFeature α)) :
    WF (StateModel.new fs) ∧ feats (StateModel.new fs) = Spec.insertAll [] fs := wf_new fs

/-- with pairwise distinct names the ordered feature list is the declaration list itself -/
theorem new_wf_distinct (fs : List (String × StateFeature α)) (nd : (fs.map (·.1)).Nodup) :
    feats (StateModel.new fs) = fs := (wf_new_of_nodup fs nd).2

theorem empty_wf : WF (StateModel.empty : StateModel α) ∧ feats (StateModel.empty : StateModel α) = [] :=
  wf_empty

/-! ### slots are 0 … n-1, one per feature -/

/-- the slot of a name is its position in the ordered feature list -/
theorem slot_is_position (m : StateModel α) (h : WF m) (name : String) (i : Nat) :
    m.getIndex name = some i ↔ ((feats m).map (·.1))[i]? = some name := by
  rw [getIndex_eq h]
  exact ⟨Spec.indexOf_eq_some, Spec.indexOf_of_getElem (feats_nodup h)⟩

/-- a name has a slot exactly when it is a feature of the model -/
theorem slot_iff_feature (m : StateModel α) (h : WF m) (name : String) :
    (m.getIndex name).isSome ↔ m.containsKey name = true := by
  rw [getIndex_eq h, StateModel.containsKey, Container.containsKey_abs h]
  exact Spec.indexOf_isSome_iff_get

/-- every slot is in range -/
theorem slot_in_range (m : StateModel α) (h : WF m) (name : String) (i : Nat)
    (hi : m.getIndex name = some i) : i < m.len := by
  rw [getIndex_eq h] at hi
  rw [len_eq h]
  exact Spec.indexOf_lt hi

/-- no slot is shared -/
theorem slot_injective (m : StateModel α) (h : WF m) (a b : String) (i : Nat)
    (ha : m.getIndex a = some i) (hb : m.getIndex b = some i) : a = b := by
  rw [getIndex_eq h] at ha hb
  exact Spec.indexOf_inj ha hb

/-- no slot is skipped -/
theorem slot_surjective (m : StateModel α) (h : WF m) (i : Nat) (hi : i < m.len) :
    ∃ name, m.getIndex name = some i := by
  rw [len_eq h] at hi
  exact ⟨((feats m)[i]).1, by rw [getIndex_eq h]; exact Spec.indexOf_surj (feats_nodup h) hi⟩

/-- the `i`-th declared feature gets slot `i` -/
theorem new_slot (fs : List (String × StateFeature α)) (nd : (fs.map (·.1)).Nodup) (i : Nat)
    (hi : i < fs.length) : (StateModel.new fs).getIndex (fs[i]).1 = some i := by
  have h := wf_new_of_nodup fs nd
  rw [getIndex_eq h.1]
  simp only [h.2]
  exact Spec.indexOf_surj nd hi

theorem len_is_feature_count (m : StateModel α) (h : WF m) : m.len = (feats m).length := len_eq h

theorem iter_is_slot_order (m : StateModel α) (h : WF m) :
    m.iter = feats m ∧ m.indexedIter = (feats m).zipIdx.map (fun p => (p.2, p.1)) :=
  ⟨iter_eq h, Container.indexedIter_abs h⟩

/-! ### initial state -/

section initial
variable [Lit α] [IntCodec α] [LT α] [DecidableLT α] [BEq α]

/-- the initial state never fails, has exactly `n` entries, and slot `i` holds the initial value
    declared by the feature that owns slot `i` -/
theorem initial_state_declared (m : StateModel α) (h : WF m) :
    ∃ st, m.initialState = .ok st ∧ st.length = m.len ∧
      ∀ name i, m.getIndex name = some i →
        ∃ f, m.map.get name = some f ∧ st[i]? = some (declaredInitial f) := by
  refine ⟨_, initialState_eq h, by simp [len_eq h], ?_⟩
  intro name i hi
  rw [getIndex_eq h] at hi
  obtain ⟨f, h1, h2⟩ := Spec.indexOf_get hi
  refine ⟨f, by rw [get_eq h]; exact h2, ?_⟩
  simp [h1]

end initial

/-! ### extension (configuration ⊕ model features ⊕ query overrides) -/

/-- a successful `extend` keeps the model well-formed, keeps every existing feature in its slot,
    appends new names after the existing ones (so slots stay `0 … n'-1`), and gives every name the
    feature of the last entry that mentions it (else the old feature) -/
theorem extend_keeps_slots (m m' : StateModel α) (h : WF m) (entries : List (String × StateFeature α))
    (he : m.extend entries = .ok m') :
    WF m' ∧ (∀ name i, m.getIndex name = some i → m'.getIndex name = some i) ∧
      (∃ t, m'.names = m.names ++ t) ∧
      ∀ name, m'.map.get name =
        ((entries.reverse.find? (fun e => e.1 = name)).map (·.2)).or (m.map.get name) := by
  obtain ⟨hw, hf⟩ := extend_ok h he
  refine ⟨hw, ?_, ?_, ?_⟩
  · intro name i hi
    rw [getIndex_eq h] at hi
    rw [getIndex_eq hw, hf]
    have hm : name ∈ (feats m).map (·.1) := by
      by_contra hn
      rw [Spec.indexOf_eq_none_iff.mpr hn] at hi
      cases hi
    rw [Spec.indexOf_insertAll_of_mem _ _ hm]
    exact hi
  · rw [names_eq h, names_eq hw, hf]
    exact Spec.keys_insertAll_prefix _ _
  · intro name
    rw [get_eq hw, hf, get_eq h]
    exact Spec.get_insertAll (feats m) entries name

/-- the per-query state model of `SearchApp::build_search_instance`: the configured model extended
    by `collect_features` (traversal-model, access-model and query features).  Whenever both steps
    succeed the result is well-formed (so every slot theorem above applies to it), configured features
    keep their slots, and the features that have a slot are exactly the configured ones plus every
    feature named by the traversal model, the access model or the query -/
theorem per_query_model (m m' : StateModel α) (h : WF m)
    (traversal access : List (String × StateFeature α)) (user : Option (List (String × StateFeature α)))
    (fs : List (String × StateFeature α)) (hc : collectFeatures traversal access user = .ok fs)
    (he : m.extend fs = .ok m') :
    WF m' ∧ (∀ name i, m.getIndex name = some i → m'.getIndex name = some i) ∧
      ∀ name, (m'.getIndex name).isSome ↔
        ((m.getIndex name).isSome ∨ name ∈ (traversal ++ access).map (·.1) ∨
          name ∈ (user.getD []).map (·.1)) := by
  obtain ⟨hw, hkeep, _, _⟩ := extend_keeps_slots m m' h fs he
  refine ⟨hw, hkeep, ?_⟩
  intro name
  have hfs : fs = HMap.ofList (traversal ++ access) ++ user.getD [] := by
    simp only [collectFeatures] at hc
    split at hc
    · cases hc
    · simp only [Except.ok.injEq] at hc
      exact hc.symm
  have hf := (extend_ok h he).2
  have e1 : ∀ (mm : StateModel α), WF mm → ((mm.getIndex name).isSome ↔ name ∈ (feats mm).map (·.1)) := by
    intro mm hmm
    rw [getIndex_eq hmm, ← not_iff_not]
    simp only [Option.not_isSome_iff_eq_none, Spec.indexOf_eq_none_iff]
  rw [e1 m' hw, e1 m h, hf, Spec.mem_keys_insertAll, hfs, Spec.ofList_eq_insertAll]
  simp only [map_append, mem_append, Spec.mem_keys_insertAll, map_nil, not_mem_nil, false_or]

/-- WHEN `extend` succeeds: exactly when every entry's name is either new, or held — by the model or
    by an earlier entry of the same call — by a feature that is `==` the entry's (same kind; for custom
    features same type and unit names).  Otherwise it is refused (`BuildError`). -/
theorem extend_ok_iff (m : StateModel α) (h : WF m) (entries : List (String × StateFeature α)) :
    (∃ m', m.extend entries = .ok m') ↔
      ∀ j (hj : j < entries.length), ∀ o,
        Spec.get (Spec.insertAll (feats m) (entries.take j)) (entries[j]).1 = some o →
          o.eqv (entries[j]).2 = true := by
  rw [extend_ok_iff_kindChanges h, kindChanges_eq_nil_iff]

theorem extend_error_is_build (m : StateModel α) (entries : List (String × StateFeature α)) (e : StateErr)
    (he : m.extend entries = .error e) : e = .build := by
  simp only [StateModel.extend] at he
  split_ifs at he
  cases he; rfl

/-- in particular `extend` succeeds whenever every entry is `==` the feature the model holds under its
    name (if any) and entries that share a name are `==` each other: new names, and overrides of
    unit / initial value by a feature of the same kind, are always accepted -/
theorem extend_succeeds (m : StateModel α) (h : WF m) (entries : List (String × StateFeature α))
    (hold : ∀ e ∈ entries, ∀ o, Spec.get (feats m) e.1 = some o → o.eqv e.2 = true)
    (hnew : ∀ e ∈ entries, ∀ e' ∈ entries, e.1 = e'.1 → e.2.eqv e'.2 = true) :
    ∃ m', m.extend entries = .ok m' := by
  rw [extend_ok_iff m h]
  intro j hj o ho
  rw [Spec.get_insertAll] at ho
  cases hf : ((entries.take j).reverse.find? (fun e => e.1 = (entries[j]).1)) with
  | none =>
    rw [hf] at ho
    simp only [Option.map_none, Option.none_or] at ho
    exact hold _ (getElem_mem hj) o ho
  | some e' =>
    rw [hf] at ho
    simp only [Option.map_some, Option.some_or, Option.some.injEq] at ho
    subst ho
    have hm : e' ∈ entries := by
      have := mem_of_find?_eq_some hf
      exact mem_of_mem_take (mem_reverse.mp this)
    have hk : e'.1 = (entries[j]).1 := by simpa using find?_some hf
    exact hnew e' hm _ (getElem_mem hj) hk

/-! ### setters touch only their own slot -/

theorem set_touches_only_own_slot (st st' : List α) (i : Nat) (v : α) (h : st' = st.set i v) :
    st'.length = st.length ∧ ∀ j, j ≠ i → st'[j]? = st[j]? := by
  subst h
  refine ⟨by simp, ?_⟩
  intro j hj
  rw [List.getElem?_set_ne (Ne.symm hj)]

section numeric
variable [Mul α] [Div α] [Lit α]

/-- `set_distance name`: the vector keeps its length and changes at most in the slot of `name` -/
theorem set_distance_own_slot (m : StateModel α) (st st' : List α) (name : String) (x : α)
    (u : DistanceUnit) (h : m.setDistance st name x u = .ok st') :
    ∃ i, m.getIndex name = some i ∧ i < st.length ∧ st'.length = st.length ∧
      ∀ j, j ≠ i → st'[j]? = st[j]? := by
  obtain ⟨fu, init, i, _, hi, hl, hs⟩ := setDistance_ok.mp h
  exact ⟨i, hi, hl, set_touches_only_own_slot st st' i _ hs⟩

theorem set_time_own_slot (m : StateModel α) (st st' : List α) (name : String) (x : α)
    (u : TimeUnit) (h : m.setTime st name x u = .ok st') :
    ∃ i, m.getIndex name = some i ∧ i < st.length ∧ st'.length = st.length ∧
      ∀ j, j ≠ i → st'[j]? = st[j]? := by
  obtain ⟨fu, init, i, _, hi, hl, hs⟩ := setTime_ok.mp h
  exact ⟨i, hi, hl, set_touches_only_own_slot st st' i _ hs⟩

theorem set_energy_own_slot (m : StateModel α) (st st' : List α) (name : String) (x : α)
    (u : EnergyUnit) (h : m.setEnergy st name x u = .ok st') :
    ∃ i, m.getIndex name = some i ∧ i < st.length ∧ st'.length = st.length ∧
      ∀ j, j ≠ i → st'[j]? = st[j]? := by
  obtain ⟨fu, init, i, _, hi, hl, hs⟩ := setEnergy_ok.mp h
  exact ⟨i, hi, hl, set_touches_only_own_slot st st' i _ hs⟩

/-- a failing setter changes nothing (it returns no vector), a succeeding one needs the right kind -/
theorem set_distance_needs_distance_feature (m : StateModel α) (st st' : List α) (name : String)
    (x : α) (u : DistanceUnit) (h : m.setDistance st name x u = .ok st') :
    ∃ fu init, m.map.get name = some (.distance fu init) := by
  obtain ⟨fu, init, _, hg, _⟩ := setDistance_ok.mp h
  exact ⟨fu, init, hg⟩


/-- WHEN `set_distance` / `add_distance` / `get_distance` succeed, on a well-formed model and a state vector of the
    model's length: exactly when the name is a distance feature -/
theorem set_distance_ok_iff (m : StateModel α) (h : WF m) (st : List α) (hl : st.length = m.len)
    (name : String) (x : α) (u : DistanceUnit) :
    (∃ st', m.setDistance st name x u = .ok st') ↔ ∃ fu init, m.map.get name = some (.distance fu init) := by
  constructor
  · rintro ⟨st', hs⟩
    obtain ⟨fu, init, _, hg, _⟩ := setDistance_ok.mp hs
    exact ⟨fu, init, hg⟩
  · rintro ⟨fu, init, hg⟩
    have hs : (m.getIndex name).isSome := by
      rw [slot_iff_feature m h, StateModel.containsKey, Container.containsKey, hg]; rfl
    obtain ⟨i, hi⟩ := Option.isSome_iff_exists.mp hs
    have hlt := slot_in_range m h name i hi
    exact ⟨_, setDistance_ok.mpr ⟨fu, init, i, hg, hi, by omega, rfl⟩⟩

theorem get_distance_ok_iff (m : StateModel α) (h : WF m) (st : List α) (hl : st.length = m.len)
    (name : String) (u : DistanceUnit) :
    (∃ y, m.getDistance st name u = .ok y) ↔ ∃ fu init, m.map.get name = some (.distance fu init) := by
  constructor
  · rintro ⟨y, hs⟩
    obtain ⟨fu, init, _, _, hg, _⟩ := getDistance_ok.mp hs
    exact ⟨fu, init, hg⟩
  · rintro ⟨fu, init, hg⟩
    have hs : (m.getIndex name).isSome := by
      rw [slot_iff_feature m h, StateModel.containsKey, Container.containsKey, hg]; rfl
    obtain ⟨i, hi⟩ := Option.isSome_iff_exists.mp hs
    have hlt : i < st.length := by have := slot_in_range m h name i hi; omega
    exact ⟨_, getDistance_ok.mpr ⟨fu, init, i, st[i], hg, hi, by simp [hlt], rfl⟩⟩

theorem add_distance_ok_iff [Add α] (m : StateModel α) (h : WF m) (st : List α) (hl : st.length = m.len)
    (name : String) (x : α) (u : DistanceUnit) :
    (∃ st', m.addDistance st name x u = .ok st') ↔ ∃ fu init, m.map.get name = some (.distance fu init) := by
  constructor
  · rintro ⟨st', hs⟩
    obtain ⟨fu, init, _, _, hg, _⟩ := addDistance_ok.mp hs
    exact ⟨fu, init, hg⟩
  · rintro ⟨fu, init, hg⟩
    have hs : (m.getIndex name).isSome := by
      rw [slot_iff_feature m h, StateModel.containsKey, Container.containsKey, hg]; rfl
    obtain ⟨i, hi⟩ := Option.isSome_iff_exists.mp hs
    have hlt : i < st.length := by have := slot_in_range m h name i hi; omega
    exact ⟨_, addDistance_ok.mpr ⟨fu, init, i, st[i], hg, hi, by simp [hlt], rfl⟩⟩

/-- WHEN `set_time` / `add_time` / `get_time` succeed, on a well-formed model and a state vector of the
    model's length: exactly when the name is a time feature -/
theorem set_time_ok_iff (m : StateModel α) (h : WF m) (st : List α) (hl : st.length = m.len)
    (name : String) (x : α) (u : TimeUnit) :
    (∃ st', m.setTime st name x u = .ok st') ↔ ∃ fu init, m.map.get name = some (.time fu init) := by
  constructor
  · rintro ⟨st', hs⟩
    obtain ⟨fu, init, _, hg, _⟩ := setTime_ok.mp hs
    exact ⟨fu, init, hg⟩
  · rintro ⟨fu, init, hg⟩
    have hs : (m.getIndex name).isSome := by
      rw [slot_iff_feature m h, StateModel.containsKey, Container.containsKey, hg]; rfl
    obtain ⟨i, hi⟩ := Option.isSome_iff_exists.mp hs
    have hlt := slot_in_range m h name i hi
    exact ⟨_, setTime_ok.mpr ⟨fu, init, i, hg, hi, by omega, rfl⟩⟩

theorem get_time_ok_iff (m : StateModel α) (h : WF m) (st : List α) (hl : st.length = m.len)
    (name : String) (u : TimeUnit) :
    (∃ y, m.getTime st name u = .ok y) ↔ ∃ fu init, m.map.get name = some (.time fu init) := by
  constructor
  · rintro ⟨y, hs⟩
    obtain ⟨fu, init, _, _, hg, _⟩ := getTime_ok.mp hs
    exact ⟨fu, init, hg⟩
  · rintro ⟨fu, init, hg⟩
    have hs : (m.getIndex name).isSome := by
      rw [slot_iff_feature m h, StateModel.containsKey, Container.containsKey, hg]; rfl
    obtain ⟨i, hi⟩ := Option.isSome_iff_exists.mp hs
    have hlt : i < st.length := by have := slot_in_range m h name i hi; omega
    exact ⟨_, getTime_ok.mpr ⟨fu, init, i, st[i], hg, hi, by simp [hlt], rfl⟩⟩

theorem add_time_ok_iff [Add α] (m : StateModel α) (h : WF m) (st : List α) (hl : st.length = m.len)
    (name : String) (x : α) (u : TimeUnit) :
    (∃ st', m.addTime st name x u = .ok st') ↔ ∃ fu init, m.map.get name = some (.time fu init) := by
  constructor
  · rintro ⟨st', hs⟩
    obtain ⟨fu, init, _, _, hg, _⟩ := addTime_ok.mp hs
    exact ⟨fu, init, hg⟩
  · rintro ⟨fu, init, hg⟩
    have hs : (m.getIndex name).isSome := by
      rw [slot_iff_feature m h, StateModel.containsKey, Container.containsKey, hg]; rfl
    obtain ⟨i, hi⟩ := Option.isSome_iff_exists.mp hs
    have hlt : i < st.length := by have := slot_in_range m h name i hi; omega
    exact ⟨_, addTime_ok.mpr ⟨fu, init, i, st[i], hg, hi, by simp [hlt], rfl⟩⟩

/-- WHEN `set_energy` / `add_energy` / `get_energy` succeed, on a well-formed model and a state vector of the
    model's length: exactly when the name is a energy feature -/
theorem set_energy_ok_iff (m : StateModel α) (h : WF m) (st : List α) (hl : st.length = m.len)
    (name : String) (x : α) (u : EnergyUnit) :
    (∃ st', m.setEnergy st name x u = .ok st') ↔ ∃ fu init, m.map.get name = some (.energy fu init) := by
  constructor
  · rintro ⟨st', hs⟩
    obtain ⟨fu, init, _, hg, _⟩ := setEnergy_ok.mp hs
    exact ⟨fu, init, hg⟩
  · rintro ⟨fu, init, hg⟩
    have hs : (m.getIndex name).isSome := by
      rw [slot_iff_feature m h, StateModel.containsKey, Container.containsKey, hg]; rfl
    obtain ⟨i, hi⟩ := Option.isSome_iff_exists.mp hs
    have hlt := slot_in_range m h name i hi
    exact ⟨_, setEnergy_ok.mpr ⟨fu, init, i, hg, hi, by omega, rfl⟩⟩

theorem get_energy_ok_iff (m : StateModel α) (h : WF m) (st : List α) (hl : st.length = m.len)
    (name : String) (u : EnergyUnit) :
    (∃ y, m.getEnergy st name u = .ok y) ↔ ∃ fu init, m.map.get name = some (.energy fu init) := by
  constructor
  · rintro ⟨y, hs⟩
    obtain ⟨fu, init, _, _, hg, _⟩ := getEnergy_ok.mp hs
    exact ⟨fu, init, hg⟩
  · rintro ⟨fu, init, hg⟩
    have hs : (m.getIndex name).isSome := by
      rw [slot_iff_feature m h, StateModel.containsKey, Container.containsKey, hg]; rfl
    obtain ⟨i, hi⟩ := Option.isSome_iff_exists.mp hs
    have hlt : i < st.length := by have := slot_in_range m h name i hi; omega
    exact ⟨_, getEnergy_ok.mpr ⟨fu, init, i, st[i], hg, hi, by simp [hlt], rfl⟩⟩

theorem add_energy_ok_iff [Add α] (m : StateModel α) (h : WF m) (st : List α) (hl : st.length = m.len)
    (name : String) (x : α) (u : EnergyUnit) :
    (∃ st', m.addEnergy st name x u = .ok st') ↔ ∃ fu init, m.map.get name = some (.energy fu init) := by
  constructor
  · rintro ⟨st', hs⟩
    obtain ⟨fu, init, _, _, hg, _⟩ := addEnergy_ok.mp hs
    exact ⟨fu, init, hg⟩
  · rintro ⟨fu, init, hg⟩
    have hs : (m.getIndex name).isSome := by
      rw [slot_iff_feature m h, StateModel.containsKey, Container.containsKey, hg]; rfl
    obtain ⟨i, hi⟩ := Option.isSome_iff_exists.mp hs
    have hlt : i < st.length := by have := slot_in_range m h name i hi; omega
    exact ⟨_, addEnergy_ok.mpr ⟨fu, init, i, st[i], hg, hi, by simp [hlt], rfl⟩⟩

/-- the private `update_state` (through which every setter and add writes) keeps the length of the
    vector; together with the `*_ok_iff` theorems this lets single steps be chained (no theorem about
    whole sequences is stated) -/
theorem update_keeps_length (m : StateModel α) (st st' : List α) (name : String) (v : α)
    (h : m.updateState st name v = .ok st') : st'.length = st.length := by
  obtain ⟨i, _, _, rfl⟩ := updateState_ok.mp h
  simp

/-! ### getters read only their own slot -/

theorem get_distance_own_slot (m : StateModel α) (st st₂ : List α) (name : String) (u : DistanceUnit)
    (i : Nat) (hi : m.getIndex name = some i) (hs : st₂[i]? = st[i]?) :
    m.getDistance st₂ name u = m.getDistance st name u := by
  simp only [StateModel.getIndex] at hi
  simp only [getDistance, getStateVariable, hi, hs]

theorem get_time_own_slot (m : StateModel α) (st st₂ : List α) (name : String) (u : TimeUnit)
    (i : Nat) (hi : m.getIndex name = some i) (hs : st₂[i]? = st[i]?) :
    m.getTime st₂ name u = m.getTime st name u := by
  simp only [StateModel.getIndex] at hi
  simp only [getTime, getStateVariable, hi, hs]

theorem get_energy_own_slot (m : StateModel α) (st st₂ : List α) (name : String) (u : EnergyUnit)
    (i : Nat) (hi : m.getIndex name = some i) (hs : st₂[i]? = st[i]?) :
    m.getEnergy st₂ name u = m.getEnergy st name u := by
  simp only [StateModel.getIndex] at hi
  simp only [getEnergy, getStateVariable, hi, hs]

/-- updating one feature leaves the value read for any other feature unchanged -/
theorem set_distance_other_feature_unchanged (m : StateModel α) (hw : WF m) (st st' : List α)
    (a b : String) (hab : a ≠ b) (x : α) (u : DistanceUnit)
    (h : m.setDistance st a x u = .ok st') :
    m.getStateVariable st' b = m.getStateVariable st b := by
  obtain ⟨i, hi, _, _, hs⟩ := set_distance_own_slot m st st' a x u h
  simp only [getStateVariable]
  cases hb : m.map.getIndex b with
  | none => rfl
  | some j =>
    have : j ≠ i := fun hji => hab (slot_injective m hw a b i hi (by rw [← hji]; exact hb))
    simp only [hs j this]

/-! ### get after set -/

/-- reading back what was just written goes through `convert` there and back -/
theorem get_after_set_distance (m : StateModel α) (st st' : List α) (name : String) (x : α)
    (u : DistanceUnit) (h : m.setDistance st name x u = .ok st') :
    ∃ fu init, m.map.get name = some (.distance fu init) ∧
      m.getDistance st' name u = .ok (fu.convert u (u.convert fu x)) := by
  obtain ⟨fu, init, i, hg, hi, hl, hs⟩ := setDistance_ok.mp h
  refine ⟨fu, init, hg, getDistance_ok.mpr ⟨fu, init, i, _, hg, hi, ?_, rfl⟩⟩
  subst hs; simp [hl]

theorem get_after_set_time (m : StateModel α) (st st' : List α) (name : String) (x : α)
    (u : TimeUnit) (h : m.setTime st name x u = .ok st') :
    ∃ fu init, m.map.get name = some (.time fu init) ∧
      m.getTime st' name u = .ok (fu.convert u (u.convert fu x)) := by
  obtain ⟨fu, init, i, hg, hi, hl, hs⟩ := setTime_ok.mp h
  refine ⟨fu, init, hg, getTime_ok.mpr ⟨fu, init, i, _, hg, hi, ?_, rfl⟩⟩
  subst hs; simp [hl]

theorem get_after_set_energy (m : StateModel α) (st st' : List α) (name : String) (x : α)
    (u : EnergyUnit) (h : m.setEnergy st name x u = .ok st') :
    ∃ fu init, m.map.get name = some (.energy fu init) ∧
      m.getEnergy st' name u = .ok (fu.convert u (u.convert fu x)) := by
  obtain ⟨fu, init, i, hg, hi, hl, hs⟩ := setEnergy_ok.mp h
  refine ⟨fu, init, hg, getEnergy_ok.mpr ⟨fu, init, i, _, hg, hi, ?_, rfl⟩⟩
  subst hs; simp [hl]

/-! ### add accumulates in the feature's own unit -/

variable [Add α]

/-- `add_distance`: the slot of `name` becomes old value + increment converted into the feature's
    unit; nothing else changes -/
theorem add_distance_accumulates (m : StateModel α) (st st' : List α) (name : String) (x : α)
    (u : DistanceUnit) (h : m.addDistance st name x u = .ok st') :
    ∃ fu init i v, m.map.get name = some (.distance fu init) ∧ m.getIndex name = some i ∧
      st[i]? = some v ∧ st'[i]? = some (v + u.convert fu x) ∧ st'.length = st.length ∧
      ∀ j, j ≠ i → st'[j]? = st[j]? := by
  obtain ⟨fu, init, i, v, hg, hi, hv, hs⟩ := addDistance_ok.mp h
  have hl : i < st.length := (List.getElem?_eq_some_iff.mp hv).1
  refine ⟨fu, init, i, v, hg, hi, hv, ?_, set_touches_only_own_slot st st' i _ hs⟩
  subst hs; simp [hl]

theorem add_time_accumulates (m : StateModel α) (st st' : List α) (name : String) (x : α)
    (u : TimeUnit) (h : m.addTime st name x u = .ok st') :
    ∃ fu init i v, m.map.get name = some (.time fu init) ∧ m.getIndex name = some i ∧
      st[i]? = some v ∧ st'[i]? = some (v + u.convert fu x) ∧ st'.length = st.length ∧
      ∀ j, j ≠ i → st'[j]? = st[j]? := by
  obtain ⟨fu, init, i, v, hg, hi, hv, hs⟩ := addTime_ok.mp h
  have hl : i < st.length := (List.getElem?_eq_some_iff.mp hv).1
  refine ⟨fu, init, i, v, hg, hi, hv, ?_, set_touches_only_own_slot st st' i _ hs⟩
  subst hs; simp [hl]

theorem add_energy_accumulates (m : StateModel α) (st st' : List α) (name : String) (x : α)
    (u : EnergyUnit) (h : m.addEnergy st name x u = .ok st') :
    ∃ fu init i v, m.map.get name = some (.energy fu init) ∧ m.getIndex name = some i ∧
      st[i]? = some v ∧ st'[i]? = some (v + u.convert fu x) ∧ st'.length = st.length ∧
      ∀ j, j ≠ i → st'[j]? = st[j]? := by
  obtain ⟨fu, init, i, v, hg, hi, hv, hs⟩ := addEnergy_ok.mp h
  have hl : i < st.length := (List.getElem?_eq_some_iff.mp hv).1
  refine ⟨fu, init, i, v, hg, hi, hv, ?_, set_touches_only_own_slot st st' i _ hs⟩
  subst hs; simp [hl]

end numeric

theorem get_delta_own_slot [Sub α] (m : StateModel α) (prev next : List α) (name : String) (d : α)
    (h : m.getDelta prev next name = .ok d) :
    ∃ i p n, m.getIndex name = some i ∧ prev[i]? = some p ∧ next[i]? = some n ∧ d = n - p :=
  getDelta_ok.mp h

/-! ### custom features: codecs -/

section custom
variable [Lit α] [IntCodec α] [LT α] [DecidableLT α] [BEq α]

theorem set_custom_own_slot (m : StateModel α) (st st' : List α) (name : String)
    (encode : CustomFeatureFormat α → Except StateErr α)
    (h : m.setCustomWith st name encode = .ok st') :
    ∃ i, m.getIndex name = some i ∧ i < st.length ∧ st'.length = st.length ∧
      ∀ j, j ≠ i → st'[j]? = st[j]? := by
  obtain ⟨ty, un, fmt, i, x, _, _, hi, hl, hs⟩ := setCustomWith_ok.mp h
  exact ⟨i, hi, hl, set_touches_only_own_slot st st' i _ hs⟩


/-- the four custom getters read only the feature's own slot -/
theorem get_custom_own_slot (m : StateModel α) (st st₂ : List α) (name : String)
    (i : Nat) (hi : m.getIndex name = some i) (hs : st₂[i]? = st[i]?) :
    m.getCustomF64 st₂ name = m.getCustomF64 st name ∧ m.getCustomI64 st₂ name = m.getCustomI64 st name ∧
      m.getCustomU64 st₂ name = m.getCustomU64 st name ∧ m.getCustomBool st₂ name = m.getCustomBool st name := by
  simp only [StateModel.getIndex] at hi
  simp only [getCustomF64, getCustomI64, getCustomU64, getCustomBool, getCustomStateVariable,
    getStateVariable, hi, hs, and_self]

/-- WHEN a custom setter succeeds (well-formed model, vector of the model's length): exactly when the
    name is a custom feature whose format the encoder accepts -/
theorem set_custom_ok_iff (m : StateModel α) (h : WF m) (st : List α) (hl : st.length = m.len)
    (name : String) (encode : CustomFeatureFormat α → Except StateErr α) :
    (∃ st', m.setCustomWith st name encode = .ok st') ↔
      ∃ ty un fmt x, m.map.get name = some (.custom ty un fmt) ∧ encode fmt = .ok x := by
  constructor
  · rintro ⟨st', hs⟩
    obtain ⟨ty, un, fmt, _, x, hg, he, _⟩ := setCustomWith_ok.mp hs
    exact ⟨ty, un, fmt, x, hg, he⟩
  · rintro ⟨ty, un, fmt, x, hg, he⟩
    have hs : (m.getIndex name).isSome := by
      rw [slot_iff_feature m h, StateModel.containsKey, Container.containsKey, hg]; rfl
    obtain ⟨i, hi⟩ := Option.isSome_iff_exists.mp hs
    have hlt := slot_in_range m h name i hi
    exact ⟨_, setCustomWith_ok.mpr ⟨ty, un, fmt, i, x, hg, he, hi, by omega, rfl⟩⟩

/-- WHEN `get_custom_f64` succeeds: exactly on a floating-point custom feature (the other three
    getters: `get_custom_i64_ok_iff`, `get_custom_u64_ok_iff` — value dependent —, `get_custom_bool_ok_iff`) -/
theorem get_custom_f64_ok_iff (m : StateModel α) (h : WF m) (st : List α) (hl : st.length = m.len)
    (name : String) :
    (∃ y, m.getCustomF64 st name = .ok y) ↔
      ∃ ty un init, m.map.get name = some (.custom ty un (.floatingPoint init)) := by
  constructor
  · rintro ⟨y, hy⟩
    simp only [getCustomF64] at hy
    cases hc : m.getCustomStateVariable st name with
    | error e => rw [hc] at hy; cases hy
    | ok p =>
      obtain ⟨v, fmt⟩ := p
      rw [hc] at hy
      obtain ⟨ty, un, i, hg, _, _⟩ := getCustomStateVariable_ok.mp hc
      cases fmt with
      | floatingPoint init => exact ⟨ty, un, init, hg⟩
      | _ => simp [CustomFeatureFormat.decodeF64] at hy
  · rintro ⟨ty, un, init, hg⟩
    have hs : (m.getIndex name).isSome := by
      rw [slot_iff_feature m h, StateModel.containsKey, Container.containsKey, hg]; rfl
    obtain ⟨i, hi⟩ := Option.isSome_iff_exists.mp hs
    have hlt : i < st.length := by have := slot_in_range m h name i hi; omega
    have : m.getCustomStateVariable st name = .ok (st[i], .floatingPoint init) :=
      getCustomStateVariable_ok.mpr ⟨ty, un, i, hg, hi, by simp [hlt]⟩
    exact ⟨st[i], by simp [getCustomF64, this, CustomFeatureFormat.decodeF64]⟩

/-- a floating-point custom feature returns exactly what was stored -/
theorem custom_f64_roundtrip (m : StateModel α) (st st' : List α) (name : String) (x : α)
    (h : m.setCustomF64 st name x = .ok st') : m.getCustomF64 st' name = .ok x := by
  obtain ⟨ty, un, fmt, i, y, hg, he, hi, hl, hs⟩ := setCustomWith_ok.mp h
  cases fmt with
  | floatingPoint init =>
    simp only [CustomFeatureFormat.encodeF64, Except.ok.injEq] at he
    subst he
    have : m.getCustomStateVariable st' name = .ok (x, .floatingPoint init) :=
      getCustomStateVariable_ok.mpr ⟨ty, un, i, hg, hi, by subst hs; simp [hl]⟩
    simp [getCustomF64, this, CustomFeatureFormat.decodeF64]
  | _ => simp [CustomFeatureFormat.encodeF64] at he

/-- Full statement (false of the code, see `custom_i64_roundtrip_counterexample`): every `i64` written
   by `set_custom_i64` is read back by `get_custom_i64`.  Proved under the hypothesis that the number
   type's two casts invert each other on that integer — for IEEE doubles exactly the integers with
   `|x| ≤ 2^53` (and some larger ones); excluded: the other integers, which `i64 as f64` rounds. -/
theorem custom_i64_roundtrip_partial (m : StateModel α) (st st' : List α) (name : String) (x : Int)
    (hc : IntCodec.toI64 (IntCodec.ofInt x : α) = x)
    (h : m.setCustomI64 st name x = .ok st') : m.getCustomI64 st' name = .ok x := by
  obtain ⟨ty, un, fmt, i, y, hg, he, hi, hl, hs⟩ := setCustomWith_ok.mp h
  cases fmt with
  | signedInteger init =>
    simp only [CustomFeatureFormat.encodeI64, Except.ok.injEq] at he
    subst he
    have : m.getCustomStateVariable st' name = .ok (IntCodec.ofInt x, .signedInteger init) :=
      getCustomStateVariable_ok.mpr ⟨ty, un, i, hg, hi, by subst hs; simp [hl]⟩
    simp [getCustomI64, this, CustomFeatureFormat.decodeI64, hc]
  | _ => simp [CustomFeatureFormat.encodeI64] at he

/-- Full statement (false of the code for the same reason): every `u64` written by `set_custom_u64` is
   read back.  Proved under the cast-inversion hypothesis (`|x| ≤ 2^53` for doubles) and `¬ (x as f64) < 0`. -/
theorem custom_u64_roundtrip_partial (m : StateModel α) (st st' : List α) (name : String) (x : Nat)
    (hc : IntCodec.toU64 (IntCodec.ofInt (x : Int) : α) = x)
    (hneg : ¬ (IntCodec.ofInt (x : Int) : α) < zero)
    (h : m.setCustomU64 st name x = .ok st') : m.getCustomU64 st' name = .ok x := by
  obtain ⟨ty, un, fmt, i, y, hg, he, hi, hl, hs⟩ := setCustomWith_ok.mp h
  cases fmt with
  | unsignedInteger init =>
    simp only [CustomFeatureFormat.encodeU64, Except.ok.injEq] at he
    subst he
    have : m.getCustomStateVariable st' name =
        .ok (IntCodec.ofInt (Int.ofNat x), .unsignedInteger init) :=
      getCustomStateVariable_ok.mpr ⟨ty, un, i, hg, hi, by subst hs; simp [hl]⟩
    simp [getCustomU64, this, CustomFeatureFormat.decodeU64, hc, hneg]
  | _ => simp [CustomFeatureFormat.encodeU64] at he

/-- a boolean custom feature returns what was stored as soon as `1 ≠ 0` in the number type -/
theorem custom_bool_roundtrip (m : StateModel α) (st st' : List α) (name : String) (x : Bool)
    (h10 : ((one : α) == (zero : α)) = false) (h00 : ((zero : α) == (zero : α)) = true)
    (h : m.setCustomBool st name x = .ok st') : m.getCustomBool st' name = .ok x := by
  obtain ⟨ty, un, fmt, i, y, hg, he, hi, hl, hs⟩ := setCustomWith_ok.mp h
  cases fmt with
  | boolean init =>
    simp only [CustomFeatureFormat.encodeBool, Except.ok.injEq] at he
    subst he
    have : m.getCustomStateVariable st' name =
        .ok ((if x then one else zero), .boolean init) :=
      getCustomStateVariable_ok.mpr ⟨ty, un, i, hg, hi, by subst hs; simp [hl]⟩
    cases x <;> simp [getCustomBool, this, CustomFeatureFormat.decodeBool, h10, h00]
  | _ => simp [CustomFeatureFormat.encodeBool] at he

end custom

end state

/-! ### round trip through the unit tables: C09's bound

Exact arithmetic over a linearly ordered field (as in C09), not IEEE doubles: the 0.1 % bound and
`add_distance_repeated` are field facts; the `_same_unit` theorems hold for doubles as well (the
identity factor returns its argument). -/

section roundtrip
variable {α : Type} [Field α] [LinearOrder α] [IsStrictOrderedRing α] [Lit α] [LawfulLit α]

open StateModel

/-- (exact arithmetic over an ordered field, not IEEE doubles) set then get in the same unit `u`: within 0.1 % of the value written, for every pair of units
    (feature unit, caller unit), every magnitude and sign; exact when the units agree -/
theorem get_after_set_distance_roundtrip (m : StateModel α) (st st' : List α) (name : String) (x : α)
    (u : DistanceUnit) (h : m.setDistance st name x u = .ok st') :
    ∃ y, m.getDistance st' name u = .ok y ∧ |y - x| ≤ |x| * (C09.tol : α) := by
  obtain ⟨fu, init, _, hget⟩ := get_after_set_distance m st st' name x u h
  exact ⟨_, hget, C09.distance_roundtrip u fu x⟩

theorem get_after_set_time_roundtrip (m : StateModel α) (st st' : List α) (name : String) (x : α)
    (u : TimeUnit) (h : m.setTime st name x u = .ok st') :
    ∃ y, m.getTime st' name u = .ok y ∧ |y - x| ≤ |x| * (C09.tol : α) := by
  obtain ⟨fu, init, _, hget⟩ := get_after_set_time m st st' name x u h
  exact ⟨_, hget, C09.time_roundtrip u fu x⟩

theorem get_after_set_energy_roundtrip (m : StateModel α) (st st' : List α) (name : String) (x : α)
    (u : EnergyUnit) (h : m.setEnergy st name x u = .ok st') :
    ∃ y, m.getEnergy st' name u = .ok y ∧ |y - x| ≤ |x| * (C09.tol : α) := by
  obtain ⟨fu, init, _, hget⟩ := get_after_set_energy m st st' name x u h
  exact ⟨_, hget, C09.energy_roundtrip u fu x⟩

/-- in the feature's own unit the round trip is exact -/
theorem get_after_set_distance_same_unit (m : StateModel α) (st st' : List α) (name : String) (x : α)
    (u : DistanceUnit) (init : α) (hf : m.map.get name = some (.distance u init))
    (h : m.setDistance st name x u = .ok st') : m.getDistance st' name u = .ok x := by
  obtain ⟨fu, init', hg, hget⟩ := get_after_set_distance m st st' name x u h
  rw [hf] at hg
  simp only [Option.some.injEq, StateFeature.distance.injEq] at hg
  obtain ⟨rfl, _⟩ := hg
  rw [hget, C09.distance_convert_id, C09.distance_convert_id]

theorem get_after_set_time_same_unit (m : StateModel α) (st st' : List α) (name : String) (x : α)
    (u : TimeUnit) (init : α) (hf : m.map.get name = some (.time u init))
    (h : m.setTime st name x u = .ok st') : m.getTime st' name u = .ok x := by
  obtain ⟨fu, init', hg, hget⟩ := get_after_set_time m st st' name x u h
  rw [hf] at hg
  simp only [Option.some.injEq, StateFeature.time.injEq] at hg
  obtain ⟨rfl, _⟩ := hg
  rw [hget, C09.time_convert_id, C09.time_convert_id]

theorem get_after_set_energy_same_unit (m : StateModel α) (st st' : List α) (name : String) (x : α)
    (u : EnergyUnit) (init : α) (hf : m.map.get name = some (.energy u init))
    (h : m.setEnergy st name x u = .ok st') : m.getEnergy st' name u = .ok x := by
  obtain ⟨fu, init', hg, hget⟩ := get_after_set_energy m st st' name x u h
  rw [hf] at hg
  simp only [Option.some.injEq, StateFeature.energy.injEq] at hg
  obtain ⟨rfl, _⟩ := hg
  rw [hget, C09.energy_convert_id, C09.energy_convert_id]

/-- `k` times the same fallible step -/
def iterate (step : List α → Except StateErr (List α)) : Nat → List α → Except StateErr (List α)
  | 0, st => .ok st
  | k + 1, st =>
    match step st with
    | .ok s => iterate step k s
    | .error e => .error e

/-- (exact arithmetic over an ordered field, not IEEE doubles) `k` additions of `x` (given in unit `u`) into a feature kept in unit `fu` leave exactly
    `v + k · convert(u→fu)(x)` in its slot: no drift, whatever the unit pair -/
theorem add_distance_repeated (m : StateModel α) (name : String) (x : α) (u : DistanceUnit) (k : Nat)
    (st st' : List α) (h : iterate (fun s => m.addDistance s name x u) k st = .ok st')
    (fu : DistanceUnit) (init : α) (hf : m.map.get name = some (.distance fu init))
    (i : Nat) (hi : m.getIndex name = some i) (v : α) (hv : st[i]? = some v) :
    st'[i]? = some (v + (k : α) * u.convert fu x) := by
  induction k generalizing st v with
  | zero =>
    simp only [iterate, Except.ok.injEq] at h
    subst h; simp [hv]
  | succ k ih =>
    simp only [iterate] at h
    cases hs : m.addDistance st name x u with
    | error e => rw [hs] at h; cases h
    | ok s =>
      rw [hs] at h
      simp only at h
      obtain ⟨fu', init', i', v', hg', hi', hv', hs', _⟩ := add_distance_accumulates m st s name x u hs
      rw [hf] at hg'; rw [hi] at hi'
      simp only [Option.some.injEq, StateFeature.distance.injEq] at hg' hi'
      obtain ⟨rfl, _⟩ := hg'; subst hi'
      rw [hv] at hv'
      simp only [Option.some.injEq] at hv'
      subst hv'
      rw [ih s h (v + u.convert fu x) hs']
      congr 1
      push_cast
      ring

end roundtrip

/-! ### non-vacuity: a seven-feature model of every kind, and the repeated-name finding -/

section examples

instance : IntCodec ℚ where
  ofInt i := (i : ℚ)
  toI64 q := q.num.tdiv q.den
  toU64 q := (q.num.tdiv q.den).toNat

def seven : List (String × StateFeature ℚ) :=
  [("trip_distance", .distance .miles 0), ("trip_time", .time .minutes 0),
   ("trip_energy", .energy .kilowattHours 0), ("soc", .custom "soc" "percent" (.floatingPoint 100)),
   ("stops", .custom "count" "n" (.signedInteger 0)), ("charges", .custom "count" "n" (.unsignedInteger 0)),
   ("charging", .custom "flag" "bool" (.boolean false))]

/-- the hypotheses of Part B are satisfiable well past five features: the model is well-formed, and
    its sixth and seventh features own slots 5 and 6 -/
example : StateModel.WF (StateModel.new seven) ∧ (StateModel.new seven).len = seven.length ∧
    (StateModel.new seven).getIndex "charges" = some 5 ∧
    (StateModel.new seven).getIndex "charging" = some 6 ∧
    (StateModel.new seven).getIndex "nope" = none := by
  refine ⟨(new_wf seven).1, ?_⟩
  decide

/-- extension of a four-feature configuration by three model features succeeds and keeps slots -/
example : ∃ m', (StateModel.new (seven.take 4)).extend (seven.drop 4) = .ok m' ∧
    m'.getIndex "trip_distance" = some 0 ∧ m'.getIndex "charging" = some 6 ∧ m'.len = 7 := by
  refine ⟨_, rfl, ?_⟩
  decide

/-- the old witness of a repeated name handed to `StateModel::new` (was: one feature claiming slot 1
    and an empty initial state): now one feature in slot 0 with the last declaration -/
theorem new_duplicate_name_repaired :
    let m : StateModel ℚ := StateModel.new [("d", .distance .miles 1), ("d", .distance .meters 2)]
    StateModel.WF m ∧ m.len = 1 ∧ m.getIndex "d" = some 0 ∧ m.iter.length = 1 ∧
      (m.initialState.toOption.map List.length) = some 1 := by
  decide

end examples

/-! ## Part C — the state layer of the search model is this state model

The search properties (C01–C05, C10, C13) run over `Model/Instance.lean`, whose state layer is a plain
feature list (`Feat`, `featIndex`, `initialState`, `addDistance`, `addTime`, answers in `Option`).
`StateRefine.toStateModel fs` is `StateModel::new` of that list (`StateRefine.toFeature`: `.dist u` ↦
`Distance`, `.time u` ↦ `Time`, `.other` ↦ the custom floating-point feature the search harness
builds); `StateRefine.Represents m fs` says `m` is well-formed with feature list `fs`.

Hypothesis: the feature names are pairwise distinct.  It is sufficient for both constructors
(`search_state_layer_represented`), necessary (`search_state_layer_needs_distinct_names`), and
without it the model built from `fs` is the model of `StateRefine.normalize fs` — a repeated name keeps
its first slot and takes its last declaration — which differs from `fs`
(`search_state_layer_without_distinct_names`, `search_state_layer_duplicate_name_counterexample`).
Under it the layers agree on EVERY state vector (shorter or longer than the feature list), name, value
and unit; nothing else is assumed. -/

section searchlayer
open StateRefine
variable {α : Type}

/-- pairwise distinct names: `StateModel::new` and `StateModel::empty().extend(..)` (which succeeds)
    both build a state model represented by the feature list -/
theorem search_state_layer_represented (fs : List (Feat α)) (nd : (fs.map (·.name)).Nodup) :
    Represents (toStateModel fs) fs ∧
      ∃ m, (StateModel.empty : StateModel α).extend (toEntries fs) = .ok m ∧ Represents m fs :=
  ⟨represents_new fs nd, represents_extend fs nd⟩

/-- the hypothesis is necessary: a represented feature list has pairwise distinct names -/
theorem search_state_layer_needs_distinct_names (m : StateModel α) (fs : List (Feat α))
    (h : Represents m fs) : (fs.map (·.name)).Nodup := h.nodup

/-- without the hypothesis: `StateModel::new` of ANY feature list is the model of the normalised list
    (later duplicate overwrites in place), which is the list itself iff the names are distinct -/
theorem search_state_layer_without_distinct_names (fs : List (Feat α)) :
    Represents (toStateModel fs) (normalize fs) ∧
      (normalize fs = fs ↔ (fs.map (·.name)).Nodup) :=
  ⟨represents_new_normalize fs, normalize_eq_self_iff fs⟩

/-- `featIndex` is `get_index`; `len` is the number of features -/
theorem search_state_layer_refines_state_model_index (m : StateModel α) (fs : List (Feat α))
    (hm : Represents m fs) (name : String) :
    featIndex fs name = m.getIndex name ∧ m.len = fs.length :=
  ⟨(getIndex_eq_featIndex hm name).symm, StateRefine.len_eq hm⟩

/-- `initial_state` succeeds and is the minimal layer's `initialState` -/
theorem search_state_layer_refines_state_model_initial_state [Lit α] [IntCodec α] [LT α]
    [DecidableLT α] [BEq α] (m : StateModel α) (fs : List (Feat α)) (hm : Represents m fs) :
    m.initialState = .ok (initialState fs) := initialState_eq hm

section arith
variable [Add α] [Mul α] [Div α] [Lit α]

/-- `add_distance`: the minimal layer is the full model with the error forgotten; they agree on
    success in both directions; the minimal layer's `none` is exactly an error of the full model, and
    that error is one of: unknown name — wrong feature kind (reported whatever the state vector) —
    distance feature whose slot is beyond the state vector (`RuntimeError` of `get_state_variable`;
    `InvalidStateVariableIndex` cannot occur) -/
theorem search_state_layer_refines_state_model_add_distance (m : StateModel α) (fs : List (Feat α))
    (hm : Represents m fs) (state : List α) (name : String) (d : α) (u : DistanceUnit) :
    addDistance fs state name d u = (m.addDistance state name d u).toOption ∧
    (∀ s', addDistance fs state name d u = some s' ↔ m.addDistance state name d u = .ok s') ∧
    (addDistance fs state name d u = none ↔ ∃ e, m.addDistance state name d u = .error e) ∧
    ∀ e, m.addDistance state name d u = .error e →
      (e = .unknownName ∧ featIndex fs name = none) ∨
      (e = .unexpectedFeatureUnit ∧ ∃ i f, featIndex fs name = some i ∧ fs[i]? = some f ∧
          ∀ fu, f.kind ≠ .dist fu) ∨
      (e = .runtime ∧ ∃ i f fu, featIndex fs name = some i ∧ fs[i]? = some f ∧
          f.kind = .dist fu ∧ state.length ≤ i) := by
  refine ⟨addDistance_toOption hm state name d u, addDistance_some_iff hm state name d u, ?_,
    addDistance_error_cases hm state name d u⟩
  rw [addDistance_full hm]
  cases addDistance fs state name d u <;> simp [lift]

/-- `add_time`: likewise -/
theorem search_state_layer_refines_state_model_add_time (m : StateModel α) (fs : List (Feat α))
    (hm : Represents m fs) (state : List α) (name : String) (t : α) (u : TimeUnit) :
    addTime fs state name t u = (m.addTime state name t u).toOption ∧
    (∀ s', addTime fs state name t u = some s' ↔ m.addTime state name t u = .ok s') ∧
    (addTime fs state name t u = none ↔ ∃ e, m.addTime state name t u = .error e) ∧
    ∀ e, m.addTime state name t u = .error e →
      (e = .unknownName ∧ featIndex fs name = none) ∨
      (e = .unexpectedFeatureUnit ∧ ∃ i f, featIndex fs name = some i ∧ fs[i]? = some f ∧
          ∀ fu, f.kind ≠ .time fu) ∨
      (e = .runtime ∧ ∃ i f fu, featIndex fs name = some i ∧ fs[i]? = some f ∧
          f.kind = .time fu ∧ state.length ≤ i) := by
  refine ⟨addTime_toOption hm state name t u, addTime_some_iff hm state name t u, ?_,
    addTime_error_cases hm state name t u⟩
  rw [addTime_full hm]
  cases addTime fs state name t u <;> simp [lift]

/-- the statement in the form "for every feature list with pairwise distinct names", for
    `StateModel::new`: slots, initial state, `add_distance`, `add_time` -/
theorem search_state_layer_refines_state_model [IntCodec α] [LT α] [DecidableLT α] [BEq α]
    (fs : List (Feat α)) (nd : (fs.map (·.name)).Nodup) :
    (∀ name, featIndex fs name = (toStateModel fs).getIndex name) ∧
    (toStateModel fs).initialState = .ok (initialState fs) ∧
    (∀ state name d u, addDistance fs state name d u =
        ((toStateModel fs).addDistance state name d u).toOption) ∧
    (∀ state name t u, addTime fs state name t u =
        ((toStateModel fs).addTime state name t u).toOption) := by
  have hm := represents_new fs nd
  exact ⟨fun name => (getIndex_eq_featIndex hm name).symm, initialState_eq hm,
    addDistance_toOption hm, addTime_toOption hm⟩

end arith

/-! ### reads: every positional read of the search model is a `StateModel` accessor -/

/-- `state[i]?` is `get_state_variable` of the feature in slot `i`; `next[i] − prev[i]` — what one item
    of `cost_ops::calculate_vehicle_costs` (`CostModel.vehicleTerm`) feeds into the vehicle rate — is
    `get_delta` of that feature -/
theorem search_state_layer_reads_are_state_model_reads [Add α] [Sub α] [Mul α] [Lit α]
    (m : StateModel α) (fs : List (Feat α)) (hm : Represents m fs) (cm : CostModel α)
    (prev next : List α) (i : Nat) (f : Feat α) (hf : fs[i]? = some f) :
    prev[i]? = (m.getStateVariable prev f.name).toOption ∧
    cm.vehicleTerm prev next i =
      (match (m.getDelta prev next f.name).toOption, cm.vehicleRates[i]?, cm.weights[i]? with
        | some d, some r, some w => some (r.mapValue d * w)
        | _, _, _ => none) :=
  ⟨slot_read hm prev hf, vehicleTerm_getDelta hm cm prev next hf⟩

/-- the slot hypotheses of the route theorems of C03 (`featIndex fs name = some i`, the entry there is
    a distance in unit `fu`) are statements about the state model (`get_index`, `get_feature`), and
    under them the value the route theorems speak about, `state[i]?`, is `get_distance` in the
    feature's own unit (identity conversion, exact in any arithmetic) -/
theorem search_state_layer_distance_slot_is_get_distance [Mul α] [Div α] [Lit α]
    (m : StateModel α) (fs : List (Feat α)) (hm : Represents m fs) (name : String) (i : Nat)
    (fu : DistanceUnit) :
    ((featIndex fs name = some i ∧ (fs[i]?).map (·.kind) = some (FeatKind.dist fu)) ↔
      (m.getIndex name = some i ∧ ∃ init, m.getFeature name = .ok (.distance fu init))) ∧
    ((featIndex fs name = some i ∧ (fs[i]?).map (·.kind) = some (FeatKind.dist fu)) →
      ∀ (state : List α) (x : α), state[i]? = some x ↔ m.getDistance state name fu = .ok x) := by
  refine ⟨distSlot_iff hm name i fu, ?_⟩
  rintro ⟨hi, hk⟩ state x
  rw [getDistance_slot hm hi hk]
  cases state[i]? <;> simp [DistanceUnit.convert, C09.distance_id, Factor.apply]

/-- the same for the time slot and `get_time` -/
theorem search_state_layer_time_slot_is_get_time [Mul α] [Div α] [Lit α]
    (m : StateModel α) (fs : List (Feat α)) (hm : Represents m fs) (name : String) (i : Nat)
    (fu : TimeUnit) :
    ((featIndex fs name = some i ∧ (fs[i]?).map (·.kind) = some (FeatKind.time fu)) ↔
      (m.getIndex name = some i ∧ ∃ init, m.getFeature name = .ok (.time fu init))) ∧
    ((featIndex fs name = some i ∧ (fs[i]?).map (·.kind) = some (FeatKind.time fu)) →
      ∀ (state : List α) (x : α), state[i]? = some x ↔ m.getTime state name fu = .ok x) := by
  refine ⟨timeSlot_iff hm name i fu, ?_⟩
  rintro ⟨hi, hk⟩ state x
  rw [getTime_slot hm hi hk]
  cases state[i]? <;> simp [TimeUnit.convert, C09.time_id, Factor.apply]

/-! ### whole steps -/

/-- the traversal model, the access model, one whole search step (`EdgeTraversal::forward_traversal /
    reverse_traversal`, the `trav` field of the configured search instance), the A* estimate (the `h`
    field) and the initial state (the `init` field) of `Model/Instance.lean` are the same functions
    written against the `StateModel` API (`StateRefine.traverseSM`, `accessSM`, `edgeTraversalSM`,
    `modelEstimateSM`: `state_model.add_distance(..)` / `add_time(..)` with the error forgotten) -/
theorem search_step_is_state_model_step [Add α] [Sub α] [Mul α] [Div α] [LT α] [LE α]
    [DecidableLT α] [DecidableLE α] [BEq α] [Lit α] [IntCodec α]
    (c : Config α) (m : StateModel α) (hm : Represents m c.feats) :
    (∀ e st, c.trav.traverse c.feats c.edges e st = traverseSM c.trav m c.edges e st) ∧
    (∀ pe ne st, c.access.access c.feats pe ne st = accessSM c.access m pe ne st) ∧
    (∀ e last st, c.inst.trav e last st = edgeTraversalSM c m e last st) ∧
    (∀ v st, c.inst.h v st = modelEstimateSM c m v st) ∧
    m.initialState = .ok c.inst.init :=
  ⟨fun e st => traverse_eq hm c.trav c.edges e st, fun pe ne st => access_eq hm c.access pe ne st,
    fun e last st => edgeTraversal_eq hm e last st, fun v st => modelEstimate_eq hm v st,
    initialState_eq hm⟩

end searchlayer

/-! ### non-vacuity of Part C, and the repeated-name disagreement -/

section searchexamples
open StateRefine

/-- time in minutes, an unrelated custom slot, distance in miles (the features of
    `RouteSums.speedExample`) -/
def searchFeats : List (Feat ℚ) :=
  [⟨"time", .time .minutes, 5⟩, ⟨"spare", .other, 7⟩, ⟨"distance", .dist .miles, 1⟩]

/-- the hypothesis holds, both layers compute the same concrete states (a distance given in
    kilometres lands in the miles slot, a time given in seconds in the minutes slot), and each `none`
    of the minimal layer is the error of the full model that the theorems name: unknown name, wrong
    kind (also when the slot is beyond the state vector: the kind is checked first), state vector too
    short -/
example : (searchFeats.map (·.name)).Nodup ∧ Represents (toStateModel searchFeats) searchFeats ∧
    (toStateModel searchFeats).initialState = .ok (initialState searchFeats) ∧
    initialState searchFeats = [5, 7, 1] ∧
    (∃ s, addDistance searchFeats [5, 7, 1] "distance" 3 .kilometers = some s ∧
      (toStateModel searchFeats).addDistance [5, 7, 1] "distance" 3 .kilometers = .ok s ∧
      s = [5, 7, 1 + DistanceUnit.kilometers.convert .miles 3] ∧ s ≠ [5, 7, 1] ∧ s ≠ [5, 7, 4]) ∧
    (∃ s, addTime searchFeats [5, 7, 1] "time" 90 .seconds = some s ∧
      (toStateModel searchFeats).addTime [5, 7, 1] "time" 90 .seconds = .ok s ∧
      s = [5 + TimeUnit.seconds.convert .minutes 90, 7, 1] ∧ s ≠ [5, 7, 1] ∧ s ≠ [95, 7, 1]) ∧
    (addDistance searchFeats [5, 7, 1] "nope" 3 .miles = none ∧
      (toStateModel searchFeats).addDistance [5, 7, 1] "nope" 3 .miles = .error .unknownName) ∧
    (addDistance searchFeats [5, 7, 1] "time" 3 .miles = none ∧
      (toStateModel searchFeats).addDistance [5, 7, 1] "time" 3 .miles = .error .unexpectedFeatureUnit) ∧
    (addDistance searchFeats [5] "spare" 3 .miles = none ∧
      (toStateModel searchFeats).addDistance [5] "spare" 3 .miles = .error .unexpectedFeatureUnit) ∧
    (addDistance searchFeats [5, 7] "distance" 3 .miles = none ∧
      (toStateModel searchFeats).addDistance [5, 7] "distance" 3 .miles = .error .runtime) ∧
    (toStateModel searchFeats).getDistance [5, 7, 1, 9] "distance" .miles = .ok 1 := by
  have nd : (searchFeats.map (·.name)).Nodup := by decide
  refine ⟨nd, represents_new _ nd, by decide +kernel, by decide +kernel,
    ⟨_, rfl, by decide +kernel, by decide +kernel, by decide +kernel, by decide +kernel⟩,
    ⟨_, rfl, by decide +kernel, by decide +kernel, by decide +kernel, by decide +kernel⟩,
    by decide +kernel, by decide +kernel, by decide +kernel, by decide +kernel, by decide +kernel⟩

/-- three edges under the speed-table model with turn delays (`RouteSums.speedExample`, weight
    factor and cost model as there) -/
def searchConfig : Config ℚ where
  nV := 4
  edges := [⟨0, 1, 1000⟩, ⟨1, 2, 500⟩, ⟨2, 3, 2000⟩]
  outAdj := [[0], [1], [2], []]
  inAdj := [[], [0], [1], [2]]
  feats := searchFeats
  trav := .speed .kilometersPerHour .kilometers .hours 120 [36, 18, 72]
  access := .turnDelay .seconds [(0, none), (90, none), (90, some 90)]
    [some 1, some 2, some 3, some 4, some 5, some 6, some 7, some 8]
  cost := { indices := [0, 2], weights := [1, 1, 1], vehicleRates := [.raw, .raw, .raw],
            networkRates := [.zero, .zero, .zero], agg := .sum }
  frontier := []
  term := .combined []
  reverse := false
  gc := []
  wf := some 0

/-- the state after a step, when both formulations succeed with the same answer and the state moved -/
def sameProgress (a b : Except ErrKind (ℚ × ℚ × List ℚ)) (s0 : List ℚ) : Option (List ℚ) :=
  match a, b with
  | .ok x, .ok y => if x.1 = y.1 ∧ x.2.1 = y.2.1 ∧ x.2.2 = y.2.2 ∧ x.2.2 ≠ s0 then some x.2.2 else none
  | _, _ => none

/-- a whole search step succeeds, changes the state, and is the step over `StateModel::new` of the
    features: the first edge from the initial state, then the second edge with the turn from the first
    (an instance of `search_step_is_state_model_step`, evaluated on both sides) -/
example : Represents (toStateModel searchFeats) searchConfig.feats ∧
    ((sameProgress (edgeTraversal searchConfig 0 none (initialState searchFeats))
        (edgeTraversalSM searchConfig (toStateModel searchFeats) 0 none (initialState searchFeats))
        (initialState searchFeats)).bind fun s1 =>
      sameProgress (edgeTraversal searchConfig 1 (some 0) s1)
        (edgeTraversalSM searchConfig (toStateModel searchFeats) 1 (some 0) s1) s1).isSome = true :=
  ⟨represents_new _ (by decide), by decide +kernel⟩

/-- feature names repeated: the two layers genuinely disagree (and the full model is the one that
    follows `StateModel::new`: first position, last declaration, one slot).  The minimal layer keeps
    two slots, initial state `[1, 2]`, and accumulates `"d"` in miles; the full model has one slot,
    initial state `[2]`, and accumulates in metres. -/
theorem search_state_layer_duplicate_name_counterexample :
    let fs : List (Feat ℚ) := [⟨"d", .dist .miles, 1⟩, ⟨"d", .dist .meters, 2⟩]
    initialState fs = [1, 2] ∧ (toStateModel fs).initialState = .ok [2] ∧
    addDistance fs [0] "d" 5 .meters = some [DistanceUnit.meters.convert .miles 5] ∧
    (toStateModel fs).addDistance [0] "d" 5 .meters = .ok [5] ∧
    addDistance fs [0] "d" 5 .meters ≠ ((toStateModel fs).addDistance [0] "d" 5 .meters).toOption := by
  decide +kernel

end searchexamples

/-! ## Part D — the remaining arms of the anchor files (coverage follow-up)

Every function and arm of `compact_ordered_hash_map.rs`, `state_model.rs`, `state_feature.rs`,
`custom_feature_format.rs`, `search_app_ops.rs` and `SearchApp::build_search_instance` is reached by a
case stream of `harness/src/c11.rs`, except two arms that the theorems below show unreachable:
the `else { None }` of `CompactOrderedHashMapIter::next` (`iter_never_stops_early`) and the
unknown-name closure of the private `StateModel::update_state` (`update_state_unknown_name_unreachable`). -/

section partD
variable {K V : Type} [DecidableEq K]

/-- `CompactOrderedHashMapIter::next`: under the invariant `get_pair(index)` is `Some` for every
    `index < len`, so the iterator only ever stops through its first test (`index >= len`) -/
theorem iter_never_stops_early (c : Container K V) (h : Inv c) (i : Nat) (hi : i < c.len) :
    (c.getPair i).isSome = true := by
  rw [getPair_abs h, len_abs h] at *
  simp [hi]

/-- in every representation, invariant or not, a key has a stored index exactly when it has a value -/
theorem get_index_some_iff_get_some (c : Container K V) (k : K) :
    (c.getIndex k).isSome = (c.get k).isSome := by
  cases c with
  | n m => simp [Container.getIndex, Container.get]
  | one k1 v1 =>
    simp only [Container.getIndex, Container.get, eq_comm (a := k)]
    split_ifs <;> rfl
  | two k1 k2 v1 v2 =>
    simp only [Container.getIndex, Container.get, eq_comm (a := k)]
    split_ifs <;> rfl
  | three k1 k2 k3 v1 v2 v3 =>
    simp only [Container.getIndex, Container.get, eq_comm (a := k)]
    split_ifs <;> rfl
  | four k1 k2 k3 k4 v1 v2 v3 v4 =>
    simp only [Container.getIndex, Container.get, eq_comm (a := k)]
    split_ifs <;> rfl

end partD

section partDstate
variable {α : Type}
open StateModel

/-- the unknown-name arm of the private `update_state` cannot be taken: all its callers first obtained
    the feature by the same name (`get_feature(name)?`), and a name that has a feature has a slot -/
theorem update_state_unknown_name_unreachable (m : StateModel α) (name : String) (f : StateFeature α)
    (hf : m.getFeature name = .ok f) (st : List α) (v : α) :
    m.updateState st name v ≠ .error .unknownName := by
  have hg : m.map.get name = some f := getFeature_ok.mp hf
  have hs := get_index_some_iff_get_some m.map name
  rw [hg] at hs
  simp only [StateModel.updateState]
  cases hi : m.map.getIndex name with
  | none => rw [hi] at hs; cases hs
  | some i => cases hq : st[i]? <;> simp [hq]

/-! ### `state_feature.rs`: every getter answers exactly for its own kind -/

theorem get_distance_unit_ok_iff (f : StateFeature α) (u : DistanceUnit) :
    f.getDistanceUnit = .ok u ↔ ∃ i, f = .distance u i := by
  cases f <;> simp [StateFeature.getDistanceUnit]

theorem get_time_unit_ok_iff (f : StateFeature α) (u : TimeUnit) :
    f.getTimeUnit = .ok u ↔ ∃ i, f = .time u i := by
  cases f <;> simp [StateFeature.getTimeUnit]

theorem get_energy_unit_ok_iff (f : StateFeature α) (u : EnergyUnit) :
    f.getEnergyUnit = .ok u ↔ ∃ i, f = .energy u i := by
  cases f <;> simp [StateFeature.getEnergyUnit]

theorem get_custom_feature_format_ok_iff (f : StateFeature α) (fmt : CustomFeatureFormat α) :
    f.getCustomFeatureFormat = .ok fmt ↔ ∃ t u, f = .custom t u fmt := by
  cases f <;> simp [StateFeature.getCustomFeatureFormat]

/-- the only error of the four getters is `UnexpectedFeatureUnit` -/
theorem getter_wrong_kind_error (f : StateFeature α) :
    (∀ e, f.getDistanceUnit = .error e → e = .unexpectedFeatureUnit) ∧
      (∀ e, f.getTimeUnit = .error e → e = .unexpectedFeatureUnit) ∧
      (∀ e, f.getEnergyUnit = .error e → e = .unexpectedFeatureUnit) ∧
      (∀ e, f.getCustomFeatureFormat = .error e → e = .unexpectedFeatureUnit) := by
  cases f <;>
    simp [StateFeature.getDistanceUnit, StateFeature.getTimeUnit, StateFeature.getEnergyUnit,
      StateFeature.getCustomFeatureFormat] <;> (intros; simp_all)

/-- a custom feature of another format is another kind (since /repo fix 2a35432: `PartialEq` compared
type and unit only), so by `extend_refuses_kind_change` an override that turns the floating-point
`battery_state` into an integer or boolean feature of the same type and unit is refused -/
theorem custom_format_change_is_kind_change (t u : String) (x : α) (i : Int) (n : Nat) (b : Bool) :
    (StateFeature.custom t u (.floatingPoint x)).eqv (.custom t u (.signedInteger i)) = false
      ∧ (StateFeature.custom t u (.floatingPoint x)).eqv (.custom t u (.unsignedInteger n)) = false
      ∧ (StateFeature.custom t u (.floatingPoint x)).eqv (.custom t u (.boolean b)) = false
      ∧ (StateFeature.custom t u (.floatingPoint x)).eqv (.custom t u (.floatingPoint x)) = true := by
  simp [StateFeature.eqv, CustomFeatureFormat.name]

/-- `==` on features is an equivalence that only sees the kind (and a custom feature's two names
and the name of its format) -/
theorem feature_eq_is_equivalence (f g h : StateFeature α) :
    f.eqv f = true ∧ (f.eqv g = g.eqv f) ∧ (f.eqv g = true → g.eqv h = true → f.eqv h = true) := by
  refine ⟨?_, ?_, ?_⟩
  · cases f <;> simp [StateFeature.eqv]
  · cases f <;> cases g <;> simp only [StateFeature.eqv]
    rename_i t1 u1 f1 t2 u2 f2
    rw [BEq.comm (a := t1), BEq.comm (a := u1), BEq.comm (a := f1.name)]
  · cases f <;> cases g <;> cases h <;> simp [StateFeature.eqv]
    rintro rfl rfl e1 rfl rfl e2; exact ⟨⟨rfl, rfl⟩, e1.trans e2⟩

section codec
variable [Lit α] [IntCodec α] [LT α] [DecidableLT α] [BEq α]

theorem get_feature_format_eq (f : StateFeature α) :
    f.getFeatureFormat = match f with
      | .custom _ _ fmt => fmt
      | _ => .floatingPoint zero := by
  cases f <;> rfl

/-! ### `custom_feature_format.rs`: every encoder / decoder accepts exactly its own format -/

theorem encode_f64_ok_iff (fmt : CustomFeatureFormat α) (x y : α) :
    fmt.encodeF64 x = .ok y ↔ (∃ i, fmt = .floatingPoint i) ∧ y = x := by
  cases fmt <;> simp [CustomFeatureFormat.encodeF64, eq_comm]

theorem encode_i64_ok_iff (fmt : CustomFeatureFormat α) (x : Int) (y : α) :
    fmt.encodeI64 x = .ok y ↔ (∃ i, fmt = .signedInteger i) ∧ y = IntCodec.ofInt x := by
  cases fmt <;> simp [CustomFeatureFormat.encodeI64, eq_comm]

theorem encode_u64_ok_iff (fmt : CustomFeatureFormat α) (x : Nat) (y : α) :
    fmt.encodeU64 x = .ok y ↔ (∃ i, fmt = .unsignedInteger i) ∧ y = IntCodec.ofInt (Int.ofNat x) := by
  cases fmt <;> simp [CustomFeatureFormat.encodeU64, eq_comm]

theorem encode_bool_ok_iff (fmt : CustomFeatureFormat α) (x : Bool) (y : α) :
    fmt.encodeBool x = .ok y ↔ (∃ i, fmt = .boolean i) ∧ y = (if x then one else zero) := by
  cases fmt <;> simp [CustomFeatureFormat.encodeBool, eq_comm]

/-- a wrong-format encoder reports `EncodeError`, a wrong-format decoder `DecodeError`; the only other
    error is the `ValueError` of `decode_u64` on a negative value -/
theorem codec_errors (fmt : CustomFeatureFormat α) (x : α) (i : Int) (n : Nat) (b : Bool) (e : StateErr) :
    (fmt.encodeF64 x = .error e → e = .encode) ∧ (fmt.encodeI64 i = .error e → e = .encode) ∧
      (fmt.encodeU64 n = .error e → e = .encode) ∧ (fmt.encodeBool b = .error e → e = .encode) ∧
      (fmt.decodeF64 x = .error e → e = .decode) ∧ (fmt.decodeI64 x = .error e → e = .decode) ∧
      (fmt.decodeBool x = .error e → e = .decode) ∧
      (fmt.decodeU64 x = .error e → e = .decode ∨ (e = .value ∧ x < zero)) := by
  refine ⟨?_, ?_, ?_, ?_, ?_, ?_, ?_, ?_⟩
  all_goals intro h
  all_goals cases fmt
  all_goals simp only [CustomFeatureFormat.encodeF64, CustomFeatureFormat.encodeI64,
    CustomFeatureFormat.encodeU64, CustomFeatureFormat.encodeBool, CustomFeatureFormat.decodeF64,
    CustomFeatureFormat.decodeI64, CustomFeatureFormat.decodeU64, CustomFeatureFormat.decodeBool] at h
  all_goals first
    | (cases h; done)
    | (cases h; rfl)
    | (cases h; exact Or.inl rfl)
    | (split_ifs at h with hx <;> first | (cases h; exact Or.inr ⟨rfl, hx⟩) | cases h)

theorem decode_f64_ok_iff (fmt : CustomFeatureFormat α) (x y : α) :
    fmt.decodeF64 x = .ok y ↔ (∃ i, fmt = .floatingPoint i) ∧ y = x := by
  cases fmt <;> simp [CustomFeatureFormat.decodeF64, eq_comm]

theorem decode_i64_ok_iff (fmt : CustomFeatureFormat α) (x : α) (y : Int) :
    fmt.decodeI64 x = .ok y ↔ (∃ i, fmt = .signedInteger i) ∧ y = IntCodec.toI64 x := by
  cases fmt <;> simp [CustomFeatureFormat.decodeI64, eq_comm]

theorem decode_u64_ok_iff (fmt : CustomFeatureFormat α) (x : α) (y : Nat) :
    fmt.decodeU64 x = .ok y ↔ (∃ i, fmt = .unsignedInteger i) ∧ ¬ x < zero ∧ y = IntCodec.toU64 x := by
  cases fmt <;> simp [CustomFeatureFormat.decodeU64]
  split_ifs with hx
  · simp [hx]
  · simp only [Except.ok.injEq, hx, not_false_eq_true, true_and]; exact eq_comm

theorem decode_bool_ok_iff (fmt : CustomFeatureFormat α) (x : α) (y : Bool) :
    fmt.decodeBool x = .ok y ↔ (∃ i, fmt = .boolean i) ∧ y = !(x == zero) := by
  cases fmt <;> simp [CustomFeatureFormat.decodeBool]
  cases (x == zero) <;> simp <;> try exact eq_comm

/-- `initial()` never fails: every format encodes its own initial value -/
theorem format_initial_ok (fmt : CustomFeatureFormat α) : ∃ y, fmt.initial = .ok y := by
  cases fmt <;> exact ⟨_, rfl⟩

end codec

/-! ### `collect_features`: declaration order -/

/-- the collected list is the model features in declaration order (traversal model first, then access
    model; a later feature replaces an earlier one of the same name in place: names pairwise distinct,
    each with its last declaration) followed by the query's features -/
theorem collect_features_declaration_order (traversal access : List (String × StateFeature α))
    (user : Option (List (String × StateFeature α))) (fs : List (String × StateFeature α))
    (hc : collectFeatures traversal access user = .ok fs) :
    fs = Spec.insertAll [] (traversal ++ access) ++ user.getD [] ∧
      ((Spec.insertAll [] (traversal ++ access)).map (·.1)).Nodup ∧
      (∀ name, Spec.get (Spec.insertAll [] (traversal ++ access)) name =
        ((traversal ++ access).reverse.find? (fun e => e.1 = name)).map (·.2)) ∧
      (∀ k, k ≤ (traversal ++ access).length → ∃ t,
        (Spec.insertAll [] (traversal ++ access)).map (·.1) =
          (Spec.insertAll [] ((traversal ++ access).take k)).map (·.1) ++ t) := by
  have hfs : fs = HMap.ofList (traversal ++ access) ++ user.getD [] := by
    simp only [collectFeatures] at hc
    split at hc
    · cases hc
    · simp only [Except.ok.injEq] at hc
      exact hc.symm
  refine ⟨by rw [hfs, Spec.ofList_eq_insertAll], ?_, ?_, ?_⟩
  · have := (Container.fromIter_refines (K := String) (traversal ++ access))
    rw [← this.2]
    exact Container.abs_keys_nodup this.1
  · intro name
    have := Spec.get_insertAll ([] : List (String × StateFeature α)) (traversal ++ access) name
    rw [this]
    cases (find? (fun e => decide (e.1 = name)) (traversal ++ access).reverse) <;> simp [Spec.get]
  · intro k _
    have hsplit : Spec.insertAll [] (traversal ++ access) =
        Spec.insertAll (Spec.insertAll [] ((traversal ++ access).take k)) ((traversal ++ access).drop k) := by
      conv_lhs => rw [← List.take_append_drop k (traversal ++ access)]
      simp only [Spec.insertAll, foldl_append]
    rw [hsplit]
    exact Spec.keys_insertAll_prefix _ _

/-- `collect_features` fails exactly when an entry of the query names no model feature
    (`UnknownStateVariableName`) or one of another `get_feature_type` (`UnexpectedFeatureType`) -/
theorem collect_features_ok_iff (traversal access : List (String × StateFeature α))
    (user : Option (List (String × StateFeature α))) :
    (∃ fs, collectFeatures traversal access user = .ok fs) ↔
      ∀ e ∈ user.getD [], ∃ existing, Spec.get (Spec.insertAll [] (traversal ++ access)) e.1 = some existing ∧
        existing.featureType = e.2.featureType := by
  have hcheck : ∀ l : List (String × StateFeature α),
      (collectFeatures.check (HMap.ofList (traversal ++ access)) l = .ok ()) ↔
        ∀ e ∈ l, ∃ existing, HMap.get (HMap.ofList (traversal ++ access)) e.1 = some existing ∧
          existing.featureType = e.2.featureType := by
    intro l
    induction l with
    | nil => simp [collectFeatures.check]
    | cons e r ih =>
      obtain ⟨name, feature⟩ := e
      simp only [collectFeatures.check, mem_cons, forall_eq_or_imp]
      cases hg : HMap.get (HMap.ofList (traversal ++ access)) name with
      | none => simp
      | some existing =>
        simp only [Option.some.injEq, exists_eq_left']
        by_cases ht : existing.featureType = feature.featureType
        · simp [ht, ih]
        · simp [ht]
  have hget : ∀ name, HMap.get (HMap.ofList (traversal ++ access)) name =
      Spec.get (Spec.insertAll [] (traversal ++ access)) name := by
    intro name
    rw [Spec.ofList_eq_insertAll]
    generalize Spec.insertAll [] (traversal ++ access) = l
    induction l with
    | nil => rfl
    | cons e r ih => obtain ⟨k, v⟩ := e; simp only [HMap.get, Spec.get, ih]
  simp only [← hget]
  rw [← hcheck]
  simp only [collectFeatures]
  cases collectFeatures.check (HMap.ofList (traversal ++ access)) (user.getD []) with
  | error e => simp
  | ok u => cases u; simp

end partDstate

section partDjson
variable {α : Type}
open StateModel StateJson

/-! ### `TryFrom<&serde_json::Value> for StateModel` and the serde derives -/

theorem parse_features_names (ofBits : Nat → α) (kvs : List (String × Json))
    (fs : List (String × StateFeature α)) (h : parseFeatures ofBits kvs = some fs) :
    fs.map (·.1) = kvs.map (·.1) ∧
      ∀ i (hi : i < kvs.length), ∃ f, parseFeature ofBits (kvs[i]).2 = some f ∧ fs[i]? = some ((kvs[i]).1, f) := by
  induction kvs generalizing fs with
  | nil => simp only [parseFeatures, Option.some.injEq] at h; subst h; simp
  | cons e r ih =>
    obtain ⟨name, j⟩ := e
    simp only [parseFeatures] at h
    cases hp : parseFeature ofBits j with
    | none => rw [hp] at h; cases h
    | some f =>
      rw [hp] at h
      cases hr : parseFeatures ofBits r with
      | none => rw [hr] at h; cases h
      | some fs' =>
        rw [hr] at h
        simp only [Option.some.injEq] at h
        subst h
        obtain ⟨h1, h2⟩ := ih fs' hr
        refine ⟨by simp [h1], ?_⟩
        intro i hi
        cases i with
        | zero => exact ⟨f, hp, by simp⟩
        | succ k =>
          obtain ⟨g, hg1, hg2⟩ := h2 k (by simpa using hi)
          exact ⟨g, by simpa using hg1, by simpa using hg2⟩

/-- `try_from` succeeds exactly on a JSON object all of whose rows are state features, and then is
    `StateModel::new` of the rows in object order; its only error is `BuildError` -/
theorem try_from_ok_iff (ofBits : Nat → α) (j : Json) (m : StateModel α) :
    tryFrom ofBits j = .ok m ↔
      ∃ kvs fs, j = .obj kvs ∧ parseFeatures ofBits kvs = some fs ∧ m = StateModel.new fs := by
  cases j with
  | obj kvs =>
    simp only [tryFrom]
    cases h : parseFeatures ofBits kvs with
    | none => simp [h]
    | some fs =>
      simp only [Except.ok.injEq, Json.obj.injEq]
      constructor
      · intro hm; exact ⟨kvs, fs, rfl, h, hm.symm⟩
      · rintro ⟨kvs', fs', rfl, h', rfl⟩
        rw [h] at h'; simp only [Option.some.injEq] at h'; rw [h']
  | _ => simp [tryFrom]

theorem try_from_error_is_build (ofBits : Nat → α) (j : Json) (e : StateErr)
    (h : tryFrom ofBits j = .error e) : e = .build := by
  cases j with
  | obj kvs =>
    simp only [tryFrom] at h
    cases hp : parseFeatures ofBits kvs with
    | none => rw [hp] at h; cases h; rfl
    | some fs => rw [hp] at h; cases h
  | _ => simp only [tryFrom] at h; cases h; rfl

/-- a configured `[state]` table: the model is well-formed whatever the table, and (keys of a JSON
    object being pairwise distinct) the `i`-th row owns slot `i` -/
theorem try_from_slots_in_key_order (ofBits : Nat → α) (kvs : List (String × Json)) (m : StateModel α)
    (h : tryFrom ofBits (.obj kvs) = .ok m) :
    WF m ∧ ((kvs.map (·.1)).Nodup → m.names = kvs.map (·.1) ∧ m.len = kvs.length ∧
      ∀ i (hi : i < kvs.length), m.getIndex (kvs[i]).1 = some i) := by
  obtain ⟨kvs', fs, hj, hp, rfl⟩ := (try_from_ok_iff ofBits _ m).mp h
  simp only [Json.obj.injEq] at hj
  subst hj
  obtain ⟨hn, _⟩ := parse_features_names ofBits kvs fs hp
  refine ⟨(wf_new fs).1, ?_⟩
  intro nd
  have nd' : (fs.map (·.1)).Nodup := by rw [hn]; exact nd
  have hw := wf_new_of_nodup fs nd'
  have hl : fs.length = kvs.length := by
    have := congrArg List.length hn
    simpa using this
  refine ⟨by rw [names_eq hw.1, hw.2, hn], by rw [len_eq hw.1, hw.2, hl], ?_⟩
  intro i hi
  have hi' : i < fs.length := by rw [hl]; exact hi
  have hk : (kvs[i]).1 = (fs[i]).1 := by
    have := congrArg (fun l => l[i]?) hn
    simp only [getElem?_map, getElem?_eq_getElem hi, getElem?_eq_getElem hi', Option.map_some,
      Option.some.injEq] at this
    exact this.symm
  rw [hk]
  exact new_slot fs nd' i hi'

/-! ### `SearchApp::build_search_instance` -/

/-- the steps fail in the code's order, each with its own error -/
theorem build_search_instance_error_order (ofBits : Nat → α) (cfg : StateModel α)
    (tr ac : List (String × StateFeature α)) (query : Json) (costOk frontierOk : StateModel α → Bool) :
    buildSearchInstanceState ofBits cfg none (some ac) query costOk frontierOk = .error .traversal ∧
      buildSearchInstanceState ofBits cfg none none query costOk frontierOk = .error .traversal ∧
      buildSearchInstanceState ofBits cfg (some tr) none query costOk frontierOk = .error .access :=
  ⟨rfl, rfl, rfl⟩

/-- a successful `build_search_instance`: the per-query model is the configured model extended by the
    collected features; it is well-formed (every slot theorem of Part B applies), configured features
    keep their slots, new names are appended, and the cost and frontier services accepted it.  The
    configured model is an argument that is only read: nothing of one query reaches the next. -/
theorem build_search_instance_state (ofBits : Nat → α) (cfg m' : StateModel α) (h : WF cfg)
    (tr ac : Option (List (String × StateFeature α))) (query : Json)
    (costOk frontierOk : StateModel α → Bool)
    (hb : buildSearchInstanceState ofBits cfg tr ac query costOk frontierOk = .ok m') :
    WF m' ∧ (∀ name i, cfg.getIndex name = some i → m'.getIndex name = some i) ∧
      (∃ t, m'.names = cfg.names ++ t) ∧ costOk m' = true ∧ frontierOk m' = true ∧
      ∃ trf acf user fs, tr = some trf ∧ ac = some acf ∧ queryStateFeatures ofBits query = .ok user ∧
        collectFeatures trf acf user = .ok fs ∧ cfg.extend fs = .ok m' := by
  simp only [buildSearchInstanceState] at hb
  cases tr with
  | none => cases hb
  | some trf =>
    cases ac with
    | none => cases hb
    | some acf =>
      simp only [collectFeaturesQuery] at hb
      cases hq : queryStateFeatures ofBits query with
      | error e => rw [hq] at hb; cases hb
      | ok user =>
        rw [hq] at hb
        simp only at hb
        cases hc : collectFeatures trf acf user with
        | error e => rw [hc] at hb; cases hb
        | ok fs =>
          rw [hc] at hb
          simp only at hb
          cases he : cfg.extend fs with
          | error e => rw [he] at hb; cases hb
          | ok m =>
            rw [he] at hb
            simp only at hb
            split_ifs at hb with h1 h2
            simp only [Except.ok.injEq] at hb
            subst hb
            obtain ⟨hw, hkeep, hnames, _⟩ := extend_keeps_slots cfg m h fs he
            refine ⟨hw, hkeep, hnames, ?_, ?_, trf, acf, user, fs, rfl, rfl, rfl, hc, he⟩
            · simpa using h1
            · simpa using h2

/-- (restates the model's definition step by step — each step is characterised by the theorem named
    next to it; `costOk` / `frontierOk` stay opaque)  WHEN `build_search_instance` succeeds: exactly when both services build, the query's
    `state_features` is absent or well-formed (`query_state_features_cases`), every override names a
    model feature of its type (`collect_features_ok_iff`), the extension changes no kind
    (`extend_ok_iff`), and the cost and frontier services accept the resulting model -/
theorem build_search_instance_ok_iff (ofBits : Nat → α) (cfg m' : StateModel α)
    (tr ac : Option (List (String × StateFeature α))) (query : Json)
    (costOk frontierOk : StateModel α → Bool) :
    buildSearchInstanceState ofBits cfg tr ac query costOk frontierOk = .ok m' ↔
      ∃ trf acf user fs, tr = some trf ∧ ac = some acf ∧ queryStateFeatures ofBits query = .ok user ∧
        collectFeatures trf acf user = .ok fs ∧ cfg.extend fs = .ok m' ∧
        costOk m' = true ∧ frontierOk m' = true := by
  constructor
  · intro hb
    simp only [buildSearchInstanceState] at hb
    cases tr with
    | none => cases hb
    | some trf =>
      cases ac with
      | none => cases hb
      | some acf =>
        simp only [collectFeaturesQuery] at hb
        cases hq : queryStateFeatures ofBits query with
        | error e => rw [hq] at hb; cases hb
        | ok user =>
          rw [hq] at hb
          simp only at hb
          cases hc : collectFeatures trf acf user with
          | error e => rw [hc] at hb; cases hb
          | ok fs =>
            rw [hc] at hb
            simp only at hb
            cases he : cfg.extend fs with
            | error e => rw [he] at hb; cases hb
            | ok m =>
              rw [he] at hb
              simp only at hb
              split_ifs at hb with h1 h2
              simp only [Except.ok.injEq] at hb
              subst hb
              exact ⟨trf, acf, user, fs, rfl, rfl, rfl, hc, he, by simpa using h1, by simpa using h2⟩
  · rintro ⟨trf, acf, user, fs, rfl, rfl, hq, hc, he, h1, h2⟩
    simp [buildSearchInstanceState, collectFeaturesQuery, hq, hc, he, h1, h2]

/-- a malformed `state_features` (present, but not an object of state features) is a `BuildError`;
    an absent one — or a query that is no JSON object — is no override -/
theorem query_state_features_cases (ofBits : Nat → α) (query : Json) :
    (Json.get? query "state_features" = none →
      queryStateFeatures ofBits query = (.ok none : Except StateErr (Option (List (String × StateFeature α))))) ∧
    (∀ v, Json.get? query "state_features" = some v → (∀ kvs, v ≠ .obj kvs) →
      queryStateFeatures ofBits query = (.error .build : Except StateErr (Option (List (String × StateFeature α))))) ∧
    (∀ kvs, Json.get? query "state_features" = some (.obj kvs) →
      queryStateFeatures ofBits query =
        match parseFeatures ofBits kvs with
        | some fs => .ok (some fs)
        | none => .error .build) := by
  refine ⟨?_, ?_, ?_⟩
  · intro h; simp [queryStateFeatures, h]
  · intro v h hv
    cases v with
    | obj kvs => exact absurd rfl (hv kvs)
    | _ => simp only [queryStateFeatures, h]
  · intro kvs h
    simp only [queryStateFeatures, h]
    cases parseFeatures ofBits kvs <;> rfl

end partDjson

section partDserde
variable {α : Type} [IntCodec α]
open StateJson

theorem unit_name_roundtrip :
    (∀ u : DistanceUnit, DistanceUnit.ofName? u.name = some u) ∧
      (∀ u : TimeUnit, TimeUnit.ofName? u.name = some u) ∧
      (∀ u : EnergyUnit, EnergyUnit.ofName? u.name = some u) := by
  refine ⟨?_, ?_, ?_⟩ <;> intro u <;> cases u <;> decide

/-- integers a custom format can hold in the code (`i64`, `u64`) -/
def FormatInRange : StateFeature α → Prop
  | .custom _ _ (.signedInteger i) => -(2 ^ 63 : Int) ≤ i ∧ i < 2 ^ 63
  | .custom _ _ (.unsignedInteger k) => k < 2 ^ 64
  | _ => True

/-- the numbers a feature holds are written as JSON numbers (and, for a float, read back as the same
    value).  `serde_json` does this for every finite double; it writes `null` for NaN and ±∞. -/
def NumbersWritten (ofBits : Nat → α) (toNum : α → Json) : StateFeature α → Prop
  | .distance _ i => ∃ l b, toNum i = .num l b ∧ ofBits b = i
  | .time _ i => ∃ l b, toNum i = .num l b ∧ ofBits b = i
  | .energy _ i => ∃ l b, toNum i = .num l b ∧ ofBits b = i
  | .custom _ _ (.floatingPoint i) => ∃ l b, toNum i = .num l b ∧ ofBits b = i
  | .custom _ _ (.signedInteger i) => ∃ l b, toNum (IntCodec.ofInt i) = .num l b
  | .custom _ _ (.unsignedInteger k) => ∃ l b, toNum (IntCodec.ofInt (Int.ofNat k)) = .num l b
  | .custom _ _ (.boolean _) => True

/-- Full statement (false of the code, see `parse_serialized_feature_counterexample`): `Deserialize`
   inverts `Serialize` on EVERY state feature.  Proved for the features whose numbers are written as
   JSON numbers (`NumbersWritten`: for doubles, every finite initial value) and whose integers are in
   the `i64` / `u64` range (`FormatInRange`: every value the Rust types can hold).  Excluded: a feature
   with a NaN or infinite initial value, which `serde_json` serialises as `null` (such a feature can
   only be declared programmatically by a traversal / access model, not in TOML / JSON).
   The decimal print / parse of integers is proved (`Json.asI64_toString`, `Json.asU64_toString`). -/
theorem parse_serialized_feature_partial (ofBits : Nat → α) (toNum : α → Json)
    (f : StateFeature α) (hn : NumbersWritten ofBits toNum f) (hr : FormatInRange f) :
    parseFeature ofBits (featureToJson toNum f) = some f := by
  obtain ⟨hd, ht, he⟩ := unit_name_roundtrip
  cases f with
  | distance u i =>
    obtain ⟨l, b, h1, h2⟩ := hn
    simp (config := { decide := true }) [parseFeature, parseDistance, featureToJson, field, Json.lookup,
      parseUnit, parseF64, hd, h1, h2]
  | time u i =>
    obtain ⟨l, b, h1, h2⟩ := hn
    simp (config := { decide := true }) [parseFeature, parseDistance, parseTime, featureToJson, field,
      Json.lookup, parseUnit, parseF64, ht, h1, h2]
  | energy u i =>
    obtain ⟨l, b, h1, h2⟩ := hn
    simp (config := { decide := true }) [parseFeature, parseDistance, parseTime, parseEnergy,
      featureToJson, field, Json.lookup, parseUnit, parseF64, he, h1, h2]
  | custom t un fmt =>
    cases fmt with
    | floatingPoint i =>
      obtain ⟨l, b, h1, h2⟩ := hn
      simp (config := { decide := true }) [parseFeature, parseDistance, parseTime, parseEnergy,
        parseCustom, featureToJson, formatToJson, field, Json.lookup, parseString, parseFormat,
        parseInitial, parseF64, h1, h2]
    | signedInteger i =>
      obtain ⟨l, b, h1⟩ := hn
      have h3 := Json.asI64_toString i b hr.1 hr.2
      have e : toString i = i.repr := rfl
      rw [e] at h3
      simp (config := { decide := true }) [parseFeature, parseDistance, parseTime, parseEnergy,
        parseCustom, featureToJson, formatToJson, field, Json.lookup, parseString, parseFormat,
        parseInitial, parseI64, intNum, h1, h3]
    | unsignedInteger k =>
      obtain ⟨l, b, h1⟩ := hn
      have hk : k < 2 ^ 64 := hr
      have h3 := Json.asU64_toString k b hk
      have e : toString (Int.ofNat k) = (Int.ofNat k).repr := rfl
      rw [e] at h3
      simp only [Int.ofNat_eq_coe] at h1 h3
      simp (config := { decide := true }) [parseFeature, parseDistance, parseTime, parseEnergy,
        parseCustom, featureToJson, formatToJson, field, Json.lookup, parseString, parseFormat,
        parseInitial, parseU64, intNum, h1, h3]
    | boolean i =>
      simp (config := { decide := true }) [parseFeature, parseDistance, parseTime, parseEnergy,
        parseCustom, featureToJson, formatToJson, field, Json.lookup, parseString, parseFormat,
        parseInitial, Json.asBool?]

/-- a feature whose initial value is written as `null` (what `serde_json` does with NaN and ±∞) does
    not read back: `Deserialize` does not invert `Serialize` there -/
theorem parse_serialized_feature_counterexample (ofBits : Nat → α) (toNum : α → Json)
    (u : DistanceUnit) (i : α) (hnull : toNum i = .null) :
    parseFeature ofBits (featureToJson toNum (.distance u i)) = none := by
  simp (config := { decide := true }) [parseFeature, parseDistance, parseTime, parseEnergy, parseCustom,
    featureToJson, field, Json.lookup, parseUnit, parseF64, hnull]

end partDserde

/-! ### non-vacuity of Part D -/

section partDexamples
open StateJson

def sixRows : Json := .obj
  [("f2", .obj [("distance_unit", .str "kilometers"), ("initial", .num "0.0" 0)]),
   ("f0", .obj [("time_unit", .str "minutes"), ("initial", .num "3" 3)]),
   ("f1", .obj [("type", .str "soc"), ("unit", .str "percent"),
      ("format", .obj [("floating_point", .obj [("initial", .num "0.0" 0)])])]),
   ("f5", .obj [("energy_unit", .obj [("kilowatt_hours", .null)]), ("initial", .num "1" 1), ("note", .str "x")]),
   ("f4", .obj [("type", .str "count"), ("unit", .str "n"), ("format", .obj [("floating_point", .arr [.num "-4" 0])])]),
   ("f3", .obj [("type", .str "flag"), ("unit", .str "b"), ("format", .obj [("boolean", .obj [("initial", .bool true)])])])]

/-- a six-row `[state]` table in the shapes serde accepts: accepted, the sixth row owns slot 5 -/
example : ∃ m, tryFrom (fun b => (b : ℚ)) sixRows = .ok m ∧ m.len = 6 ∧ m.getIndex "f3" = some 5 ∧
    m.getIndex "f2" = some 0 := by
  refine ⟨_, rfl, ?_⟩
  decide

/-- rejected rows: the custom-feature shape shown in the doc comments of `state_model.rs` /
    `state_feature.rs` (`name` / internally tagged `format`), a sequence, a number for a boolean -/
example :
    parseFeature (fun b => (b : ℚ)) (.obj [("name", .str "soc"), ("unit", .str "percent"),
      ("format", .obj [("type", .str "floating_point"), ("initial", .num "0.0" 0)])]) = none ∧
    parseFeature (fun b => (b : ℚ)) (.arr [.str "miles", .num "1.0" 1]) = none ∧
    parseFeature (fun b => (b : ℚ)) (.obj [("type", .str "c"), ("unit", .str "n"),
      ("format", .obj [("boolean", .obj [("initial", .num "1" 1)])])]) = none ∧
    (∃ e, tryFrom (fun b => (b : ℚ)) (.arr [sixRows]) = .error e) := by
  refine ⟨by decide, by decide, by decide, ⟨_, rfl⟩⟩

/-- declaration order with a repeated name: the access model's `a` replaces the traversal model's in
    place, the new name `c` goes last -/
example :
    (collectFeatures (α := ℚ) [("a", .distance .miles 0), ("b", .time .hours 0)]
      [("a", .distance .feet 5), ("c", .energy .kilowattHours 0)] none).toOption.map
        (fun fs => fs.map (fun p => (p.1, p.2.featureUnitName))) =
    some [("a", "feet"), ("b", "hours"), ("c", "kilowatt_hours")] := by
  decide

end partDexamples

section extendRefuses
variable {α : Type}
open StateModel

/-- and it is refused as soon as ANY entry replaces a feature of the model by one of another kind
    (the entry may stand anywhere in the list) -/
theorem extend_refuses_kind_change (m : StateModel α) (h : WF m)
    (entries : List (String × StateFeature α)) (e : String × StateFeature α) (hm : e ∈ entries)
    (o : StateFeature α) (ho : Spec.get (feats m) e.1 = some o) (hk : o.eqv e.2 = false) :
    m.extend entries = .error .build := by
  cases hx : m.extend entries with
  | error err => rw [extend_error_is_build m _ err hx]
  | ok m' =>
    exfalso
    have hall := (extend_ok_iff m h entries).mp ⟨m', hx⟩
    have key : ∀ n j (hj : j < entries.length), j < n → (entries[j]).1 = e.1 → o.eqv (entries[j]).2 = true := by
      intro n
      induction n with
      | zero => intro j _ hlt; omega
      | succ n ih =>
        intro j hj hlt hname
        have hget := Spec.get_insertAll (feats m) (entries.take j) (entries[j]).1
        cases hf : ((entries.take j).reverse.find? (fun x => x.1 = (entries[j]).1)) with
        | none =>
          rw [hf] at hget
          simp only [Option.map_none, Option.none_or] at hget
          have hget' := hget
          rw [hname, ho] at hget'
          exact hall j hj o (by rw [hget, hname, ho])
        | some e' =>
          rw [hf] at hget
          simp only [Option.map_some, Option.some_or] at hget
          have h2 := hall j hj e'.2 hget
          have hmem : e' ∈ entries.take j := mem_reverse.mp (mem_of_find?_eq_some hf)
          have hk' : e'.1 = (entries[j]).1 := by simpa using find?_some hf
          obtain ⟨k, hklt, hke⟩ := List.getElem_of_mem hmem
          have hkj : k < j := by simp at hklt; omega
          have hke' : entries[k]'(by omega) = e' := by
            rw [← hke]; simp
          have h1 := ih k (by omega) (by omega) (by rw [hke', hk', hname])
          rw [hke'] at h1
          exact (feature_eq_is_equivalence o e'.2 (entries[j]).2).2.2 h1 h2
    obtain ⟨j, hj, hje⟩ := List.getElem_of_mem hm
    have := key (j + 1) j hj (by omega) (by rw [hje])
    rw [hje, hk] at this
    cases this

end extendRefuses

/-! ### when the remaining fallible functions succeed (second review): the custom getters and setters
    per format, and `get_delta`.  They need `encode_*_ok_iff` of Part D, hence stand here. -/

section partDcustomOk
variable {α : Type} [Lit α] [IntCodec α] [LT α] [DecidableLT α] [BEq α]
open StateModel

/-- WHEN `get_custom_i64` succeeds: exactly on a signed-integer custom feature -/
theorem get_custom_i64_ok_iff (m : StateModel α) (h : WF m) (st : List α) (hl : st.length = m.len)
    (name : String) :
    (∃ y, m.getCustomI64 st name = .ok y) ↔
      ∃ ty un init, m.map.get name = some (.custom ty un (.signedInteger init)) := by
  constructor
  · rintro ⟨y, hy⟩
    simp only [getCustomI64] at hy
    cases hc : m.getCustomStateVariable st name with
    | error e => rw [hc] at hy; cases hy
    | ok p =>
      obtain ⟨v, fmt⟩ := p
      rw [hc] at hy
      obtain ⟨ty, un, i, hg, _, _⟩ := getCustomStateVariable_ok.mp hc
      cases fmt with
      | signedInteger init => exact ⟨ty, un, init, hg⟩
      | _ => simp [CustomFeatureFormat.decodeI64] at hy
  · rintro ⟨ty, un, init, hg⟩
    have hs : (m.getIndex name).isSome := by
      rw [slot_iff_feature m h, StateModel.containsKey, Container.containsKey, hg]; rfl
    obtain ⟨i, hi⟩ := Option.isSome_iff_exists.mp hs
    have hlt : i < st.length := by have := slot_in_range m h name i hi; omega
    have : m.getCustomStateVariable st name = .ok (st[i], .signedInteger init) :=
      getCustomStateVariable_ok.mpr ⟨ty, un, i, hg, hi, by simp [hlt]⟩
    exact ⟨IntCodec.toI64 st[i], by simp [getCustomI64, this, CustomFeatureFormat.decodeI64]⟩

/-- WHEN `get_custom_u64` succeeds: on an unsigned-integer custom feature whose slot holds a value that
    is not negative — success depends on the VALUE in the slot (`decode_u64` answers `ValueError` for a
    negative one), not on the kind alone: see `get_custom_u64_negative_slot_counterexample` -/
theorem get_custom_u64_ok_iff (m : StateModel α) (h : WF m) (st : List α) (hl : st.length = m.len)
    (name : String) :
    (∃ y, m.getCustomU64 st name = .ok y) ↔
      ∃ ty un init i v, m.map.get name = some (.custom ty un (.unsignedInteger init)) ∧
        m.getIndex name = some i ∧ st[i]? = some v ∧ ¬ v < zero := by
  constructor
  · rintro ⟨y, hy⟩
    simp only [getCustomU64] at hy
    cases hc : m.getCustomStateVariable st name with
    | error e => rw [hc] at hy; cases hy
    | ok p =>
      obtain ⟨v, fmt⟩ := p
      rw [hc] at hy
      obtain ⟨ty, un, i, hg, hi, hv⟩ := getCustomStateVariable_ok.mp hc
      cases fmt with
      | unsignedInteger init =>
        simp only [CustomFeatureFormat.decodeU64] at hy
        split_ifs at hy with hneg
        exact ⟨ty, un, init, i, v, hg, hi, hv, hneg⟩
      | _ => simp [CustomFeatureFormat.decodeU64] at hy
  · rintro ⟨ty, un, init, i, v, hg, hi, hv, hneg⟩
    have : m.getCustomStateVariable st name = .ok (v, .unsignedInteger init) :=
      getCustomStateVariable_ok.mpr ⟨ty, un, i, hg, hi, hv⟩
    exact ⟨IntCodec.toU64 v, by simp [getCustomU64, this, CustomFeatureFormat.decodeU64, hneg]⟩

/-- WHEN the four public custom setters succeed: exactly on a custom feature of their own format -/
theorem set_custom_i64_ok_iff (m : StateModel α) (h : WF m) (st : List α) (hl : st.length = m.len)
    (name : String) (x : Int) :
    (∃ st', m.setCustomI64 st name x = .ok st') ↔
      ∃ ty un init, m.map.get name = some (.custom ty un (.signedInteger init)) := by
  rw [setCustomI64, set_custom_ok_iff m h st hl]
  constructor
  · rintro ⟨ty, un, fmt, y, hg, he⟩
    obtain ⟨⟨i, rfl⟩, _⟩ := (encode_i64_ok_iff fmt x y).mp he
    exact ⟨ty, un, i, hg⟩
  · rintro ⟨ty, un, init, hg⟩
    exact ⟨ty, un, _, _, hg, rfl⟩


theorem set_custom_f64_ok_iff (m : StateModel α) (h : WF m) (st : List α) (hl : st.length = m.len)
    (name : String) (x : α) :
    (∃ st', m.setCustomF64 st name x = .ok st') ↔
      ∃ ty un init, m.map.get name = some (.custom ty un (.floatingPoint init)) := by
  rw [setCustomF64, set_custom_ok_iff m h st hl]
  constructor
  · rintro ⟨ty, un, fmt, y, hg, he⟩
    obtain ⟨⟨i, rfl⟩, _⟩ := (encode_f64_ok_iff fmt x y).mp he
    exact ⟨ty, un, i, hg⟩
  · rintro ⟨ty, un, init, hg⟩
    exact ⟨ty, un, _, _, hg, rfl⟩

theorem set_custom_u64_ok_iff (m : StateModel α) (h : WF m) (st : List α) (hl : st.length = m.len)
    (name : String) (x : Nat) :
    (∃ st', m.setCustomU64 st name x = .ok st') ↔
      ∃ ty un init, m.map.get name = some (.custom ty un (.unsignedInteger init)) := by
  rw [setCustomU64, set_custom_ok_iff m h st hl]
  constructor
  · rintro ⟨ty, un, fmt, y, hg, he⟩
    obtain ⟨⟨i, rfl⟩, _⟩ := (encode_u64_ok_iff fmt x y).mp he
    exact ⟨ty, un, i, hg⟩
  · rintro ⟨ty, un, init, hg⟩
    exact ⟨ty, un, _, _, hg, rfl⟩

theorem set_custom_bool_ok_iff (m : StateModel α) (h : WF m) (st : List α) (hl : st.length = m.len)
    (name : String) (x : Bool) :
    (∃ st', m.setCustomBool st name x = .ok st') ↔
      ∃ ty un init, m.map.get name = some (.custom ty un (.boolean init)) := by
  rw [setCustomBool, set_custom_ok_iff m h st hl]
  constructor
  · rintro ⟨ty, un, fmt, y, hg, he⟩
    obtain ⟨⟨i, rfl⟩, _⟩ := (encode_bool_ok_iff fmt x y).mp he
    exact ⟨ty, un, i, hg⟩
  · rintro ⟨ty, un, init, hg⟩
    exact ⟨ty, un, _, _, hg, rfl⟩

/-- WHEN `get_custom_bool` succeeds: exactly on a boolean custom feature -/
theorem get_custom_bool_ok_iff (m : StateModel α) (h : WF m) (st : List α) (hl : st.length = m.len)
    (name : String) :
    (∃ y, m.getCustomBool st name = .ok y) ↔
      ∃ ty un init, m.map.get name = some (.custom ty un (.boolean init)) := by
  constructor
  · rintro ⟨y, hy⟩
    simp only [getCustomBool] at hy
    cases hc : m.getCustomStateVariable st name with
    | error e => rw [hc] at hy; cases hy
    | ok p =>
      obtain ⟨v, fmt⟩ := p
      rw [hc] at hy
      obtain ⟨ty, un, i, hg, _, _⟩ := getCustomStateVariable_ok.mp hc
      cases fmt with
      | boolean init => exact ⟨ty, un, init, hg⟩
      | _ => simp [CustomFeatureFormat.decodeBool] at hy
  · rintro ⟨ty, un, init, hg⟩
    have hs : (m.getIndex name).isSome := by
      rw [slot_iff_feature m h, StateModel.containsKey, Container.containsKey, hg]; rfl
    obtain ⟨i, hi⟩ := Option.isSome_iff_exists.mp hs
    have hlt : i < st.length := by have := slot_in_range m h name i hi; omega
    have : m.getCustomStateVariable st name = .ok (st[i], .boolean init) :=
      getCustomStateVariable_ok.mpr ⟨ty, un, i, hg, hi, by simp [hlt]⟩
    refine ⟨(if st[i] == (zero : α) then false else true), ?_⟩
    simp [getCustomBool, this, CustomFeatureFormat.decodeBool]

end partDcustomOk

open StateModel in
/-- WHEN `get_delta` succeeds (both vectors of the model's length): exactly when the name is a feature,
    of any kind -/
theorem get_delta_ok_iff {α : Type} [Sub α] (m : StateModel α) (h : WF m) (prev next : List α)
    (hp : prev.length = m.len) (hn : next.length = m.len) (name : String) :
    (∃ d, m.getDelta prev next name = .ok d) ↔ m.containsKey name = true := by
  rw [← slot_iff_feature m h]
  constructor
  · rintro ⟨d, hd⟩
    obtain ⟨i, _, _, hi, _⟩ := getDelta_ok.mp hd
    simp [hi]
  · intro hs
    obtain ⟨i, hi⟩ := Option.isSome_iff_exists.mp hs
    have hlt := slot_in_range m h name i hi
    exact ⟨_, getDelta_ok.mpr ⟨i, prev[i], next[i], hi, by simp [hp, hlt], by simp [hn, hlt], rfl⟩⟩

/-- "a getter succeeds exactly on a feature of the right kind" is FALSE for `get_custom_u64`: a
    well-formed model, an unsigned-integer feature, a vector of the right length holding `-1` —
    `ValueError` -/
theorem get_custom_u64_negative_slot_counterexample :
    let mu : StateModel ℚ := StateModel.new [("n", .custom "count" "n" (.unsignedInteger 0))]
    StateModel.WF mu ∧ ([-1] : List ℚ).length = mu.len ∧
      mu.map.get "n" = some (.custom "count" "n" (.unsignedInteger 0)) ∧
      mu.getCustomU64 [-1] "n" = .error .value := by
  refine ⟨(new_wf _).1, by decide, rfl, ?_⟩
  decide +kernel

/-! ### the audit's items: non-vacuity of the set / get / add / codec / per-query theorems, and the
    counterexample for integers a double cannot hold -/

section auditexamples
open StateModel StateJson

def m7 : StateModel ℚ := StateModel.new seven
def s7 : List ℚ := [0, 0, 0, 100, 0, 0, 0]

example : m7.initialState = .ok s7 := by decide +kernel

/-- every hypothesis of the totality theorems holds on the seven-feature model and its initial state -/
example : ∃ st', m7.setDistance s7 "trip_distance" 3 .kilometers = .ok st' :=
  (set_distance_ok_iff m7 (new_wf seven).1 s7 (by decide) "trip_distance" 3 .kilometers).mpr
    ⟨.miles, 0, rfl⟩

example : ¬ ∃ st', m7.setDistance s7 "trip_time" 3 .kilometers = .ok st' := by
  rw [set_distance_ok_iff m7 (new_wf seven).1 s7 (by decide)]
  rintro ⟨fu, init, h⟩
  have : m7.map.get "trip_time" = some (.time .minutes 0) := rfl
  rw [this] at h
  cases h

/-- the round-trip theorem applied: written in kilometres into a feature kept in miles -/
example : ∃ st' y, m7.setDistance s7 "trip_distance" 3 .kilometers = .ok st' ∧
    m7.getDistance st' "trip_distance" .kilometers = .ok y ∧ |y - 3| ≤ |(3 : ℚ)| * (C09.tol : ℚ) := by
  obtain ⟨st', hs⟩ : ∃ st', m7.setDistance s7 "trip_distance" 3 .kilometers = .ok st' := ⟨_, rfl⟩
  obtain ⟨y, hy, hb⟩ := get_after_set_distance_roundtrip m7 s7 st' "trip_distance" 3 .kilometers hs
  exact ⟨st', y, hs, hy, hb⟩

example : ∃ st', m7.setCustomI64 s7 "stops" (-4) = .ok st' ∧ m7.getCustomI64 st' "stops" = .ok (-4) :=
  ⟨_, rfl, by decide +kernel⟩

example : ∃ st', m7.setCustomBool s7 "charging" true = .ok st' ∧ m7.getCustomBool st' "charging" = .ok true :=
  ⟨_, rfl, by decide +kernel⟩

example : ∃ st', m7.addEnergy s7 "trip_energy" 3 .kilowattHours = .ok st' := ⟨_, rfl⟩

/-- `extend_succeeds` applied: an override of unit and initial value plus a new name -/
example : ∃ m', m7.extend [("trip_time", .time .hours 7), ("turns", .custom "count" "n" (.signedInteger 0))] = .ok m' := by
  apply extend_succeeds m7 (new_wf seven).1
  · intro e he o ho
    simp only [mem_cons, not_mem_nil, or_false] at he
    rcases he with rfl | rfl
    · have : Spec.get m7.feats "trip_time" = some (.time .minutes 0) := rfl
      rw [this] at ho; cases ho; rfl
    · have : Spec.get m7.feats "turns" = none := rfl
      rw [this] at ho; cases ho
  · intro e he e' he' hk
    simp only [mem_cons, not_mem_nil, or_false] at he he'
    rcases he with rfl | rfl <;> rcases he' with rfl | rfl <;> first | rfl | (revert hk; decide)

/-- `extend_refuses_kind_change` applied -/
example : m7.extend [("trip_time", .distance .miles 0)] = .error .build :=
  extend_refuses_kind_change m7 (new_wf seven).1 _ ("trip_time", .distance .miles 0) (by simp) (.time .minutes 0) rfl rfl

/-- … also when the offending entry is not the first one -/
example : m7.extend [("turns", .custom "count" "n" (.signedInteger 0)), ("trip_time", .distance .miles 0)] =
    .error .build :=
  extend_refuses_kind_change m7 (new_wf seven).1 _ ("trip_time", .distance .miles 0) (by simp)
    (.time .minutes 0) rfl rfl

/-- a per-query model: configuration, traversal and access features, and a query override that changes
    the unit and the initial value of `trip_time` (slot kept, value replaced) -/
def cfgOnly : StateModel ℚ := StateModel.new [("cfg_only", .distance .miles 0)]
def trF : List (String × StateFeature ℚ) := [("trip_distance", .distance .miles 0), ("trip_time", .time .minutes 0)]
def acF : List (String × StateFeature ℚ) := [("turns", .custom "count" "n" (.floatingPoint 0))]
def qOverride : Json :=
  .obj [("state_features", .obj [("trip_time", .obj [("time_unit", .str "hours"), ("initial", .num "7" 7)])])]

example : ∃ m', buildSearchInstanceState (fun b => (b : ℚ)) cfgOnly (some trF) (some acF) qOverride
      (fun _ => true) (fun _ => true) = .ok m' ∧
    m'.names = ["cfg_only", "trip_distance", "trip_time", "turns"] ∧ m'.getIndex "trip_time" = some 2 ∧
    m'.initialState = .ok [0, 0, 7, 0] := by
  refine ⟨_, rfl, ?_⟩
  decide +kernel

/-- `parse_serialized_feature_partial` applied (numbers written by bit pattern = value) -/
example : parseFeature (fun b => (b : ℚ)) (featureToJson (fun q : ℚ => .num "" q.num.toNat)
    (.custom "count" "n" (.signedInteger (-9223372036854775808)) : StateFeature ℚ)) =
    some (.custom "count" "n" (.signedInteger (-9223372036854775808))) :=
  parse_serialized_feature_partial _ _ _ ⟨_, _, rfl⟩ ⟨by decide, by decide⟩

example : parseFeature (fun b => (b : ℚ)) (featureToJson (fun q : ℚ => .num "" q.num.toNat)
    (.energy .kilowattHours 60 : StateFeature ℚ)) = some (.energy .kilowattHours 60) :=
  parse_serialized_feature_partial _ _ _ ⟨_, _, rfl, by decide +kernel⟩ trivial

end auditexamples

section integerprecision
open StateModel

/-- casts that behave like IEEE doubles on integers: exact up to `2^53`, to the nearest even integer
    in the next binade (enough for the witness `2^53 + 1`) -/
local instance (priority := 2000) doubleLikeCodec : IntCodec ℚ where
  ofInt i := if i.natAbs ≤ 2 ^ 53 then (i : ℚ) else ((2 * (i / 2) : Int) : ℚ)
  toI64 q := q.num.tdiv q.den
  toU64 q := (q.num.tdiv q.den).toNat

/-- `set_custom_i64(2^53 + 1)` followed by `get_custom_i64` returns `2^53`: an integer above `2^53` is
    not round-tripped by the `i64 as f64` / `f64 as i64` casts of `CustomFeatureFormat` -/
theorem custom_i64_roundtrip_counterexample :
    let m : StateModel ℚ := StateModel.new [("n", .custom "count" "n" (.signedInteger 0))]
    ∃ st', m.setCustomI64 [0] "n" (2 ^ 53 + 1) = .ok st' ∧
      m.getCustomI64 st' "n" = .ok (2 ^ 53) ∧ ((2 : Int) ^ 53 ≠ 2 ^ 53 + 1) := by
  refine ⟨_, rfl, ?_, by decide⟩
  decide +kernel

end integerprecision

end C11
end Compass

namespace Compass
namespace C11
open Src

/-! ### Source decision ties

The relational operators at the named comparison sites of the Rust source are re-extracted on every run
by `tools/gen_model.py` into `Compass/Gen/Decisions.lean` (`Src.<site> : Src.Rel`).  Each theorem below
says that the hand-written model decides at that site by exactly the operator the source has there
(`Rel.nat` / `Rel.int` / `Rel.num` interpret the extracted operator; an unrecognised line is `none`).  A
source change that turns `<` into `<=`, `>` into `>=`, … at a site changes the generated constant and this
proof obligation stops checking, whether or not a generated case lands on the tie. -/

theorem src_custom_u64_negative {α : Type} [Field α] [LinearOrder α] [IsStrictOrderedRing α] [Lit α] [LawfulLit α] [IntCodec α] (c : Nat) (x : α) :
    some (CustomFeatureFormat.decodeU64 (.unsignedInteger c) x) =
      (custom_u64_negative.num x (zero : α)).map
        fun neg => if neg then .error .value else .ok (IntCodec.toU64 x) := by
  simp [CustomFeatureFormat.decodeU64, custom_u64_negative, Rel.num]

end C11
end Compass
