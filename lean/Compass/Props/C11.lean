/-
C11 — every state feature owns exactly one state-vector slot, at any feature count.
(work in progress: container refinement and state-model theorems follow)
-/
import Compass.Model.Container

namespace Compass
namespace C11

theorem empty_len {K V : Type} [DecidableEq K] : (Container.empty : Container K V).len = 0 := rfl

end C11
end Compass
