/-
C09 — unit conversions are linear, invertible and physically correct; derived quantities agree with
their definitions; non-positive speed or distance is rejected.

The tables are `Gen/Units.lean`, regenerated from the Rust source on every run, so every
`decide +kernel` below is re-checked against what the code says now.

Modelled rather than verified / outside the quantifier:
* non-finite arguments: `create_time` answers `Ok(NaN)` for a NaN speed or distance (`NaN <= 0` is
  false in the code's total order), `Ok(0)` for an infinite speed: the property quantifies over every
  magnitude and sign, the theorems over an ordered field; the harness runs NaN, ±inf and −0.0 through
  the constructors for the correspondence only (model and code agree bit for bit).
* `from_str` of the unit families wraps the text in quotes and reads it as a JSON string, so JSON escape
  sequences are decoded by the code (`"mile\u0073"` parses as miles): `Units.jsonUnescape` models that
  reader (a `\u` escape in the surrogate range is answered `none` whether serde_json refuses it or pairs
  it — no serde name holds a character beyond the basic plane, so `from_str` answers the same); the harness
  sends escaped spellings of names and near-names.
-/
import Compass.Gen.Decisions
import Compass.Gen.FnsC09
import Compass.Proofs.Num
import Compass.Model.Units
import Mathlib.Data.Fintype.OfMap
import Mathlib.Data.Fintype.Pi

namespace Compass
namespace C09

set_option linter.unusedSectionVars false

instance : Fintype DistanceUnit := Fintype.ofList DistanceUnit.all (by intro x; cases x <;> decide)
instance : Fintype TimeUnit := Fintype.ofList TimeUnit.all (by intro x; cases x <;> decide)
instance : Fintype SpeedUnit := Fintype.ofList SpeedUnit.all (by intro x; cases x <;> decide)
instance : Fintype EnergyUnit := Fintype.ofList EnergyUnit.all (by intro x; cases x <;> decide)
instance : Fintype GradeUnit := Fintype.ofList GradeUnit.all (by intro x; cases x <;> decide)
instance : Fintype WeightUnit := Fintype.ofList WeightUnit.all (by intro x; cases x <;> decide)
instance : Fintype EnergyRateUnit := Fintype.ofList EnergyRateUnit.all (by intro x; cases x <;> decide)

/-! ### SI definitions (hand written, independent of the source) -/

/-- metres per unit -/
def siDistance : DistanceUnit → ℚ
  | .meters => 1 | .kilometers => 1000 | .miles => 1609344 / 1000 | .inches => 254 / 10000 | .feet => 3048 / 10000
/-- seconds per unit -/
def siTime : TimeUnit → ℚ
  | .hours => 3600 | .minutes => 60 | .seconds => 1 | .milliseconds => 1 / 1000
/-- metres per second per unit -/
def siSpeed : SpeedUnit → ℚ
  | .kilometersPerHour => 1000 / 3600 | .milesPerHour => (1609344 / 1000) / 3600 | .metersPerSecond => 1
/-- rise over run per unit -/
def siGrade : GradeUnit → ℚ
  | .percent => 1 / 100 | .decimal => 1 | .millis => 1 / 1000
/-- kilograms per unit (avoirdupois pound, US short ton) -/
def siWeight : WeightUnit → ℚ
  | .pounds => 45359237 / 100000000 | .tons => 2000 * (45359237 / 100000000) | .kg => 1

/-- relative tolerance of the property: 0.1 percent -/
def tol : ℚ := 1 / 1000

/-! ### Table facts (finite, decided by the kernel over all ordered pairs) -/

theorem distance_wf : ∀ u v : DistanceUnit, (DistanceUnit.factor u v).wf = true := by decide +kernel
theorem time_wf : ∀ u v : TimeUnit, (TimeUnit.factor u v).wf = true := by decide +kernel
theorem speed_wf : ∀ u v : SpeedUnit, (SpeedUnit.factor u v).wf = true := by decide +kernel
theorem energy_wf : ∀ u v : EnergyUnit, (EnergyUnit.factor u v).wf = true := by decide +kernel
theorem grade_wf : ∀ u v : GradeUnit, (GradeUnit.factor u v).wf = true := by decide +kernel
theorem weight_wf : ∀ u v : WeightUnit, (WeightUnit.factor u v).wf = true := by decide +kernel

theorem distance_id : ∀ u : DistanceUnit, DistanceUnit.factor u u = .id := by decide +kernel
theorem time_id : ∀ u : TimeUnit, TimeUnit.factor u u = .id := by decide +kernel
theorem speed_id : ∀ u : SpeedUnit, SpeedUnit.factor u u = .id := by decide +kernel
theorem energy_id : ∀ u : EnergyUnit, EnergyUnit.factor u u = .id := by decide +kernel
theorem grade_id : ∀ u : GradeUnit, GradeUnit.factor u u = .id := by decide +kernel
theorem weight_id : ∀ u : WeightUnit, WeightUnit.factor u u = .id := by decide +kernel

theorem distance_roundtrip_table : ∀ u v : DistanceUnit,
    |(DistanceUnit.factor u v).ratio * (DistanceUnit.factor v u).ratio - 1| ≤ tol := by decide +kernel
theorem time_roundtrip_table : ∀ u v : TimeUnit,
    |(TimeUnit.factor u v).ratio * (TimeUnit.factor v u).ratio - 1| ≤ tol := by decide +kernel
theorem speed_roundtrip_table : ∀ u v : SpeedUnit,
    |(SpeedUnit.factor u v).ratio * (SpeedUnit.factor v u).ratio - 1| ≤ tol := by decide +kernel
theorem energy_roundtrip_table : ∀ u v : EnergyUnit,
    |(EnergyUnit.factor u v).ratio * (EnergyUnit.factor v u).ratio - 1| ≤ tol := by decide +kernel
theorem grade_roundtrip_table : ∀ u v : GradeUnit,
    |(GradeUnit.factor u v).ratio * (GradeUnit.factor v u).ratio - 1| ≤ tol := by decide +kernel
theorem weight_roundtrip_table : ∀ u v : WeightUnit,
    |(WeightUnit.factor u v).ratio * (WeightUnit.factor v u).ratio - 1| ≤ tol := by decide +kernel

/-- one `u` is `factor u v` `v`s; physically it is `si u / si v` -/
theorem distance_physical_table : ∀ u v : DistanceUnit,
    |(DistanceUnit.factor u v).ratio * siDistance v / siDistance u - 1| ≤ tol := by decide +kernel
theorem time_physical_table : ∀ u v : TimeUnit,
    |(TimeUnit.factor u v).ratio * siTime v / siTime u - 1| ≤ tol := by decide +kernel
theorem speed_physical_table : ∀ u v : SpeedUnit,
    |(SpeedUnit.factor u v).ratio * siSpeed v / siSpeed u - 1| ≤ tol := by decide +kernel
theorem grade_physical_table : ∀ u v : GradeUnit,
    |(GradeUnit.factor u v).ratio * siGrade v / siGrade u - 1| ≤ tol := by decide +kernel
theorem weight_physical_table : ∀ u v : WeightUnit,
    |(WeightUnit.factor u v).ratio * siWeight v / siWeight u - 1| ≤ tol := by decide +kernel

/-- the speed unit's associated units are consistent with its SI value -/
theorem speed_assoc_consistent : ∀ u : SpeedUnit,
    siSpeed u = siDistance u.associatedDistanceUnit / siTime u.associatedTimeUnit := by decide +kernel


/-- hand-written: metres in the distance unit an energy-rate unit is "per", and whether its energy is
electric (kWh) or a liquid fuel — independent of the source's associated-unit maps -/
def siRateDistance : EnergyRateUnit → ℚ
  | .gallonsGasolinePerMile => 1609344 / 1000
  | .gallonsDieselPerMile => 1609344 / 1000
  | .kilowattHoursPerMile => 1609344 / 1000
  | .kilowattHoursPerKilometer => 1000
  | .kilowattHoursPerMeter => 1

def rateEnergyUnit : EnergyRateUnit → EnergyUnit
  | .gallonsGasolinePerMile => .gallonsGasoline
  | .gallonsDieselPerMile => .gallonsDiesel
  | .kilowattHoursPerMile => .kilowattHours
  | .kilowattHoursPerKilometer => .kilowattHours
  | .kilowattHoursPerMeter => .kilowattHours

/-- the associated-unit maps of the source say what the unit names say: a rate "per mile" is
multiplied by a distance in miles, "per kilometre" by kilometres, "per metre" by metres, and yields
gallons of the named fuel or kilowatt-hours -/
theorem rate_associated_units_correct : ∀ ru : EnergyRateUnit,
    siDistance ru.associatedDistanceUnit = siRateDistance ru ∧
    ru.associatedEnergyUnit = rateEnergyUnit ru := by decide +kernel

/-! ### Lifting to every magnitude and sign, in any linearly ordered field -/

section
variable {α : Type} [Field α] [LinearOrder α] [IsStrictOrderedRing α] [Lit α] [LawfulLit α]

/-- generic: a round trip through two factors whose ratio product is within `tol` of 1 -/
theorem roundtrip_of_table (f g : Factor) (h : |f.ratio * g.ratio - 1| ≤ tol) (x : α) :
    |g.apply (f.apply x) - x| ≤ |x| * (tol : α) := by
  rw [Factor.apply_eq, Factor.apply_eq]
  have e : x * (f.ratio : α) * (g.ratio : α) - x = x * (((f.ratio * g.ratio - 1 : ℚ)) : α) := by
    push_cast; ring
  rw [e, abs_mul]
  apply mul_le_mul_of_nonneg_left _ (abs_nonneg x)
  rw [← Rat.cast_abs]
  exact_mod_cast h

/-- C09 (linearity), all six families -/
theorem distance_linear (u v : DistanceUnit) (a b x y : α) :
    u.convert v (a * x + b * y) = a * u.convert v x + b * u.convert v y := Factor.apply_linear _ _ _ _ _
theorem time_linear (u v : TimeUnit) (a b x y : α) :
    u.convert v (a * x + b * y) = a * u.convert v x + b * u.convert v y := Factor.apply_linear _ _ _ _ _
theorem speed_linear (u v : SpeedUnit) (a b x y : α) :
    u.convert v (a * x + b * y) = a * u.convert v x + b * u.convert v y := Factor.apply_linear _ _ _ _ _
theorem energy_linear (u v : EnergyUnit) (a b x y : α) :
    u.convert v (a * x + b * y) = a * u.convert v x + b * u.convert v y := Factor.apply_linear _ _ _ _ _
theorem grade_linear (u v : GradeUnit) (a b x y : α) :
    u.convert v (a * x + b * y) = a * u.convert v x + b * u.convert v y := Factor.apply_linear _ _ _ _ _
theorem weight_linear (u v : WeightUnit) (a b x y : α) :
    u.convert v (a * x + b * y) = a * u.convert v x + b * u.convert v y := Factor.apply_linear _ _ _ _ _

/-- C09 (identity for equal units) -/
theorem distance_convert_id (u : DistanceUnit) (x : α) : u.convert u x = x := by
  simp [DistanceUnit.convert, distance_id, Factor.apply]
theorem time_convert_id (u : TimeUnit) (x : α) : u.convert u x = x := by
  simp [TimeUnit.convert, time_id, Factor.apply]
theorem speed_convert_id (u : SpeedUnit) (x : α) : u.convert u x = x := by
  simp [SpeedUnit.convert, speed_id, Factor.apply]
theorem energy_convert_id (u : EnergyUnit) (x : α) : u.convert u x = x := by
  simp [EnergyUnit.convert, energy_id, Factor.apply]
theorem grade_convert_id (u : GradeUnit) (x : α) : u.convert u x = x := by
  simp [GradeUnit.convert, grade_id, Factor.apply]
theorem weight_convert_id (u : WeightUnit) (x : α) : u.convert u x = x := by
  simp [WeightUnit.convert, weight_id, Factor.apply]

/-- C09 (there and back within 0.1 percent), every magnitude and sign -/
theorem distance_roundtrip (u v : DistanceUnit) (x : α) :
    |v.convert u (u.convert v x) - x| ≤ |x| * (tol : α) :=
  roundtrip_of_table _ _ (distance_roundtrip_table u v) x
theorem time_roundtrip (u v : TimeUnit) (x : α) :
    |v.convert u (u.convert v x) - x| ≤ |x| * (tol : α) :=
  roundtrip_of_table _ _ (time_roundtrip_table u v) x
theorem speed_roundtrip (u v : SpeedUnit) (x : α) :
    |v.convert u (u.convert v x) - x| ≤ |x| * (tol : α) :=
  roundtrip_of_table _ _ (speed_roundtrip_table u v) x
theorem energy_roundtrip (u v : EnergyUnit) (x : α) :
    |v.convert u (u.convert v x) - x| ≤ |x| * (tol : α) :=
  roundtrip_of_table _ _ (energy_roundtrip_table u v) x
theorem grade_roundtrip (u v : GradeUnit) (x : α) :
    |v.convert u (u.convert v x) - x| ≤ |x| * (tol : α) :=
  roundtrip_of_table _ _ (grade_roundtrip_table u v) x
theorem weight_roundtrip (u v : WeightUnit) (x : α) :
    |v.convert u (u.convert v x) - x| ≤ |x| * (tol : α) :=
  roundtrip_of_table _ _ (weight_roundtrip_table u v) x

/-- generic: a conversion agrees with the physical factor `siu / siv` within `tol` -/
theorem physical_of_table (f : Factor) (siu siv : ℚ) (hu : 0 < siu) (hv : 0 < siv)
    (h : |f.ratio * siv / siu - 1| ≤ tol) (x : α) :
    |f.apply x - x * ((siu / siv : ℚ) : α)| ≤ |x * ((siu / siv : ℚ) : α)| * (tol : α) := by
  rw [Factor.apply_eq]
  have hu' : (siu : α) ≠ 0 := by exact_mod_cast hu.ne'
  have hv' : (siv : α) ≠ 0 := by exact_mod_cast hv.ne'
  have e : x * (f.ratio : α) - x * ((siu / siv : ℚ) : α)
      = (x * ((siu / siv : ℚ) : α)) * ((f.ratio * siv / siu - 1 : ℚ) : α) := by
    push_cast; field_simp
  rw [e, abs_mul]
  apply mul_le_mul_of_nonneg_left _ (abs_nonneg _)
  rw [← Rat.cast_abs]
  exact_mod_cast h

theorem siDistance_pos : ∀ u, 0 < siDistance u := by decide +kernel
theorem siTime_pos : ∀ u, 0 < siTime u := by decide +kernel
theorem siSpeed_pos : ∀ u, 0 < siSpeed u := by decide +kernel
theorem siGrade_pos : ∀ u, 0 < siGrade u := by decide +kernel
theorem siWeight_pos : ∀ u, 0 < siWeight u := by decide +kernel

/-- C09 (physically correct within 0.1 percent): distance, time, speed, grade, weight -/
theorem distance_physical (u v : DistanceUnit) (x : α) :
    |u.convert v x - x * ((siDistance u / siDistance v : ℚ) : α)|
      ≤ |x * ((siDistance u / siDistance v : ℚ) : α)| * (tol : α) :=
  physical_of_table _ _ _ (siDistance_pos u) (siDistance_pos v) (distance_physical_table u v) x
theorem time_physical (u v : TimeUnit) (x : α) :
    |u.convert v x - x * ((siTime u / siTime v : ℚ) : α)|
      ≤ |x * ((siTime u / siTime v : ℚ) : α)| * (tol : α) :=
  physical_of_table _ _ _ (siTime_pos u) (siTime_pos v) (time_physical_table u v) x
theorem speed_physical (u v : SpeedUnit) (x : α) :
    |u.convert v x - x * ((siSpeed u / siSpeed v : ℚ) : α)|
      ≤ |x * ((siSpeed u / siSpeed v : ℚ) : α)| * (tol : α) :=
  physical_of_table _ _ _ (siSpeed_pos u) (siSpeed_pos v) (speed_physical_table u v) x
theorem grade_physical (u v : GradeUnit) (x : α) :
    |u.convert v x - x * ((siGrade u / siGrade v : ℚ) : α)|
      ≤ |x * ((siGrade u / siGrade v : ℚ) : α)| * (tol : α) :=
  physical_of_table _ _ _ (siGrade_pos u) (siGrade_pos v) (grade_physical_table u v) x
theorem weight_physical (u v : WeightUnit) (x : α) :
    |u.convert v x - x * ((siWeight u / siWeight v : ℚ) : α)|
      ≤ |x * ((siWeight u / siWeight v : ℚ) : α)| * (tol : α) :=
  physical_of_table _ _ _ (siWeight_pos u) (siWeight_pos v) (weight_physical_table u v) x

/-! ### Derived quantities -/

/-- exact combined factor of `create_time` for a unit triple -/
def timeK (su : SpeedUnit) (du : DistanceUnit) (tu : TimeUnit) : ℚ :=
  (DistanceUnit.factor du baseDistanceUnit).ratio / (SpeedUnit.factor su baseSpeedUnit).ratio
    * (TimeUnit.factor baseTimeUnit tu).ratio

/-- exact combined factor of `create_speed` for a unit triple -/
def speedK (tu : TimeUnit) (du : DistanceUnit) (su : SpeedUnit) : ℚ :=
  (DistanceUnit.factor du baseDistanceUnit).ratio / (TimeUnit.factor tu baseTimeUnit).ratio
    * (SpeedUnit.factor baseSpeedUnit su).ratio

theorem timeK_physical_table : ∀ su du tu,
    |timeK su du tu * siTime tu * siSpeed su / siDistance du - 1| ≤ tol := by decide +kernel
theorem speedK_physical_table : ∀ tu du su,
    |speedK tu du su * siSpeed su * siTime tu / siDistance du - 1| ≤ tol := by decide +kernel

theorem ratio_cast_pos (f : Factor) (h : f.wf = true) : (0 : α) < (f.ratio : α) := by
  exact_mod_cast Factor.ratio_pos f h

theorem mul_pos_nonpos_iff {x r : α} (hr : 0 < r) : x * r ≤ 0 ↔ x ≤ 0 := by
  constructor
  · intro h
    by_contra hx
    have := mul_pos (not_le.mp hx) hr
    linarith
  · intro h; nlinarith

theorem createTime_eq (s : α) (su : SpeedUnit) (d : α) (du : DistanceUnit) (tu : TimeUnit) :
    createTime s su d du tu =
      if s ≤ 0 ∨ d ≤ 0 then none
      else some (d * ((DistanceUnit.factor du baseDistanceUnit).ratio : α)
                  / (s * ((SpeedUnit.factor su baseSpeedUnit).ratio : α))
                  * ((TimeUnit.factor baseTimeUnit tu).ratio : α)) := by
  have hd := ratio_cast_pos (α := α) _ (distance_wf du baseDistanceUnit)
  have hs := ratio_cast_pos (α := α) _ (speed_wf su baseSpeedUnit)
  simp only [createTime, DistanceUnit.convert, SpeedUnit.convert, TimeUnit.convert, Factor.apply_eq,
    zero_eq, mul_pos_nonpos_iff hs, mul_pos_nonpos_iff hd]

/-- C09: `create_time` rejects exactly a non-positive speed or distance … -/
theorem createTime_none_iff (s : α) (su : SpeedUnit) (d : α) (du : DistanceUnit) (tu : TimeUnit) :
    createTime s su d du tu = none ↔ (s ≤ 0 ∨ d ≤ 0) := by
  rw [createTime_eq]; split <;> simp_all

/-- … and otherwise is distance over speed: exactly `timeK · d / s`, which is the physical value
(`d·si du / (s·si su)` seconds, expressed in `tu`) within 0.1 percent for every unit triple. -/
theorem createTime_def (s : α) (su : SpeedUnit) (d : α) (du : DistanceUnit) (tu : TimeUnit)
    (hs : 0 < s) (hd : 0 < d) :
    createTime s su d du tu = some (d / s * (timeK su du tu : α)) := by
  have hne : ¬ (s ≤ 0 ∨ d ≤ 0) := by
    rintro (h | h) <;> linarith
  rw [createTime_eq, if_neg hne]
  have hsr := (ratio_cast_pos (α := α) _ (speed_wf su baseSpeedUnit)).ne'
  simp only [timeK]
  push_cast; congr 1; field_simp

theorem createTime_physical (s : α) (su : SpeedUnit) (d : α) (du : DistanceUnit) (tu : TimeUnit)
    (hs : 0 < s) (hd : 0 < d) :
    ∃ t, createTime s su d du tu = some t ∧
      |t * (siTime tu : α) - d * (siDistance du : α) / (s * (siSpeed su : α))|
        ≤ d * (siDistance du : α) / (s * (siSpeed su : α)) * (tol : α) := by
  refine ⟨_, createTime_def s su d du tu hs hd, ?_⟩
  have hsu : (0 : α) < (siSpeed su : α) := by exact_mod_cast siSpeed_pos su
  have hdu : (0 : α) < (siDistance du : α) := by exact_mod_cast siDistance_pos du
  have e : d / s * (timeK su du tu : α) * (siTime tu : α) - d * (siDistance du : α) / (s * (siSpeed su : α))
      = d * (siDistance du : α) / (s * (siSpeed su : α))
        * ((timeK su du tu * siTime tu * siSpeed su / siDistance du - 1 : ℚ) : α) := by
    push_cast; field_simp
  rw [e, abs_mul, abs_of_pos (by positivity)]
  apply mul_le_mul_of_nonneg_left _ (by positivity)
  rw [← Rat.cast_abs]
  exact_mod_cast timeK_physical_table su du tu

theorem createSpeed_eq (t : α) (tu : TimeUnit) (d : α) (du : DistanceUnit) (su : SpeedUnit) :
    createSpeed t tu d du su =
      if t ≤ 0 then none
      else some (d * ((DistanceUnit.factor du baseDistanceUnit).ratio : α)
                  / (t * ((TimeUnit.factor tu baseTimeUnit).ratio : α))
                  * ((SpeedUnit.factor baseSpeedUnit su).ratio : α)) := by
  have ht := ratio_cast_pos (α := α) _ (time_wf tu baseTimeUnit)
  simp only [createSpeed, DistanceUnit.convert, SpeedUnit.convert, TimeUnit.convert, Factor.apply_eq,
    zero_eq, mul_pos_nonpos_iff ht]

/-- C09: `create_speed` rejects a non-positive time and otherwise is distance over time -/
theorem createSpeed_none_iff (t : α) (tu : TimeUnit) (d : α) (du : DistanceUnit) (su : SpeedUnit) :
    createSpeed t tu d du su = none ↔ t ≤ 0 := by
  rw [createSpeed_eq]; split <;> simp_all

theorem createSpeed_def (t : α) (tu : TimeUnit) (d : α) (du : DistanceUnit) (su : SpeedUnit)
    (ht : 0 < t) :
    createSpeed t tu d du su = some (d / t * (speedK tu du su : α)) := by
  rw [createSpeed_eq, if_neg (not_le.mpr ht)]
  have htr := (ratio_cast_pos (α := α) _ (time_wf tu baseTimeUnit)).ne'
  simp only [speedK]
  push_cast; congr 1; field_simp

theorem createSpeed_physical (t : α) (tu : TimeUnit) (d : α) (du : DistanceUnit) (su : SpeedUnit)
    (ht : 0 < t) (hd : 0 ≤ d) :
    ∃ v, createSpeed t tu d du su = some v ∧
      |v * (siSpeed su : α) - d * (siDistance du : α) / (t * (siTime tu : α))|
        ≤ d * (siDistance du : α) / (t * (siTime tu : α)) * (tol : α) := by
  refine ⟨_, createSpeed_def t tu d du su ht, ?_⟩
  have htu : (0 : α) < (siTime tu : α) := by exact_mod_cast siTime_pos tu
  have hdu : (0 : α) < (siDistance du : α) := by exact_mod_cast siDistance_pos du
  have e : d / t * (speedK tu du su : α) * (siSpeed su : α) - d * (siDistance du : α) / (t * (siTime tu : α))
      = d * (siDistance du : α) / (t * (siTime tu : α))
        * ((speedK tu du su * siSpeed su * siTime tu / siDistance du - 1 : ℚ) : α) := by
    push_cast; field_simp
  rw [e, abs_mul, abs_of_nonneg (by positivity)]
  apply mul_le_mul_of_nonneg_left _ (by positivity)
  rw [← Rat.cast_abs]
  exact_mod_cast speedK_physical_table tu du su

/-- C09: energy is rate times distance, distance expressed in the rate's own distance unit, and the
result is tagged with the rate's own energy unit -/
theorem createEnergy_def (r : α) (ru : EnergyRateUnit) (d : α) (du : DistanceUnit) :
    createEnergy r ru d du = (r * du.convert ru.associatedDistanceUnit d, ru.associatedEnergyUnit) := rfl

end

/-! ### The rest of `speed_unit.rs`: unit from a (distance, time) pair, from a name, the highway speed

`SpeedUnit::from((DistanceUnit, TimeUnit))` is `todo!()` for 17 of its 20 pairs; nothing in the
workspace calls it.  The table is regenerated from the source, so the statements below are re-decided
on every run: an arm that is filled in must name the unit of that pair. -/

/-- a pair answers with a unit exactly when a speed unit with these associated units exists, and then
it is that unit; every other pair is the `todo!()` panic -/
theorem speed_unit_from_pair_iff : ∀ (d : DistanceUnit) (t : TimeUnit) (u : SpeedUnit),
    SpeedUnit.fromPair d t = .unit u ↔ (u.associatedDistanceUnit = d ∧ u.associatedTimeUnit = t) := by
  decide +kernel

theorem speed_unit_from_pair_panics_iff : ∀ (d : DistanceUnit) (t : TimeUnit),
    SpeedUnit.fromPair d t = .panic ↔
      ∀ u : SpeedUnit, ¬ (u.associatedDistanceUnit = d ∧ u.associatedTimeUnit = t) := by
  decide +kernel

/-- the unit made from a pair turns distance over time in those units into a speed without any
factor: physically `1 d / 1 t` -/
theorem speed_unit_from_pair_physical : ∀ (d : DistanceUnit) (t : TimeUnit) (u : SpeedUnit),
    SpeedUnit.fromPair d t = .unit u → siSpeed u = siDistance d / siTime t := by
  decide +kernel

/-! ### `from_str`: the text, read as the body of a JSON string, must be a serde name

`string_deserialize` puts the text between quotes and hands it to serde_json, so escape sequences are
decoded before the name is matched (`"mile\\u0073"` is miles).  `jsonUnescape` models that reader; the
theorems say: a text is accepted, as `u`, exactly when it stands for `u`'s serde name — and for a text
without backslash that means: when it IS the name (`Display` prints it). -/

/-- reading a character that is no backslash: refused if it is a raw quote or control character, else kept -/
theorem jsonUnescape_cons_plain (c : Char) (rest : List Char) (hc : c ≠ '\\') :
    jsonUnescape (c :: rest) =
      if c == '"' || c.toNat < 32 then none else (jsonUnescape rest).map (c :: ·) := by
  conv_lhs => unfold jsonUnescape
  split
  · rename_i heq; cases heq
  · rename_i heq; simp at heq; exact absurd heq.1 hc
  · rename_i heq
    simp at heq
    obtain ⟨rfl, rfl⟩ := heq
    rfl

/-- a text without quote, backslash and control character stands for itself -/
theorem jsonUnescape_plain (l : List Char)
    (h : ∀ c ∈ l, c ≠ '"' ∧ c ≠ '\\' ∧ 32 ≤ c.toNat) : jsonUnescape l = some l := by
  induction l with
  | nil => simp [jsonUnescape]
  | cons c rest ih =>
    obtain ⟨h1, h2, h3⟩ := h c (by simp)
    have ih' := ih (fun d hd => h d (by simp [hd]))
    rw [jsonUnescape_cons_plain c rest h2, ih']
    have : ¬ c.toNat < 32 := by omega
    simp [h1, this]

/-- a text that holds a raw quote or a raw control character is no JSON string body: refused -/
theorem jsonUnescape_refuses_raw (pre : List Char) (c : Char) (post : List Char)
    (hpre : ∀ d ∈ pre, d ≠ '"' ∧ d ≠ '\\' ∧ 32 ≤ d.toNat) (hc : c = '"' ∨ (c.toNat < 32)) (hb : c ≠ '\\') :
    jsonUnescape (pre ++ c :: post) = none := by
  induction pre with
  | nil =>
    rw [List.nil_append, jsonUnescape_cons_plain c post hb]
    rcases hc with rfl | hc
    · simp
    · simp [hc]
  | cons d pre ih =>
    obtain ⟨h1, h2, h3⟩ := hpre d (by simp)
    have ih' := ih (fun e he => hpre e (by simp [he]))
    rw [List.cons_append, jsonUnescape_cons_plain d _ h2, ih']
    simp

/-- the first element of a list that fails a test -/
theorem exists_first_failing (P : Char → Prop) (l : List Char) (h : ¬ ∀ c ∈ l, P c) :
    ∃ pre c post, l = pre ++ c :: post ∧ (∀ d ∈ pre, P d) ∧ ¬ P c := by
  induction l with
  | nil => exact absurd (by simp) h
  | cons d l ih =>
    by_cases hd : P d
    · have h' : ¬ ∀ c ∈ l, P c := by
        intro hall; apply h; intro c hc
        rcases List.mem_cons.mp hc with rfl | hc
        · exact hd
        · exact hall c hc
      obtain ⟨pre, c, post, e, hpre, hc⟩ := ih h'
      refine ⟨d :: pre, c, post, by simp [e], ?_, hc⟩
      intro x hx
      rcases List.mem_cons.mp hx with rfl | hx
      · exact hd
      · exact hpre x hx
    · exact ⟨[], d, l, rfl, by simp, hd⟩

/-- the family-independent core: with a name table that is read back exactly, `from_str` accepts a text as
`u` exactly when the text stands for `u`'s name -/
theorem unitFromStr_iff {β : Type} (ofName? : String → Option β) (name : β → String)
    (hn : ∀ t u, ofName? t = some u ↔ t = name u) (s : String) (u : β) :
    unitFromStr ofName? s = some u ↔ jsonUnescape s.toList = some (name u).toList := by
  unfold unitFromStr
  cases h : jsonUnescape s.toList with
  | none => simp
  | some cs =>
    simp only [hn, Option.some.injEq]
    constructor
    · intro h'; rw [← h']; simp
    · intro h'; rw [h']; simp

/-- for a text without a backslash: accepted as `u` exactly when it IS `u`'s name -/
theorem unitFromStr_plain_iff {β : Type} (ofName? : String → Option β) (name : β → String)
    (hn : ∀ t u, ofName? t = some u ↔ t = name u)
    (hplain : ∀ u, ∀ c ∈ (name u).toList, c ≠ '"' ∧ c ≠ '\\' ∧ 32 ≤ c.toNat)
    (s : String) (hs : '\\' ∉ s.toList) (u : β) :
    unitFromStr ofName? s = some u ↔ s = name u := by
  rw [unitFromStr_iff ofName? name hn]
  constructor
  · intro h
    -- no backslash: either the text is plain (and stands for itself) or it is refused
    by_cases hp : ∀ c ∈ s.toList, c ≠ '"' ∧ c ≠ '\\' ∧ 32 ≤ c.toNat
    · rw [jsonUnescape_plain _ hp] at h
      have : s.toList = (name u).toList := by simpa using h
      exact String.toList_inj.mp this
    · exfalso
      -- the first offending character is a raw quote or control character
      have := exists_first_failing (fun c => c ≠ '"' ∧ c ≠ '\\' ∧ 32 ≤ c.toNat) s.toList hp
      obtain ⟨pre, c, post, e, hpre, hc⟩ := this
      have hcb : c ≠ '\\' := fun hb => hs (by rw [e, hb]; simp)
      have hc' : c = '"' ∨ c.toNat < 32 := by
        by_cases hq : c = '"'
        · exact Or.inl hq
        · by_cases hl : c.toNat < 32
          · exact Or.inr hl
          · exact absurd ⟨hq, hcb, by omega⟩ hc
      rw [e, jsonUnescape_refuses_raw pre c post hpre hc' hcb] at h
      cases h
  · rintro rfl
    exact jsonUnescape_plain _ (hplain u)

/-- the name table of `SpeedUnit` is read back exactly -/
theorem speed_unit_of_name_iff (t : String) (u : SpeedUnit) : SpeedUnit.ofName? t = some u ↔ t = u.name := by
  constructor
  · intro h
    simp only [SpeedUnit.ofName?] at h
    have := List.find?_some h
    exact (beq_iff_eq.mp this).symm
  · rintro rfl
    cases u <;> decide

/-- `SpeedUnit::from_str` accepts a text, as `u`, exactly when the text — read as the body of a JSON string, escape
sequences decoded — is `u`'s serde name -/
theorem speed_unit_from_str_iff (s : String) (u : SpeedUnit) :
    SpeedUnit.fromStr s = some u ↔ jsonUnescape s.toList = some u.name.toList := by
  unfold SpeedUnit.fromStr
  exact unitFromStr_iff _ _ speed_unit_of_name_iff s u

/-- … and for a text without a backslash: exactly when it is the name `Display` prints -/
theorem speed_unit_from_str_plain_iff (s : String) (hs : '\\' ∉ s.toList) (u : SpeedUnit) :
    SpeedUnit.fromStr s = some u ↔ s = u.name := by
  unfold SpeedUnit.fromStr
  exact unitFromStr_plain_iff _ _ speed_unit_of_name_iff (by intro u; cases u <;> decide) s hs u

/-- the name table of `DistanceUnit` is read back exactly -/
theorem distance_unit_of_name_iff (t : String) (u : DistanceUnit) : DistanceUnit.ofName? t = some u ↔ t = u.name := by
  constructor
  · intro h
    simp only [DistanceUnit.ofName?] at h
    have := List.find?_some h
    exact (beq_iff_eq.mp this).symm
  · rintro rfl
    cases u <;> decide

/-- `DistanceUnit::from_str` accepts a text, as `u`, exactly when the text — read as the body of a JSON string, escape
sequences decoded — is `u`'s serde name -/
theorem distance_unit_from_str_iff (s : String) (u : DistanceUnit) :
    unitFromStr DistanceUnit.ofName? s = some u ↔ jsonUnescape s.toList = some u.name.toList := by
  exact unitFromStr_iff _ _ distance_unit_of_name_iff s u

/-- … and for a text without a backslash: exactly when it is the name `Display` prints -/
theorem distance_unit_from_str_plain_iff (s : String) (hs : '\\' ∉ s.toList) (u : DistanceUnit) :
    unitFromStr DistanceUnit.ofName? s = some u ↔ s = u.name := by
  exact unitFromStr_plain_iff _ _ distance_unit_of_name_iff (by intro u; cases u <;> decide) s hs u

/-- the name table of `TimeUnit` is read back exactly -/
theorem time_unit_of_name_iff (t : String) (u : TimeUnit) : TimeUnit.ofName? t = some u ↔ t = u.name := by
  constructor
  · intro h
    simp only [TimeUnit.ofName?] at h
    have := List.find?_some h
    exact (beq_iff_eq.mp this).symm
  · rintro rfl
    cases u <;> decide

/-- `TimeUnit::from_str` accepts a text, as `u`, exactly when the text — read as the body of a JSON string, escape
sequences decoded — is `u`'s serde name -/
theorem time_unit_from_str_iff (s : String) (u : TimeUnit) :
    unitFromStr TimeUnit.ofName? s = some u ↔ jsonUnescape s.toList = some u.name.toList := by
  exact unitFromStr_iff _ _ time_unit_of_name_iff s u

/-- … and for a text without a backslash: exactly when it is the name `Display` prints -/
theorem time_unit_from_str_plain_iff (s : String) (hs : '\\' ∉ s.toList) (u : TimeUnit) :
    unitFromStr TimeUnit.ofName? s = some u ↔ s = u.name := by
  exact unitFromStr_plain_iff _ _ time_unit_of_name_iff (by intro u; cases u <;> decide) s hs u

/-- the name table of `EnergyUnit` is read back exactly -/
theorem energy_unit_of_name_iff (t : String) (u : EnergyUnit) : EnergyUnit.ofName? t = some u ↔ t = u.name := by
  constructor
  · intro h
    simp only [EnergyUnit.ofName?] at h
    have := List.find?_some h
    exact (beq_iff_eq.mp this).symm
  · rintro rfl
    cases u <;> decide

/-- `EnergyUnit::from_str` accepts a text, as `u`, exactly when the text — read as the body of a JSON string, escape
sequences decoded — is `u`'s serde name -/
theorem energy_unit_from_str_iff (s : String) (u : EnergyUnit) :
    unitFromStr EnergyUnit.ofName? s = some u ↔ jsonUnescape s.toList = some u.name.toList := by
  exact unitFromStr_iff _ _ energy_unit_of_name_iff s u

/-- … and for a text without a backslash: exactly when it is the name `Display` prints -/
theorem energy_unit_from_str_plain_iff (s : String) (hs : '\\' ∉ s.toList) (u : EnergyUnit) :
    unitFromStr EnergyUnit.ofName? s = some u ↔ s = u.name := by
  exact unitFromStr_plain_iff _ _ energy_unit_of_name_iff (by intro u; cases u <;> decide) s hs u

/-- the name table of `EnergyRateUnit` is read back exactly -/
theorem energy_rate_unit_of_name_iff (t : String) (u : EnergyRateUnit) : EnergyRateUnit.ofName? t = some u ↔ t = u.name := by
  constructor
  · intro h
    simp only [EnergyRateUnit.ofName?] at h
    have := List.find?_some h
    exact (beq_iff_eq.mp this).symm
  · rintro rfl
    cases u <;> decide

/-- `EnergyRateUnit::from_str` accepts a text, as `u`, exactly when the text — read as the body of a JSON string, escape
sequences decoded — is `u`'s serde name -/
theorem energy_rate_unit_from_str_iff (s : String) (u : EnergyRateUnit) :
    unitFromStr EnergyRateUnit.ofName? s = some u ↔ jsonUnescape s.toList = some u.name.toList := by
  exact unitFromStr_iff _ _ energy_rate_unit_of_name_iff s u

/-- … and for a text without a backslash: exactly when it is the name `Display` prints -/
theorem energy_rate_unit_from_str_plain_iff (s : String) (hs : '\\' ∉ s.toList) (u : EnergyRateUnit) :
    unitFromStr EnergyRateUnit.ofName? s = some u ↔ s = u.name := by
  exact unitFromStr_plain_iff _ _ energy_rate_unit_of_name_iff (by intro u; cases u <;> decide) s hs u

/-- the name table of `GradeUnit` is read back exactly -/
theorem grade_unit_of_name_iff (t : String) (u : GradeUnit) : GradeUnit.ofName? t = some u ↔ t = u.name := by
  constructor
  · intro h
    simp only [GradeUnit.ofName?] at h
    have := List.find?_some h
    exact (beq_iff_eq.mp this).symm
  · rintro rfl
    cases u <;> decide

/-- `GradeUnit::from_str` accepts a text, as `u`, exactly when the text — read as the body of a JSON string, escape
sequences decoded — is `u`'s serde name -/
theorem grade_unit_from_str_iff (s : String) (u : GradeUnit) :
    unitFromStr GradeUnit.ofName? s = some u ↔ jsonUnescape s.toList = some u.name.toList := by
  exact unitFromStr_iff _ _ grade_unit_of_name_iff s u

/-- … and for a text without a backslash: exactly when it is the name `Display` prints -/
theorem grade_unit_from_str_plain_iff (s : String) (hs : '\\' ∉ s.toList) (u : GradeUnit) :
    unitFromStr GradeUnit.ofName? s = some u ↔ s = u.name := by
  exact unitFromStr_plain_iff _ _ grade_unit_of_name_iff (by intro u; cases u <;> decide) s hs u

/-- the name table of `WeightUnit` is read back exactly -/
theorem weight_unit_of_name_iff (t : String) (u : WeightUnit) : WeightUnit.ofName? t = some u ↔ t = u.name := by
  constructor
  · intro h
    simp only [WeightUnit.ofName?] at h
    have := List.find?_some h
    exact (beq_iff_eq.mp this).symm
  · rintro rfl
    cases u <;> decide

/-- `WeightUnit::from_str` accepts a text, as `u`, exactly when the text — read as the body of a JSON string, escape
sequences decoded — is `u`'s serde name -/
theorem weight_unit_from_str_iff (s : String) (u : WeightUnit) :
    unitFromStr WeightUnit.ofName? s = some u ↔ jsonUnescape s.toList = some u.name.toList := by
  exact unitFromStr_iff _ _ weight_unit_of_name_iff s u

/-- … and for a text without a backslash: exactly when it is the name `Display` prints -/
theorem weight_unit_from_str_plain_iff (s : String) (hs : '\\' ∉ s.toList) (u : WeightUnit) :
    unitFromStr WeightUnit.ofName? s = some u ↔ s = u.name := by
  exact unitFromStr_plain_iff _ _ weight_unit_of_name_iff (by intro u; cases u <;> decide) s hs u

-- an escaped spelling stands for the name (the code: `"mile\\u0073".parse::<DistanceUnit>() == Ok(Miles)`), a raw
-- tab, a trailing backslash or an unknown escape make the text no JSON string body
example : jsonUnescape ['m', 'i', 'l', 'e', '\\', 'u', '0', '0', '7', '3'] = some ['m', 'i', 'l', 'e', 's'] := by decide
example : jsonUnescape ['\\', 'u', '0', '0', '6', 'D', 'i', 'l', 'e', 's'] = some ['m', 'i', 'l', 'e', 's'] := by decide
example : jsonUnescape ['m', 'i', 'l', 'e', 's', '\\'] = none := by decide
example : jsonUnescape ['m', 'i', 'l', '\t', 'e', 's'] = none := by decide
example : jsonUnescape ['m', 'i', 'l', '\\', 'x', 'e', 's'] = none := by decide
example : jsonUnescape ['m', 'i', 'l', '\\', '/', 'e', 's'] = some ['m', 'i', 'l', '/', 'e', 's'] := by decide
example : jsonUnescape ['\\', 'u', 'D', '8', '3', 'D', '\\', 'u', 'D', 'E', '0', '0'] = none := by decide

/-- the "soft maximum" is one and the same physical speed in every unit (75 miles per hour), within
the property's 0.1 percent, and converting it between units lands on the other unit's own value -/
theorem max_highway_speed_physical : ∀ u : SpeedUnit,
    |(SpeedUnit.maxHighwaySpeed u : ℚ) * siSpeed u / (75 * siSpeed .milesPerHour) - 1| ≤ tol := by
  decide +kernel

theorem max_highway_speed_consistent : ∀ u v : SpeedUnit,
    |u.convert v (SpeedUnit.maxHighwaySpeed u : ℚ) / (SpeedUnit.maxHighwaySpeed v : ℚ) - 1| ≤ tol := by
  decide +kernel

/-! ### Non-vacuity: the hypotheses are met by concrete values and the constructors compute -/

example : ∃ d t u, SpeedUnit.fromPair d t = .unit u := ⟨.miles, .hours, _, rfl⟩
example : ∃ d t, SpeedUnit.fromPair d t = .panic := ⟨.feet, .minutes, rfl⟩
example : SpeedUnit.fromStr "kph" = none := by decide
example : (SpeedUnit.fromStr "meters_per_second").isSome = true := by decide

example : (createTime (60 : ℚ) .milesPerHour (30 : ℚ) .miles .minutes).isSome = true := by decide +kernel
example : createTime (0 : ℚ) .milesPerHour (30 : ℚ) .miles .minutes = none := by decide +kernel
example : createSpeed (0 : ℚ) .hours (1 : ℚ) .miles .milesPerHour = none := by decide +kernel
example : (createSpeed (2 : ℚ) .hours (1 : ℚ) .miles .milesPerHour).isSome = true := by decide +kernel
example : (DistanceUnit.miles.convert .meters (2 : ℚ)) ≠ 2 := by decide +kernel

end C09
end Compass

namespace Compass
namespace C09
open Src




/-! ### Generated function bodies

`tools/gen_fns.py` re-translates the body of the Rust function on every run into `Compass/Gen/FnsC09.lean`
(conventions in the header of the tool).  Each `gen_*_eq` theorem below says that the generated definition
*is* the hand-written model function the property theorems are about.  A source change to the function
changes the generated definition and the proof stops checking (a body the translator no longer recognises is
not emitted: the theorem no longer elaborates). -/

/-- `(d, s).into()` is resolved through the translated `From<(Distance, Speed)> for Time` -/
theorem gen_create_time_eq {α : Type} [Field α] [LinearOrder α] [IsStrictOrderedRing α] [Lit α] [LawfulLit α] (speed : α) (su : SpeedUnit) (distance : α) (du : DistanceUnit) (tu : TimeUnit) :
    Gen.create_time speed su distance du tu = createTime speed su distance du tu := rfl

theorem gen_create_speed_eq {α : Type} [Field α] [LinearOrder α] [IsStrictOrderedRing α] [Lit α] [LawfulLit α] (time : α) (tu : TimeUnit) (distance : α) (du : DistanceUnit) (su : SpeedUnit) :
    Gen.create_speed time tu distance du su = createSpeed time tu distance du su := rfl

end C09
end Compass
