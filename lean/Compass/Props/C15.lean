/-
C15 — the loaded network is exactly the one described by the edge/vertex files.

Model: `Compass.Model.Graph` (the `EdgeLoader` row callback folded over the decoded rows, the `Graph`
accessors, the order of evaluation and error kinds of `graph_from_files`, the lookups of the per-edge
table consumers) and `Compass.Model.GraphIO` (the `Vertex` decoder, `DefaultGraphBuilder::build`).

Domain of the property ("the listed network"): the documented input format, in which the id of an
edge / vertex is the number of its row and every endpoint is a listed vertex:
`RowIds es`, `VertexRowIds vs`, `EndpointsBelow es vs.length`.  The loader checks all three (and that
every endpoint is below the declared / scanned vertex count), so the top-level statement is proved for
EVERY input of the model without hypothesis (`loaded_network_is_listed`).  What the loader builds from
arbitrary rows is stated by the `…_general` theorems.

Adjacency order: `out_edges v` is the rows leaving `v` *in file order* (the container's `keys()` yields
insertion order in each of its representations); nothing bounds a vertex's degree.

MODELLED RATHER THAN VERIFIED (nothing below is a theorem about these; the differential run of
harness/src/c15.rs is the only evidence, on the inputs it generates):
* bytes to records: csv tokenising (quoting, BOM, CR / LF, blank lines, header names are not trimmed),
  gzip decoding (one or several members, streams cut short), line counting, text-to-number parsing.
  A file reaches the model as `CsvFile` = (can it be read to its end, text lines, is there a header
  row, the records and which of them do not decode).  In particular "gzip or plain" and "a gzip file
  cut short is a load error" are NOT Lean statements: `present = false` / `hasHeader = false` are
  flags the harness sets from the bytes it wrote (corpus W10–W18), and `unreadable_file_never_loads`
  / `empty_file_never_loads` say no more than what `readCsv` / `scanCount` do with those flags.
* per-edge tables: that the real readers and consumers address a table by LINE NUMBER = edge id is how
  the model defines them (`tableRow`, `tableGet`, mirrored from `table.get(edge_id.as_usize())`); the
  `lookup` and `table` case streams compare that with the real `get_speed`, `get_headings`,
  `get_grade` and `RoadClassFrontierModel::valid_frontier`.
* the adjacency container is the abstract insertion-ordered association list (equal to C11's
  specification: `adjacency_entry_is_container_spec`); that the five-representation Rust container
  refines it is C11's theorem, the composition is not formalised beyond that equality.
* allocation: a vertex count whose adjacency tables exceed the address space is a `DatasetError`
  (`graphFromFilesAlloc`, case stream `loadcap`); a smaller count that exceeds the memory the process
  can get is not modelled (the process may be killed).  The `InternalError` of the progress bar
  builder is not an outcome of the model: kdam only fails on a `bar_format`, and none is given.
* distances and coordinates are an abstract `α`: NaN, infinities, negative lengths are loaded as
  listed and nothing here says they are sensible.
-/
import Compass.Gen.Decisions
import Compass.Proofs.Num
import Compass.Model.Graph
import Compass.Proofs.Graph
import Compass.Proofs.GraphIO
import Compass.Proofs.Container

namespace Compass
namespace C15

open Graph

section
variable {α : Type}

/-! ### sizes, edges and vertices by position (true of every input) -/

/-- (holds by construction of `buildGraph`: `edges` is the row list) -/
theorem n_edges_eq (es : List (Edge α)) (vs : List (Vertex α)) (nV : Nat) :
    (buildGraph es vs nV).nEdges = es.length := rfl

/-- (holds by construction of `buildGraph`: `vertices` is the row list) -/
theorem n_vertices_eq (es : List (Edge α)) (vs : List (Vertex α)) (nV : Nat) :
    (buildGraph es vs nV).nVertices = vs.length := rfl

/-- `get_edge i` is row `i` of the edge file, whatever id that row carries (an unfolding of the model's
`getEdge` on `buildGraph`; it gains content only together with `RowIds`: `get_edge_by_id`) -/
theorem get_edge_general (es : List (Edge α)) (vs : List (Vertex α)) (nV i : Nat) :
    (buildGraph es vs nV).getEdge i =
      match es[i]? with
      | some e => .ok e
      | none => .error (.edgeNotFound i) := by
  simp only [Graph.getEdge, buildGraph]
  cases es[i]? <;> rfl

/-- `get_vertex i` is row `i` of the vertex file, whatever id that row carries (an unfolding of the
model's `getVertex` on `buildGraph`) -/
theorem get_vertex_general (es : List (Edge α)) (vs : List (Vertex α)) (nV i : Nat) :
    (buildGraph es vs nV).getVertex i =
      match vs[i]? with
      | some v => .ok v
      | none => .error (.vertexNotFound i) := by
  simp only [Graph.getVertex, buildGraph]
  cases vs[i]? <;> rfl

/-- the adjacency tables have the declared (or scanned) vertex count, not the vertex file's -/
theorem adj_length (es : List (Edge α)) (vs : List (Vertex α)) (nV : Nat) :
    (buildGraph es vs nV).adj.length = nV ∧ (buildGraph es vs nV).rev.length = nV := by
  simp [buildGraph, loadEdges, foldl_step_adj_length, foldl_step_rev_length, EdgeLoad.init]

/-- every input: the forward entry of `v` is the callback's fold over the rows leaving `v`; a vertex at
or beyond the declared count has no entry, and the rows leaving it are silently ignored -/
theorem out_edges_general (es : List (Edge α)) (vs : List (Vertex α)) (nV v : Nat) :
    (buildGraph es vs nV).outEdges v = if v < nV then adjKeys (outFold v es []) else [] := by
  simp only [Graph.outEdges, buildGraph, loadEdges, foldl_step_adj_get, EdgeLoad.init]
  by_cases h : v < nV
  · simp [h]
  · simp [h]

theorem in_edges_general (es : List (Edge α)) (vs : List (Vertex α)) (nV v : Nat) :
    (buildGraph es vs nV).inEdges v = if v < nV then adjKeys (inFold v es []) else [] := by
  simp only [Graph.inEdges, buildGraph, loadEdges, foldl_step_rev_get, EdgeLoad.init]
  by_cases h : v < nV
  · simp [h]
  · simp [h]

/-! ### the listed network (ids are row numbers) -/

/-- every listed edge is retrievable by its id, with its source, destination and length -/
theorem get_edge_by_id (es : List (Edge α)) (vs : List (Vertex α)) (nV : Nat) (h : RowIds es)
    (e : Edge α) (he : e ∈ es) : (buildGraph es vs nV).getEdge e.edgeId = .ok e := by
  obtain ⟨hi, hx⟩ := (h.mem_iff e).1 he
  rw [get_edge_general, List.getElem?_eq_getElem hi, hx]

theorem get_edge_row (es : List (Edge α)) (vs : List (Vertex α)) (nV : Nat) (h : RowIds es)
    (i : Nat) (hi : i < es.length) :
    (buildGraph es vs nV).getEdge i = .ok es[i] ∧ es[i].edgeId = i := by
  refine ⟨?_, h i hi⟩
  rw [get_edge_general, List.getElem?_eq_getElem hi]

/-- an id that is not listed is reported, not invented -/
theorem get_edge_not_listed (es : List (Edge α)) (vs : List (Vertex α)) (nV i : Nat) (hi : es.length ≤ i) :
    (buildGraph es vs nV).getEdge i = .error (.edgeNotFound i) := by
  rw [get_edge_general, List.getElem?_eq_none hi]

theorem src_dst_vertex_id (es : List (Edge α)) (vs : List (Vertex α)) (nV : Nat) (h : RowIds es)
    (e : Edge α) (he : e ∈ es) :
    (buildGraph es vs nV).srcVertexId e.edgeId = .ok e.src ∧
    (buildGraph es vs nV).dstVertexId e.edgeId = .ok e.dst ∧
    (buildGraph es vs nV).incidentVertex e.edgeId .forward = .ok e.dst ∧
    (buildGraph es vs nV).incidentVertex e.edgeId .reverse = .ok e.src := by
  simp [Graph.srcVertexId, Graph.dstVertexId, Graph.incidentVertex, get_edge_by_id es vs nV h e he]

/-- the outgoing edges of `v` are precisely the listed edges that leave it, in file order, however
many there are; `nV` may be any count that covers the endpoints (declared, or scanned and therefore
possibly larger than the number of vertex rows) -/
theorem out_edges_eq (es : List (Edge α)) (vs : List (Vertex α)) (nV : Nat) (h : RowIds es)
    (hb : EndpointsBelow es nV) (v : Nat) :
    (buildGraph es vs nV).outEdges v = (es.filter (fun e => e.src = v)).map Edge.edgeId := by
  rw [out_edges_general]
  by_cases hv : v < nV
  · rw [if_pos hv, outFold_of_nodup v es [] (by simpa [adjKeys] using h.nodup_filter _)]
    simp [adjKeys]
  · rw [if_neg hv]
    symm
    rw [List.map_eq_nil_iff, List.filter_eq_nil_iff]
    intro e he
    have := (hb e he).1
    simp only [decide_eq_true_eq]
    omega

/-- the incoming edges of `v` are precisely the listed edges that enter it, in file order -/
theorem in_edges_eq (es : List (Edge α)) (vs : List (Vertex α)) (nV : Nat) (h : RowIds es)
    (hb : EndpointsBelow es nV) (v : Nat) :
    (buildGraph es vs nV).inEdges v = (es.filter (fun e => e.dst = v)).map Edge.edgeId := by
  rw [in_edges_general]
  by_cases hv : v < nV
  · rw [if_pos hv, inFold_of_nodup v es [] (by simpa [adjKeys] using h.nodup_filter _)]
    simp [adjKeys]
  · rw [if_neg hv]
    symm
    rw [List.map_eq_nil_iff, List.filter_eq_nil_iff]
    intro e he
    have := (hb e he).2
    simp only [decide_eq_true_eq]
    omega

theorem incident_edges_eq (es : List (Edge α)) (vs : List (Vertex α)) (nV : Nat) (h : RowIds es)
    (hb : EndpointsBelow es nV) (v : Nat) :
    (buildGraph es vs nV).incidentEdges v .forward = (es.filter (fun e => e.src = v)).map Edge.edgeId ∧
    (buildGraph es vs nV).incidentEdges v .reverse = (es.filter (fun e => e.dst = v)).map Edge.edgeId :=
  ⟨out_edges_eq es vs nV h hb v, in_edges_eq es vs nV h hb v⟩

theorem mem_out_edges_iff (es : List (Edge α)) (vs : List (Vertex α)) (nV : Nat) (h : RowIds es)
    (hb : EndpointsBelow es nV) (v x : Nat) :
    x ∈ (buildGraph es vs nV).outEdges v ↔ ∃ hx : x < es.length, es[x].src = v := by
  rw [out_edges_eq es vs nV h hb]
  simp only [List.mem_map, List.mem_filter, decide_eq_true_eq]
  constructor
  · rintro ⟨e, ⟨he, hs⟩, rfl⟩
    obtain ⟨hi, hx⟩ := (h.mem_iff e).1 he
    exact ⟨hi, by rw [hx]; exact hs⟩
  · rintro ⟨hx, hs⟩
    exact ⟨es[x], ⟨List.getElem_mem hx, hs⟩, h x hx⟩

theorem mem_in_edges_iff (es : List (Edge α)) (vs : List (Vertex α)) (nV : Nat) (h : RowIds es)
    (hb : EndpointsBelow es nV) (v x : Nat) :
    x ∈ (buildGraph es vs nV).inEdges v ↔ ∃ hx : x < es.length, es[x].dst = v := by
  rw [in_edges_eq es vs nV h hb]
  simp only [List.mem_map, List.mem_filter, decide_eq_true_eq]
  constructor
  · rintro ⟨e, ⟨he, hs⟩, rfl⟩
    obtain ⟨hi, hx⟩ := (h.mem_iff e).1 he
    exact ⟨hi, by rw [hx]; exact hs⟩
  · rintro ⟨hx, hs⟩
    exact ⟨es[x], ⟨List.getElem_mem hx, hs⟩, h x hx⟩

/-- no edge is listed twice at a vertex -/
theorem out_in_edges_nodup (es : List (Edge α)) (vs : List (Vertex α)) (nV : Nat) (h : RowIds es)
    (hb : EndpointsBelow es nV) (v : Nat) :
    ((buildGraph es vs nV).outEdges v).Nodup ∧ ((buildGraph es vs nV).inEdges v).Nodup := by
  rw [out_edges_eq es vs nV h hb, in_edges_eq es vs nV h hb]
  exact ⟨h.nodup_filter _, h.nodup_filter _⟩

/-- "however many there are": the out- and in-degree are the number of listed rows, without bound -/
theorem degree_eq_count (es : List (Edge α)) (vs : List (Vertex α)) (nV : Nat) (h : RowIds es)
    (hb : EndpointsBelow es nV) (v : Nat) :
    ((buildGraph es vs nV).outEdges v).length = es.countP (fun e => e.src = v) ∧
    ((buildGraph es vs nV).inEdges v).length = es.countP (fun e => e.dst = v) := by
  rw [out_edges_eq es vs nV h hb, in_edges_eq es vs nV h hb]
  simp [List.countP_eq_length_filter]

/-- forward and reverse adjacency describe the same edge set: membership … -/
theorem fwd_rev_same_edge_set (es : List (Edge α)) (vs : List (Vertex α)) (nV : Nat) (h : RowIds es)
    (hb : EndpointsBelow es nV) (x : Nat) :
    (∃ v, x ∈ (buildGraph es vs nV).outEdges v) ↔ (∃ w, x ∈ (buildGraph es vs nV).inEdges w) := by
  simp only [mem_out_edges_iff es vs nV h hb, mem_in_edges_iff es vs nV h hb]
  constructor
  · rintro ⟨_, hx, _⟩
    exact ⟨_, hx, rfl⟩
  · rintro ⟨_, hx, _⟩
    exact ⟨_, hx, rfl⟩

/-- … each listed edge is an out-edge of its source and an in-edge of its destination, and of no
other vertex … -/
theorem edge_at_its_endpoints (es : List (Edge α)) (vs : List (Vertex α)) (nV : Nat) (h : RowIds es)
    (hb : EndpointsBelow es nV) (x : Nat) (hx : x < es.length) (v : Nat) :
    (x ∈ (buildGraph es vs nV).outEdges v ↔ v = es[x].src) ∧
    (x ∈ (buildGraph es vs nV).inEdges v ↔ v = es[x].dst) := by
  rw [mem_out_edges_iff es vs nV h hb, mem_in_edges_iff es vs nV h hb]
  exact ⟨⟨fun ⟨_, e⟩ => e.symm, fun e => ⟨hx, e.symm⟩⟩, ⟨fun ⟨_, e⟩ => e.symm, fun e => ⟨hx, e.symm⟩⟩⟩

/-- … and as multisets: all out-edges, all in-edges and all edge ids are permutations of each other -/
theorem all_out_edges_perm (es : List (Edge α)) (vs : List (Vertex α)) (nV : Nat) (h : RowIds es)
    (hb : EndpointsBelow es nV) :
    ((List.range nV).flatMap (buildGraph es vs nV).outEdges).Perm (List.range es.length) := by
  have e1 : (List.range nV).flatMap (buildGraph es vs nV).outEdges =
      ((List.range nV).flatMap (fun v => es.filter (fun e => decide (e.src = v)))).map Edge.edgeId := by
    rw [List.map_flatMap]
    congr 1
    funext v
    exact out_edges_eq es vs nV h hb v
  rw [e1, ← h.map_eq_range]
  exact (flatMap_filter_perm (fun e => e.src) es nV (fun e he => (hb e he).1)).map _

theorem all_in_edges_perm (es : List (Edge α)) (vs : List (Vertex α)) (nV : Nat) (h : RowIds es)
    (hb : EndpointsBelow es nV) :
    ((List.range nV).flatMap (buildGraph es vs nV).inEdges).Perm (List.range es.length) := by
  have e1 : (List.range nV).flatMap (buildGraph es vs nV).inEdges =
      ((List.range nV).flatMap (fun v => es.filter (fun e => decide (e.dst = v)))).map Edge.edgeId := by
    rw [List.map_flatMap]
    congr 1
    funext v
    exact in_edges_eq es vs nV h hb v
  rw [e1, ← h.map_eq_range]
  exact (flatMap_filter_perm (fun e => e.dst) es nV (fun e he => (hb e he).2)).map _

theorem all_out_in_edges_perm (es : List (Edge α)) (vs : List (Vertex α)) (nV : Nat) (h : RowIds es)
    (hb : EndpointsBelow es nV) :
    ((List.range nV).flatMap (buildGraph es vs nV).outEdges).Perm
      ((List.range nV).flatMap (buildGraph es vs nV).inEdges) :=
  (all_out_edges_perm es vs nV h hb).trans (all_in_edges_perm es vs nV h hb).symm

/-- each vertex has the listed coordinates (vertex ids are row numbers) -/
theorem get_vertex_by_id (es : List (Edge α)) (vs : List (Vertex α)) (nV : Nat)
    (hv : VertexRowIds vs) (i : Nat) (hi : i < vs.length) :
    (buildGraph es vs nV).getVertex i = .ok vs[i] ∧ vs[i].vertexId = i := by
  refine ⟨?_, hv i hi⟩
  rw [get_vertex_general, List.getElem?_eq_getElem hi]

/-- the triplet of a listed edge is (listed source vertex, the edge, listed destination vertex) -/
theorem edge_triplet_eq (es : List (Edge α)) (vs : List (Vertex α)) (nV : Nat) (h : RowIds es)
    (hb : EndpointsBelow es vs.length) (e : Edge α) (he : e ∈ es) :
    (buildGraph es vs nV).edgeTriplet e.edgeId =
      .ok (vs[e.src]'(hb e he).1, e, vs[e.dst]'(hb e he).2) := by
  simp only [Graph.edgeTriplet, get_edge_by_id es vs nV h e he, get_vertex_general,
    List.getElem?_eq_getElem (hb e he).1, List.getElem?_eq_getElem (hb e he).2]

theorem tripletIdsGo_listed (es : List (Edge α)) (vs : List (Vertex α)) (nV : Nat) (h : RowIds es)
    (v : Nat) (d : Direction) (l : List (Edge α)) (hl : ∀ e ∈ l, e ∈ es) :
    Graph.tripletIdsGo (buildGraph es vs nV) v d (l.map Edge.edgeId) =
      .ok (l.map (fun e => (v, e.edgeId, match d with | .forward => e.dst | .reverse => e.src))) := by
  induction l with
  | nil => rfl
  | cons e l ih =>
    have he := src_dst_vertex_id es vs nV h e (hl e (by simp))
    have ih' := ih (fun x hx => hl x (by simp [hx]))
    cases d with
    | forward => simp only [List.map_cons, Graph.tripletIdsGo, he.2.2.1, ih']
    | reverse => simp only [List.map_cons, Graph.tripletIdsGo, he.2.2.2, ih']

/-- `incident_triplet_ids`: for each listed edge at `v` in the direction of travel, (v, edge, far end) -/
theorem incident_triplet_ids_eq (es : List (Edge α)) (vs : List (Vertex α)) (nV : Nat) (h : RowIds es)
    (hb : EndpointsBelow es nV) (v : Nat) :
    (buildGraph es vs nV).incidentTripletIds v .forward =
      .ok ((es.filter (fun e => e.src = v)).map (fun e => (v, e.edgeId, e.dst))) ∧
    (buildGraph es vs nV).incidentTripletIds v .reverse =
      .ok ((es.filter (fun e => e.dst = v)).map (fun e => (v, e.edgeId, e.src))) := by
  constructor
  · simp only [Graph.incidentTripletIds, Graph.incidentEdges, out_edges_eq es vs nV h hb]
    exact tripletIdsGo_listed es vs nV h v .forward _ (fun e he => (List.mem_filter.1 he).1)
  · simp only [Graph.incidentTripletIds, Graph.incidentEdges, in_edges_eq es vs nV h hb]
    exact tripletIdsGo_listed es vs nV h v .reverse _ (fun e he => (List.mem_filter.1 he).1)

/-! ### the file layer: counts explicit or scanned, validation, error kinds -/

theorem decodeRows_ok {ρ : Type} (l : List ρ) : decodeRows (l.map Row.ok) = .ok l := by
  induction l with
  | nil => rfl
  | cons x xs ih => simp [decodeRows, ih]

theorem decodeRows_bad {ρ : Type} (a : List ρ) (b : List (Row ρ)) :
    decodeRows (a.map Row.ok ++ Row.bad :: b) = .error .csv := by
  induction a with
  | nil => rfl
  | cons x xs ih => simp [decodeRows, ih]

/-- files in the documented format (every row decodes, ids are row numbers, endpoints are listed
vertices) load to `buildGraph` of the rows, with the vertex count explicit (`nV = vs.length`) or scanned
(header line + one line per row), and any treatment of the edge count (explicit — even wrong — or
scanned from a non-empty file): explicit and scanned loads are the same -/
theorem from_files_ok (es : List (Edge α)) (vs : List (Vertex α)) (el vl : Nat)
    (nE nV : Option Nat) (hE : nE ≠ none ∨ 1 ≤ el)
    (hV : nV = some vs.length ∨ (nV = none ∧ vl = vs.length + 1))
    (h : RowIds es) (hb : EndpointsBelow es vs.length) (hv : VertexRowIds vs) :
    graphFromFiles ⟨true, el, true, es.map Row.ok⟩ ⟨true, vl, true, vs.map Row.ok⟩ nE nV =
      .ok (buildGraph es vs vs.length) := by
  have h1 : ∃ n, countOrScan nE (⟨true, el, true, es.map Row.ok⟩ : CsvFile (Edge α)) = .ok n := by
    cases nE with
    | some n => exact ⟨n, rfl⟩
    | none =>
      have : 1 ≤ el := by simpa using hE
      exact ⟨el - 1, by simp [countOrScan, scanCount]; omega⟩
  obtain ⟨n, hn⟩ := h1
  have h2 : countOrScan nV (⟨true, vl, true, vs.map Row.ok⟩ : CsvFile (Vertex α)) = .ok vs.length := by
    rcases hV with hV | ⟨hV, hl⟩
    · subst hV; rfl
    · subst hV; subst hl; simp [countOrScan, scanCount]
  have h3 : (missingVertices es vs.length).isEmpty = true := by
    rw [(missingVertices_eq_nil_iff es vs.length).2 hb]; rfl
  simp [graphFromFiles, hn, h2, readCsv, decodeRows_ok, h3, (idsAreRows_edges_iff es).2 h,
    (idsAreRows_vertices_iff vs).2 hv, (endpointsWithin_iff es vs.length).2 hb]

/-- everything a successful load implies: both files could be opened, every row decoded, the vertex
count `n` was declared or scanned, every endpoint is below `n` AND below the number of vertex rows, edge
and vertex ids are row numbers, and the graph is `buildGraph` of the rows with tables of size `n` -/
theorem from_files_ok_inv (ef : CsvFile (Edge α)) (vf : CsvFile (Vertex α)) (nE nV : Option Nat)
    (g : Graph α) (hg : graphFromFiles ef vf nE nV = .ok g) :
    ∃ es vs n, ef.present = true ∧ vf.present = true ∧ ef.rows = es.map Row.ok ∧ vf.rows = vs.map Row.ok ∧
      countOrScan nV vf = .ok n ∧ RowIds es ∧ VertexRowIds vs ∧ EndpointsBelow es n ∧
      EndpointsBelow es vs.length ∧ g = buildGraph es vs n := by
  unfold graphFromFiles at hg
  cases h1 : countOrScan nE ef with
  | error x => simp [h1] at hg
  | ok k =>
    cases h2 : countOrScan nV vf with
    | error x => simp [h1, h2] at hg
    | ok n =>
      cases h3 : readCsv ef with
      | error x => simp [h1, h2, h3] at hg
      | ok es =>
        by_cases h4 : (missingVertices es n).isEmpty = false
        · simp [h1, h2, h3, h4] at hg
        · cases h5 : readCsv vf with
          | error x => simp [h1, h2, h3, h4, h5] at hg
          | ok vs =>
            by_cases h6 : idsAreRows (es.map Edge.edgeId) = false
            · simp [h1, h2, h3, h4, h5, h6] at hg
            · by_cases h7 : idsAreRows (vs.map Vertex.vertexId) = false
              · simp [h1, h2, h3, h4, h5, h6, h7] at hg
              · by_cases h8 : endpointsWithin es vs.length = false
                · simp [h1, h2, h3, h4, h5, h6, h7, h8] at hg
                · have h4' : (missingVertices es n).isEmpty = true := by simpa using h4
                  have h6' : idsAreRows (es.map Edge.edgeId) = true := by simpa using h6
                  have h7' : idsAreRows (vs.map Vertex.vertexId) = true := by simpa using h7
                  have h8' : endpointsWithin es vs.length = true := by simpa using h8
                  simp only [h1, h2, h3, h4', h5, h6', h7', h8', Bool.true_eq_false, if_false,
                    Except.ok.injEq] at hg
                  have pe : ef.present = true := by
                    by_contra hc
                    have hc' : ef.present = false := by simpa using hc
                    simp [readCsv, hc'] at h3
                  have pv : vf.present = true := by
                    by_contra hc
                    have hc' : vf.present = false := by simpa using hc
                    simp [readCsv, hc'] at h5
                  have he : ef.hasHeader = true := by
                    by_contra hc
                    have hc' : ef.hasHeader = false := by simpa using hc
                    simp [readCsv, pe, hc'] at h3
                  have hv : vf.hasHeader = true := by
                    by_contra hc
                    have hc' : vf.hasHeader = false := by simpa using hc
                    simp [readCsv, pv, hc'] at h5
                  refine ⟨es, vs, n, pe, pv, ?_, ?_, rfl, ?_, ?_, ?_, ?_, hg.symm⟩
                  · apply decodeRows_eq_ok
                    simpa [readCsv, pe, he] using h3
                  · apply decodeRows_eq_ok
                    simpa [readCsv, pv, hv] using h5
                  · exact (idsAreRows_edges_iff es).1 h6'
                  · exact (idsAreRows_vertices_iff vs).1 h7'
                  · apply (missingVertices_eq_nil_iff es n).1
                    simpa [List.isEmpty_iff] using h4'
                  · exact (endpointsWithin_iff es vs.length).1 h8'

/-- a file that cannot be opened: `IOError` when its count is scanned, `CsvError` when it is declared -/
theorem missing_file_errors (ef : CsvFile (Edge α)) (vf : CsvFile (Vertex α)) (nV : Option Nat)
    (n : Nat) (h : ef.present = false) :
    graphFromFiles ef vf none nV = .error .io ∧
    (∀ m, countOrScan nV vf = .ok m → graphFromFiles ef vf (some n) nV = .error .csv) := by
  constructor
  · simp [graphFromFiles, countOrScan, scanCount, h]
  · intro m hm
    simp only [graphFromFiles, hm, readCsv, h, if_true]
    rfl

/-- an empty file (no header line) whose count is scanned: `DatasetError` -/
theorem empty_file_scan_error (ef : CsvFile (Edge α)) (vf : CsvFile (Vertex α)) (nV : Option Nat)
    (h : ef.present = true) (hl : ef.lines = 0) :
    graphFromFiles ef vf none nV = .error .dataset := by
  simp [graphFromFiles, countOrScan, scanCount, h, hl]

/-- a row that does not decode (missing column, unparsable or negative id, short row): `CsvError` -/
theorem undecodable_edge_row_error (a : List (Edge α)) (b : List (Row (Edge α))) (vf : CsvFile (Vertex α))
    (el nE nV : Nat) :
    graphFromFiles ⟨true, el, true, a.map Row.ok ++ Row.bad :: b⟩ vf (some nE) (some nV) = .error .csv := by
  simp [graphFromFiles, countOrScan, readCsv, decodeRows_bad]

theorem undecodable_vertex_row_error (es : List (Edge α)) (a : List (Vertex α)) (b : List (Row (Vertex α)))
    (el vl nE nV : Nat) (hb : EndpointsBelow es nV) :
    graphFromFiles ⟨true, el, true, es.map Row.ok⟩ ⟨true, vl, true, a.map Row.ok ++ Row.bad :: b⟩ (some nE) (some nV) =
      .error .csv := by
  have h3 : (missingVertices es nV).isEmpty = true := by
    rw [(missingVertices_eq_nil_iff es nV).2 hb]; rfl
  simp [graphFromFiles, countOrScan, readCsv, decodeRows_ok, decodeRows_bad, h3]

/-- an edge with an endpoint at or beyond the declared / scanned vertex count is never loaded
(`EdgeLoader::try_from` reports its `missing_vertices`) -/
theorem missing_vertex_rejected (es : List (Edge α)) (vf : CsvFile (Vertex α)) (el : Nat)
    (nE nV : Option Nat) (n : Nat) (hn : countOrScan nV vf = .ok n) (hb : ¬ EndpointsBelow es n) (g : Graph α) :
    graphFromFiles ⟨true, el, true, es.map Row.ok⟩ vf nE nV ≠ .ok g := by
  intro hg
  obtain ⟨es', vs, n', _, _, he, _, hn', _, _, hb', _, _⟩ := from_files_ok_inv _ _ _ _ _ hg
  have : es' = es := (List.map_injective_iff.2 (fun a b h => by injection h)) he.symm
  subst this
  rw [hn] at hn'
  injection hn' with hn'
  subst hn'
  exact hb hb'

/-- an edge file whose ids are not its row numbers (permuted, offset, duplicated) is never loaded -/
theorem edge_id_not_row_rejected (es : List (Edge α)) (vf : CsvFile (Vertex α)) (el : Nat)
    (nE nV : Option Nat) (h : ¬ RowIds es) (g : Graph α) :
    graphFromFiles ⟨true, el, true, es.map Row.ok⟩ vf nE nV ≠ .ok g := by
  intro hg
  obtain ⟨es', vs, n', _, _, he, _, _, hr, _, _, _, _⟩ := from_files_ok_inv _ _ _ _ _ hg
  have : es' = es := (List.map_injective_iff.2 (fun a b h => by injection h)) he.symm
  subst this
  exact h hr

/-- a vertex file whose ids are not its row numbers is never loaded -/
theorem vertex_id_not_row_rejected (ef : CsvFile (Edge α)) (vs : List (Vertex α)) (vl : Nat)
    (nE nV : Option Nat) (h : ¬ VertexRowIds vs) (g : Graph α) :
    graphFromFiles ef ⟨true, vl, true, vs.map Row.ok⟩ nE nV ≠ .ok g := by
  intro hg
  obtain ⟨es, vs', n', _, _, _, hv, _, _, hr, _, _, _⟩ := from_files_ok_inv _ _ _ _ _ hg
  have : vs' = vs := (List.map_injective_iff.2 (fun a b h => by injection h)) hv.symm
  subst this
  exact h hr

/-- an edge with an endpoint that has no row in the vertex file is never loaded, whatever vertex
count was declared or scanned -/
theorem endpoint_beyond_vertex_rows_rejected (es : List (Edge α)) (vs : List (Vertex α)) (el vl : Nat)
    (nE nV : Option Nat) (h : ¬ EndpointsBelow es vs.length) (g : Graph α) :
    graphFromFiles ⟨true, el, true, es.map Row.ok⟩ ⟨true, vl, true, vs.map Row.ok⟩ nE nV ≠ .ok g := by
  intro hg
  obtain ⟨es', vs', n', _, _, he, hv, _, _, _, _, hb, _⟩ := from_files_ok_inv _ _ _ _ _ hg
  have e1 : es' = es := (List.map_injective_iff.2 (fun a b h => by injection h)) he.symm
  have e2 : vs' = vs := (List.map_injective_iff.2 (fun a b h => by injection h)) hv.symm
  subst e1; subst e2
  exact h hb

end

/-! ### the whole property -/

/-- "the graph exposes exactly the listed topology", by id (the harness's oracle states the same as
multisets): sizes, every listed edge and vertex retrievable by its id, and the out- / in-edges of every
vertex EXACTLY the ids of the listed edges that leave / enter it, once each, in file order -/
structure DescribesTopology {α : Type} (g : Graph α) (es : List (Edge α)) (vs : List (Vertex α)) : Prop where
  nEdges : g.nEdges = es.length
  nVertices : g.nVertices = vs.length
  edge : ∀ e ∈ es, g.getEdge e.edgeId = .ok e
  vertex : ∀ v ∈ vs, g.getVertex v.vertexId = .ok v
  out : ∀ v, g.outEdges v = (es.filter (fun e => e.src = v)).map Edge.edgeId
  inc : ∀ v, g.inEdges v = (es.filter (fun e => e.dst = v)).map Edge.edgeId

/-- … and the triplet of every listed edge: both endpoints are listed vertices -/
structure Describes {α : Type} (g : Graph α) (es : List (Edge α)) (vs : List (Vertex α)) : Prop
    extends DescribesTopology g es vs where
  triplet : ∀ e ∈ es, ∃ s d, g.edgeTriplet e.edgeId = .ok (s, e, d) ∧ s.vertexId = e.src ∧ d.vertexId = e.dst

/-- membership form of the adjacency clauses -/
theorem DescribesTopology.mem_out_in {α : Type} {g : Graph α} {es : List (Edge α)} {vs : List (Vertex α)}
    (h : DescribesTopology g es vs) (v x : Nat) :
    (x ∈ g.outEdges v ↔ ∃ e ∈ es, e.edgeId = x ∧ e.src = v) ∧
    (x ∈ g.inEdges v ↔ ∃ e ∈ es, e.edgeId = x ∧ e.dst = v) := by
  rw [h.out, h.inc]
  simp only [List.mem_map, List.mem_filter, decide_eq_true_eq]
  constructor
  · constructor
    · rintro ⟨e, ⟨he, hs⟩, rfl⟩
      exact ⟨e, he, rfl, hs⟩
    · rintro ⟨e, he, rfl, hs⟩
      exact ⟨e, ⟨he, hs⟩, rfl⟩
  · constructor
    · rintro ⟨e, ⟨he, hs⟩, rfl⟩
      exact ⟨e, he, rfl, hs⟩
    · rintro ⟨e, he, rfl, hs⟩
      exact ⟨e, ⟨he, hs⟩, rfl⟩

theorem describesTopology_buildGraph {α : Type} (es : List (Edge α)) (vs : List (Vertex α)) (n : Nat)
    (h : RowIds es) (hv : VertexRowIds vs) (hb : EndpointsBelow es n) :
    DescribesTopology (buildGraph es vs n) es vs := by
  refine ⟨rfl, rfl, fun e he => get_edge_by_id es vs _ h e he, ?_, fun v => out_edges_eq es vs _ h hb v,
    fun v => in_edges_eq es vs _ h hb v⟩
  intro v hm
  obtain ⟨i, hi, rfl⟩ := List.mem_iff_getElem.1 hm
  have := get_vertex_by_id es vs n hv i hi
  rw [this.2]
  exact this.1

theorem describes_buildGraph {α : Type} (es : List (Edge α)) (vs : List (Vertex α)) (n : Nat)
    (h : RowIds es) (hv : VertexRowIds vs) (hb : EndpointsBelow es n) (hb' : EndpointsBelow es vs.length) :
    Describes (buildGraph es vs n) es vs :=
  { toDescribesTopology := describesTopology_buildGraph es vs n h hv hb
    triplet := fun e he => ⟨_, _, edge_triplet_eq es vs _ h hb' e he, hv _ _, hv _ _⟩ }

/-- FULL, for every pair of edge/vertex files (any rows, decodable or not, any ids and endpoints, any
text-line counts) and every way of giving the counts (explicit — right or wrong — or scanned): a load
either fails or yields a graph that exposes exactly the listed network: sizes, every listed edge
retrievable by its id with its source, destination and length, every vertex with its coordinates, the
out- and in-edges of every vertex precisely the listed ones, and the triplet of every edge.  No
hypothesis.  (Before /repo 0316a94, c6cac08 and c9969cf this was false of the code; the witnesses of
the former counterexamples are the `…_rejected_witness` theorems below.) -/
theorem loaded_network_is_listed {α : Type} (ef : CsvFile (Edge α)) (vf : CsvFile (Vertex α))
    (nE nV : Option Nat) (g : Graph α) (hg : graphFromFiles ef vf nE nV = .ok g) :
    ∃ es vs, ef.rows = es.map Row.ok ∧ vf.rows = vs.map Row.ok ∧ Describes g es vs := by
  obtain ⟨es, vs, n, _, _, he, hv, _, hr, hvr, hb, hb', rfl⟩ := from_files_ok_inv _ _ _ _ _ hg
  exact ⟨es, vs, he, hv, describes_buildGraph es vs n hr hvr hb hb'⟩

/-- in particular the topology part (kept under its own name) -/
theorem loaded_topology_is_listed {α : Type} (ef : CsvFile (Edge α)) (vf : CsvFile (Vertex α))
    (nE nV : Option Nat) (g : Graph α) (hg : graphFromFiles ef vf nE nV = .ok g) :
    ∃ es vs, ef.rows = es.map Row.ok ∧ vf.rows = vs.map Row.ok ∧ DescribesTopology g es vs := by
  obtain ⟨es, vs, he, hv, hd⟩ := loaded_network_is_listed ef vf nE nV g hg
  exact ⟨es, vs, he, hv, hd.toDescribesTopology⟩

/-- a loaded graph's accessors, in the form the search model uses them: the graph is `buildGraph` of
rows in the documented format, so every theorem of the first part of this file applies to it -/
theorem loaded_graph_is_buildGraph {α : Type} (ef : CsvFile (Edge α)) (vf : CsvFile (Vertex α))
    (nE nV : Option Nat) (g : Graph α) (hg : graphFromFiles ef vf nE nV = .ok g) :
    ∃ es vs n, g = buildGraph es vs n ∧ RowIds es ∧ VertexRowIds vs ∧ EndpointsBelow es n ∧
      EndpointsBelow es vs.length := by
  obtain ⟨es, vs, n, _, _, _, _, _, hr, hvr, hb, hb', rfl⟩ := from_files_ok_inv _ _ _ _ _ hg
  exact ⟨es, vs, n, rfl, hr, hvr, hb, hb'⟩

/-- the documented format loads, and to the listed network (the theorems above are not vacuous) -/
theorem listed_network_loads {α : Type} (es : List (Edge α)) (vs : List (Vertex α))
    (el vl : Nat) (nE nV : Option Nat) (hE : nE ≠ none ∨ 1 ≤ el)
    (hV : nV = some vs.length ∨ (nV = none ∧ vl = vs.length + 1))
    (h : RowIds es) (hb : EndpointsBelow es vs.length) (hv : VertexRowIds vs) :
    ∃ g, graphFromFiles ⟨true, el, true, es.map Row.ok⟩ ⟨true, vl, true, vs.map Row.ok⟩ nE nV = .ok g ∧
      Describes g es vs :=
  ⟨_, from_files_ok es vs el vl nE nV hE hV h hb hv, describes_buildGraph es vs _ h hv hb hb⟩

/-! witnesses (distances and coordinates in `Nat`; the same files are W1 … W9 of the harness corpus) -/

def w1Edges : List (Edge Nat) := [⟨1, 0, 1, 7⟩, ⟨0, 1, 0, 9⟩]
def w2Edges : List (Edge Nat) := [⟨0, 0, 1, 7⟩, ⟨1, 1, 5, 9⟩]
def w3Edges : List (Edge Nat) := [⟨0, 0, 1, 7⟩, ⟨1, 1, 2, 9⟩, ⟨2, 2, 0, 4⟩]
def w8Edges : List (Edge Nat) := [⟨0, 0, 1, 7⟩, ⟨1, 1, 2, 9⟩]
def wVertices (n : Nat) : List (Vertex Nat) := (List.range n).map (fun i => ⟨i, 10 * i, 20 * i⟩)

/-- W1 (was accepted: `get_edge 1` answered with edge 0): two edges listed in the reverse order of their
ids are a `DatasetError` -/
theorem edge_id_not_row_rejected_witness :
    graphFromFiles ⟨true, 3, true, w1Edges.map Row.ok⟩ ⟨true, 3, true, (wVertices 2).map Row.ok⟩ (some 2) (some 2) =
      .error .dataset := rfl

/-- W2 (was accepted with a triplet that could not be produced): an edge whose destination (5) is not
in the two-row vertex file, scanned counts, is a `DatasetError` -/
theorem missing_vertex_rejected_witness :
    missingVertices w2Edges 2 = [5] ∧
    graphFromFiles ⟨true, 3, true, w2Edges.map Row.ok⟩ ⟨true, 3, true, (wVertices 2).map Row.ok⟩ none none =
      .error .dataset := ⟨by decide, rfl⟩

/-- W3 (was accepted with `out_edges 2 = []`): a declared vertex count (2) below the vertex file's (3),
with an edge leaving vertex 2, is a `DatasetError`; without such an edge the load is correct
(`loaded_network_is_listed`) -/
theorem declared_vertex_count_too_small_rejected_witness :
    graphFromFiles ⟨true, 4, true, w3Edges.map Row.ok⟩ ⟨true, 4, true, (wVertices 3).map Row.ok⟩ (some 3) (some 2) =
      .error .dataset := rfl

/-- W4 (was accepted: `get_vertex 0` answered with vertex 1): vertex rows listed in another order than
their ids are a `DatasetError` -/
theorem vertex_id_not_row_rejected_witness :
    graphFromFiles ⟨true, 2, true, [Row.ok (⟨0, 0, 1, 7⟩ : Edge Nat)]⟩ ⟨true, 3, true, [Row.ok ⟨1, 10, 20⟩, Row.ok ⟨0, 30, 40⟩]⟩
      none none = .error .dataset := rfl

/-- W6 (was accepted with empty adjacency): a scan that sees fewer text lines than the csv reader
yields records — a vertex file with lone-CR line endings is ONE line, scanned count 0 — is a
`DatasetError` as soon as there is an edge; the same files load correctly with the count declared -/
theorem scanned_count_below_rows_rejected_witness :
    graphFromFiles ⟨true, 3, true, [Row.ok (⟨0, 0, 1, 7⟩ : Edge Nat), Row.ok ⟨1, 1, 0, 9⟩]⟩
        ⟨true, 1, true, (wVertices 2).map Row.ok⟩ none none = .error .dataset ∧
    ∃ g, graphFromFiles ⟨true, 3, true, [Row.ok (⟨0, 0, 1, 7⟩ : Edge Nat), Row.ok ⟨1, 1, 0, 9⟩]⟩
        ⟨true, 1, true, (wVertices 2).map Row.ok⟩ none (some 2) = .ok g ∧ g.outEdges 0 = [0] ∧ g.inEdges 0 = [1] :=
  ⟨rfl, _, rfl, by decide, by decide⟩

/-- W8 / W9 (were accepted with `edge_triplet 1 = VertexNotFound 2`): the vertex file has two rows,
edge 1 ends at vertex 2; with a declared vertex count of 3 — or a scanned one, the file having a
trailing blank line (4 text lines) — the load is a `DatasetError` -/
theorem endpoint_beyond_vertex_rows_rejected_witness :
    graphFromFiles ⟨true, 3, true, w8Edges.map Row.ok⟩ ⟨true, 3, true, (wVertices 2).map Row.ok⟩ (some 2) (some 3) =
      .error .dataset ∧
    graphFromFiles ⟨true, 3, true, w8Edges.map Row.ok⟩ ⟨true, 4, true, (wVertices 2).map Row.ok⟩ none none =
      .error .dataset := ⟨rfl, rfl⟩

/-! ### files that cannot be read to their end, or have no content -/

section
variable {α : Type}

/-- a file flagged as not readable to its end (`present = false`) never loads, whichever of the two
files it is and however the counts are given.  This is one unfolding away from `readCsv` / `scanCount`
(which fail on that flag) plus the order of evaluation; WHICH byte streams get that flag — a missing
file, a gzip stream cut short — is decided by `fs_utils` / `read_utils` and evidenced only by the
differential run (corpus W10–W12, kind `gzip-truncated`), not by this theorem. -/
theorem unreadable_file_never_loads (ef : CsvFile (Edge α)) (vf : CsvFile (Vertex α)) (nE nV : Option Nat)
    (h : ef.present = false ∨ vf.present = false) (g : Graph α) : graphFromFiles ef vf nE nV ≠ .ok g := by
  intro hg
  obtain ⟨_, _, _, pe, pv, _⟩ := from_files_ok_inv _ _ _ _ _ hg
  rcases h with h | h
  · rw [h] at pe; exact absurd pe (by simp)
  · rw [h] at pv; exact absurd pv (by simp)

/-- likewise for a file flagged as having no acceptable header row (`hasHeader = false`, set by the
harness for a file without any content, for a header row that does not name the required columns and
for a file without a header row): it never loads, also with explicit counts and also when it has no
records at all.  Definitional over the flag in the same sense (corpus W14, W17, W18). -/
theorem empty_file_never_loads (ef : CsvFile (Edge α)) (vf : CsvFile (Vertex α)) (nE nV : Option Nat)
    (h : ef.hasHeader = false ∨ vf.hasHeader = false) (g : Graph α) : graphFromFiles ef vf nE nV ≠ .ok g := by
  intro hg
  unfold graphFromFiles at hg
  cases h1 : countOrScan nE ef with
  | error x => simp [h1] at hg
  | ok k =>
    cases h2 : countOrScan nV vf with
    | error x => simp [h1, h2] at hg
    | ok n =>
      cases h3 : readCsv ef with
      | error x => simp [h1, h2, h3] at hg
      | ok es =>
        cases h5 : readCsv vf with
        | error x =>
          by_cases h4 : (missingVertices es n).isEmpty = false <;> simp [h1, h2, h3, h4, h5] at hg
        | ok vs =>
          rcases h with h | h
          · simp only [readCsv, h] at h3; split at h3 <;> simp at h3
          · simp only [readCsv, h] at h5; split at h5 <;> simp at h5

/-- the error kinds: an unreadable edge file is an `IOError` when its count is scanned and a `CsvError`
when it is declared; an edge file without content is a `DatasetError` when scanned (no text line) and
a `CsvError` when declared (no header row) -/
theorem empty_edge_file_errors (rows : List (Row (Edge α))) (vf : CsvFile (Vertex α)) (n : Nat)
    (nV : Option Nat) (m : Nat) (hm : countOrScan nV vf = .ok m) :
    graphFromFiles ⟨true, 0, false, rows⟩ vf none nV = .error .dataset ∧
    graphFromFiles ⟨true, 0, false, rows⟩ vf (some n) nV = .error .csv := by
  constructor
  · simp [graphFromFiles, countOrScan, scanCount]
  · simp only [graphFromFiles, hm, readCsv]
    rfl

/-! ### every accessor, on any `Graph` value (nothing is assumed about its four fields) -/

/-- (restates the model's `getEdge`; used below) -/
theorem get_edge_any (g : Graph α) (e : Nat) :
    g.getEdge e = match g.edges[e]? with
      | some x => .ok x
      | none => .error (.edgeNotFound e) := by
  unfold Graph.getEdge; cases g.edges[e]? <;> rfl

/-- (restates the model's `getVertex`; used below) -/
theorem get_vertex_any (g : Graph α) (v : Nat) :
    g.getVertex v = match g.vertices[v]? with
      | some x => .ok x
      | none => .error (.vertexNotFound v) := by
  unfold Graph.getVertex; cases g.vertices[v]? <;> rfl

/-- a vertex outside the adjacency table has no edges; that is not an error -/
theorem incident_edges_beyond_table (g : Graph α) (v : Nat) :
    (g.adj.length ≤ v → g.outEdges v = [] ∧ g.incidentEdges v .forward = []) ∧
    (g.rev.length ≤ v → g.inEdges v = [] ∧ g.incidentEdges v .reverse = []) := by
  constructor <;> intro h
  · simp [Graph.outEdges, Graph.incidentEdges, List.getElem?_eq_none h]
  · simp [Graph.inEdges, Graph.incidentEdges, List.getElem?_eq_none h]

/-- `edge_triplet`: the edge, then its source vertex, then its destination vertex; the first one that
is missing is the error (the model's definition with its matches flattened — its content is that the
differential run ties THIS order to the code; `edge_triplet_ok_iff` is the consequence) -/
theorem edge_triplet_any (g : Graph α) (e : Nat) :
    g.edgeTriplet e = match g.edges[e]? with
      | none => .error (.edgeNotFound e)
      | some ed =>
        match g.vertices[ed.src]? with
        | none => .error (.vertexNotFound ed.src)
        | some s =>
          match g.vertices[ed.dst]? with
          | none => .error (.vertexNotFound ed.dst)
          | some d => .ok (s, ed, d) := by
  unfold Graph.edgeTriplet
  rw [get_edge_any]
  cases g.edges[e]? with
  | none => rfl
  | some ed =>
    simp only [get_vertex_any]
    cases g.vertices[ed.src]? with
    | none => rfl
    | some s => cases g.vertices[ed.dst]? <;> rfl

theorem edge_triplet_ok_iff (g : Graph α) (e : Nat) :
    (∃ t, g.edgeTriplet e = .ok t) ↔
      ∃ h : e < g.edges.length, g.edges[e].src < g.vertices.length ∧ g.edges[e].dst < g.vertices.length := by
  rw [edge_triplet_any]
  constructor
  · intro ⟨t, ht⟩
    cases he : g.edges[e]? with
    | none => simp [he] at ht
    | some ed =>
      obtain ⟨hlt, hed⟩ := List.getElem?_eq_some_iff.1 he
      subst hed
      cases hs : g.vertices[g.edges[e].src]? with
      | none => simp [he, hs] at ht
      | some s =>
        cases hd : g.vertices[g.edges[e].dst]? with
        | none => simp [he, hs, hd] at ht
        | some d =>
          exact ⟨hlt, (List.getElem?_eq_some_iff.1 hs).1, (List.getElem?_eq_some_iff.1 hd).1⟩
  · rintro ⟨h, hs, hd⟩
    simp [List.getElem?_eq_getElem h, List.getElem?_eq_getElem hs, List.getElem?_eq_getElem hd]

/-- `src_vertex_id`, `dst_vertex_id`, `incident_vertex`: the fields of the edge at that position (an
unfolding of the model's definitions) -/
theorem endpoints_any (g : Graph α) (e : Nat) :
    g.srcVertexId e = (match g.edges[e]? with | some x => .ok x.src | none => .error (.edgeNotFound e)) ∧
    g.dstVertexId e = (match g.edges[e]? with | some x => .ok x.dst | none => .error (.edgeNotFound e)) ∧
    g.incidentVertex e .forward = g.dstVertexId e ∧ g.incidentVertex e .reverse = g.srcVertexId e := by
  refine ⟨?_, ?_, rfl, rfl⟩
  · unfold Graph.srcVertexId; rw [get_edge_any]; cases g.edges[e]? <;> rfl
  · unfold Graph.dstVertexId; rw [get_edge_any]; cases g.edges[e]? <;> rfl

/-- `incident_triplet_ids` succeeds exactly when every incident edge id is a position of `edges` -/
theorem tripletIdsGo_ok_iff (g : Graph α) (v : Nat) (d : Direction) (l : List Nat) :
    (∃ r, Graph.tripletIdsGo g v d l = .ok r) ↔ ∀ e ∈ l, e < g.edges.length := by
  induction l with
  | nil => simp [Graph.tripletIdsGo]
  | cons e r ih =>
    have hv : (∃ t, g.incidentVertex e d = .ok t) ↔ e < g.edges.length := by
      have := endpoints_any g e
      cases d with
      | forward =>
        rw [this.2.2.1, this.2.1]
        cases he : g.edges[e]? with
        | none => simpa using (List.getElem?_eq_none_iff.1 he)
        | some x => simpa using (List.getElem?_eq_some_iff.1 he).1
      | reverse =>
        rw [this.2.2.2, this.1]
        cases he : g.edges[e]? with
        | none => simpa using (List.getElem?_eq_none_iff.1 he)
        | some x => simpa using (List.getElem?_eq_some_iff.1 he).1
    simp only [Graph.tripletIdsGo, List.mem_cons, forall_eq_or_imp]
    constructor
    · intro ⟨res, hres⟩
      cases h1 : g.incidentVertex e d with
      | error x => simp [h1] at hres
      | ok t =>
        cases h2 : Graph.tripletIdsGo g v d r with
        | error x => simp [h1, h2] at hres
        | ok l' => exact ⟨hv.1 ⟨t, h1⟩, ih.1 ⟨l', h2⟩⟩
    · rintro ⟨h1, h2⟩
      obtain ⟨t, ht⟩ := hv.2 h1
      obtain ⟨l', hl'⟩ := ih.2 h2
      exact ⟨(v, e, t) :: l', by simp [ht, hl']⟩

theorem incident_triplet_ids_ok_iff (g : Graph α) (v : Nat) (d : Direction) :
    (∃ r, g.incidentTripletIds v d = .ok r) ↔ ∀ e ∈ g.incidentEdges v d, e < g.edges.length :=
  tripletIdsGo_ok_iff g v d _

theorem tripletIdsGo_ok_edges (g : Graph α) (v : Nat) (d : Direction) (es : List Nat)
    (l : List (Nat × Nat × Nat)) (h : Graph.tripletIdsGo g v d es = .ok l) :
    l.map (fun t => t.2.1) = es ∧ ∀ t ∈ l, t.1 = v := by
  induction es generalizing l with
  | nil => simp only [Graph.tripletIdsGo, Except.ok.injEq] at h; subst h; simp
  | cons e r ih =>
    simp only [Graph.tripletIdsGo] at h
    cases h1 : g.incidentVertex e d with
    | error x => simp [h1] at h
    | ok t =>
      cases h2 : Graph.tripletIdsGo g v d r with
      | error x => simp [h1, h2] at h
      | ok l' =>
        simp only [h1, h2, Except.ok.injEq] at h
        subst h
        obtain ⟨i1, i2⟩ := ih l' h2
        exact ⟨by simp [i1], by simpa using i2⟩

/-- on ANY graph: the edge lookup inside `incident_triplet_attributes` cannot fail — the triplets come from
`incident_triplet_ids`, which has looked every one of those edges up already — so its only errors are
that one's `EdgeNotFound` and a `VertexNotFound` (the `?` after `get_edge` in that function is dead) -/
theorem triplet_attributes_edge_lookup_never_fails (g : Graph α) (v : Nat) (d : Direction)
    (l : List (Nat × Nat × Nat)) (h : g.incidentTripletIds v d = .ok l) :
    ∀ t ∈ l, ∃ ed, g.getEdge t.2.1 = .ok ed := by
  intro t ht
  have hall := (tripletIdsGo_ok_iff g v d (g.incidentEdges v d)).1 ⟨l, h⟩
  have hmap := (tripletIdsGo_ok_edges g v d _ l h).1
  have : t.2.1 ∈ g.incidentEdges v d := by rw [← hmap]; exact List.mem_map.2 ⟨t, ht, rfl⟩
  have hlt := hall _ this
  exact ⟨g.edges[t.2.1], by rw [get_edge_any, List.getElem?_eq_getElem hlt]⟩

/-- `incident_triplet_attributes` of a listed network: for each listed edge at `v` in the direction of
travel, (the vertex `v`, the edge, the vertex at its far end), with their listed data -/
theorem tripletAttrsGo_listed (es : List (Edge α)) (vs : List (Vertex α)) (nV : Nat) (h : RowIds es)
    (near far : Edge α → Nat) (l : List (Edge α)) (hl : ∀ e ∈ l, e ∈ es)
    (hn : ∀ e ∈ l, near e < vs.length) (hf : ∀ e ∈ l, far e < vs.length) :
    ∃ r, Graph.tripletAttrsGo (buildGraph es vs nV) (l.map (fun e => (near e, e.edgeId, far e))) = .ok r ∧
      List.Forall₂ (fun e t => vs[near e]? = some t.1 ∧ t.2.1 = e ∧ vs[far e]? = some t.2.2) l r := by
  induction l with
  | nil => exact ⟨[], rfl, List.Forall₂.nil⟩
  | cons e l ih =>
    obtain ⟨r, hr, hfa⟩ := ih (fun x hx => hl x (by simp [hx])) (fun x hx => hn x (by simp [hx]))
      (fun x hx => hf x (by simp [hx]))
    have h1 := hn e (by simp)
    have h2 := hf e (by simp)
    refine ⟨(vs[near e], e, vs[far e]) :: r, ?_, List.Forall₂.cons ⟨List.getElem?_eq_getElem h1, rfl, List.getElem?_eq_getElem h2⟩ hfa⟩
    simp only [List.map_cons, Graph.tripletAttrsGo, get_vertex_general, List.getElem?_eq_getElem h1,
      List.getElem?_eq_getElem h2, get_edge_by_id es vs nV h e (hl e (by simp)), hr]

theorem incident_triplet_attributes_eq (es : List (Edge α)) (vs : List (Vertex α)) (nV : Nat) (h : RowIds es)
    (hb : EndpointsBelow es nV) (hb' : EndpointsBelow es vs.length) (v : Nat) :
    (∃ r, (buildGraph es vs nV).incidentTripletAttributes v .forward = .ok r ∧
      List.Forall₂ (fun e t => vs[e.src]? = some t.1 ∧ t.2.1 = e ∧ vs[e.dst]? = some t.2.2)
        (es.filter (fun e => e.src = v)) r) ∧
    (∃ r, (buildGraph es vs nV).incidentTripletAttributes v .reverse = .ok r ∧
      List.Forall₂ (fun e t => vs[e.dst]? = some t.1 ∧ t.2.1 = e ∧ vs[e.src]? = some t.2.2)
        (es.filter (fun e => e.dst = v)) r) := by
  have hids := incident_triplet_ids_eq es vs nV h hb v
  constructor
  · have hmem : ∀ e ∈ es.filter (fun e => e.src = v), e ∈ es ∧ e.src = v := fun e he => by
      simpa using List.mem_filter.1 he
    obtain ⟨r, hr, hfa⟩ := tripletAttrsGo_listed es vs nV h (fun e => e.src) (fun e => e.dst)
      (es.filter (fun e => e.src = v)) (fun e he => (hmem e he).1)
      (fun e he => (hb' e (hmem e he).1).1) (fun e he => (hb' e (hmem e he).1).2)
    have hmap : (es.filter (fun e => e.src = v)).map (fun e => (v, e.edgeId, e.dst)) =
        (es.filter (fun e => e.src = v)).map (fun e => (e.src, e.edgeId, e.dst)) :=
      List.map_congr_left (fun e he => by rw [(hmem e he).2])
    exact ⟨r, by simp only [Graph.incidentTripletAttributes, hids.1, hmap, hr], hfa⟩
  · have hmem : ∀ e ∈ es.filter (fun e => e.dst = v), e ∈ es ∧ e.dst = v := fun e he => by
      simpa using List.mem_filter.1 he
    obtain ⟨r, hr, hfa⟩ := tripletAttrsGo_listed es vs nV h (fun e => e.dst) (fun e => e.src)
      (es.filter (fun e => e.dst = v)) (fun e he => (hmem e he).1)
      (fun e he => (hb' e (hmem e he).1).2) (fun e he => (hb' e (hmem e he).1).1)
    have hmap : (es.filter (fun e => e.dst = v)).map (fun e => (v, e.edgeId, e.src)) =
        (es.filter (fun e => e.dst = v)).map (fun e => (e.dst, e.edgeId, e.src)) :=
      List.map_congr_left (fun e he => by rw [(hmem e he).2])
    exact ⟨r, by simp only [Graph.incidentTripletAttributes, hids.2, hmap, hr], hfa⟩

end

/-! ### the adjacency entry under any sequence of inserts (also repeated keys) -/

/-- `insert` never loses or invents a key: afterwards the keys are the old ones, plus the new one at
the end when it was not there -/
theorem adjKeys_adjInsert (k v : Nat) (m : AdjMap) :
    adjKeys (adjInsert k v m) = if k ∈ adjKeys m then adjKeys m else adjKeys m ++ [k] := by
  by_cases h : k ∈ adjKeys m
  · rw [if_pos h, adjKeys_adjInsert_of_mem k v m h]
  · rw [if_neg h, adjInsert_of_not_mem k v m h, adjKeys_append]; rfl

/-- after any sequence of inserts the keys are exactly the inserted ones, each once -/
theorem adjKeys_foldl_insert (ins : List (Nat × Nat)) (m : AdjMap) (hm : (adjKeys m).Nodup) :
    (adjKeys (ins.foldl (fun m kv => adjInsert kv.1 kv.2 m) m)).Nodup ∧
    ∀ k, k ∈ adjKeys (ins.foldl (fun m kv => adjInsert kv.1 kv.2 m) m) ↔ k ∈ adjKeys m ∨ k ∈ ins.map Prod.fst := by
  induction ins generalizing m with
  | nil => simpa using hm
  | cons kv r ih =>
    have hn : (adjKeys (adjInsert kv.1 kv.2 m)).Nodup := by
      rw [adjKeys_adjInsert]
      split
      · exact hm
      · rename_i h
        exact List.Nodup.append hm (by simp) (by simpa using h)
    obtain ⟨h1, h2⟩ := ih (adjInsert kv.1 kv.2 m) hn
    refine ⟨h1, fun k => ?_⟩
    rw [List.foldl_cons, h2 k, adjKeys_adjInsert]
    by_cases hk : kv.1 ∈ adjKeys m
    · simp only [if_pos hk, List.map_cons, List.mem_cons]
      constructor
      · rintro (h | h)
        · exact Or.inl h
        · exact Or.inr (Or.inr h)
      · rintro (h | h | h)
        · exact Or.inl h
        · exact Or.inl (h ▸ hk)
        · exact Or.inr h
    · simp only [if_neg hk, List.mem_append, List.map_cons, List.mem_cons]
      tauto

/-! ### the `Vertex` decoder: any column order, any bystander columns -/

section
variable {α : Type}

/-- a vertex row whose columns include exactly one `vertex_id`, one `x` and one `y`, each parseable,
decodes to the listed vertex in ANY column order and with ANY other columns between, before or after
them (csv: `strictEnd = false`) -/
theorem decode_vertex_any_column_order (es : List (String × Cell α)) (i : Nat) (x y : α)
    (hi : ∃ a c b, es = a ++ ("vertex_id", c) :: b ∧ c.asUsize = some i ∧
      (∀ e ∈ a, e.1 ≠ "vertex_id") ∧ ∀ e ∈ b, e.1 ≠ "vertex_id")
    (hx : ∃ a c b, es = a ++ ("x", c) :: b ∧ c.asF32 = some x ∧ (∀ e ∈ a, e.1 ≠ "x") ∧ ∀ e ∈ b, e.1 ≠ "x")
    (hy : ∃ a c b, es = a ++ ("y", c) :: b ∧ c.asF32 = some y ∧ (∀ e ∈ a, e.1 ≠ "y") ∧ ∀ e ∈ b, e.1 ≠ "y") :
    decodeVertex (some (es.map some)) false = .ok { vertexId := i, x := x, y := y } := by
  obtain ⟨rest, hr⟩ := visitEntries_slots es {} i x y (Or.inr ⟨rfl, hi⟩) (Or.inr ⟨rfl, hx⟩) (Or.inr ⟨rfl, hy⟩)
    (by simp)
  simp [decodeVertex, hr]

/-- a row without one of the three columns is rejected, whatever else it holds -/
theorem visitEntries_missing (es : List (String × Cell α)) (st : VisitState α) (k : String)
    (hk : k = "vertex_id" ∧ st.id = none ∨ k = "x" ∧ st.x = none ∨ k = "y" ∧ st.y = none)
    (hno : ∀ e ∈ es, e.1 ≠ k) : ∀ v rest, visitEntries (es.map some) st ≠ .ok (v, rest) := by
  induction es generalizing st with
  | nil => intro v rest h; simp [visitEntries] at h
  | cons e r ih =>
    obtain ⟨k', c⟩ := e
    intro v rest h
    have hne : k' ≠ k := hno (k', c) (by simp)
    simp only [List.map_cons, visitEntries] at h
    cases hs : visitStore st k' c with
    | error x => simp [hs] at h
    | ok st' =>
      have keep : k = "vertex_id" ∧ st'.id = none ∨ k = "x" ∧ st'.x = none ∨ k = "y" ∧ st'.y = none := by
        obtain ⟨f1, f2, f3⟩ := visitStore_ok_fields hs
        rcases hk with ⟨rfl, h0⟩ | ⟨rfl, h0⟩ | ⟨rfl, h0⟩
        · exact Or.inl ⟨rfl, by rw [f1 hne, h0]⟩
        · exact Or.inr (Or.inl ⟨rfl, by rw [f2 hne, h0]⟩)
        · exact Or.inr (Or.inr ⟨rfl, by rw [f3 hne, h0]⟩)
      have hc : st'.complete? = none := by
        apply VisitState.complete?_eq_none
        rcases keep with ⟨_, h0⟩ | ⟨_, h0⟩ | ⟨_, h0⟩ <;> simp [h0]
      simp only [hs, hc] at h
      exact ih st' keep (fun e he => hno e (by simp [he])) v rest h

theorem decode_vertex_missing_column (es : List (String × Cell α)) (k : String)
    (hk : k = "vertex_id" ∨ k = "x" ∨ k = "y") (hno : ∀ e ∈ es, e.1 ≠ k) (strict : Bool) (v : Vertex α) :
    decodeVertex (some (es.map some)) strict ≠ .ok v := by
  intro h
  unfold decodeVertex at h
  cases hv : visitEntries (es.map some) ({} : VisitState α) with
  | error e => simp [hv] at h
  | ok p =>
    obtain ⟨v', rest⟩ := p
    exact visitEntries_missing es {} k (by rcases hk with rfl | rfl | rfl <;> simp) hno v' rest hv

end

/-- a format that insists on the whole map being consumed (serde_json) makes the same decoder depend on
the column order: a bystander AFTER the three columns is an error, the same bystander BEFORE them is not.
(Vertices are read from csv files, where nothing is checked after the visitor returns; recorded as an
observation, not used by the application.) -/
theorem decode_vertex_strict_end_order_dependent_counterexample :
    let c : Cell Nat := ⟨some 7, some 7⟩
    decodeVertex (some [some ("z", c), some ("vertex_id", c), some ("x", c), some ("y", c)]) true = .ok ⟨7, 7, 7⟩ ∧
    decodeVertex (some [some ("vertex_id", c), some ("x", c), some ("y", c), some ("z", c)]) true = .error .trailing ∧
    decodeVertex (some [some ("vertex_id", c), some ("x", c), some ("y", c), some ("z", c)]) false = .ok ⟨7, 7, 7⟩ := by
  decide

/-! ### `DefaultGraphBuilder::build` -/

section
variable {α : Type}

/-- everything a successful build implies: both paths are configured as strings and name files, the
counts are absent or unsigned integers, and the graph describes the files at those paths -/
theorem builder_ok_describes (params : Json) (eIsFile vIsFile : Bool) (ef : CsvFile (Edge α))
    (vf : CsvFile (Vertex α)) (g : Graph α) (h : graphBuilderBuild params eIsFile vIsFile ef vf = .ok g) :
    eIsFile = true ∧ vIsFile = true ∧
    (∃ s, (params.get? "edge_list_input_file").bind Json.asStr? = some s) ∧
    (∃ s, (params.get? "vertex_list_input_file").bind Json.asStr? = some s) ∧
    ∃ es vs, ef.rows = es.map Row.ok ∧ vf.rows = vs.map Row.ok ∧ Describes g es vs := by
  unfold graphBuilderBuild at h
  cases h1 : getConfigPath params "edge_list_input_file" "graph" eIsFile with
  | error e => simp [h1] at h
  | ok pe =>
    cases h2 : getConfigPath params "vertex_list_input_file" "graph" vIsFile with
    | error e => simp [h1, h2] at h
    | ok pv =>
      cases h3 : getConfigOptUsize params "n_edges" with
      | error e => simp [h1, h2, h3] at h
      | ok nE =>
        cases h4 : getConfigOptUsize params "n_vertices" with
        | error e => simp [h1, h2, h3, h4] at h
        | ok nV =>
          cases h5 : getConfigOptBool params "verbose" with
          | error e => simp [h1, h2, h3, h4, h5] at h
          | ok vb =>
            cases h6 : graphFromFiles ef vf nE nV with
            | error e => simp [h1, h2, h3, h4, h5, h6] at h
            | ok g' =>
              simp only [h1, h2, h3, h4, h5, h6, Except.ok.injEq] at h
              subst h
              have path : ∀ key isFile p, getConfigPath params key "graph" isFile = .ok p →
                  isFile = true ∧ ∃ s, (params.get? key).bind Json.asStr? = some s := by
                intro key isFile p hp
                unfold getConfigPath getConfigString at hp
                cases hg : params.get? key with
                | none => simp [hg] at hp
                | some v =>
                  cases hs : v.asStr? with
                  | none => simp [hg, hs] at hp
                  | some s =>
                    cases isFile with
                    | false => simp [hg, hs] at hp
                    | true => exact ⟨rfl, s, by simp [hs]⟩
              exact ⟨(path _ _ _ h1).1, (path _ _ _ h2).1, (path _ _ _ h1).2, (path _ _ _ h2).2,
                loaded_network_is_listed ef vf nE nV g' h6⟩

/-- the error for a missing, ill-typed or dangling edge-file path names `edge_list_input_file` (the key
that is wrong) and the component `graph`; it is decided before anything else is looked at -/
theorem builder_edge_path_errors (params : Json) (eIsFile vIsFile : Bool) (ef : CsvFile (Edge α))
    (vf : CsvFile (Vertex α)) :
    (params.get? "edge_list_input_file" = none →
      graphBuilderBuild params eIsFile vIsFile ef vf = .error (.expectedField "edge_list_input_file" "graph")) ∧
    (∀ v, params.get? "edge_list_input_file" = some v → v.asStr? = none →
      graphBuilderBuild params eIsFile vIsFile ef vf = .error (.expectedType "edge_list_input_file" "String")) ∧
    (∀ v s, params.get? "edge_list_input_file" = some v → v.asStr? = some s → eIsFile = false →
      graphBuilderBuild params eIsFile vIsFile ef vf = .error (.fileNotFound s "edge_list_input_file" "graph")) := by
  refine ⟨fun h => ?_, fun v h hs => ?_, fun v s h hs hf => ?_⟩
  · simp [graphBuilderBuild, getConfigPath, getConfigString, h]
  · simp [graphBuilderBuild, getConfigPath, getConfigString, h, hs]
  · simp [graphBuilderBuild, getConfigPath, getConfigString, h, hs, hf]

/-- the same for the vertex-file path, once the edge-file path is fine -/
theorem builder_vertex_path_errors (params : Json) (vIsFile : Bool) (ef : CsvFile (Edge α))
    (vf : CsvFile (Vertex α)) (pe : String) (he : getConfigPath params "edge_list_input_file" "graph" true = .ok pe) :
    (params.get? "vertex_list_input_file" = none →
      graphBuilderBuild params true vIsFile ef vf = .error (.expectedField "vertex_list_input_file" "graph")) ∧
    (∀ v, params.get? "vertex_list_input_file" = some v → v.asStr? = none →
      graphBuilderBuild params true vIsFile ef vf = .error (.expectedType "vertex_list_input_file" "String")) ∧
    (∀ v s, params.get? "vertex_list_input_file" = some v → v.asStr? = some s → vIsFile = false →
      graphBuilderBuild params true vIsFile ef vf = .error (.fileNotFound s "vertex_list_input_file" "graph")) := by
  refine ⟨fun h => ?_, fun v h hs => ?_, fun v s h hs hf => ?_⟩
  · simp only [graphBuilderBuild, he]
    simp [getConfigPath, getConfigString, h]
  · simp only [graphBuilderBuild, he]
    simp [getConfigPath, getConfigString, h, hs]
  · simp only [graphBuilderBuild, he]
    simp [getConfigPath, getConfigString, h, hs, hf]

/-- with both paths fine: an ill-typed count or flag is a deserialization error; otherwise the build IS
the load of the two files with the configured counts, a load error coming through as `GraphError`; the
`verbose` flag and a configured edge count never change the outcome beyond the edge count's scan -/
theorem builder_is_load (params : Json) (ef : CsvFile (Edge α)) (vf : CsvFile (Vertex α)) (pe pv : String)
    (he : getConfigPath params "edge_list_input_file" "graph" true = .ok pe)
    (hv : getConfigPath params "vertex_list_input_file" "graph" true = .ok pv)
    (nE nV : Option Nat) (vb : Option Bool)
    (h3 : getConfigOptUsize params "n_edges" = .ok nE) (h4 : getConfigOptUsize params "n_vertices" = .ok nV)
    (h5 : getConfigOptBool params "verbose" = .ok vb) :
    graphBuilderBuild params true true ef vf =
      match graphFromFiles ef vf nE nV with
      | .error e => .error (.graph e)
      | .ok g => .ok g := by
  simp only [graphBuilderBuild, he, hv, h3, h4, h5]
  cases graphFromFiles ef vf nE nV <;> rfl

/-- an ill-typed `n_edges`, `n_vertices` or `verbose` (present but not an unsigned integer / not a
boolean) is a deserialization error — which does NOT name the key (`SerdeDeserializationError` carries
only serde_json's text); only the two path keys are named by their errors -/
theorem builder_ill_typed_count_or_flag (params : Json) (ef : CsvFile (Edge α)) (vf : CsvFile (Vertex α)) (pe pv : String)
    (he : getConfigPath params "edge_list_input_file" "graph" true = .ok pe)
    (hv : getConfigPath params "vertex_list_input_file" "graph" true = .ok pv) :
    (∀ v, params.get? "n_edges" = some v → v.asU64? = none →
      graphBuilderBuild params true true ef vf = .error .serde) ∧
    (∀ nE v, getConfigOptUsize params "n_edges" = .ok nE → params.get? "n_vertices" = some v → v.asU64? = none →
      graphBuilderBuild params true true ef vf = .error .serde) ∧
    (∀ nE nV v, getConfigOptUsize params "n_edges" = .ok nE → getConfigOptUsize params "n_vertices" = .ok nV →
      params.get? "verbose" = some v → v.asBool? = none →
      graphBuilderBuild params true true ef vf = .error .serde) := by
  refine ⟨fun v hg hu => ?_, fun nE v h3 hg hu => ?_, fun nE nV v h3 h4 hg hu => ?_⟩
  · simp [graphBuilderBuild, he, hv, getConfigOptUsize, hg, hu]
  · simp only [graphBuilderBuild, he, hv, h3]
    simp [getConfigOptUsize, hg, hu]
  · simp only [graphBuilderBuild, he, hv, h3, h4]
    simp [getConfigOptBool, hg, hu]

end

/-! ### per-edge tables: readers and consumers

The model DEFINES a table as the list of its decoded lines and a lookup as `table[edge id]?`
(`tableRow`, `tableGet`), mirroring `read_raw_file` / `from_csv` and `table.get(edge_id.as_usize())`;
that the real readers and the real `get_speed` / `get_headings` / `get_grade` / road-class check behave
so is evidenced by the `table` and `lookup` case streams, not proved.  What is proved over that model:
a table loads whole and in line order or not at all; the consumers' answer for the edge listed in row
`k` of the edge file is line `k` of the table file; and nothing compares the two lengths. -/

/-- a table whose lines all decode is loaded whole and in order, and the row callback ran once per
row -/
theorem read_table_ok {ρ : Type} (l : List ρ) :
    readTable true (l.map Row.ok) = .ok l ∧ callbackCount (l.map Row.ok) = l.length := by
  refine ⟨by simp [readTable, decodeRows_ok], ?_⟩
  induction l with
  | nil => rfl
  | cons x xs ih => simp [callbackCount, ih]

/-- one line that does not decode, or a file that cannot be read to its end, fails the whole table
(never a shorter or shifted one) -/
theorem read_table_errors {ρ : Type} (a : List ρ) (b : List (Row ρ)) (rows : List (Row ρ)) :
    readTable true (a.map Row.ok ++ Row.bad :: b) = .error .io ∧
    callbackCount (a.map Row.ok ++ Row.bad :: b) = a.length ∧
    readTable false rows = .error .io := by
  refine ⟨by simp [readTable, decodeRows_bad], ?_, rfl⟩
  induction a with
  | nil => rfl
  | cons x xs ih => simp [callbackCount, ih]

/-- every successful read: entry `k` of the table is the payload of LINE `k` of the file, for every
`k` (no line is dropped, none is shifted), and there are as many entries as lines -/
theorem read_table_entry_is_file_line {ρ : Type} (rows : List (Row ρ)) (t : List ρ)
    (h : readTable true rows = .ok t) :
    t.length = rows.length ∧ ∀ k, tableRow t k = (rows[k]?).bind Row.payload? := by
  have hd : decodeRows rows = .ok t := by
    unfold readTable at h
    cases hx : decodeRows rows with
    | error e => simp [hx] at h
    | ok l => simpa [hx] using h
  have hr := decodeRows_eq_ok rows t hd
  subst hr
  refine ⟨by simp, fun k => ?_⟩
  simp only [tableRow, List.getElem?_map]
  cases t[k]? <;> rfl

/-- the consumers' lookup succeeds exactly inside the table, and its error names the edge id -/
theorem table_get_ok_iff {β : Type} (t : List β) (e : Nat) :
    ((∃ x, tableGet t e = .ok x) ↔ e < t.length) ∧ (t.length ≤ e → tableGet t e = .error (.missing e)) := by
  unfold tableGet tableRow
  constructor
  · constructor
    · rintro ⟨x, hx⟩
      cases hk : t[e]? with
      | none => simp [hk] at hx
      | some y => exact (List.getElem?_eq_some_iff.1 hk).1
    · intro h
      exact ⟨t[e], by simp [List.getElem?_eq_getElem h]⟩
  · intro h
    simp [List.getElem?_eq_none h]

/-- S8, composed with the loader: for every network that loads and every table file that reads, IF the
table file has one line per row of the edge file (`rows.length = g.nEdges` — a fact about the two files
that the code never checks), then for every edge id `k` of the network the edge retrieved by `k` is the
one listed in row `k` of the edge file and the consumers' lookup for it yields the payload of line `k`
of the table file -/
theorem loaded_network_table_lookup {α ρ : Type} (ef : CsvFile (Edge α)) (vf : CsvFile (Vertex α))
    (nE nV : Option Nat) (g : Graph α) (hg : graphFromFiles ef vf nE nV = .ok g)
    (rows : List (Row ρ)) (t : List ρ) (ht : readTable true rows = .ok t) (hl : rows.length = g.nEdges)
    (k : Nat) (hk : k < g.nEdges) :
    ∃ ed x, g.getEdge k = .ok ed ∧ ed.edgeId = k ∧ ef.rows[k]? = some (.ok ed) ∧
      tableGet t ed.edgeId = .ok x ∧ rows[k]? = some (.ok x) := by
  obtain ⟨es, vs, n, _, _, he, _, _, hr, _, _, _, rfl⟩ := from_files_ok_inv _ _ _ _ _ hg
  have hk' : k < es.length := hk
  obtain ⟨hlen, hrow⟩ := read_table_entry_is_file_line rows t ht
  have hkt : k < t.length := by rw [hlen, hl]; exact hk
  have hkr : k < rows.length := by rw [hl]; exact hk
  have h1 := get_edge_row es vs n hr k hk'
  refine ⟨es[k], t[k], h1.1, h1.2, by rw [he]; simp [List.getElem?_eq_getElem hk'], ?_, ?_⟩
  · rw [h1.2]; simp [tableGet, tableRow, List.getElem?_eq_getElem hkt]
  · have := hrow k
    simp only [tableRow, List.getElem?_eq_getElem hkt, List.getElem?_eq_getElem hkr] at this
    cases hx : rows[k] with
    | bad => rw [hx] at this; simp [Row.payload?] at this
    | ok y =>
      rw [hx] at this
      simp only [Row.payload?, Option.bind_some, Option.some.injEq] at this
      rw [List.getElem?_eq_getElem hkr, hx, this]

/-- the code never compares a table's length with the number of edges: with a table shorter than the
network the load and the read both succeed, and the first edge without a line is a listed, retrievable
edge whose lookup fails when a query reaches it (an explicit error at query time, never another edge's
value; a longer table's extra lines are never looked at) -/
theorem table_shorter_than_network_lookup_fails {α β : Type} (ef : CsvFile (Edge α)) (vf : CsvFile (Vertex α))
    (nE nV : Option Nat) (g : Graph α) (hg : graphFromFiles ef vf nE nV = .ok g) (t : List β)
    (hl : t.length < g.nEdges) :
    ∃ ed, g.getEdge t.length = .ok ed ∧ ed.edgeId = t.length ∧ tableGet t ed.edgeId = .error (.missing t.length) := by
  obtain ⟨es, vs, n, _, _, _, _, _, hr, _, _, _, rfl⟩ := from_files_ok_inv _ _ _ _ _ hg
  have h1 := get_edge_row es vs n hr t.length hl
  exact ⟨_, h1.1, h1.2, by rw [h1.2]; exact (table_get_ok_iff t t.length).2 (Nat.le_refl _)⟩

/-- without a grade table every grade is the zero grade; without a road-class restriction in the query
every edge is valid and the class table is not looked at; with one, the answer is membership of the
edge's class (its line of the class file) in the restriction -/
theorem grade_and_road_class_lookups {β : Type} (zero : β) (t : List β) (lookup allowed : List Nat) (e : Nat) :
    getGrade none zero e = .ok zero ∧ getGrade (some t) zero e = tableGet t e ∧
    roadClassValid lookup none e = .ok true ∧
    (∀ c, tableGet lookup e = .ok c → roadClassValid lookup (some allowed) e = .ok (allowed.contains c)) ∧
    (lookup.length ≤ e → roadClassValid lookup (some allowed) e = .error (.missing e)) := by
  refine ⟨rfl, rfl, rfl, fun c hc => by simp [roadClassValid, hc], fun h => ?_⟩
  simp [roadClassValid, (table_get_ok_iff lookup e).2 h]

/-- `Edge::default()` is the edge 0 from vertex 0 to vertex 1 of unit length -/
theorem edge_default_fields {α : Type} [Lit α] :
    (Edge.default : Edge α).edgeId = 0 ∧ (Edge.default : Edge α).src = 0 ∧ (Edge.default : Edge α).dst = 1 ∧
    (Edge.default : Edge α).distance = one := ⟨rfl, rfl, rfl, rfl⟩

/-! ### counts explicit or scanned, right or wrong: the accessors do not depend on them -/

/-- Q5 at full strength: whenever the same two files load under two ways of giving the counts (explicit,
scanned, too large, or a scan inflated by blank lines), the two graphs have the same edges and vertices
and the same out- and in-edges at every vertex.  (The `Graph` VALUES may differ in the length of their
adjacency tables — `adj_length` — which no accessor exposes; `from_files_ok` gives equal values when the
count in force is the number of vertex rows.) -/
theorem counts_do_not_change_accessors {α : Type} (ef : CsvFile (Edge α)) (vf : CsvFile (Vertex α))
    (nE1 nV1 nE2 nV2 : Option Nat) (g1 g2 : Graph α)
    (h1 : graphFromFiles ef vf nE1 nV1 = .ok g1) (h2 : graphFromFiles ef vf nE2 nV2 = .ok g2) :
    g1.edges = g2.edges ∧ g1.vertices = g2.vertices ∧
    ∀ v, g1.outEdges v = g2.outEdges v ∧ g1.inEdges v = g2.inEdges v := by
  obtain ⟨es, vs, n, _, _, he, hv, _, hr, _, hb, _, rfl⟩ := from_files_ok_inv _ _ _ _ _ h1
  obtain ⟨es', vs', n', _, _, he', hv', _, _, _, hb', _, rfl⟩ := from_files_ok_inv _ _ _ _ _ h2
  have e1 : es' = es := (List.map_injective_iff.2 (fun a b h => by injection h)) (he'.symm.trans he)
  have e2 : vs' = vs := (List.map_injective_iff.2 (fun a b h => by injection h)) (hv'.symm.trans hv)
  subst e1; subst e2
  refine ⟨rfl, rfl, fun v => ⟨?_, ?_⟩⟩
  · rw [out_edges_eq es' vs' n hr hb, out_edges_eq es' vs' n' hr hb']
  · rw [in_edges_eq es' vs' n hr hb, in_edges_eq es' vs' n' hr hb']

/-- a record that does not decode, in either file, never loads — whatever the counts (the error KIND
`CsvError` is `undecodable_edge_row_error` / `undecodable_vertex_row_error`, stated for declared counts) -/
theorem undecodable_row_never_loads {α : Type} (ef : CsvFile (Edge α)) (vf : CsvFile (Vertex α))
    (nE nV : Option Nat) (h : Row.bad ∈ ef.rows ∨ Row.bad ∈ vf.rows) (g : Graph α) :
    graphFromFiles ef vf nE nV ≠ .ok g := by
  intro hg
  obtain ⟨es, vs, _, _, _, he, hv, _⟩ := from_files_ok_inv _ _ _ _ _ hg
  rcases h with h | h
  · rw [he] at h; simp at h
  · rw [hv] at h; simp at h

/-! ### allocation of the adjacency tables -/

/-- a declared or scanned vertex count beyond the allocation limit is a `DatasetError` (after the counts
were obtained, before the edge file is read — also when that file is missing); at or below the limit the
allocation step changes nothing (before the repair in /repo the first case was a panic) -/
theorem alloc_limit {α : Type} (cap : Nat) (ef : CsvFile (Edge α)) (vf : CsvFile (Vertex α))
    (nE nV : Option Nat) (k n : Nat) (hE : countOrScan nE ef = .ok k) (hV : countOrScan nV vf = .ok n) :
    (cap < n → graphFromFilesAlloc cap ef vf nE nV = .error .dataset) ∧
    (n ≤ cap → graphFromFilesAlloc cap ef vf nE nV = graphFromFiles ef vf nE nV) := by
  constructor <;> intro h <;> simp only [graphFromFilesAlloc, hE, hV]
  · simp [h]
  · simp [Nat.not_lt.2 h]

/-- hence every network that loads through the allocating entry point is a network that
`graphFromFiles` loads: all theorems of this file apply to it -/
theorem alloc_ok_is_load {α : Type} (cap : Nat) (ef : CsvFile (Edge α)) (vf : CsvFile (Vertex α))
    (nE nV : Option Nat) (g : Graph α) (h : graphFromFilesAlloc cap ef vf nE nV = .ok g) :
    graphFromFiles ef vf nE nV = .ok g := by
  unfold graphFromFilesAlloc at h
  cases h1 : countOrScan nE ef with
  | error x => simp [h1] at h
  | ok k =>
    cases h2 : countOrScan nV vf with
    | error x => simp [h1, h2] at h
    | ok n =>
      simp only [h1, h2] at h
      split at h
      · simp at h
      · exact h

/-! ### the vertex decoder composed with the loader -/

/-- Q4 composed with the loader: a vertex file given as records of (column name, cell) pairs in which
record `k` has exactly one `vertex_id` column parsing to `k`, one `x` and one `y` column, each parseable —
in ANY column order, possibly a different one in every record, with any other columns — decodes to the
listed vertices, so together with an edge file in the documented format it loads to the listed network -/
theorem vertex_file_any_column_order {α : Type} (recs : List (List (String × Cell α))) (vs : List (Vertex α))
    (hlen : recs.length = vs.length)
    (h : ∀ k (h1 : k < recs.length) (h2 : k < vs.length),
      (∃ a c b, recs[k] = a ++ ("vertex_id", c) :: b ∧ c.asUsize = some vs[k].vertexId ∧
        (∀ e ∈ a, e.1 ≠ "vertex_id") ∧ ∀ e ∈ b, e.1 ≠ "vertex_id") ∧
      (∃ a c b, recs[k] = a ++ ("x", c) :: b ∧ c.asF32 = some vs[k].x ∧ (∀ e ∈ a, e.1 ≠ "x") ∧ ∀ e ∈ b, e.1 ≠ "x") ∧
      (∃ a c b, recs[k] = a ++ ("y", c) :: b ∧ c.asF32 = some vs[k].y ∧ (∀ e ∈ a, e.1 ≠ "y") ∧ ∀ e ∈ b, e.1 ≠ "y")) :
    recs.map decodeVertexRow = vs.map Row.ok := by
  apply List.ext_getElem
  · simp [hlen]
  · intro k h1 h2
    have k1 : k < recs.length := by simpa using h1
    have k2 : k < vs.length := by simpa using h2
    obtain ⟨hi, hx, hy⟩ := h k k1 k2
    simp only [List.getElem_map, decodeVertexRow,
      decode_vertex_any_column_order recs[k] vs[k].vertexId vs[k].x vs[k].y hi hx hy]

theorem loaded_vertices_any_column_order {α : Type} (es : List (Edge α)) (recs : List (List (String × Cell α)))
    (vs : List (Vertex α)) (el vl : Nat) (nE nV : Option Nat) (hE : nE ≠ none ∨ 1 ≤ el)
    (hV : nV = some vs.length ∨ (nV = none ∧ vl = vs.length + 1))
    (hr : RowIds es) (hb : EndpointsBelow es vs.length) (hv : VertexRowIds vs)
    (hlen : recs.length = vs.length)
    (h : ∀ k (h1 : k < recs.length) (h2 : k < vs.length),
      (∃ a c b, recs[k] = a ++ ("vertex_id", c) :: b ∧ c.asUsize = some vs[k].vertexId ∧
        (∀ e ∈ a, e.1 ≠ "vertex_id") ∧ ∀ e ∈ b, e.1 ≠ "vertex_id") ∧
      (∃ a c b, recs[k] = a ++ ("x", c) :: b ∧ c.asF32 = some vs[k].x ∧ (∀ e ∈ a, e.1 ≠ "x") ∧ ∀ e ∈ b, e.1 ≠ "x") ∧
      (∃ a c b, recs[k] = a ++ ("y", c) :: b ∧ c.asF32 = some vs[k].y ∧ (∀ e ∈ a, e.1 ≠ "y") ∧ ∀ e ∈ b, e.1 ≠ "y")) :
    ∃ g, graphFromFiles ⟨true, el, true, es.map Row.ok⟩ ⟨true, vl, true, recs.map decodeVertexRow⟩ nE nV = .ok g ∧
      Describes g es vs := by
  rw [vertex_file_any_column_order recs vs hlen h]
  exact listed_network_loads es vs el vl nE nV hE hV hr hb hv

/-- with a DUPLICATED column name the decoder is order dependent (the last `x` before the triple is
complete wins): the hypothesis "exactly one column of each name" of `decode_vertex_any_column_order`
cannot be dropped.  A second column named like a required one is accepted silently. -/
theorem decode_vertex_duplicate_column_order_dependent_counterexample :
    let c (n : Nat) : Cell Nat := ⟨some n, some n⟩
    decodeVertex (some [some ("x", c 1), some ("vertex_id", c 0), some ("x", c 2), some ("y", c 5)]) false = .ok ⟨0, 2, 5⟩ ∧
    decodeVertex (some [some ("vertex_id", c 0), some ("x", c 1), some ("y", c 5), some ("x", c 2)]) false = .ok ⟨0, 1, 5⟩ := by
  decide

/-! ### the adjacency entry is C11's specification -/

/-- the abstract adjacency entry of this model and the specification C11 proves the Rust container
against are the same function (so C11's refinement theorems speak about `adjInsert`; the composition
"`Graph` over the real container" is not formalised beyond this equality) -/
theorem adjacency_entry_is_container_spec (k v : Nat) (m : AdjMap) : adjInsert k v m = Spec.insert m k v := by
  induction m with
  | nil => rfl
  | cons p r ih =>
    obtain ⟨k', v'⟩ := p
    by_cases h : k' = k
    · simp [adjInsert, Spec.insert, h]
    · simp [adjInsert, Spec.insert, h, ih]

/-! ### non-vacuity -/

/-- a star: `n` edges leave vertex 0 (ids `0 … n-1`), for any `n` — degrees are unbounded -/
def star (n : Nat) : List (Edge Nat) := (List.range n).map (fun i => ⟨i, 0, i % 3, i + 1⟩)

theorem star_rowIds (n : Nat) : RowIds (star n) := by
  intro i h
  simp [star]

theorem star_endpoints (n : Nat) : EndpointsBelow (star n) 3 := by
  intro e he
  simp only [star, List.mem_map, List.mem_range] at he
  obtain ⟨i, _, rfl⟩ := he
  exact ⟨by simp, Nat.mod_lt _ (by decide)⟩

/-- for every `n` there is a listed network with a vertex of out-degree exactly `n`, all of whose
edges are returned -/
theorem degree_unbounded (n : Nat) :
    ((buildGraph (star n) (wVertices 3) 3).outEdges 0) = List.range n := by
  rw [out_edges_eq _ _ _ (star_rowIds n) (star_endpoints n)]
  have : (star n).filter (fun e => decide (e.src = 0)) = star n := by
    rw [List.filter_eq_self]
    intro e he
    simp only [star, List.mem_map, List.mem_range] at he
    obtain ⟨i, _, rfl⟩ := he
    simp
  rw [this, (star_rowIds n).map_eq_range]
  simp [star]

-- the hypotheses of the main theorems are satisfiable with out-degree 7 and in-degree ≥ 2 (past the
-- container's four inline representations), parallel edges (0 → 0 … ) and self loops (edge 0, 3, 6)
example : RowIds (star 7) ∧ EndpointsBelow (star 7) 3 := ⟨star_rowIds 7, star_endpoints 7⟩
example : (buildGraph (star 7) (wVertices 3) 3).outEdges 0 = [0, 1, 2, 3, 4, 5, 6] := by decide
example : (buildGraph (star 7) (wVertices 3) 3).inEdges 0 = [0, 3, 6] := by decide
example : (buildGraph (star 7) (wVertices 3) 3).inEdges 1 = [1, 4] := by decide
example : (buildGraph (star 7) (wVertices 3) 3).getEdge 5 = .ok ⟨5, 0, 2, 6⟩ := by decide
example : (buildGraph (star 7) (wVertices 3) 3).incidentTripletIds 1 .reverse = .ok [(1, 1, 0), (1, 4, 0)] := by decide
example : (buildGraph (star 7) (wVertices 3) 3).edgeTriplet 5 = .ok (⟨0, 0, 0⟩, ⟨5, 0, 2, 6⟩, ⟨2, 20, 40⟩) := by decide
example : ∃ g, graphFromFiles ⟨true, 8, true, (star 7).map Row.ok⟩ ⟨true, 4, true, (wVertices 3).map Row.ok⟩ none none = .ok g ∧
    Describes g (star 7) (wVertices 3) :=
  listed_network_loads (star 7) (wVertices 3) 8 4 none none (Or.inr (by decide)) (Or.inr ⟨rfl, rfl⟩)
    (star_rowIds 7) (star_endpoints 7) (by intro i h; simp [wVertices])
-- the hypotheses of the rejection theorems are satisfiable
example : ¬ RowIds w1Edges := fun h => absurd (h 0 (by decide)) (by decide)
example : ¬ EndpointsBelow w2Edges 2 := fun h => absurd (h ⟨1, 1, 5, 9⟩ (by simp [w2Edges])).2 (by decide)
example : ¬ EndpointsBelow w8Edges (wVertices 2).length :=
  fun h => absurd (h ⟨1, 1, 2, 9⟩ (by simp [w8Edges])).2 (by decide)
-- a too-large declared count and a scan inflated by a blank line are harmless when no edge reaches
-- beyond the vertex rows: the load succeeds (so `loaded_network_is_listed` is not vacuous there)
example : ∃ g, graphFromFiles ⟨true, 3, true, w1Edges.reverse.map Row.ok⟩ ⟨true, 4, true, (wVertices 2).map Row.ok⟩ none (some 5) = .ok g ∧
    g.adj.length = 5 ∧ g.nVertices = 2 := ⟨_, rfl, by decide, by decide⟩
example : ¬ VertexRowIds ([⟨1, 10, 20⟩, ⟨0, 30, 40⟩] : List (Vertex Nat)) := fun h => absurd (h 0 (by decide)) (by decide)
-- a duplicated id at one vertex overwrites in place (the general theorems' `outFold`), it does not append
example : adjKeys (outFold 0 ([⟨0, 0, 1, 7⟩, ⟨0, 0, 2, 9⟩] : List (Edge Nat)) []) = [0] := by decide
-- the error theorems are not vacuous
example : graphFromFiles (α := Nat) ⟨false, 0, false, []⟩ ⟨true, 1, true, []⟩ none none = .error .io := rfl
example : graphFromFiles (α := Nat) ⟨true, 0, false, []⟩ ⟨true, 1, true, []⟩ none none = .error .dataset := rfl
example : graphFromFiles (α := Nat) ⟨true, 2, true, [.bad]⟩ ⟨true, 1, true, []⟩ none none = .error .csv := rfl

-- the new groups are not vacuous either
-- (1) a vertex row with its columns in the order z, y, vertex_id, name, x
def exRow : List (String × Cell Nat) :=
  [("z", ⟨none, none⟩), ("y", ⟨some 40, some 40⟩), ("vertex_id", ⟨some 3, some 3⟩), ("name", ⟨none, none⟩),
    ("x", ⟨some 12, some 12⟩)]
example : decodeVertex (some (exRow.map some)) false = .ok ⟨3, 12, 40⟩ :=
  decode_vertex_any_column_order exRow 3 12 40
    ⟨[("z", ⟨none, none⟩), ("y", ⟨some 40, some 40⟩)], ⟨some 3, some 3⟩, [("name", ⟨none, none⟩), ("x", ⟨some 12, some 12⟩)],
      rfl, rfl, by decide, by decide⟩
    ⟨[("z", ⟨none, none⟩), ("y", ⟨some 40, some 40⟩), ("vertex_id", ⟨some 3, some 3⟩), ("name", ⟨none, none⟩)],
      ⟨some 12, some 12⟩, [], rfl, rfl, by decide, by decide⟩
    ⟨[("z", ⟨none, none⟩)], ⟨some 40, some 40⟩,
      [("vertex_id", ⟨some 3, some 3⟩), ("name", ⟨none, none⟩), ("x", ⟨some 12, some 12⟩)], rfl, rfl, by decide, by decide⟩
example : decodeVertex (some ((exRow.take 4).map some)) false = .error .incomplete := by decide
example : decodeVertex (some [some ("vertex_id", (⟨none, some 1⟩ : Cell Nat))]) false = .error .parseId := by decide
example : decodeVertex (none : Option (List (Option (String × Cell Nat)))) false = .error .notMap := rfl
-- (2) a gzip file cut short / an empty file, with explicit counts
example : graphFromFiles ⟨false, 41, true, (star 7).map Row.ok⟩ ⟨true, 4, true, (wVertices 3).map Row.ok⟩ (some 7) (some 3) =
    .error .csv := rfl
example : graphFromFiles ⟨true, 0, false, ([] : List (Row (Edge Nat)))⟩ ⟨true, 4, true, (wVertices 3).map Row.ok⟩ (some 7) (some 3) =
    .error .csv := rfl
-- a file that is nothing but a header row WITHOUT the required column names (flag false, no records),
-- scanned counts: a load error, not an empty network (W17); WITH them it is an empty network
example : graphFromFiles ⟨true, 1, false, ([] : List (Row (Edge Nat)))⟩ ⟨true, 4, true, (wVertices 3).map Row.ok⟩ none none =
    .error .csv := rfl
example : ∃ g, graphFromFiles ⟨true, 1, true, ([] : List (Row (Edge Nat)))⟩ ⟨true, 4, true, (wVertices 3).map Row.ok⟩ none none =
    .ok g ∧ g.nEdges = 0 ∧ g.nVertices = 3 := ⟨_, rfl, rfl, rfl⟩
-- (3) a Graph value whose fields disagree: edge 0 ends at a vertex that is not there, an adjacency entry
-- names an edge that is not there
def exGraph : Graph Nat := { adj := [[(0, 1), (5, 1)]], rev := [], edges := [⟨0, 0, 4, 9⟩], vertices := [⟨0, 1, 2⟩] }
example : exGraph.edgeTriplet 0 = .error (.vertexNotFound 4) := by decide
example : exGraph.incidentTripletIds 0 .forward = .error (.edgeNotFound 5) := by decide
example : exGraph.incidentTripletAttributes 0 .forward = .error (.edgeNotFound 5) := by decide
example : exGraph.inEdges 0 = [] ∧ exGraph.outEdges 0 = [0, 5] := by decide
example : (buildGraph (star 7) (wVertices 3) 3).incidentTripletAttributes 1 .reverse =
    .ok [(⟨1, 10, 20⟩, ⟨1, 0, 1, 2⟩, ⟨0, 0, 0⟩), (⟨1, 10, 20⟩, ⟨4, 0, 1, 5⟩, ⟨0, 0, 0⟩)] := by decide
-- (4) a configuration section that builds, and three that do not
def exParams (extra : List (String × Json)) : Json :=
  .obj ([("vertex_list_input_file", .str "v.csv"), ("edge_list_input_file", .str "e.csv.gz")] ++ extra)
example : ∃ g, graphBuilderBuild (exParams [("verbose", .bool true), ("comment", .null)]) true true
    ⟨true, 8, true, (star 7).map Row.ok⟩ ⟨true, 4, true, (wVertices 3).map Row.ok⟩ = .ok g ∧ g.nEdges = 7 :=
  ⟨buildGraph (star 7) (wVertices 3) 3, rfl, rfl⟩
example : graphBuilderBuild (α := Nat) (exParams [("n_edges", .str "7")]) true true ⟨true, 8, true, []⟩ ⟨true, 4, true, []⟩ =
    .error .serde := rfl
example : graphBuilderBuild (α := Nat) (exParams []) true false ⟨true, 8, true, []⟩ ⟨true, 4, true, []⟩ =
    .error (.fileNotFound "v.csv" "vertex_list_input_file" "graph") := rfl
example : graphBuilderBuild (α := Nat) (.arr []) true true ⟨true, 8, true, []⟩ ⟨true, 4, true, []⟩ =
    .error (.expectedField "edge_list_input_file" "graph") := rfl
example : graphBuilderBuild (α := Nat) (exParams []) true true ⟨false, 0, false, []⟩ ⟨true, 4, true, []⟩ =
    .error (.graph .io) := rfl

-- (5) per-edge tables: the star network of 7 edges with a speed file of 7 lines — every hypothesis of
-- `loaded_network_table_lookup` instantiated — and with one of 5 lines
def exSpeedFile : List (Row Nat) := [.ok 30, .ok 50, .ok 50, .ok 90, .ok 110, .ok 30, .ok 70]
example : ∃ ed x, (buildGraph (star 7) (wVertices 3) 3).getEdge 4 = .ok ed ∧ ed.edgeId = 4 ∧
    ((star 7).map Row.ok)[4]? = some (.ok ed) ∧ tableGet [30, 50, 50, 90, 110, 30, 70] ed.edgeId = .ok x ∧
    exSpeedFile[4]? = some (.ok x) :=
  loaded_network_table_lookup ⟨true, 8, true, (star 7).map Row.ok⟩ ⟨true, 4, true, (wVertices 3).map Row.ok⟩ none none _
    (from_files_ok (star 7) (wVertices 3) 8 4 none none (Or.inr (by decide)) (Or.inr ⟨rfl, rfl⟩)
      (star_rowIds 7) (star_endpoints 7) (by intro i h; simp [wVertices]))
    exSpeedFile [30, 50, 50, 90, 110, 30, 70] rfl rfl 4 (by decide)
example : ∃ ed, (buildGraph (star 7) (wVertices 3) 3).getEdge 5 = .ok ed ∧ ed.edgeId = 5 ∧
    tableGet [30, 50, 50, 90, 110] ed.edgeId = .error (.missing 5) :=
  table_shorter_than_network_lookup_fails ⟨true, 8, true, (star 7).map Row.ok⟩ ⟨true, 4, true, (wVertices 3).map Row.ok⟩ none none _
    (from_files_ok (star 7) (wVertices 3) 8 4 none none (Or.inr (by decide)) (Or.inr ⟨rfl, rfl⟩)
      (star_rowIds 7) (star_endpoints 7) (by intro i h; simp [wVertices]))
    [30, 50, 50, 90, 110] (by decide)
-- (6) the same files under a scanned vertex count (3) and a declared one that is too large (5): both
-- load, the tables differ in length, the accessors do not
example : ∃ g1 g2, graphFromFiles ⟨true, 8, true, (star 7).map Row.ok⟩ ⟨true, 4, true, (wVertices 3).map Row.ok⟩ none none = .ok g1 ∧
    graphFromFiles ⟨true, 8, true, (star 7).map Row.ok⟩ ⟨true, 4, true, (wVertices 3).map Row.ok⟩ (some 99) (some 5) = .ok g2 ∧
    g1.adj.length = 3 ∧ g2.adj.length = 5 ∧ ∀ v, g1.outEdges v = g2.outEdges v ∧ g1.inEdges v = g2.inEdges v :=
  ⟨buildGraph (star 7) (wVertices 3) 3, buildGraph (star 7) (wVertices 3) 5, rfl, rfl, by decide, by decide,
    (counts_do_not_change_accessors ⟨true, 8, true, (star 7).map Row.ok⟩ ⟨true, 4, true, (wVertices 3).map Row.ok⟩
      none none (some 99) (some 5) _ _ rfl rfl).2.2⟩
-- (7) a declared vertex count beyond the allocation limit, and one below it
example : graphFromFilesAlloc (α := Nat) 128102389400760775 ⟨true, 8, true, (star 7).map Row.ok⟩ ⟨true, 4, true, (wVertices 3).map Row.ok⟩
    (some 7) (some 18446744073709551615) = .error .dataset :=
  (alloc_limit _ _ _ _ _ 7 18446744073709551615 rfl rfl).1 (by decide)
-- (8) a vertex file whose two records have different column orders and a bystander column
def exRecs : List (List (String × Cell Nat)) :=
  [[("y", ⟨some 0, some 0⟩), ("vertex_id", ⟨some 0, some 0⟩), ("x", ⟨some 0, some 0⟩)],
   [("vertex_id", ⟨some 1, some 1⟩), ("name", ⟨none, none⟩), ("x", ⟨some 10, some 10⟩), ("y", ⟨some 20, some 20⟩)]]
example : exRecs.map decodeVertexRow = (wVertices 2).map Row.ok :=
  vertex_file_any_column_order exRecs (wVertices 2) rfl (by
    intro k h1 h2
    match k, h1, h2 with
    | 0, _, _ =>
      exact ⟨⟨[("y", ⟨some 0, some 0⟩)], ⟨some 0, some 0⟩, [("x", ⟨some 0, some 0⟩)], rfl, rfl, by decide, by decide⟩,
        ⟨[("y", ⟨some 0, some 0⟩), ("vertex_id", ⟨some 0, some 0⟩)], ⟨some 0, some 0⟩, [], rfl, rfl, by decide, by decide⟩,
        ⟨[], ⟨some 0, some 0⟩, [("vertex_id", ⟨some 0, some 0⟩), ("x", ⟨some 0, some 0⟩)], rfl, rfl, by decide, by decide⟩⟩
    | 1, _, _ =>
      exact ⟨⟨[], ⟨some 1, some 1⟩, [("name", ⟨none, none⟩), ("x", ⟨some 10, some 10⟩), ("y", ⟨some 20, some 20⟩)], rfl, rfl, by decide, by decide⟩,
        ⟨[("vertex_id", ⟨some 1, some 1⟩), ("name", ⟨none, none⟩)], ⟨some 10, some 10⟩, [("y", ⟨some 20, some 20⟩)], rfl, rfl, by decide, by decide⟩,
        ⟨[("vertex_id", ⟨some 1, some 1⟩), ("name", ⟨none, none⟩), ("x", ⟨some 10, some 10⟩)], ⟨some 20, some 20⟩, [], rfl, rfl, by decide, by decide⟩⟩
    | k + 2, h1, _ => exact absurd h1 (by simp [exRecs]))

end C15
end Compass

namespace Compass
namespace C15
open Src

/-! ### Source decision ties

The relational operators at the named comparison sites of the Rust source are re-extracted on every run
by `tools/gen_model.py` into `Compass/Gen/Decisions.lean` (`Src.<site> : Src.Rel`).  Each theorem below
says that the hand-written model decides at that site by exactly the operator the source has there
(`Rel.nat` / `Rel.int` / `Rel.num` interpret the extracted operator; an unrecognised line is `none`).  A
source change that turns `<` into `<=`, `>` into `>=`, … at a site changes the generated constant and this
proof obligation stops checking, whether or not a generated case lands on the tie. -/

theorem src_loader_endpoints_in_range {α : Type} (es : List (Edge α)) (n : Nat) :
    endpointsWithin es n =
      es.all (fun e => (loader_src_in_range.nat e.src n == some false) &&
                       (loader_dst_in_range.nat e.dst n == some false)) := by
  simp only [endpointsWithin, loader_src_in_range, loader_dst_in_range, Rel.nat]
  congr 1; funext e
  by_cases h1 : e.src < n <;> by_cases h2 : e.dst < n <;> simp [h1, h2] <;> omega

end C15
end Compass
