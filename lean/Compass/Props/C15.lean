/-
C15 — the loaded network is exactly the one described by the edge/vertex files.

Model: `Compass.Model.Graph` (the `EdgeLoader` row callback folded over the decoded rows, the `Graph`
accessors, the order of evaluation and error kinds of `graph_from_files`).  File decoding (csv, gzip,
line counting) is not modelled; it is covered by the differential run only (harness/src/c15.rs), which
also ties this model to the real `Graph::from_files` on every run.

Domain of the property ("the listed network"): the documented input format, in which the id of an
edge / vertex is the number of its row and every endpoint is a listed vertex:
`RowIds es`, `VertexRowIds vs`, `EndpointsBelow es vs.length`.  Since /repo 0316a94, c6cac08 and
c9969cf the loader checks all three (and that every endpoint is below the declared / scanned vertex
count), so the top-level statement is proved for EVERY input without hypothesis
(`loaded_network_is_listed`).  What the loader builds from arbitrary rows is stated by the
`…_general` theorems.

Adjacency order: `out_edges v` is the rows leaving `v` *in file order* (the container's `keys()` yields
insertion order in each of its representations); nothing bounds a vertex's degree.
-/
import Compass.Proofs.Graph
import Compass.Proofs.GraphIO

namespace Compass
namespace C15

open Graph

section
variable {α : Type}

/-! ### sizes, edges and vertices by position (true of every input) -/

theorem n_edges_eq (es : List (Edge α)) (vs : List (Vertex α)) (nV : Nat) :
    (buildGraph es vs nV).nEdges = es.length := rfl

theorem n_vertices_eq (es : List (Edge α)) (vs : List (Vertex α)) (nV : Nat) :
    (buildGraph es vs nV).nVertices = vs.length := rfl

/-- `get_edge i` is row `i` of the edge file, whatever id that row carries -/
theorem get_edge_general (es : List (Edge α)) (vs : List (Vertex α)) (nV i : Nat) :
    (buildGraph es vs nV).getEdge i =
      match es[i]? with
      | some e => .ok e
      | none => .error (.edgeNotFound i) := by
  simp only [Graph.getEdge, buildGraph]
  cases es[i]? <;> rfl

/-- `get_vertex i` is row `i` of the vertex file, whatever id that row carries -/
theorem get_vertex_general (es : List (Edge α)) (vs : List (Vertex α)) (nV i : Nat) :
    (buildGraph es vs nV).getVertex i =
      match vs[i]? with
      | some v => .ok v
      | none => .error (.vertexNotFound i) := by
  simp only [Graph.getVertex, buildGraph]
  cases vs[i]? <;> rfl

/-- the adjacency tables have the declared (or scanned) vertex count, not the vertex file's -/
theorem adj_length (es : List (Edge α)) (vs : List (Vertex α)) (nV : Nat) :
    (buildGraph es vs nV).adj.length = nV ∧ (buildGraph es vs nV).rev.length = nV := by
  simp [buildGraph, loadEdges, foldl_step_adj_length, foldl_step_rev_length, EdgeLoad.init]

/-- every input: the forward entry of `v` is the callback's fold over the rows leaving `v`; a vertex at
or beyond the declared count has no entry, and the rows leaving it are silently ignored -/
theorem out_edges_general (es : List (Edge α)) (vs : List (Vertex α)) (nV v : Nat) :
    (buildGraph es vs nV).outEdges v = if v < nV then adjKeys (outFold v es []) else [] := by
  simp only [Graph.outEdges, buildGraph, loadEdges, foldl_step_adj_get, EdgeLoad.init]
  by_cases h : v < nV
  · simp [h]
  · simp [h]

theorem in_edges_general (es : List (Edge α)) (vs : List (Vertex α)) (nV v : Nat) :
    (buildGraph es vs nV).inEdges v = if v < nV then adjKeys (inFold v es []) else [] := by
  simp only [Graph.inEdges, buildGraph, loadEdges, foldl_step_rev_get, EdgeLoad.init]
  by_cases h : v < nV
  · simp [h]
  · simp [h]

/-! ### the listed network (ids are row numbers) -/

/-- every listed edge is retrievable by its id, with its source, destination and length -/
theorem get_edge_by_id (es : List (Edge α)) (vs : List (Vertex α)) (nV : Nat) (h : RowIds es)
    (e : Edge α) (he : e ∈ es) : (buildGraph es vs nV).getEdge e.edgeId = .ok e := by
  obtain ⟨hi, hx⟩ := (h.mem_iff e).1 he
  rw [get_edge_general, List.getElem?_eq_getElem hi, hx]

theorem get_edge_row (es : List (Edge α)) (vs : List (Vertex α)) (nV : Nat) (h : RowIds es)
    (i : Nat) (hi : i < es.length) :
    (buildGraph es vs nV).getEdge i = .ok es[i] ∧ es[i].edgeId = i := by
  refine ⟨?_, h i hi⟩
  rw [get_edge_general, List.getElem?_eq_getElem hi]

/-- an id that is not listed is reported, not invented -/
theorem get_edge_not_listed (es : List (Edge α)) (vs : List (Vertex α)) (nV i : Nat) (hi : es.length ≤ i) :
    (buildGraph es vs nV).getEdge i = .error (.edgeNotFound i) := by
  rw [get_edge_general, List.getElem?_eq_none hi]

theorem src_dst_vertex_id (es : List (Edge α)) (vs : List (Vertex α)) (nV : Nat) (h : RowIds es)
    (e : Edge α) (he : e ∈ es) :
    (buildGraph es vs nV).srcVertexId e.edgeId = .ok e.src ∧
    (buildGraph es vs nV).dstVertexId e.edgeId = .ok e.dst ∧
    (buildGraph es vs nV).incidentVertex e.edgeId .forward = .ok e.dst ∧
    (buildGraph es vs nV).incidentVertex e.edgeId .reverse = .ok e.src := by
  simp [Graph.srcVertexId, Graph.dstVertexId, Graph.incidentVertex, get_edge_by_id es vs nV h e he]

/-- the outgoing edges of `v` are precisely the listed edges that leave it, in file order, however
many there are; `nV` may be any count that covers the endpoints (declared, or scanned and therefore
possibly larger than the number of vertex rows) -/
theorem out_edges_eq (es : List (Edge α)) (vs : List (Vertex α)) (nV : Nat) (h : RowIds es)
    (hb : EndpointsBelow es nV) (v : Nat) :
    (buildGraph es vs nV).outEdges v = (es.filter (fun e => e.src = v)).map Edge.edgeId := by
  rw [out_edges_general]
  by_cases hv : v < nV
  · rw [if_pos hv, outFold_of_nodup v es [] (by simpa [adjKeys] using h.nodup_filter _)]
    simp [adjKeys]
  · rw [if_neg hv]
    symm
    rw [List.map_eq_nil_iff, List.filter_eq_nil_iff]
    intro e he
    have := (hb e he).1
    simp only [decide_eq_true_eq]
    omega

/-- the incoming edges of `v` are precisely the listed edges that enter it, in file order -/
theorem in_edges_eq (es : List (Edge α)) (vs : List (Vertex α)) (nV : Nat) (h : RowIds es)
    (hb : EndpointsBelow es nV) (v : Nat) :
    (buildGraph es vs nV).inEdges v = (es.filter (fun e => e.dst = v)).map Edge.edgeId := by
  rw [in_edges_general]
  by_cases hv : v < nV
  · rw [if_pos hv, inFold_of_nodup v es [] (by simpa [adjKeys] using h.nodup_filter _)]
    simp [adjKeys]
  · rw [if_neg hv]
    symm
    rw [List.map_eq_nil_iff, List.filter_eq_nil_iff]
    intro e he
    have := (hb e he).2
    simp only [decide_eq_true_eq]
    omega

theorem incident_edges_eq (es : List (Edge α)) (vs : List (Vertex α)) (nV : Nat) (h : RowIds es)
    (hb : EndpointsBelow es nV) (v : Nat) :
    (buildGraph es vs nV).incidentEdges v .forward = (es.filter (fun e => e.src = v)).map Edge.edgeId ∧
    (buildGraph es vs nV).incidentEdges v .reverse = (es.filter (fun e => e.dst = v)).map Edge.edgeId :=
  ⟨out_edges_eq es vs nV h hb v, in_edges_eq es vs nV h hb v⟩

theorem mem_out_edges_iff (es : List (Edge α)) (vs : List (Vertex α)) (nV : Nat) (h : RowIds es)
    (hb : EndpointsBelow es nV) (v x : Nat) :
    x ∈ (buildGraph es vs nV).outEdges v ↔ ∃ hx : x < es.length, es[x].src = v := by
  rw [out_edges_eq es vs nV h hb]
  simp only [List.mem_map, List.mem_filter, decide_eq_true_eq]
  constructor
  · rintro ⟨e, ⟨he, hs⟩, rfl⟩
    obtain ⟨hi, hx⟩ := (h.mem_iff e).1 he
    exact ⟨hi, by rw [hx]; exact hs⟩
  · rintro ⟨hx, hs⟩
    exact ⟨es[x], ⟨List.getElem_mem hx, hs⟩, h x hx⟩

theorem mem_in_edges_iff (es : List (Edge α)) (vs : List (Vertex α)) (nV : Nat) (h : RowIds es)
    (hb : EndpointsBelow es nV) (v x : Nat) :
    x ∈ (buildGraph es vs nV).inEdges v ↔ ∃ hx : x < es.length, es[x].dst = v := by
  rw [in_edges_eq es vs nV h hb]
  simp only [List.mem_map, List.mem_filter, decide_eq_true_eq]
  constructor
  · rintro ⟨e, ⟨he, hs⟩, rfl⟩
    obtain ⟨hi, hx⟩ := (h.mem_iff e).1 he
    exact ⟨hi, by rw [hx]; exact hs⟩
  · rintro ⟨hx, hs⟩
    exact ⟨es[x], ⟨List.getElem_mem hx, hs⟩, h x hx⟩

/-- no edge is listed twice at a vertex -/
theorem out_in_edges_nodup (es : List (Edge α)) (vs : List (Vertex α)) (nV : Nat) (h : RowIds es)
    (hb : EndpointsBelow es nV) (v : Nat) :
    ((buildGraph es vs nV).outEdges v).Nodup ∧ ((buildGraph es vs nV).inEdges v).Nodup := by
  rw [out_edges_eq es vs nV h hb, in_edges_eq es vs nV h hb]
  exact ⟨h.nodup_filter _, h.nodup_filter _⟩

/-- "however many there are": the out- and in-degree are the number of listed rows, without bound -/
theorem degree_eq_count (es : List (Edge α)) (vs : List (Vertex α)) (nV : Nat) (h : RowIds es)
    (hb : EndpointsBelow es nV) (v : Nat) :
    ((buildGraph es vs nV).outEdges v).length = es.countP (fun e => e.src = v) ∧
    ((buildGraph es vs nV).inEdges v).length = es.countP (fun e => e.dst = v) := by
  rw [out_edges_eq es vs nV h hb, in_edges_eq es vs nV h hb]
  simp [List.countP_eq_length_filter]

/-- forward and reverse adjacency describe the same edge set: membership … -/
theorem fwd_rev_same_edge_set (es : List (Edge α)) (vs : List (Vertex α)) (nV : Nat) (h : RowIds es)
    (hb : EndpointsBelow es nV) (x : Nat) :
    (∃ v, x ∈ (buildGraph es vs nV).outEdges v) ↔ (∃ w, x ∈ (buildGraph es vs nV).inEdges w) := by
  simp only [mem_out_edges_iff es vs nV h hb, mem_in_edges_iff es vs nV h hb]
  constructor
  · rintro ⟨_, hx, _⟩
    exact ⟨_, hx, rfl⟩
  · rintro ⟨_, hx, _⟩
    exact ⟨_, hx, rfl⟩

/-- … each listed edge is an out-edge of its source and an in-edge of its destination, and of no
other vertex … -/
theorem edge_at_its_endpoints (es : List (Edge α)) (vs : List (Vertex α)) (nV : Nat) (h : RowIds es)
    (hb : EndpointsBelow es nV) (x : Nat) (hx : x < es.length) (v : Nat) :
    (x ∈ (buildGraph es vs nV).outEdges v ↔ v = es[x].src) ∧
    (x ∈ (buildGraph es vs nV).inEdges v ↔ v = es[x].dst) := by
  rw [mem_out_edges_iff es vs nV h hb, mem_in_edges_iff es vs nV h hb]
  exact ⟨⟨fun ⟨_, e⟩ => e.symm, fun e => ⟨hx, e.symm⟩⟩, ⟨fun ⟨_, e⟩ => e.symm, fun e => ⟨hx, e.symm⟩⟩⟩

/-- … and as multisets: all out-edges, all in-edges and all edge ids are permutations of each other -/
theorem all_out_edges_perm (es : List (Edge α)) (vs : List (Vertex α)) (nV : Nat) (h : RowIds es)
    (hb : EndpointsBelow es nV) :
    ((List.range nV).flatMap (buildGraph es vs nV).outEdges).Perm (List.range es.length) := by
  have e1 : (List.range nV).flatMap (buildGraph es vs nV).outEdges =
      ((List.range nV).flatMap (fun v => es.filter (fun e => decide (e.src = v)))).map Edge.edgeId := by
    rw [List.map_flatMap]
    congr 1
    funext v
    exact out_edges_eq es vs nV h hb v
  rw [e1, ← h.map_eq_range]
  exact (flatMap_filter_perm (fun e => e.src) es nV (fun e he => (hb e he).1)).map _

theorem all_in_edges_perm (es : List (Edge α)) (vs : List (Vertex α)) (nV : Nat) (h : RowIds es)
    (hb : EndpointsBelow es nV) :
    ((List.range nV).flatMap (buildGraph es vs nV).inEdges).Perm (List.range es.length) := by
  have e1 : (List.range nV).flatMap (buildGraph es vs nV).inEdges =
      ((List.range nV).flatMap (fun v => es.filter (fun e => decide (e.dst = v)))).map Edge.edgeId := by
    rw [List.map_flatMap]
    congr 1
    funext v
    exact in_edges_eq es vs nV h hb v
  rw [e1, ← h.map_eq_range]
  exact (flatMap_filter_perm (fun e => e.dst) es nV (fun e he => (hb e he).2)).map _

theorem all_out_in_edges_perm (es : List (Edge α)) (vs : List (Vertex α)) (nV : Nat) (h : RowIds es)
    (hb : EndpointsBelow es nV) :
    ((List.range nV).flatMap (buildGraph es vs nV).outEdges).Perm
      ((List.range nV).flatMap (buildGraph es vs nV).inEdges) :=
  (all_out_edges_perm es vs nV h hb).trans (all_in_edges_perm es vs nV h hb).symm

/-- each vertex has the listed coordinates (vertex ids are row numbers) -/
theorem get_vertex_by_id (es : List (Edge α)) (vs : List (Vertex α)) (nV : Nat)
    (hv : VertexRowIds vs) (i : Nat) (hi : i < vs.length) :
    (buildGraph es vs nV).getVertex i = .ok vs[i] ∧ vs[i].vertexId = i := by
  refine ⟨?_, hv i hi⟩
  rw [get_vertex_general, List.getElem?_eq_getElem hi]

/-- the triplet of a listed edge is (listed source vertex, the edge, listed destination vertex) -/
theorem edge_triplet_eq (es : List (Edge α)) (vs : List (Vertex α)) (nV : Nat) (h : RowIds es)
    (hb : EndpointsBelow es vs.length) (e : Edge α) (he : e ∈ es) :
    (buildGraph es vs nV).edgeTriplet e.edgeId =
      .ok (vs[e.src]'(hb e he).1, e, vs[e.dst]'(hb e he).2) := by
  simp only [Graph.edgeTriplet, get_edge_by_id es vs nV h e he, get_vertex_general,
    List.getElem?_eq_getElem (hb e he).1, List.getElem?_eq_getElem (hb e he).2]

theorem tripletIdsGo_listed (es : List (Edge α)) (vs : List (Vertex α)) (nV : Nat) (h : RowIds es)
    (v : Nat) (d : Direction) (l : List (Edge α)) (hl : ∀ e ∈ l, e ∈ es) :
    Graph.tripletIdsGo (buildGraph es vs nV) v d (l.map Edge.edgeId) =
      .ok (l.map (fun e => (v, e.edgeId, match d with | .forward => e.dst | .reverse => e.src))) := by
  induction l with
  | nil => rfl
  | cons e l ih =>
    have he := src_dst_vertex_id es vs nV h e (hl e (by simp))
    have ih' := ih (fun x hx => hl x (by simp [hx]))
    cases d with
    | forward => simp only [List.map_cons, Graph.tripletIdsGo, he.2.2.1, ih']
    | reverse => simp only [List.map_cons, Graph.tripletIdsGo, he.2.2.2, ih']

/-- `incident_triplet_ids`: for each listed edge at `v` in the direction of travel, (v, edge, far end) -/
theorem incident_triplet_ids_eq (es : List (Edge α)) (vs : List (Vertex α)) (nV : Nat) (h : RowIds es)
    (hb : EndpointsBelow es nV) (v : Nat) :
    (buildGraph es vs nV).incidentTripletIds v .forward =
      .ok ((es.filter (fun e => e.src = v)).map (fun e => (v, e.edgeId, e.dst))) ∧
    (buildGraph es vs nV).incidentTripletIds v .reverse =
      .ok ((es.filter (fun e => e.dst = v)).map (fun e => (v, e.edgeId, e.src))) := by
  constructor
  · simp only [Graph.incidentTripletIds, Graph.incidentEdges, out_edges_eq es vs nV h hb]
    exact tripletIdsGo_listed es vs nV h v .forward _ (fun e he => (List.mem_filter.1 he).1)
  · simp only [Graph.incidentTripletIds, Graph.incidentEdges, in_edges_eq es vs nV h hb]
    exact tripletIdsGo_listed es vs nV h v .reverse _ (fun e he => (List.mem_filter.1 he).1)

/-- per-edge tables (speeds, grades, headings, classes) are aligned with edge ids by row: the entry
looked up for edge `e` is row `e` of the table, and a table with one row per edge covers every edge -/
theorem table_aligned {β : Type} (table : List β) (es : List (Edge α)) (h : RowIds es)
    (hl : table.length = es.length) (e : Edge α) (he : e ∈ es) :
    ∃ hi : e.edgeId < table.length, tableRow table e.edgeId = some table[e.edgeId] := by
  obtain ⟨hi, _⟩ := (h.mem_iff e).1 he
  exact ⟨hl ▸ hi, by simp [tableRow, List.getElem?_eq_getElem (hl ▸ hi)]⟩

/-! ### the file layer: counts explicit or scanned, validation, error kinds -/

theorem decodeRows_ok {ρ : Type} (l : List ρ) : decodeRows (l.map Row.ok) = .ok l := by
  induction l with
  | nil => rfl
  | cons x xs ih => simp [decodeRows, ih]

theorem decodeRows_bad {ρ : Type} (a : List ρ) (b : List (Row ρ)) :
    decodeRows (a.map Row.ok ++ Row.bad :: b) = .error .csv := by
  induction a with
  | nil => rfl
  | cons x xs ih => simp [decodeRows, ih]

/-- files in the documented format (every row decodes, ids are row numbers, endpoints are listed
vertices) load to `buildGraph` of the rows, with the vertex count explicit (`nV = vs.length`) or scanned
(header line + one line per row), and any treatment of the edge count (explicit — even wrong — or
scanned from a non-empty file): explicit and scanned loads are the same -/
theorem from_files_ok (es : List (Edge α)) (vs : List (Vertex α)) (el vl : Nat)
    (nE nV : Option Nat) (hE : nE ≠ none ∨ 1 ≤ el)
    (hV : nV = some vs.length ∨ (nV = none ∧ vl = vs.length + 1))
    (h : RowIds es) (hb : EndpointsBelow es vs.length) (hv : VertexRowIds vs) :
    graphFromFiles ⟨true, el, true, es.map Row.ok⟩ ⟨true, vl, true, vs.map Row.ok⟩ nE nV =
      .ok (buildGraph es vs vs.length) := by
  have h1 : ∃ n, countOrScan nE (⟨true, el, true, es.map Row.ok⟩ : CsvFile (Edge α)) = .ok n := by
    cases nE with
    | some n => exact ⟨n, rfl⟩
    | none =>
      have : 1 ≤ el := by simpa using hE
      exact ⟨el - 1, by simp [countOrScan, scanCount]; omega⟩
  obtain ⟨n, hn⟩ := h1
  have h2 : countOrScan nV (⟨true, vl, true, vs.map Row.ok⟩ : CsvFile (Vertex α)) = .ok vs.length := by
    rcases hV with hV | ⟨hV, hl⟩
    · subst hV; rfl
    · subst hV; subst hl; simp [countOrScan, scanCount]
  have h3 : (missingVertices es vs.length).isEmpty = true := by
    rw [(missingVertices_eq_nil_iff es vs.length).2 hb]; rfl
  simp [graphFromFiles, hn, h2, readCsv, decodeRows_ok, h3, (idsAreRows_edges_iff es).2 h,
    (idsAreRows_vertices_iff vs).2 hv, (endpointsWithin_iff es vs.length).2 hb]

/-- everything a successful load implies: both files could be opened, every row decoded, the vertex
count `n` was declared or scanned, every endpoint is below `n` AND below the number of vertex rows, edge
and vertex ids are row numbers, and the graph is `buildGraph` of the rows with tables of size `n` -/
theorem from_files_ok_inv (ef : CsvFile (Edge α)) (vf : CsvFile (Vertex α)) (nE nV : Option Nat)
    (g : Graph α) (hg : graphFromFiles ef vf nE nV = .ok g) :
    ∃ es vs n, ef.present = true ∧ vf.present = true ∧ ef.rows = es.map Row.ok ∧ vf.rows = vs.map Row.ok ∧
      countOrScan nV vf = .ok n ∧ RowIds es ∧ VertexRowIds vs ∧ EndpointsBelow es n ∧
      EndpointsBelow es vs.length ∧ g = buildGraph es vs n := by
  unfold graphFromFiles at hg
  cases h1 : countOrScan nE ef with
  | error x => simp [h1] at hg
  | ok k =>
    cases h2 : countOrScan nV vf with
    | error x => simp [h1, h2] at hg
    | ok n =>
      cases h3 : readCsv ef with
      | error x => simp [h1, h2, h3] at hg
      | ok es =>
        by_cases h4 : (missingVertices es n).isEmpty = false
        · simp [h1, h2, h3, h4] at hg
        · cases h5 : readCsv vf with
          | error x => simp [h1, h2, h3, h4, h5] at hg
          | ok vs =>
            by_cases h6 : idsAreRows (es.map Edge.edgeId) = false
            · simp [h1, h2, h3, h4, h5, h6] at hg
            · by_cases h7 : idsAreRows (vs.map Vertex.vertexId) = false
              · simp [h1, h2, h3, h4, h5, h6, h7] at hg
              · by_cases h8 : endpointsWithin es vs.length = false
                · simp [h1, h2, h3, h4, h5, h6, h7, h8] at hg
                · have h4' : (missingVertices es n).isEmpty = true := by simpa using h4
                  have h6' : idsAreRows (es.map Edge.edgeId) = true := by simpa using h6
                  have h7' : idsAreRows (vs.map Vertex.vertexId) = true := by simpa using h7
                  have h8' : endpointsWithin es vs.length = true := by simpa using h8
                  simp only [h1, h2, h3, h4', h5, h6', h7', h8', Bool.true_eq_false, if_false,
                    Except.ok.injEq] at hg
                  have pe : ef.present = true := by
                    by_contra hc
                    have hc' : ef.present = false := by simpa using hc
                    simp [readCsv, hc'] at h3
                  have pv : vf.present = true := by
                    by_contra hc
                    have hc' : vf.present = false := by simpa using hc
                    simp [readCsv, hc'] at h5
                  have he : ef.hasHeader = true := by
                    by_contra hc
                    have hc' : ef.hasHeader = false := by simpa using hc
                    simp [readCsv, pe, hc'] at h3
                  have hv : vf.hasHeader = true := by
                    by_contra hc
                    have hc' : vf.hasHeader = false := by simpa using hc
                    simp [readCsv, pv, hc'] at h5
                  refine ⟨es, vs, n, pe, pv, ?_, ?_, rfl, ?_, ?_, ?_, ?_, hg.symm⟩
                  · apply decodeRows_eq_ok
                    simpa [readCsv, pe, he] using h3
                  · apply decodeRows_eq_ok
                    simpa [readCsv, pv, hv] using h5
                  · exact (idsAreRows_edges_iff es).1 h6'
                  · exact (idsAreRows_vertices_iff vs).1 h7'
                  · apply (missingVertices_eq_nil_iff es n).1
                    simpa [List.isEmpty_iff] using h4'
                  · exact (endpointsWithin_iff es vs.length).1 h8'

/-- a file that cannot be opened: `IOError` when its count is scanned, `CsvError` when it is declared -/
theorem missing_file_errors (ef : CsvFile (Edge α)) (vf : CsvFile (Vertex α)) (nV : Option Nat)
    (n : Nat) (h : ef.present = false) :
    graphFromFiles ef vf none nV = .error .io ∧
    (∀ m, countOrScan nV vf = .ok m → graphFromFiles ef vf (some n) nV = .error .csv) := by
  constructor
  · simp [graphFromFiles, countOrScan, scanCount, h]
  · intro m hm
    simp only [graphFromFiles, hm, readCsv, h, if_true]
    rfl

/-- an empty file (no header line) whose count is scanned: `DatasetError` -/
theorem empty_file_scan_error (ef : CsvFile (Edge α)) (vf : CsvFile (Vertex α)) (nV : Option Nat)
    (h : ef.present = true) (hl : ef.lines = 0) :
    graphFromFiles ef vf none nV = .error .dataset := by
  simp [graphFromFiles, countOrScan, scanCount, h, hl]

/-- a row that does not decode (missing column, unparsable or negative id, short row): `CsvError` -/
theorem undecodable_edge_row_error (a : List (Edge α)) (b : List (Row (Edge α))) (vf : CsvFile (Vertex α))
    (el nE nV : Nat) :
    graphFromFiles ⟨true, el, true, a.map Row.ok ++ Row.bad :: b⟩ vf (some nE) (some nV) = .error .csv := by
  simp [graphFromFiles, countOrScan, readCsv, decodeRows_bad]

theorem undecodable_vertex_row_error (es : List (Edge α)) (a : List (Vertex α)) (b : List (Row (Vertex α)))
    (el vl nE nV : Nat) (hb : EndpointsBelow es nV) :
    graphFromFiles ⟨true, el, true, es.map Row.ok⟩ ⟨true, vl, true, a.map Row.ok ++ Row.bad :: b⟩ (some nE) (some nV) =
      .error .csv := by
  have h3 : (missingVertices es nV).isEmpty = true := by
    rw [(missingVertices_eq_nil_iff es nV).2 hb]; rfl
  simp [graphFromFiles, countOrScan, readCsv, decodeRows_ok, decodeRows_bad, h3]

/-- an edge with an endpoint at or beyond the declared / scanned vertex count is never loaded
(`EdgeLoader::try_from` reports its `missing_vertices`) -/
theorem missing_vertex_rejected (es : List (Edge α)) (vf : CsvFile (Vertex α)) (el : Nat)
    (nE nV : Option Nat) (n : Nat) (hn : countOrScan nV vf = .ok n) (hb : ¬ EndpointsBelow es n) (g : Graph α) :
    graphFromFiles ⟨true, el, true, es.map Row.ok⟩ vf nE nV ≠ .ok g := by
  intro hg
  obtain ⟨es', vs, n', _, _, he, _, hn', _, _, hb', _, _⟩ := from_files_ok_inv _ _ _ _ _ hg
  have : es' = es := (List.map_injective_iff.2 (fun a b h => by injection h)) he.symm
  subst this
  rw [hn] at hn'
  injection hn' with hn'
  subst hn'
  exact hb hb'

/-- an edge file whose ids are not its row numbers (permuted, offset, duplicated) is never loaded -/
theorem edge_id_not_row_rejected (es : List (Edge α)) (vf : CsvFile (Vertex α)) (el : Nat)
    (nE nV : Option Nat) (h : ¬ RowIds es) (g : Graph α) :
    graphFromFiles ⟨true, el, true, es.map Row.ok⟩ vf nE nV ≠ .ok g := by
  intro hg
  obtain ⟨es', vs, n', _, _, he, _, _, hr, _, _, _, _⟩ := from_files_ok_inv _ _ _ _ _ hg
  have : es' = es := (List.map_injective_iff.2 (fun a b h => by injection h)) he.symm
  subst this
  exact h hr

/-- a vertex file whose ids are not its row numbers is never loaded -/
theorem vertex_id_not_row_rejected (ef : CsvFile (Edge α)) (vs : List (Vertex α)) (vl : Nat)
    (nE nV : Option Nat) (h : ¬ VertexRowIds vs) (g : Graph α) :
    graphFromFiles ef ⟨true, vl, true, vs.map Row.ok⟩ nE nV ≠ .ok g := by
  intro hg
  obtain ⟨es, vs', n', _, _, _, hv, _, _, hr, _, _, _⟩ := from_files_ok_inv _ _ _ _ _ hg
  have : vs' = vs := (List.map_injective_iff.2 (fun a b h => by injection h)) hv.symm
  subst this
  exact h hr

/-- an edge with an endpoint that has no row in the vertex file is never loaded, whatever vertex
count was declared or scanned -/
theorem endpoint_beyond_vertex_rows_rejected (es : List (Edge α)) (vs : List (Vertex α)) (el vl : Nat)
    (nE nV : Option Nat) (h : ¬ EndpointsBelow es vs.length) (g : Graph α) :
    graphFromFiles ⟨true, el, true, es.map Row.ok⟩ ⟨true, vl, true, vs.map Row.ok⟩ nE nV ≠ .ok g := by
  intro hg
  obtain ⟨es', vs', n', _, _, he, hv, _, _, _, _, hb, _⟩ := from_files_ok_inv _ _ _ _ _ hg
  have e1 : es' = es := (List.map_injective_iff.2 (fun a b h => by injection h)) he.symm
  have e2 : vs' = vs := (List.map_injective_iff.2 (fun a b h => by injection h)) hv.symm
  subst e1; subst e2
  exact h hb

end

/-! ### the whole property -/

/-- "the graph exposes exactly the listed topology", by id (the harness's oracle states the same):
sizes, every listed edge and vertex retrievable by its id, adjacency in both directions … -/
structure DescribesTopology {α : Type} (g : Graph α) (es : List (Edge α)) (vs : List (Vertex α)) : Prop where
  nEdges : g.nEdges = es.length
  nVertices : g.nVertices = vs.length
  edge : ∀ e ∈ es, g.getEdge e.edgeId = .ok e
  vertex : ∀ v ∈ vs, g.getVertex v.vertexId = .ok v
  out : ∀ v x, x ∈ g.outEdges v ↔ ∃ e ∈ es, e.edgeId = x ∧ e.src = v
  inc : ∀ v x, x ∈ g.inEdges v ↔ ∃ e ∈ es, e.edgeId = x ∧ e.dst = v

/-- … and the triplet of every listed edge: both endpoints are listed vertices -/
structure Describes {α : Type} (g : Graph α) (es : List (Edge α)) (vs : List (Vertex α)) : Prop
    extends DescribesTopology g es vs where
  triplet : ∀ e ∈ es, ∃ s d, g.edgeTriplet e.edgeId = .ok (s, e, d) ∧ s.vertexId = e.src ∧ d.vertexId = e.dst

theorem describesTopology_buildGraph {α : Type} (es : List (Edge α)) (vs : List (Vertex α)) (n : Nat)
    (h : RowIds es) (hv : VertexRowIds vs) (hb : EndpointsBelow es n) :
    DescribesTopology (buildGraph es vs n) es vs := by
  refine ⟨rfl, rfl, fun e he => get_edge_by_id es vs _ h e he, ?_, ?_, ?_⟩
  · intro v hm
    obtain ⟨i, hi, rfl⟩ := List.mem_iff_getElem.1 hm
    have := get_vertex_by_id es vs n hv i hi
    rw [this.2]
    exact this.1
  · intro v x
    rw [out_edges_eq es vs _ h hb]
    simp only [List.mem_map, List.mem_filter, decide_eq_true_eq]
    constructor
    · rintro ⟨e, ⟨he, hs⟩, rfl⟩
      exact ⟨e, he, rfl, hs⟩
    · rintro ⟨e, he, rfl, hs⟩
      exact ⟨e, ⟨he, hs⟩, rfl⟩
  · intro v x
    rw [in_edges_eq es vs _ h hb]
    simp only [List.mem_map, List.mem_filter, decide_eq_true_eq]
    constructor
    · rintro ⟨e, ⟨he, hs⟩, rfl⟩
      exact ⟨e, he, rfl, hs⟩
    · rintro ⟨e, he, rfl, hs⟩
      exact ⟨e, ⟨he, hs⟩, rfl⟩

theorem describes_buildGraph {α : Type} (es : List (Edge α)) (vs : List (Vertex α)) (n : Nat)
    (h : RowIds es) (hv : VertexRowIds vs) (hb : EndpointsBelow es n) (hb' : EndpointsBelow es vs.length) :
    Describes (buildGraph es vs n) es vs :=
  { toDescribesTopology := describesTopology_buildGraph es vs n h hv hb
    triplet := fun e he => ⟨_, _, edge_triplet_eq es vs _ h hb' e he, hv _ _, hv _ _⟩ }

/-- FULL, for every pair of edge/vertex files (any rows, decodable or not, any ids and endpoints, any
text-line counts) and every way of giving the counts (explicit — right or wrong — or scanned): a load
either fails or yields a graph that exposes exactly the listed network: sizes, every listed edge
retrievable by its id with its source, destination and length, every vertex with its coordinates, the
out- and in-edges of every vertex precisely the listed ones, and the triplet of every edge.  No
hypothesis.  (Before /repo 0316a94, c6cac08 and c9969cf this was false of the code; the witnesses of
the former counterexamples are the `…_rejected_witness` theorems below.) -/
theorem loaded_network_is_listed {α : Type} (ef : CsvFile (Edge α)) (vf : CsvFile (Vertex α))
    (nE nV : Option Nat) (g : Graph α) (hg : graphFromFiles ef vf nE nV = .ok g) :
    ∃ es vs, ef.rows = es.map Row.ok ∧ vf.rows = vs.map Row.ok ∧ Describes g es vs := by
  obtain ⟨es, vs, n, _, _, he, hv, _, hr, hvr, hb, hb', rfl⟩ := from_files_ok_inv _ _ _ _ _ hg
  exact ⟨es, vs, he, hv, describes_buildGraph es vs n hr hvr hb hb'⟩

/-- in particular the topology part (kept under its own name) -/
theorem loaded_topology_is_listed {α : Type} (ef : CsvFile (Edge α)) (vf : CsvFile (Vertex α))
    (nE nV : Option Nat) (g : Graph α) (hg : graphFromFiles ef vf nE nV = .ok g) :
    ∃ es vs, ef.rows = es.map Row.ok ∧ vf.rows = vs.map Row.ok ∧ DescribesTopology g es vs := by
  obtain ⟨es, vs, he, hv, hd⟩ := loaded_network_is_listed ef vf nE nV g hg
  exact ⟨es, vs, he, hv, hd.toDescribesTopology⟩

/-- a loaded graph's accessors, in the form the search model uses them: the graph is `buildGraph` of
rows in the documented format, so every theorem of the first part of this file applies to it -/
theorem loaded_graph_is_buildGraph {α : Type} (ef : CsvFile (Edge α)) (vf : CsvFile (Vertex α))
    (nE nV : Option Nat) (g : Graph α) (hg : graphFromFiles ef vf nE nV = .ok g) :
    ∃ es vs n, g = buildGraph es vs n ∧ RowIds es ∧ VertexRowIds vs ∧ EndpointsBelow es n ∧
      EndpointsBelow es vs.length := by
  obtain ⟨es, vs, n, _, _, _, _, _, hr, hvr, hb, hb', rfl⟩ := from_files_ok_inv _ _ _ _ _ hg
  exact ⟨es, vs, n, rfl, hr, hvr, hb, hb'⟩

/-- the documented format loads, and to the listed network (the theorems above are not vacuous) -/
theorem listed_network_loads {α : Type} (es : List (Edge α)) (vs : List (Vertex α))
    (el vl : Nat) (nE nV : Option Nat) (hE : nE ≠ none ∨ 1 ≤ el)
    (hV : nV = some vs.length ∨ (nV = none ∧ vl = vs.length + 1))
    (h : RowIds es) (hb : EndpointsBelow es vs.length) (hv : VertexRowIds vs) :
    ∃ g, graphFromFiles ⟨true, el, true, es.map Row.ok⟩ ⟨true, vl, true, vs.map Row.ok⟩ nE nV = .ok g ∧
      Describes g es vs :=
  ⟨_, from_files_ok es vs el vl nE nV hE hV h hb hv, describes_buildGraph es vs _ h hv hb hb⟩

/-! witnesses (distances and coordinates in `Nat`; the same files are W1 … W9 of the harness corpus) -/

def w1Edges : List (Edge Nat) := [⟨1, 0, 1, 7⟩, ⟨0, 1, 0, 9⟩]
def w2Edges : List (Edge Nat) := [⟨0, 0, 1, 7⟩, ⟨1, 1, 5, 9⟩]
def w3Edges : List (Edge Nat) := [⟨0, 0, 1, 7⟩, ⟨1, 1, 2, 9⟩, ⟨2, 2, 0, 4⟩]
def w8Edges : List (Edge Nat) := [⟨0, 0, 1, 7⟩, ⟨1, 1, 2, 9⟩]
def wVertices (n : Nat) : List (Vertex Nat) := (List.range n).map (fun i => ⟨i, 10 * i, 20 * i⟩)

/-- W1 (was accepted: `get_edge 1` answered with edge 0): two edges listed in the reverse order of their
ids are a `DatasetError` -/
theorem edge_id_not_row_rejected_witness :
    graphFromFiles ⟨true, 3, true, w1Edges.map Row.ok⟩ ⟨true, 3, true, (wVertices 2).map Row.ok⟩ (some 2) (some 2) =
      .error .dataset := rfl

/-- W2 (was accepted with a triplet that could not be produced): an edge whose destination (5) is not
in the two-row vertex file, scanned counts, is a `DatasetError` -/
theorem missing_vertex_rejected_witness :
    missingVertices w2Edges 2 = [5] ∧
    graphFromFiles ⟨true, 3, true, w2Edges.map Row.ok⟩ ⟨true, 3, true, (wVertices 2).map Row.ok⟩ none none =
      .error .dataset := ⟨by decide, rfl⟩

/-- W3 (was accepted with `out_edges 2 = []`): a declared vertex count (2) below the vertex file's (3),
with an edge leaving vertex 2, is a `DatasetError`; without such an edge the load is correct
(`loaded_network_is_listed`) -/
theorem declared_vertex_count_too_small_rejected_witness :
    graphFromFiles ⟨true, 4, true, w3Edges.map Row.ok⟩ ⟨true, 4, true, (wVertices 3).map Row.ok⟩ (some 3) (some 2) =
      .error .dataset := rfl

/-- W4 (was accepted: `get_vertex 0` answered with vertex 1): vertex rows listed in another order than
their ids are a `DatasetError` -/
theorem vertex_id_not_row_rejected_witness :
    graphFromFiles ⟨true, 2, true, [Row.ok (⟨0, 0, 1, 7⟩ : Edge Nat)]⟩ ⟨true, 3, true, [Row.ok ⟨1, 10, 20⟩, Row.ok ⟨0, 30, 40⟩]⟩
      none none = .error .dataset := rfl

/-- W6 (was accepted with empty adjacency): a scan that sees fewer text lines than the csv reader
yields records — a vertex file with lone-CR line endings is ONE line, scanned count 0 — is a
`DatasetError` as soon as there is an edge; the same files load correctly with the count declared -/
theorem scanned_count_below_rows_rejected_witness :
    graphFromFiles ⟨true, 3, true, [Row.ok (⟨0, 0, 1, 7⟩ : Edge Nat), Row.ok ⟨1, 1, 0, 9⟩]⟩
        ⟨true, 1, true, (wVertices 2).map Row.ok⟩ none none = .error .dataset ∧
    ∃ g, graphFromFiles ⟨true, 3, true, [Row.ok (⟨0, 0, 1, 7⟩ : Edge Nat), Row.ok ⟨1, 1, 0, 9⟩]⟩
        ⟨true, 1, true, (wVertices 2).map Row.ok⟩ none (some 2) = .ok g ∧ g.outEdges 0 = [0] ∧ g.inEdges 0 = [1] :=
  ⟨rfl, _, rfl, by decide, by decide⟩

/-- W8 / W9 (were accepted with `edge_triplet 1 = VertexNotFound 2`): the vertex file has two rows,
edge 1 ends at vertex 2; with a declared vertex count of 3 — or a scanned one, the file having a
trailing blank line (4 text lines) — the load is a `DatasetError` -/
theorem endpoint_beyond_vertex_rows_rejected_witness :
    graphFromFiles ⟨true, 3, true, w8Edges.map Row.ok⟩ ⟨true, 3, true, (wVertices 2).map Row.ok⟩ (some 2) (some 3) =
      .error .dataset ∧
    graphFromFiles ⟨true, 3, true, w8Edges.map Row.ok⟩ ⟨true, 4, true, (wVertices 2).map Row.ok⟩ none none =
      .error .dataset := ⟨rfl, rfl⟩

/-! ### files that cannot be read to their end, or have no content -/

section
variable {α : Type}

/-- a file that cannot be opened, or cannot be read to its end — a gzip stream cut short anywhere from
its third byte on — never loads, whichever of the two files it is and however the counts are given:
a load error, never a shorter network.  (Before /repo 81bf7f8 and 5e9f339 a gzip file cut short in its
header, or before its first block decoded, was loaded as a list without rows.) -/
theorem unreadable_file_never_loads (ef : CsvFile (Edge α)) (vf : CsvFile (Vertex α)) (nE nV : Option Nat)
    (h : ef.present = false ∨ vf.present = false) (g : Graph α) : graphFromFiles ef vf nE nV ≠ .ok g := by
  intro hg
  obtain ⟨_, _, _, pe, pv, _⟩ := from_files_ok_inv _ _ _ _ _ hg
  rcases h with h | h
  · rw [h] at pe; exact absurd pe (by simp)
  · rw [h] at pv; exact absurd pv (by simp)

/-- a file without any content never loads either, also with explicit counts (before /repo ff5c317 it
was an empty list then) -/
theorem empty_file_never_loads (ef : CsvFile (Edge α)) (vf : CsvFile (Vertex α)) (nE nV : Option Nat)
    (h : ef.hasHeader = false ∨ vf.hasHeader = false) (g : Graph α) : graphFromFiles ef vf nE nV ≠ .ok g := by
  intro hg
  unfold graphFromFiles at hg
  cases h1 : countOrScan nE ef with
  | error x => simp [h1] at hg
  | ok k =>
    cases h2 : countOrScan nV vf with
    | error x => simp [h1, h2] at hg
    | ok n =>
      cases h3 : readCsv ef with
      | error x => simp [h1, h2, h3] at hg
      | ok es =>
        cases h5 : readCsv vf with
        | error x =>
          by_cases h4 : (missingVertices es n).isEmpty = false <;> simp [h1, h2, h3, h4, h5] at hg
        | ok vs =>
          rcases h with h | h
          · simp only [readCsv, h] at h3; split at h3 <;> simp at h3
          · simp only [readCsv, h] at h5; split at h5 <;> simp at h5

/-- the error kinds: an unreadable edge file is an `IOError` when its count is scanned and a `CsvError`
when it is declared; an edge file without content is a `DatasetError` when scanned (no text line) and
a `CsvError` when declared (no header row) -/
theorem empty_edge_file_errors (rows : List (Row (Edge α))) (vf : CsvFile (Vertex α)) (n : Nat)
    (nV : Option Nat) (m : Nat) (hm : countOrScan nV vf = .ok m) :
    graphFromFiles ⟨true, 0, false, rows⟩ vf none nV = .error .dataset ∧
    graphFromFiles ⟨true, 0, false, rows⟩ vf (some n) nV = .error .csv := by
  constructor
  · simp [graphFromFiles, countOrScan, scanCount]
  · simp only [graphFromFiles, hm, readCsv]
    rfl

/-! ### every accessor, on any `Graph` value (nothing is assumed about its four fields) -/

theorem get_edge_any (g : Graph α) (e : Nat) :
    g.getEdge e = match g.edges[e]? with
      | some x => .ok x
      | none => .error (.edgeNotFound e) := by
  unfold Graph.getEdge; cases g.edges[e]? <;> rfl

theorem get_vertex_any (g : Graph α) (v : Nat) :
    g.getVertex v = match g.vertices[v]? with
      | some x => .ok x
      | none => .error (.vertexNotFound v) := by
  unfold Graph.getVertex; cases g.vertices[v]? <;> rfl

/-- a vertex outside the adjacency table has no edges; that is not an error -/
theorem incident_edges_beyond_table (g : Graph α) (v : Nat) :
    (g.adj.length ≤ v → g.outEdges v = [] ∧ g.incidentEdges v .forward = []) ∧
    (g.rev.length ≤ v → g.inEdges v = [] ∧ g.incidentEdges v .reverse = []) := by
  constructor <;> intro h
  · simp [Graph.outEdges, Graph.incidentEdges, List.getElem?_eq_none h]
  · simp [Graph.inEdges, Graph.incidentEdges, List.getElem?_eq_none h]

/-- `edge_triplet`: the edge, then its source vertex, then its destination vertex; the first one that
is missing is the error -/
theorem edge_triplet_any (g : Graph α) (e : Nat) :
    g.edgeTriplet e = match g.edges[e]? with
      | none => .error (.edgeNotFound e)
      | some ed =>
        match g.vertices[ed.src]? with
        | none => .error (.vertexNotFound ed.src)
        | some s =>
          match g.vertices[ed.dst]? with
          | none => .error (.vertexNotFound ed.dst)
          | some d => .ok (s, ed, d) := by
  unfold Graph.edgeTriplet
  rw [get_edge_any]
  cases g.edges[e]? with
  | none => rfl
  | some ed =>
    simp only [get_vertex_any]
    cases g.vertices[ed.src]? with
    | none => rfl
    | some s => cases g.vertices[ed.dst]? <;> rfl

theorem edge_triplet_ok_iff (g : Graph α) (e : Nat) :
    (∃ t, g.edgeTriplet e = .ok t) ↔
      ∃ h : e < g.edges.length, g.edges[e].src < g.vertices.length ∧ g.edges[e].dst < g.vertices.length := by
  rw [edge_triplet_any]
  constructor
  · intro ⟨t, ht⟩
    cases he : g.edges[e]? with
    | none => simp [he] at ht
    | some ed =>
      obtain ⟨hlt, hed⟩ := List.getElem?_eq_some_iff.1 he
      subst hed
      cases hs : g.vertices[g.edges[e].src]? with
      | none => simp [he, hs] at ht
      | some s =>
        cases hd : g.vertices[g.edges[e].dst]? with
        | none => simp [he, hs, hd] at ht
        | some d =>
          exact ⟨hlt, (List.getElem?_eq_some_iff.1 hs).1, (List.getElem?_eq_some_iff.1 hd).1⟩
  · rintro ⟨h, hs, hd⟩
    simp [List.getElem?_eq_getElem h, List.getElem?_eq_getElem hs, List.getElem?_eq_getElem hd]

/-- `src_vertex_id`, `dst_vertex_id`, `incident_vertex`: the fields of the edge at that position -/
theorem endpoints_any (g : Graph α) (e : Nat) :
    g.srcVertexId e = (match g.edges[e]? with | some x => .ok x.src | none => .error (.edgeNotFound e)) ∧
    g.dstVertexId e = (match g.edges[e]? with | some x => .ok x.dst | none => .error (.edgeNotFound e)) ∧
    g.incidentVertex e .forward = g.dstVertexId e ∧ g.incidentVertex e .reverse = g.srcVertexId e := by
  refine ⟨?_, ?_, rfl, rfl⟩
  · unfold Graph.srcVertexId; rw [get_edge_any]; cases g.edges[e]? <;> rfl
  · unfold Graph.dstVertexId; rw [get_edge_any]; cases g.edges[e]? <;> rfl

/-- `incident_triplet_ids` succeeds exactly when every incident edge id is a position of `edges` -/
theorem tripletIdsGo_ok_iff (g : Graph α) (v : Nat) (d : Direction) (l : List Nat) :
    (∃ r, Graph.tripletIdsGo g v d l = .ok r) ↔ ∀ e ∈ l, e < g.edges.length := by
  induction l with
  | nil => simp [Graph.tripletIdsGo]
  | cons e r ih =>
    have hv : (∃ t, g.incidentVertex e d = .ok t) ↔ e < g.edges.length := by
      have := endpoints_any g e
      cases d with
      | forward =>
        rw [this.2.2.1, this.2.1]
        cases he : g.edges[e]? with
        | none => simpa using (List.getElem?_eq_none_iff.1 he)
        | some x => simpa using (List.getElem?_eq_some_iff.1 he).1
      | reverse =>
        rw [this.2.2.2, this.1]
        cases he : g.edges[e]? with
        | none => simpa using (List.getElem?_eq_none_iff.1 he)
        | some x => simpa using (List.getElem?_eq_some_iff.1 he).1
    simp only [Graph.tripletIdsGo, List.mem_cons, forall_eq_or_imp]
    constructor
    · intro ⟨res, hres⟩
      cases h1 : g.incidentVertex e d with
      | error x => simp [h1] at hres
      | ok t =>
        cases h2 : Graph.tripletIdsGo g v d r with
        | error x => simp [h1, h2] at hres
        | ok l' => exact ⟨hv.1 ⟨t, h1⟩, ih.1 ⟨l', h2⟩⟩
    · rintro ⟨h1, h2⟩
      obtain ⟨t, ht⟩ := hv.2 h1
      obtain ⟨l', hl'⟩ := ih.2 h2
      exact ⟨(v, e, t) :: l', by simp [ht, hl']⟩

theorem incident_triplet_ids_ok_iff (g : Graph α) (v : Nat) (d : Direction) :
    (∃ r, g.incidentTripletIds v d = .ok r) ↔ ∀ e ∈ g.incidentEdges v d, e < g.edges.length :=
  tripletIdsGo_ok_iff g v d _

theorem tripletIdsGo_ok_edges (g : Graph α) (v : Nat) (d : Direction) (es : List Nat)
    (l : List (Nat × Nat × Nat)) (h : Graph.tripletIdsGo g v d es = .ok l) :
    l.map (fun t => t.2.1) = es ∧ ∀ t ∈ l, t.1 = v := by
  induction es generalizing l with
  | nil => simp only [Graph.tripletIdsGo, Except.ok.injEq] at h; subst h; simp
  | cons e r ih =>
    simp only [Graph.tripletIdsGo] at h
    cases h1 : g.incidentVertex e d with
    | error x => simp [h1] at h
    | ok t =>
      cases h2 : Graph.tripletIdsGo g v d r with
      | error x => simp [h1, h2] at h
      | ok l' =>
        simp only [h1, h2, Except.ok.injEq] at h
        subst h
        obtain ⟨i1, i2⟩ := ih l' h2
        exact ⟨by simp [i1], by simpa using i2⟩

/-- on ANY graph: the edge lookup inside `incident_triplet_attributes` cannot fail — the triplets come from
`incident_triplet_ids`, which has looked every one of those edges up already — so its only errors are
that one's `EdgeNotFound` and a `VertexNotFound` (the `?` after `get_edge` in that function is dead) -/
theorem triplet_attributes_edge_lookup_never_fails (g : Graph α) (v : Nat) (d : Direction)
    (l : List (Nat × Nat × Nat)) (h : g.incidentTripletIds v d = .ok l) :
    ∀ t ∈ l, ∃ ed, g.getEdge t.2.1 = .ok ed := by
  intro t ht
  have hall := (tripletIdsGo_ok_iff g v d (g.incidentEdges v d)).1 ⟨l, h⟩
  have hmap := (tripletIdsGo_ok_edges g v d _ l h).1
  have : t.2.1 ∈ g.incidentEdges v d := by rw [← hmap]; exact List.mem_map.2 ⟨t, ht, rfl⟩
  have hlt := hall _ this
  exact ⟨g.edges[t.2.1], by rw [get_edge_any, List.getElem?_eq_getElem hlt]⟩

/-- `incident_triplet_attributes` of a listed network: for each listed edge at `v` in the direction of
travel, (the vertex `v`, the edge, the vertex at its far end), with their listed data -/
theorem tripletAttrsGo_listed (es : List (Edge α)) (vs : List (Vertex α)) (nV : Nat) (h : RowIds es)
    (near far : Edge α → Nat) (l : List (Edge α)) (hl : ∀ e ∈ l, e ∈ es)
    (hn : ∀ e ∈ l, near e < vs.length) (hf : ∀ e ∈ l, far e < vs.length) :
    ∃ r, Graph.tripletAttrsGo (buildGraph es vs nV) (l.map (fun e => (near e, e.edgeId, far e))) = .ok r ∧
      List.Forall₂ (fun e t => vs[near e]? = some t.1 ∧ t.2.1 = e ∧ vs[far e]? = some t.2.2) l r := by
  induction l with
  | nil => exact ⟨[], rfl, List.Forall₂.nil⟩
  | cons e l ih =>
    obtain ⟨r, hr, hfa⟩ := ih (fun x hx => hl x (by simp [hx])) (fun x hx => hn x (by simp [hx]))
      (fun x hx => hf x (by simp [hx]))
    have h1 := hn e (by simp)
    have h2 := hf e (by simp)
    refine ⟨(vs[near e], e, vs[far e]) :: r, ?_, List.Forall₂.cons ⟨List.getElem?_eq_getElem h1, rfl, List.getElem?_eq_getElem h2⟩ hfa⟩
    simp only [List.map_cons, Graph.tripletAttrsGo, get_vertex_general, List.getElem?_eq_getElem h1,
      List.getElem?_eq_getElem h2, get_edge_by_id es vs nV h e (hl e (by simp)), hr]

theorem incident_triplet_attributes_eq (es : List (Edge α)) (vs : List (Vertex α)) (nV : Nat) (h : RowIds es)
    (hb : EndpointsBelow es nV) (hb' : EndpointsBelow es vs.length) (v : Nat) :
    (∃ r, (buildGraph es vs nV).incidentTripletAttributes v .forward = .ok r ∧
      List.Forall₂ (fun e t => vs[e.src]? = some t.1 ∧ t.2.1 = e ∧ vs[e.dst]? = some t.2.2)
        (es.filter (fun e => e.src = v)) r) ∧
    (∃ r, (buildGraph es vs nV).incidentTripletAttributes v .reverse = .ok r ∧
      List.Forall₂ (fun e t => vs[e.dst]? = some t.1 ∧ t.2.1 = e ∧ vs[e.src]? = some t.2.2)
        (es.filter (fun e => e.dst = v)) r) := by
  have hids := incident_triplet_ids_eq es vs nV h hb v
  constructor
  · have hmem : ∀ e ∈ es.filter (fun e => e.src = v), e ∈ es ∧ e.src = v := fun e he => by
      simpa using List.mem_filter.1 he
    obtain ⟨r, hr, hfa⟩ := tripletAttrsGo_listed es vs nV h (fun e => e.src) (fun e => e.dst)
      (es.filter (fun e => e.src = v)) (fun e he => (hmem e he).1)
      (fun e he => (hb' e (hmem e he).1).1) (fun e he => (hb' e (hmem e he).1).2)
    have hmap : (es.filter (fun e => e.src = v)).map (fun e => (v, e.edgeId, e.dst)) =
        (es.filter (fun e => e.src = v)).map (fun e => (e.src, e.edgeId, e.dst)) :=
      List.map_congr_left (fun e he => by rw [(hmem e he).2])
    exact ⟨r, by simp only [Graph.incidentTripletAttributes, hids.1, hmap, hr], hfa⟩
  · have hmem : ∀ e ∈ es.filter (fun e => e.dst = v), e ∈ es ∧ e.dst = v := fun e he => by
      simpa using List.mem_filter.1 he
    obtain ⟨r, hr, hfa⟩ := tripletAttrsGo_listed es vs nV h (fun e => e.dst) (fun e => e.src)
      (es.filter (fun e => e.dst = v)) (fun e he => (hmem e he).1)
      (fun e he => (hb' e (hmem e he).1).2) (fun e he => (hb' e (hmem e he).1).1)
    have hmap : (es.filter (fun e => e.dst = v)).map (fun e => (v, e.edgeId, e.src)) =
        (es.filter (fun e => e.dst = v)).map (fun e => (e.dst, e.edgeId, e.src)) :=
      List.map_congr_left (fun e he => by rw [(hmem e he).2])
    exact ⟨r, by simp only [Graph.incidentTripletAttributes, hids.2, hmap, hr], hfa⟩

end

/-! ### the adjacency entry under any sequence of inserts (also repeated keys) -/

/-- `insert` never loses or invents a key: afterwards the keys are the old ones, plus the new one at
the end when it was not there -/
theorem adjKeys_adjInsert (k v : Nat) (m : AdjMap) :
    adjKeys (adjInsert k v m) = if k ∈ adjKeys m then adjKeys m else adjKeys m ++ [k] := by
  by_cases h : k ∈ adjKeys m
  · rw [if_pos h, adjKeys_adjInsert_of_mem k v m h]
  · rw [if_neg h, adjInsert_of_not_mem k v m h, adjKeys_append]; rfl

/-- after any sequence of inserts the keys are exactly the inserted ones, each once -/
theorem adjKeys_foldl_insert (ins : List (Nat × Nat)) (m : AdjMap) (hm : (adjKeys m).Nodup) :
    (adjKeys (ins.foldl (fun m kv => adjInsert kv.1 kv.2 m) m)).Nodup ∧
    ∀ k, k ∈ adjKeys (ins.foldl (fun m kv => adjInsert kv.1 kv.2 m) m) ↔ k ∈ adjKeys m ∨ k ∈ ins.map Prod.fst := by
  induction ins generalizing m with
  | nil => simpa using hm
  | cons kv r ih =>
    have hn : (adjKeys (adjInsert kv.1 kv.2 m)).Nodup := by
      rw [adjKeys_adjInsert]
      split
      · exact hm
      · rename_i h
        exact List.Nodup.append hm (by simp) (by simpa using h)
    obtain ⟨h1, h2⟩ := ih (adjInsert kv.1 kv.2 m) hn
    refine ⟨h1, fun k => ?_⟩
    rw [List.foldl_cons, h2 k, adjKeys_adjInsert]
    by_cases hk : kv.1 ∈ adjKeys m
    · simp only [if_pos hk, List.map_cons, List.mem_cons]
      constructor
      · rintro (h | h)
        · exact Or.inl h
        · exact Or.inr (Or.inr h)
      · rintro (h | h | h)
        · exact Or.inl h
        · exact Or.inl (h ▸ hk)
        · exact Or.inr h
    · simp only [if_neg hk, List.mem_append, List.map_cons, List.mem_cons]
      tauto

/-! ### the `Vertex` decoder: any column order, any bystander columns -/

section
variable {α : Type}

/-- a vertex row whose columns include exactly one `vertex_id`, one `x` and one `y`, each parseable,
decodes to the listed vertex in ANY column order and with ANY other columns between, before or after
them (csv: `strictEnd = false`) -/
theorem decode_vertex_any_column_order (es : List (String × Cell α)) (i : Nat) (x y : α)
    (hi : ∃ a c b, es = a ++ ("vertex_id", c) :: b ∧ c.asUsize = some i ∧
      (∀ e ∈ a, e.1 ≠ "vertex_id") ∧ ∀ e ∈ b, e.1 ≠ "vertex_id")
    (hx : ∃ a c b, es = a ++ ("x", c) :: b ∧ c.asF32 = some x ∧ (∀ e ∈ a, e.1 ≠ "x") ∧ ∀ e ∈ b, e.1 ≠ "x")
    (hy : ∃ a c b, es = a ++ ("y", c) :: b ∧ c.asF32 = some y ∧ (∀ e ∈ a, e.1 ≠ "y") ∧ ∀ e ∈ b, e.1 ≠ "y") :
    decodeVertex (some (es.map some)) false = .ok { vertexId := i, x := x, y := y } := by
  obtain ⟨rest, hr⟩ := visitEntries_slots es {} i x y (Or.inr ⟨rfl, hi⟩) (Or.inr ⟨rfl, hx⟩) (Or.inr ⟨rfl, hy⟩)
    (by simp)
  simp [decodeVertex, hr]

/-- a row without one of the three columns is rejected, whatever else it holds -/
theorem visitEntries_missing (es : List (String × Cell α)) (st : VisitState α) (k : String)
    (hk : k = "vertex_id" ∧ st.id = none ∨ k = "x" ∧ st.x = none ∨ k = "y" ∧ st.y = none)
    (hno : ∀ e ∈ es, e.1 ≠ k) : ∀ v rest, visitEntries (es.map some) st ≠ .ok (v, rest) := by
  induction es generalizing st with
  | nil => intro v rest h; simp [visitEntries] at h
  | cons e r ih =>
    obtain ⟨k', c⟩ := e
    intro v rest h
    have hne : k' ≠ k := hno (k', c) (by simp)
    simp only [List.map_cons, visitEntries] at h
    cases hs : visitStore st k' c with
    | error x => simp [hs] at h
    | ok st' =>
      have keep : k = "vertex_id" ∧ st'.id = none ∨ k = "x" ∧ st'.x = none ∨ k = "y" ∧ st'.y = none := by
        obtain ⟨f1, f2, f3⟩ := visitStore_ok_fields hs
        rcases hk with ⟨rfl, h0⟩ | ⟨rfl, h0⟩ | ⟨rfl, h0⟩
        · exact Or.inl ⟨rfl, by rw [f1 hne, h0]⟩
        · exact Or.inr (Or.inl ⟨rfl, by rw [f2 hne, h0]⟩)
        · exact Or.inr (Or.inr ⟨rfl, by rw [f3 hne, h0]⟩)
      have hc : st'.complete? = none := by
        apply VisitState.complete?_eq_none
        rcases keep with ⟨_, h0⟩ | ⟨_, h0⟩ | ⟨_, h0⟩ <;> simp [h0]
      simp only [hs, hc] at h
      exact ih st' keep (fun e he => hno e (by simp [he])) v rest h

theorem decode_vertex_missing_column (es : List (String × Cell α)) (k : String)
    (hk : k = "vertex_id" ∨ k = "x" ∨ k = "y") (hno : ∀ e ∈ es, e.1 ≠ k) (strict : Bool) (v : Vertex α) :
    decodeVertex (some (es.map some)) strict ≠ .ok v := by
  intro h
  unfold decodeVertex at h
  cases hv : visitEntries (es.map some) ({} : VisitState α) with
  | error e => simp [hv] at h
  | ok p =>
    obtain ⟨v', rest⟩ := p
    exact visitEntries_missing es {} k (by rcases hk with rfl | rfl | rfl <;> simp) hno v' rest hv

end

/-- a format that insists on the whole map being consumed (serde_json) makes the same decoder depend on
the column order: a bystander AFTER the three columns is an error, the same bystander BEFORE them is not.
(Vertices are read from csv files, where nothing is checked after the visitor returns; recorded as an
observation, not used by the application.) -/
theorem decode_vertex_strict_end_order_dependent_counterexample :
    let c : Cell Nat := ⟨some 7, some 7⟩
    decodeVertex (some [some ("z", c), some ("vertex_id", c), some ("x", c), some ("y", c)]) true = .ok ⟨7, 7, 7⟩ ∧
    decodeVertex (some [some ("vertex_id", c), some ("x", c), some ("y", c), some ("z", c)]) true = .error .trailing ∧
    decodeVertex (some [some ("vertex_id", c), some ("x", c), some ("y", c), some ("z", c)]) false = .ok ⟨7, 7, 7⟩ := by
  decide

/-! ### `DefaultGraphBuilder::build` -/

section
variable {α : Type}

/-- everything a successful build implies: both paths are configured as strings and name files, the
counts are absent or unsigned integers, and the graph describes the files at those paths -/
theorem builder_ok_describes (params : Json) (eIsFile vIsFile : Bool) (ef : CsvFile (Edge α))
    (vf : CsvFile (Vertex α)) (g : Graph α) (h : graphBuilderBuild params eIsFile vIsFile ef vf = .ok g) :
    eIsFile = true ∧ vIsFile = true ∧
    (∃ s, (params.get? "edge_list_input_file").bind Json.asStr? = some s) ∧
    (∃ s, (params.get? "vertex_list_input_file").bind Json.asStr? = some s) ∧
    ∃ es vs, ef.rows = es.map Row.ok ∧ vf.rows = vs.map Row.ok ∧ Describes g es vs := by
  unfold graphBuilderBuild at h
  cases h1 : getConfigPath params "edge_list_input_file" "graph" eIsFile with
  | error e => simp [h1] at h
  | ok pe =>
    cases h2 : getConfigPath params "vertex_list_input_file" "graph" vIsFile with
    | error e => simp [h1, h2] at h
    | ok pv =>
      cases h3 : getConfigOptUsize params "n_edges" with
      | error e => simp [h1, h2, h3] at h
      | ok nE =>
        cases h4 : getConfigOptUsize params "n_vertices" with
        | error e => simp [h1, h2, h3, h4] at h
        | ok nV =>
          cases h5 : getConfigOptBool params "verbose" with
          | error e => simp [h1, h2, h3, h4, h5] at h
          | ok vb =>
            cases h6 : graphFromFiles ef vf nE nV with
            | error e => simp [h1, h2, h3, h4, h5, h6] at h
            | ok g' =>
              simp only [h1, h2, h3, h4, h5, h6, Except.ok.injEq] at h
              subst h
              have path : ∀ key isFile p, getConfigPath params key "graph" isFile = .ok p →
                  isFile = true ∧ ∃ s, (params.get? key).bind Json.asStr? = some s := by
                intro key isFile p hp
                unfold getConfigPath getConfigString at hp
                cases hg : params.get? key with
                | none => simp [hg] at hp
                | some v =>
                  cases hs : v.asStr? with
                  | none => simp [hg, hs] at hp
                  | some s =>
                    cases isFile with
                    | false => simp [hg, hs] at hp
                    | true => exact ⟨rfl, s, by simp [hs]⟩
              exact ⟨(path _ _ _ h1).1, (path _ _ _ h2).1, (path _ _ _ h1).2, (path _ _ _ h2).2,
                loaded_network_is_listed ef vf nE nV g' h6⟩

/-- the error for a missing, ill-typed or dangling edge-file path names `edge_list_input_file` (the key
that is wrong) and the component `graph`; it is decided before anything else is looked at -/
theorem builder_edge_path_errors (params : Json) (eIsFile vIsFile : Bool) (ef : CsvFile (Edge α))
    (vf : CsvFile (Vertex α)) :
    (params.get? "edge_list_input_file" = none →
      graphBuilderBuild params eIsFile vIsFile ef vf = .error (.expectedField "edge_list_input_file" "graph")) ∧
    (∀ v, params.get? "edge_list_input_file" = some v → v.asStr? = none →
      graphBuilderBuild params eIsFile vIsFile ef vf = .error (.expectedType "edge_list_input_file" "String")) ∧
    (∀ v s, params.get? "edge_list_input_file" = some v → v.asStr? = some s → eIsFile = false →
      graphBuilderBuild params eIsFile vIsFile ef vf = .error (.fileNotFound s "edge_list_input_file" "graph")) := by
  refine ⟨fun h => ?_, fun v h hs => ?_, fun v s h hs hf => ?_⟩
  · simp [graphBuilderBuild, getConfigPath, getConfigString, h]
  · simp [graphBuilderBuild, getConfigPath, getConfigString, h, hs]
  · simp [graphBuilderBuild, getConfigPath, getConfigString, h, hs, hf]

/-- the same for the vertex-file path, once the edge-file path is fine -/
theorem builder_vertex_path_errors (params : Json) (vIsFile : Bool) (ef : CsvFile (Edge α))
    (vf : CsvFile (Vertex α)) (pe : String) (he : getConfigPath params "edge_list_input_file" "graph" true = .ok pe) :
    (params.get? "vertex_list_input_file" = none →
      graphBuilderBuild params true vIsFile ef vf = .error (.expectedField "vertex_list_input_file" "graph")) ∧
    (∀ v, params.get? "vertex_list_input_file" = some v → v.asStr? = none →
      graphBuilderBuild params true vIsFile ef vf = .error (.expectedType "vertex_list_input_file" "String")) ∧
    (∀ v s, params.get? "vertex_list_input_file" = some v → v.asStr? = some s → vIsFile = false →
      graphBuilderBuild params true vIsFile ef vf = .error (.fileNotFound s "vertex_list_input_file" "graph")) := by
  refine ⟨fun h => ?_, fun v h hs => ?_, fun v s h hs hf => ?_⟩
  · simp only [graphBuilderBuild, he]
    simp [getConfigPath, getConfigString, h]
  · simp only [graphBuilderBuild, he]
    simp [getConfigPath, getConfigString, h, hs]
  · simp only [graphBuilderBuild, he]
    simp [getConfigPath, getConfigString, h, hs, hf]

/-- with both paths fine: an ill-typed count or flag is a deserialization error; otherwise the build IS
the load of the two files with the configured counts, a load error coming through as `GraphError`; the
`verbose` flag and a configured edge count never change the outcome beyond the edge count's scan -/
theorem builder_is_load (params : Json) (ef : CsvFile (Edge α)) (vf : CsvFile (Vertex α)) (pe pv : String)
    (he : getConfigPath params "edge_list_input_file" "graph" true = .ok pe)
    (hv : getConfigPath params "vertex_list_input_file" "graph" true = .ok pv)
    (nE nV : Option Nat) (vb : Option Bool)
    (h3 : getConfigOptUsize params "n_edges" = .ok nE) (h4 : getConfigOptUsize params "n_vertices" = .ok nV)
    (h5 : getConfigOptBool params "verbose" = .ok vb) :
    graphBuilderBuild params true true ef vf =
      match graphFromFiles ef vf nE nV with
      | .error e => .error (.graph e)
      | .ok g => .ok g := by
  simp only [graphBuilderBuild, he, hv, h3, h4, h5]
  cases graphFromFiles ef vf nE nV <;> rfl

theorem builder_ill_typed_count (params : Json) (ef : CsvFile (Edge α)) (vf : CsvFile (Vertex α)) (pe pv : String)
    (he : getConfigPath params "edge_list_input_file" "graph" true = .ok pe)
    (hv : getConfigPath params "vertex_list_input_file" "graph" true = .ok pv)
    (v : Json) (hg : params.get? "n_edges" = some v) (hu : v.asU64? = none) :
    graphBuilderBuild params true true ef vf = .error .serde := by
  simp [graphBuilderBuild, he, hv, getConfigOptUsize, hg, hu]

end

/-! ### per-edge tables through `read_raw_file` / `from_csv` -/

/-- a table whose lines all decode is loaded whole and in order — row `e` is line `e` — and the row
callback ran once per row; one line that does not decode, or a file that cannot be read to its end,
fails the whole table (never a shorter or shifted one) -/
theorem read_table_ok {ρ : Type} (l : List ρ) :
    readTable true (l.map Row.ok) = .ok l ∧ callbackCount (l.map Row.ok) = l.length ∧
    ∀ e, tableRow l e = l[e]? := by
  refine ⟨by simp [readTable, decodeRows_ok], ?_, fun e => rfl⟩
  induction l with
  | nil => rfl
  | cons x xs ih => simp [callbackCount, ih]

theorem read_table_errors {ρ : Type} (a : List ρ) (b : List (Row ρ)) (rows : List (Row ρ)) :
    readTable true (a.map Row.ok ++ Row.bad :: b) = .error .io ∧
    callbackCount (a.map Row.ok ++ Row.bad :: b) = a.length ∧
    readTable false rows = .error .io := by
  refine ⟨by simp [readTable, decodeRows_bad], ?_, rfl⟩
  induction a with
  | nil => rfl
  | cons x xs ih => simp [callbackCount, ih]

/-- `Edge::default()` is the edge 0 from vertex 0 to vertex 1 of unit length -/
theorem edge_default_fields {α : Type} [Lit α] :
    (Edge.default : Edge α).edgeId = 0 ∧ (Edge.default : Edge α).src = 0 ∧ (Edge.default : Edge α).dst = 1 ∧
    (Edge.default : Edge α).distance = one := ⟨rfl, rfl, rfl, rfl⟩

/-! ### non-vacuity -/

/-- a star: `n` edges leave vertex 0 (ids `0 … n-1`), for any `n` — degrees are unbounded -/
def star (n : Nat) : List (Edge Nat) := (List.range n).map (fun i => ⟨i, 0, i % 3, i + 1⟩)

theorem star_rowIds (n : Nat) : RowIds (star n) := by
  intro i h
  simp [star]

theorem star_endpoints (n : Nat) : EndpointsBelow (star n) 3 := by
  intro e he
  simp only [star, List.mem_map, List.mem_range] at he
  obtain ⟨i, _, rfl⟩ := he
  exact ⟨by simp, Nat.mod_lt _ (by decide)⟩

/-- for every `n` there is a listed network with a vertex of out-degree exactly `n`, all of whose
edges are returned -/
theorem degree_unbounded (n : Nat) :
    ((buildGraph (star n) (wVertices 3) 3).outEdges 0) = List.range n := by
  rw [out_edges_eq _ _ _ (star_rowIds n) (star_endpoints n)]
  have : (star n).filter (fun e => decide (e.src = 0)) = star n := by
    rw [List.filter_eq_self]
    intro e he
    simp only [star, List.mem_map, List.mem_range] at he
    obtain ⟨i, _, rfl⟩ := he
    simp
  rw [this, (star_rowIds n).map_eq_range]
  simp [star]

-- the hypotheses of the main theorems are satisfiable with out-degree 7 and in-degree ≥ 2 (past the
-- container's four inline representations), parallel edges (0 → 0 … ) and self loops (edge 0, 3, 6)
example : RowIds (star 7) ∧ EndpointsBelow (star 7) 3 := ⟨star_rowIds 7, star_endpoints 7⟩
example : (buildGraph (star 7) (wVertices 3) 3).outEdges 0 = [0, 1, 2, 3, 4, 5, 6] := by decide
example : (buildGraph (star 7) (wVertices 3) 3).inEdges 0 = [0, 3, 6] := by decide
example : (buildGraph (star 7) (wVertices 3) 3).inEdges 1 = [1, 4] := by decide
example : (buildGraph (star 7) (wVertices 3) 3).getEdge 5 = .ok ⟨5, 0, 2, 6⟩ := by decide
example : (buildGraph (star 7) (wVertices 3) 3).incidentTripletIds 1 .reverse = .ok [(1, 1, 0), (1, 4, 0)] := by decide
example : (buildGraph (star 7) (wVertices 3) 3).edgeTriplet 5 = .ok (⟨0, 0, 0⟩, ⟨5, 0, 2, 6⟩, ⟨2, 20, 40⟩) := by decide
example : ∃ g, graphFromFiles ⟨true, 8, true, (star 7).map Row.ok⟩ ⟨true, 4, true, (wVertices 3).map Row.ok⟩ none none = .ok g ∧
    Describes g (star 7) (wVertices 3) :=
  listed_network_loads (star 7) (wVertices 3) 8 4 none none (Or.inr (by decide)) (Or.inr ⟨rfl, rfl⟩)
    (star_rowIds 7) (star_endpoints 7) (by intro i h; simp [wVertices])
-- the hypotheses of the rejection theorems are satisfiable
example : ¬ RowIds w1Edges := fun h => absurd (h 0 (by decide)) (by decide)
example : ¬ EndpointsBelow w2Edges 2 := fun h => absurd (h ⟨1, 1, 5, 9⟩ (by simp [w2Edges])).2 (by decide)
example : ¬ EndpointsBelow w8Edges (wVertices 2).length :=
  fun h => absurd (h ⟨1, 1, 2, 9⟩ (by simp [w8Edges])).2 (by decide)
-- a too-large declared count and a scan inflated by a blank line are harmless when no edge reaches
-- beyond the vertex rows: the load succeeds (so `loaded_network_is_listed` is not vacuous there)
example : ∃ g, graphFromFiles ⟨true, 3, true, w1Edges.reverse.map Row.ok⟩ ⟨true, 4, true, (wVertices 2).map Row.ok⟩ none (some 5) = .ok g ∧
    g.adj.length = 5 ∧ g.nVertices = 2 := ⟨_, rfl, by decide, by decide⟩
example : ¬ VertexRowIds ([⟨1, 10, 20⟩, ⟨0, 30, 40⟩] : List (Vertex Nat)) := fun h => absurd (h 0 (by decide)) (by decide)
-- a duplicated id at one vertex overwrites in place (the general theorems' `outFold`), it does not append
example : adjKeys (outFold 0 ([⟨0, 0, 1, 7⟩, ⟨0, 0, 2, 9⟩] : List (Edge Nat)) []) = [0] := by decide
-- the error theorems are not vacuous
example : graphFromFiles (α := Nat) ⟨false, 0, false, []⟩ ⟨true, 1, true, []⟩ none none = .error .io := rfl
example : graphFromFiles (α := Nat) ⟨true, 0, false, []⟩ ⟨true, 1, true, []⟩ none none = .error .dataset := rfl
example : graphFromFiles (α := Nat) ⟨true, 2, true, [.bad]⟩ ⟨true, 1, true, []⟩ none none = .error .csv := rfl

-- the new groups are not vacuous either
-- (1) a vertex row with its columns in the order z, y, vertex_id, name, x
def exRow : List (String × Cell Nat) :=
  [("z", ⟨none, none⟩), ("y", ⟨some 40, some 40⟩), ("vertex_id", ⟨some 3, some 3⟩), ("name", ⟨none, none⟩),
    ("x", ⟨some 12, some 12⟩)]
example : decodeVertex (some (exRow.map some)) false = .ok ⟨3, 12, 40⟩ :=
  decode_vertex_any_column_order exRow 3 12 40
    ⟨[("z", ⟨none, none⟩), ("y", ⟨some 40, some 40⟩)], ⟨some 3, some 3⟩, [("name", ⟨none, none⟩), ("x", ⟨some 12, some 12⟩)],
      rfl, rfl, by decide, by decide⟩
    ⟨[("z", ⟨none, none⟩), ("y", ⟨some 40, some 40⟩), ("vertex_id", ⟨some 3, some 3⟩), ("name", ⟨none, none⟩)],
      ⟨some 12, some 12⟩, [], rfl, rfl, by decide, by decide⟩
    ⟨[("z", ⟨none, none⟩)], ⟨some 40, some 40⟩,
      [("vertex_id", ⟨some 3, some 3⟩), ("name", ⟨none, none⟩), ("x", ⟨some 12, some 12⟩)], rfl, rfl, by decide, by decide⟩
example : decodeVertex (some ((exRow.take 4).map some)) false = .error .incomplete := by decide
example : decodeVertex (some [some ("vertex_id", (⟨none, some 1⟩ : Cell Nat))]) false = .error .parseId := by decide
example : decodeVertex (none : Option (List (Option (String × Cell Nat)))) false = .error .notMap := rfl
-- (2) a gzip file cut short / an empty file, with explicit counts
example : graphFromFiles ⟨false, 41, true, (star 7).map Row.ok⟩ ⟨true, 4, true, (wVertices 3).map Row.ok⟩ (some 7) (some 3) =
    .error .csv := rfl
example : graphFromFiles ⟨true, 0, false, ([] : List (Row (Edge Nat)))⟩ ⟨true, 4, true, (wVertices 3).map Row.ok⟩ (some 7) (some 3) =
    .error .csv := rfl
-- (3) a Graph value whose fields disagree: edge 0 ends at a vertex that is not there, an adjacency entry
-- names an edge that is not there
def exGraph : Graph Nat := { adj := [[(0, 1), (5, 1)]], rev := [], edges := [⟨0, 0, 4, 9⟩], vertices := [⟨0, 1, 2⟩] }
example : exGraph.edgeTriplet 0 = .error (.vertexNotFound 4) := by decide
example : exGraph.incidentTripletIds 0 .forward = .error (.edgeNotFound 5) := by decide
example : exGraph.incidentTripletAttributes 0 .forward = .error (.edgeNotFound 5) := by decide
example : exGraph.inEdges 0 = [] ∧ exGraph.outEdges 0 = [0, 5] := by decide
example : (buildGraph (star 7) (wVertices 3) 3).incidentTripletAttributes 1 .reverse =
    .ok [(⟨1, 10, 20⟩, ⟨1, 0, 1, 2⟩, ⟨0, 0, 0⟩), (⟨1, 10, 20⟩, ⟨4, 0, 1, 5⟩, ⟨0, 0, 0⟩)] := by decide
-- (4) a configuration section that builds, and three that do not
def exParams (extra : List (String × Json)) : Json :=
  .obj ([("vertex_list_input_file", .str "v.csv"), ("edge_list_input_file", .str "e.csv.gz")] ++ extra)
example : ∃ g, graphBuilderBuild (exParams [("verbose", .bool true), ("comment", .null)]) true true
    ⟨true, 8, true, (star 7).map Row.ok⟩ ⟨true, 4, true, (wVertices 3).map Row.ok⟩ = .ok g ∧ g.nEdges = 7 :=
  ⟨buildGraph (star 7) (wVertices 3) 3, rfl, rfl⟩
example : graphBuilderBuild (α := Nat) (exParams [("n_edges", .str "7")]) true true ⟨true, 8, true, []⟩ ⟨true, 4, true, []⟩ =
    .error .serde := rfl
example : graphBuilderBuild (α := Nat) (exParams []) true false ⟨true, 8, true, []⟩ ⟨true, 4, true, []⟩ =
    .error (.fileNotFound "v.csv" "vertex_list_input_file" "graph") := rfl
example : graphBuilderBuild (α := Nat) (.arr []) true true ⟨true, 8, true, []⟩ ⟨true, 4, true, []⟩ =
    .error (.expectedField "edge_list_input_file" "graph") := rfl
example : graphBuilderBuild (α := Nat) (exParams []) true true ⟨false, 0, false, []⟩ ⟨true, 4, true, []⟩ =
    .error (.graph .io) := rfl

end C15
end Compass
