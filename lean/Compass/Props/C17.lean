import Compass.Model.GridSearch

namespace Compass
namespace C17

end C17
end Compass
