/-
C17 — grid search expands a query into exactly the Cartesian product of its options.

Model: `Model/MultiSet.lean` (the mixed-radix counter of `util/multiset.rs`; total since the repair
e2d1252/ae1b946, every indexing explicit, the run fuelled), `Model/GridSearch.lean`
(`GridSearchPlugin::process` as the code, `processO`, and as the total function it computes, `process`;
every function of `input_plugin_ops.rs`; `apply_input_plugins`; the builder from configuration).  All
are tied to the Rust code by the correspondence run (`harness/src/c17.rs`), key order included.

**Which reading of "one for each combination and none twice" is proved.**  A *combination* is an index
tuple (one option index per axis).  Proved, for every query that passes the guards
(`grid_one_per_combination`, `grid_count`): the generated list is the image, in counter order, of a list
of index tuples that has no repetition and contains exactly the in-range tuples — every combination is
served exactly once, none is served twice, and there are exactly `n₁ × … × n_m` queries.  That is the
whole of the clause, and it holds without restriction (scalars, objects, mixtures, any keys).

The stronger *value-level* reading — "no two generated queries are equal" — is **not** what the
property can mean and is false of the code (and of any code that satisfies the count clause): the
options `1` and `{"x":1}` of the axis `x` are different JSON values but spell the same assignment, so
`{"grid_search":{"x":[1,{"x":1}]}}` has two combinations with one and the same query `{"x":1}`; emitting
it once would break "exactly n₁ × … × n_m queries, one for each combination".  Equal queries arise
exactly when the user's options are not observably different after the merge:
* one axis, pairwise different options, an object option hitting its own axis name
  (`grid_outputs_distinct_counterexample`);
* options of different axes writing the same key, the later axis overriding
  (`grid_outputs_distinct_counterexample_across_axes`);
* an object option repeating a value the original query already holds
  (`grid_outputs_distinct_counterexample_original_field`).
All three are reproduced against the real plugin by the corpus of `harness/src/c17.rs`
(`corpus_equal_queries`); the oracle there checks the index-level reading (the generated queries are, as
a multiset, exactly one per index tuple), which they satisfy, so no finding is recorded.
What *is* proved at value level is `grid_outputs_distinct_partial`: when different axes write different
keys and the options of each axis are observably different on top of the original query, different
combinations give queries that differ **as maps** (hence also as `serde_json` values, whose equality
ignores key order); the condition on the options is also necessary
(`observably_equal_options_yield_equal_queries`).  `grid_outputs_distinct_scalar_axes_partial` is the
instance "every option a non-object, options of an axis pairwise different".

Likewise "keeps all other fields" holds for the fields no chosen option writes
(`output_keeps_other_fields`); the complete statement is `output_last_writer_wins`.

Hypotheses that are invariants of the *input* (`serde_json::Map` has unique keys), assumed where needed:
top level of the query (`output_keeps_other_fields`, `output_has_no_grid_key`, `output_keys_unique`,
`repeated_grid_search_is_idempotent`), an object option (`output_object_merged`), the grid section
(`grid_outputs_distinct_scalar_axes_partial`).  That the generated queries have unique keys again is
`output_keys_unique`.

Modelled rather than verified (outside every theorem):
* `serde_json::to_string(section)` failing (`JsonError` arm) — cannot fail for a `Value`; the arm is not
  in the model;
* memory: the plugin collects all `Πn` queries eagerly; exhaustion for astronomically large products is
  not modelled;
* `mapOp` (the loop of `json_array_op`) takes the plugin as a total `Except` function that leaves the
  query untouched when it fails — true of grid search (`process_never_panics_or_diverges`, it only swaps
  at the very end), an assumption for other plugins;
* error *messages* are not modelled (`errorText`); the harness checks their shape independently;
* `serde_json` itself (`preserve_order`: `remove` = `swap_remove`, `value[k] = v` keeps the slot of an
  existing key) is modelled by `swapRemoveKv` / `insertKv` and evidenced by the textual correspondence
  run only.
-/
import Compass.Proofs.GridSearch

namespace Compass
namespace C17
open MultiSet GridSearch
open Json (lookup insertKv swapRemoveKv)

/-! ## MultiSet: the mixed-radix counter -/

/-- `val` (first digit least significant) is a bijection between the index vectors for sizes `ns`
and `range (Π ns)`; `digits` is its inverse -/
theorem multiset_val_bijection (ns : List Nat) :
    (∀ p q, inRange ns p = true → inRange ns q = true → val ns p = val ns q → p = q) ∧
    (∀ p, inRange ns p = true → val ns p < prod ns ∧ digits ns (val ns p) = p) ∧
    (∀ k, k < prod ns → inRange ns (digits ns k) = true ∧ val ns (digits ns k) = k) :=
  ⟨val_inj ns, fun p h => ⟨val_lt ns p h, digits_val ns p h⟩,
   fun k h => ⟨inRange_digits ns k (pos_of_prod_pos ns (by omega)), val_digits ns k h⟩⟩

/-- One `next` of the code at an index vector `p` (at least one set): no panic; it hands out the
items at `p`; the successor is again an index vector whose mixed-radix value is **one more**; and the
iterator is finished exactly when `p` was the last combination, `val p = Πn − 1`. -/
theorem multiset_next_increments {α : Type} (sets : List (List α)) (hne : sets ≠ []) (p : List Nat)
    (hr : inRange (sizesOf sets) p = true) :
    ∃ pos', next (at_ sets (some p)) = .ok (some (pick sets p), at_ sets pos') ∧
      (∀ p', pos' = some p' → inRange (sizesOf sets) p' = true ∧
        val (sizesOf sets) p' = val (sizesOf sets) p + 1) ∧
      (pos' = none ↔ val (sizesOf sets) p + 1 = prod (sizesOf sets)) := by
  refine ⟨incr p (finals (sizesOf sets)), next_at sets hne p hr, ?_, ?_⟩
  · intro p' hp'; exact incr_some _ p p' hr hp'
  · have h := incr_isSome_iff _ p hr
    have hv := val_lt _ p hr
    cases hi : incr p (finals (sizesOf sets)) with
    | none => rw [hi] at h; simp at h; simp; omega
    | some p' => rw [hi] at h; simp at h; simp; omega

/-- **Enumeration, every input.**  The iterator terminates within fuel `Πn + 1`, never panics, and
yields the combinations of `combos` — the `k`-th item is the digit vector of `k` — in that order.  Since
the repair of `MultiSet` (ae1b946) this needs no hypothesis: no set gives the single empty combination,
an empty set gives none. -/
theorem multiset_enumeration {α : Type} (sets : List (List α)) :
    toList sets = .ok ((combos (sizesOf sets)).map (pick sets)) :=
  collect_from_all sets

/-- fuel `Πn + 1` suffices, and any larger fuel gives the same list -/
theorem multiset_fuel_suffices {α : Type} (sets : List (List α)) (fuel : Nat)
    (h : prod (sizesOf sets) + 1 ≤ fuel) :
    collect fuel (MultiSet.from sets) = .ok ((combos (sizesOf sets)).map (pick sets)) := by
  obtain ⟨k, rfl⟩ : ∃ k, fuel = fuelFor (sizesOf sets) + k := ⟨fuel - (prod (sizesOf sets) + 1), by
    simp only [fuelFor]; omega⟩
  exact collectMap_fuel_mono _ _ _ _ (collect_from_all sets) k

/-- the number of combinations is the product of the sizes -/
theorem multiset_length {α : Type} (sets : List (List α)) :
    ∃ l, toList sets = .ok l ∧ l.length = prod (sizesOf sets) :=
  ⟨_, collect_from_all sets, by simp [combos_length]⟩

/-- a run cut off after `k` calls of `next` (`take(k)`): the first `k` combinations, and the end is
seen exactly when the product has fewer than `k` elements -/
theorem multiset_bounded_run {α : Type} (sets : List (List α)) (k : Nat) :
    takeN k (MultiSet.from sets)
      = .ok (((combos (sizesOf sets)).map (pick sets)).take k, decide (prod (sizesOf sets) < k)) := by
  have := takeN_of_collect _ _ _ (collect_from_all sets) k
  simpa [combos_length] using this

/-- **Index sets** (what the plugin iterates): for axes of sizes `nᵢ` (any number, any sizes) the
enumeration has length `Πnᵢ`, no index vector twice, every in-range index vector, and the `k`-th one has value `k`. -/
theorem multiset_index_sets (ns : List Nat) :
    ∃ l, toList (ns.map List.range) = .ok l ∧ l.length = prod ns ∧ l.Nodup ∧
      (∀ c, c ∈ l ↔ inRange ns c = true) ∧
      (∀ k, k < prod ns → ∃ c, l[k]? = some c ∧ val ns c = k) := by
  have hsz : sizesOf (ns.map List.range) = ns := by
    simp [sizesOf, List.map_map, Function.comp_def]
  have h := collect_from_all (ns.map List.range)
  rw [hsz] at h
  have hl : (combos ns).map (pick (ns.map List.range)) = combos ns := by
    conv_rhs => rw [← List.map_id (combos ns)]
    apply List.map_congr_left
    intro c hc
    simpa using pick_ranges ns c ((mem_combos ns c).mp hc)
  rw [hl] at h
  refine ⟨combos ns, h, combos_length ns, combos_nodup ns, mem_combos ns, ?_⟩
  intro k hk
  exact ⟨digits ns k, combos_getElem? ns k hk, val_digits ns k hk⟩

/-- the order is little-endian: the first axis runs fastest -/
theorem multiset_first_axis_fastest (n : Nat) (ns : List Nat) (k : Nat) (hk : k < prod (n :: ns)) :
    (combos (n :: ns))[k]? = some (k % n :: digits ns (k / n)) :=
  combos_getElem? (n :: ns) k hk

/-- no set at all: the single empty combination (before ae1b946: `[]` for ever) -/
theorem multiset_no_sets_single_empty_combination {α : Type} :
    toList ([] : List (List α)) = .ok [[]] := by
  simpa [combos, prod, digits] using collect_from_all ([] : List (List α))

/-- an empty set: no combination (before ae1b946: `len − 1` wrapped and the first `next` indexed out
of bounds) -/
theorem multiset_empty_set_no_combination {α : Type} (sets : List (List α)) (h : [] ∈ sets) :
    toList sets = .ok [] := by
  have hz : prod (sizesOf sets) = 0 := prod_eq_zero_of_mem _ (List.mem_map.mpr ⟨[], h, rfl⟩)
  simpa [combos, hz] using collect_from_all sets

-- non-vacuity: the repository's own 2×1×3 example, a single-option axis in the middle, the two
-- boundary cases, a run cut off
example : toList [[1, 3], [2], [5, 7, 9]]
    = .ok [[1, 2, 5], [3, 2, 5], [1, 2, 7], [3, 2, 7], [1, 2, 9], [3, 2, 9]] := rfl
example : combos [2, 1, 3] = [[0, 0, 0], [1, 0, 0], [0, 0, 1], [1, 0, 1], [0, 0, 2], [1, 0, 2]] := by
  decide
example : ∃ l, toList ([3, 1, 2].map List.range) = .ok l ∧ l.length = 6 ∧ [2, 0, 1] ∈ l :=
  ⟨_, rfl, rfl, by decide⟩
example : toList ([] : List (List Nat)) = .ok [[]] := rfl
example : toList [[1, 2], ([] : List Nat)] = .ok [] := rfl
example : takeN 2 (MultiSet.from [[7, 8, 9]]) = .ok ([[7], [8]], false) := rfl
example : takeN 5 (MultiSet.from [[7, 8, 9]]) = .ok ([[7], [8], [9]], true) := rfl

/-! ## The plugin -/

/-- **The code is a total function**: on every JSON value, `GridSearchPlugin::process` (with its
guard, with every indexing explicit and the iteration fuelled) neither panics nor diverges, and returns `process q`. -/
theorem process_never_panics_or_diverges (q : Json) : processO q = .ok (process q) :=
  processO_eq q

/-- What the guard (90097cd) is for now that `MultiSet` is total (ae1b946): *without* it a section
without array-valued field would yield the query once, minus its grid section, … -/
theorem unguarded_no_axis_yields_the_query_once (initial : Json) :
    expandO { keys := [], options := [], initial := initial } = .ok [initial] :=
  collectMap_no_sets _ initial rfl 0

/-- … and a section with an empty array would yield no query at all: the query would vanish without
a response.  The guard answers both with an error instead. -/
theorem unguarded_empty_axis_yields_nothing (p : Plan) (h : [] ∈ p.options) :
    expandO p = .ok [] := by
  have : ([] : List Nat) ∈ p.indices := List.mem_map.mpr ⟨[], h, rfl⟩
  exact collectMap_empty_set _ _ this _

/-- no grid section (in particular: not an object) ⇒ the query passes through unchanged -/
theorem passthrough_without_grid_section (q : Json) (h : q.get? gridKey = none) :
    process q = .ok q := by
  simp [process, plan, h]

theorem passthrough_non_object (q : Json) (h : q.isObject = false) : process q = .ok q := by
  apply passthrough_without_grid_section
  cases q <;> simp_all [Json.get?, Json.isObject]

/-- **Expansion.**  A query whose grid section passes the guards is replaced by the array of
`instanceKv …` over all index combinations in counter order: the query minus the grid key (in
`swap_remove` order) overlaid with the chosen options. -/
theorem grid_expansion {q : Json} {kvs sec : List (String × Json)} (h : GridQuery q kvs sec) :
    process q = .ok (.arr (expand (swapRemoveKv kvs gridKey) (axes sec))) := by
  simp only [process, plan_grid h, Plan.axes, zip_fst_snd]

/-- the number of generated queries is `n₁ × … × n_m` -/
theorem grid_count {q : Json} {kvs sec : List (String × Json)} (h : GridQuery q kvs sec) :
    ∃ outs, process q = .ok (.arr outs) ∧ outs.length = prod ((axes sec).map (·.2.length)) :=
  ⟨_, grid_expansion h, by simp [expand, combos_length]⟩

/-- **One query per combination, none twice, none missing**: the generated list is the image of a
list of index combinations that has no repetition and contains exactly the in-range index vectors;
the `k`-th query belongs to the combination of mixed-radix value `k` (first axis fastest). -/
theorem grid_one_per_combination {q : Json} {kvs sec : List (String × Json)}
    (h : GridQuery q kvs sec) :
    ∃ cs : List (List Nat), cs.Nodup ∧ cs.length = prod ((axes sec).map (·.2.length)) ∧
      (∀ c, c ∈ cs ↔ inRange ((axes sec).map (·.2.length)) c = true) ∧
      (∀ k, k < cs.length → ∃ c, cs[k]? = some c ∧ val ((axes sec).map (·.2.length)) c = k) ∧
      process q = .ok (.arr (cs.map fun c =>
        .obj (overlay (swapRemoveKv kvs gridKey) (choice (axes sec) c)))) := by
  refine ⟨combos _, combos_nodup _, combos_length _, mem_combos _, ?_, grid_expansion h⟩
  intro k hk
  rw [combos_length] at hk
  exact ⟨_, combos_getElem? _ k hk, val_digits _ k hk⟩

/-- the option taken on axis `i` under combination `c` is `(keyᵢ, optionsᵢ[cᵢ])` -/
theorem chosen_options (ax : List (String × List Json)) (c : List Nat)
    (h : inRange (ax.map (·.2.length)) c = true) :
    (choice ax c).length = ax.length ∧
    ∀ (i : Nat) (hi : i < ax.length),
      ∃ j v, c[i]? = some j ∧ ax[i].2[j]? = some v ∧ (choice ax c)[i]? = some (ax[i].1, v) :=
  ⟨choice_length ax c h, choice_getElem ax c h⟩

/-- the grid axes are the array-valued fields of the section (other fields are ignored) -/
theorem axes_are_array_fields (sec : List (String × Json)) (k : String) (opts : List Json) :
    (k, opts) ∈ axes sec ↔ (k, Json.arr opts) ∈ sec :=
  mem_axes sec k opts

-- non-vacuity: a query with fields before and after the grid key, a 2-option scalar axis, an ignored
-- non-array field and a 3-option mixed axis passes the guards, and expands into 2 × 3 queries
def exSection : List (String × Json) :=
  [("x", .arr [.num "1" 0, .num "2" 0]), ("note", .str "n"),
   ("y", .arr [.str "p", .obj [("a", .null), ("w", .bool true)], .str "r"])]
def exQuery : List (String × Json) :=
  [("a", .num "1" 0), ("grid_search", .obj exSection), ("m", .bool false), ("z", .null)]

theorem exQuery_is_grid_query : GridQuery (.obj exQuery) exQuery exSection :=
  ⟨rfl, by rfl, by decide +kernel, by decide +kernel⟩

example : ∃ outs, process (.obj exQuery) = .ok (.arr outs) ∧ outs.length = 2 * 3 := by
  obtain ⟨outs, h1, h2⟩ := grid_count exQuery_is_grid_query
  exact ⟨outs, h1, by rw [h2]; decide +kernel⟩
example : processO (.obj exQuery)
    = .ok (.ok (.arr (expand (swapRemoveKv exQuery gridKey) (axes exSection)))) := by
  rw [process_never_panics_or_diverges, grid_expansion exQuery_is_grid_query]
example : inRange ((axes exSection).map (·.2.length)) [1, 2] = true := by decide +kernel

/-! ### each generated query, as a map -/

/-- **Overlay = last writer wins.**  A generated query holds under key `k` the value of the last
write to `k` among the chosen options in axis order (an object option writes its entries one by one,
any other option writes itself under the field's name), else what the original held. -/
theorem output_last_writer_wins (initial ch : List (String × Json)) (k : String) :
    lookup (overlay initial ch) k
      = match lookup (writes ch).reverse k with
        | some v => some v
        | none => lookup initial k :=
  lookup_overlay ch initial k

/-- every field of the original that no chosen option writes is kept, with its value -/
theorem output_keeps_other_fields (kvs : List (String × Json)) (hn : (kvs.map (·.1)).Nodup)
    (ch : List (String × Json)) (k : String) (hk : k ≠ gridKey)
    (hw : k ∉ (writes ch).map (·.1)) :
    lookup (overlay (swapRemoveKv kvs gridKey) ch) k = lookup kvs k := by
  have : lookup (writes ch).reverse k = none := by
    rw [lookup_eq_none_iff]; simpa using hw
  rw [lookup_overlay, this, lookup_swapRemoveKv kvs hn]
  simp [hk]

/-- a scalar (non-object) choice sits under the grid field's name — unless a later axis writes there -/
theorem output_scalar_under_field_name (initial pre post : List (String × Json)) (key : String)
    (v : Json) (hv : v.isObject = false) (hpost : key ∉ (writes post).map (·.1)) :
    lookup (overlay initial (pre ++ (key, v) :: post)) key = some v := by
  have hw : writesOf key v = [(key, v)] := by cases v <;> simp_all [writesOf, Json.isObject]
  have hp : lookup (writes post).reverse key = none := by
    rw [lookup_eq_none_iff]; simpa using hpost
  rw [lookup_overlay, writes_append]
  simp only [writes, hw, List.reverse_append, List.reverse_cons,
    List.append_assoc, lookup_append, hp, List.singleton_append, lookup_cons, if_true]

/-- an object choice is merged into the top level entry by entry — unless a later axis overrides -/
theorem output_object_merged (initial pre post : List (String × Json)) (key : String)
    (o : List (String × Json)) (ho : (o.map (·.1)).Nodup) (k : String) (v : Json)
    (hkv : (k, v) ∈ o) (hpost : k ∉ (writes post).map (·.1)) :
    lookup (overlay initial (pre ++ (key, .obj o) :: post)) k = some v := by
  have hp : lookup (writes post).reverse k = none := by
    rw [lookup_eq_none_iff]; simpa using hpost
  have ho' : (o.reverse.map (·.1)).Nodup := by
    rw [List.map_reverse]; exact List.nodup_reverse.mpr ho
  have hl : lookup o.reverse k = some v :=
    (lookup_eq_some_iff_mem _ ho' k v).mpr (List.mem_reverse.mpr hkv)
  rw [lookup_overlay, writes_append]
  simp only [writes, writesOf, List.reverse_append, List.append_assoc, lookup_append, hp, hl]

/-- **No generated query has a grid section**: the removal deletes it and, thanks to the recursion
guard, no option can re-introduce the key. -/
theorem output_has_no_grid_key {q : Json} {kvs sec : List (String × Json)} (h : GridQuery q kvs sec)
    (hn : (kvs.map (·.1)).Nodup) (c : List Nat) :
    lookup (overlay (swapRemoveKv kvs gridKey) (choice (axes sec) c)) gridKey = none := by
  have hw := gridKey_not_written h.notRecursive c
  have : lookup (writes (choice (axes sec) c)).reverse gridKey = none := by
    rw [lookup_eq_none_iff]; simpa using hw
  rw [lookup_overlay, this, lookup_swapRemoveKv kvs hn]
  simp

/-- a passing section has no field and no object option with a key called `grid_search` -/
theorem recursion_guard_excludes_grid_keys {sec : List (String × Json)}
    (h : recurses (.obj sec) = false) :
    (∀ k v, (k, v) ∈ sec → k ≠ gridKey) ∧
    (∀ k opts o k' v', (k, Json.arr opts) ∈ sec → Json.obj o ∈ opts → (k', v') ∈ o → k' ≠ gridKey) :=
  ⟨fun k v hk => no_grid_axis_key h k v hk,
   fun k opts o k' v' hk ho hk' => no_grid_option_key h k opts hk o ho k' v' hk'⟩

-- non-vacuity on the example query, combination x = 2 (index 1), y = the object option (index 1):
-- the scalar sits under `x`, the object's entries are merged (`a` overrides the original `a`, `w` is
-- new), untouched fields keep their values, the grid key is gone
example : lookup (overlay (swapRemoveKv exQuery gridKey) (choice (axes exSection) [1, 1])) "x"
    = some (.num "2" 0) := by rfl
example : lookup (overlay (swapRemoveKv exQuery gridKey) (choice (axes exSection) [1, 1])) "a"
    = some .null := by rfl
example : lookup (overlay (swapRemoveKv exQuery gridKey) (choice (axes exSection) [1, 1])) "w"
    = some (.bool true) := by rfl
example : lookup (overlay (swapRemoveKv exQuery gridKey) (choice (axes exSection) [1, 1])) "m"
    = lookup exQuery "m" :=
  output_keeps_other_fields exQuery (by decide +kernel) _ "m" (by decide +kernel) (by decide +kernel)
example : lookup (overlay (swapRemoveKv exQuery gridKey) (choice (axes exSection) [1, 1])) gridKey
    = none :=
  output_has_no_grid_key exQuery_is_grid_query (by decide +kernel) _

/-- a generated query is a well-formed object again: its keys are unique -/
theorem output_keys_unique (kvs : List (String × Json)) (hn : (kvs.map (·.1)).Nodup)
    (ch : List (String × Json)) :
    ((overlay (swapRemoveKv kvs gridKey) ch).map (·.1)).Nodup := by
  rw [overlay_eq_mergeKv]
  exact nodup_keys_mergeKv _ _ (nodup_keys_swapRemoveKv kvs hn gridKey)

-- the two clause theorems instantiated on the real choice list of the example query, combination
-- [1, 1]: `x = 2` is a scalar under its field's name, `w` comes from the merged object option
example : lookup (overlay (swapRemoveKv exQuery gridKey) (choice (axes exSection) [1, 1])) "x"
    = some (.num "2" 0) := by
  have h : choice (axes exSection) [1, 1]
      = [] ++ ("x", Json.num "2" 0) :: [("y", .obj [("a", .null), ("w", .bool true)])] := by rfl
  rw [h]
  exact output_scalar_under_field_name _ [] _ "x" _ rfl (by decide +kernel)
example : lookup (overlay (swapRemoveKv exQuery gridKey) (choice (axes exSection) [1, 1])) "w"
    = some (.bool true) := by
  have h : choice (axes exSection) [1, 1]
      = [("x", Json.num "2" 0)] ++ ("y", .obj [("a", .null), ("w", .bool true)]) :: [] := by rfl
  rw [h]
  exact output_object_merged _ _ [] "y" _ (by decide +kernel) "w" _ (by simp) (by simp [writes])
example : ((overlay (swapRemoveKv exQuery gridKey) (choice (axes exSection) [1, 1])).map (·.1)).Nodup :=
  output_keys_unique exQuery (by decide +kernel) _

/-! ### "none twice" at the level of values: what holds, what does not -/

/-- the witnesses as real inputs of `process` -/
def dupSingleAxisSection : List (String × Json) := [("x", .arr [.num "1" 0, .obj [("x", .num "1" 0)]])]
def dupSingleAxisQuery : List (String × Json) := [("grid_search", .obj dupSingleAxisSection)]
def dupAcrossAxesSection : List (String × Json) :=
  [("a", .arr [.obj [("x", .num "1" 0)], .obj [("x", .num "2" 0)]]), ("b", .arr [.obj [("x", .num "3" 0)]])]
def dupAcrossAxesQuery : List (String × Json) := [("grid_search", .obj dupAcrossAxesSection)]
def dupOriginalFieldSection : List (String × Json) :=
  [("a", .arr [.obj [("p", .num "1" 0)], .obj [("p", .num "1" 0), ("q", .num "2" 0)]])]
def dupOriginalFieldQuery : List (String × Json) :=
  [("q", .num "2" 0), ("grid_search", .obj dupOriginalFieldSection)]

/-- **The value-level statement "no two generated queries are equal" is false**, already for ONE axis
whose options are pairwise different JSON values: `{"grid_search":{"x":[1,{"x":1}]}}` passes both
guards and the plugin returns `[{"x":1},{"x":1}]` — the scalar `1` goes under the field's name `x`, the
object `{"x":1}` is merged, both spell `x = 1`.  (Two combinations, two queries: the index-level
property holds, `grid_one_per_combination`.) -/
theorem grid_outputs_distinct_counterexample :
    GridQuery (.obj dupSingleAxisQuery) dupSingleAxisQuery dupSingleAxisSection ∧
    (∀ a ∈ axes dupSingleAxisSection, a.2.Nodup) ∧
    process (.obj dupSingleAxisQuery)
      = .ok (.arr [.obj [("x", .num "1" 0)], .obj [("x", .num "1" 0)]]) := by
  have hg : GridQuery (.obj dupSingleAxisQuery) dupSingleAxisQuery dupSingleAxisSection :=
    ⟨rfl, by rfl, by decide +kernel, by decide +kernel⟩
  refine ⟨hg, by simp [axes, dupSingleAxisSection], ?_⟩
  rw [grid_expansion hg]; rfl

/-- … for options of different axes that write the same key (the later axis overrides):
`{"grid_search":{"a":[{"x":1},{"x":2}],"b":[{"x":3}]}}` gives `[{"x":3},{"x":3}]` … -/
theorem grid_outputs_distinct_counterexample_across_axes :
    GridQuery (.obj dupAcrossAxesQuery) dupAcrossAxesQuery dupAcrossAxesSection ∧
    (∀ a ∈ axes dupAcrossAxesSection, a.2.Nodup) ∧
    process (.obj dupAcrossAxesQuery)
      = .ok (.arr [.obj [("x", .num "3" 0)], .obj [("x", .num "3" 0)]]) := by
  have hg : GridQuery (.obj dupAcrossAxesQuery) dupAcrossAxesQuery dupAcrossAxesSection :=
    ⟨rfl, by rfl, by decide +kernel, by decide +kernel⟩
  refine ⟨hg, by simp [axes, dupAcrossAxesSection], ?_⟩
  rw [grid_expansion hg]; rfl

/-- … and for object options with different key sets, no key shared with another axis, when the
original query already holds the value one of them adds:
`{"q":2,"grid_search":{"a":[{"p":1},{"p":1,"q":2}]}}` gives `[{"q":2,"p":1},{"q":2,"p":1}]`
("disjoint key sets" alone is therefore not a sufficient condition). -/
theorem grid_outputs_distinct_counterexample_original_field :
    GridQuery (.obj dupOriginalFieldQuery) dupOriginalFieldQuery dupOriginalFieldSection ∧
    (∀ a ∈ axes dupOriginalFieldSection, a.2.Nodup) ∧
    process (.obj dupOriginalFieldQuery)
      = .ok (.arr [.obj [("q", .num "2" 0), ("p", .num "1" 0)],
                   .obj [("q", .num "2" 0), ("p", .num "1" 0)]]) := by
  have hg : GridQuery (.obj dupOriginalFieldQuery) dupOriginalFieldQuery dupOriginalFieldSection :=
    ⟨rfl, by rfl, by decide +kernel, by decide +kernel⟩
  refine ⟨hg, by simp [axes, dupOriginalFieldSection], ?_⟩
  rw [grid_expansion hg]; rfl

/-- **None twice, as values — the part that holds** (`_partial`: the full statement "for every grid
query whose options are pairwise different per axis, the generated queries are pairwise different" is
false, see the three `grid_outputs_distinct_counterexample*` above).  Scalars, objects and mixtures:
if different axes never write the same key (`AxesDisjoint`: an axis writes its own name for a
non-object option and the option's keys for an object option) and, on each axis, two options that are
observably the same on top of the query-minus-grid-key are the same option
(`OptionsObservablyDistinct`), then two different combinations give queries that differ **as maps** —
some key holds different values — so they are different for `serde_json` (key order ignored) and a
fortiori as ordered objects (`Nodup`).  Excluded, exactly: an axis with two observably equal options
(then equal queries do arise, `observably_equal_options_yield_equal_queries`), and axes sharing a
written key (then they may or may not, depending on which axis comes last). -/
theorem grid_outputs_distinct_partial {q : Json} {kvs sec : List (String × Json)}
    (h : GridQuery q kvs sec) (hdis : AxesDisjoint (axes sec))
    (hobs : ∀ a ∈ axes sec, OptionsObservablyDistinct (swapRemoveKv kvs gridKey) a) :
    (∀ c c', inRange ((axes sec).map (·.2.length)) c = true →
      inRange ((axes sec).map (·.2.length)) c' = true → c ≠ c' →
      ∃ k, lookup (overlay (swapRemoveKv kvs gridKey) (choice (axes sec) c)) k
         ≠ lookup (overlay (swapRemoveKv kvs gridKey) (choice (axes sec) c')) k) ∧
    ∃ outs, process q = .ok (.arr outs) ∧ outs.Nodup := by
  have key : ∀ c c', inRange ((axes sec).map (·.2.length)) c = true →
      inRange ((axes sec).map (·.2.length)) c' = true →
      (∀ k, lookup (overlay (swapRemoveKv kvs gridKey) (choice (axes sec) c)) k
          = lookup (overlay (swapRemoveKv kvs gridKey) (choice (axes sec) c')) k) → c = c' :=
    fun c c' hc hc' he => choice_inj_of_observable _ _ c c' hdis hobs hc hc' he
  refine ⟨?_, _, grid_expansion h, ?_⟩
  · intro c c' hc hc' hne
    by_contra hcon
    exact hne (key c c' hc hc' (fun k => by
      by_contra hk; exact hcon ⟨k, hk⟩))
  · unfold expand
    refine List.Nodup.map_on ?_ (combos_nodup _)
    intro c hc c' hc' heq
    have e : instanceKv (swapRemoveKv kvs gridKey) (axes sec) c
        = instanceKv (swapRemoveKv kvs gridKey) (axes sec) c' := Json.obj.inj heq
    exact key c c' ((mem_combos _ _).mp hc) ((mem_combos _ _).mp hc') (fun k => by
      simp only [instanceKv] at e; rw [e])

/-- the condition on the options is necessary: if two options of an axis are observably the same
on top of `initial` and no earlier axis writes a key of theirs, the two queries are the same map,
whatever the other axes choose -/
theorem observably_equal_options_yield_equal_queries (initial pre post : List (String × Json))
    (key : String) (o o' : Json)
    (hobs : ∀ k, observe initial key o k = observe initial key o' k)
    (hpre : ∀ k, k ∈ (writesOf key o).map (·.1) ∨ k ∈ (writesOf key o').map (·.1) →
      k ∉ (writes pre).map (·.1)) (k : String) :
    lookup (overlay initial (pre ++ (key, o) :: post)) k
      = lookup (overlay initial (pre ++ (key, o') :: post)) k :=
  same_observation_same_query initial pre post key o o' hobs hpre k

/-- the scalar instance (`_partial` for the same reason): every option a non-object, the options of
each axis pairwise different, the section's keys unique (a `serde_json::Map` invariant).  Then the
hypotheses of `grid_outputs_distinct_partial` hold, so the queries differ as maps and as ordered
objects.  Excluded: every grid with an object option anywhere. -/
theorem grid_outputs_distinct_scalar_axes_partial {q : Json} {kvs sec : List (String × Json)}
    (h : GridQuery q kvs sec) (hk : (sec.map (·.1)).Nodup)
    (hs : ∀ a ∈ axes sec, ∀ v ∈ a.2, v.isObject = false) (ho : ∀ a ∈ axes sec, a.2.Nodup) :
    (∀ c c', inRange ((axes sec).map (·.2.length)) c = true →
      inRange ((axes sec).map (·.2.length)) c' = true → c ≠ c' →
      ∃ k, lookup (overlay (swapRemoveKv kvs gridKey) (choice (axes sec) c)) k
         ≠ lookup (overlay (swapRemoveKv kvs gridKey) (choice (axes sec) c')) k) ∧
    ∃ outs, process q = .ok (.arr outs) ∧ outs.Nodup := by
  have hw : ∀ a ∈ axes sec, ∀ v ∈ a.2, writesOf a.1 v = [(a.1, v)] := by
    intro a ha v hv
    have := hs a ha v hv
    cases v <;> simp_all [writesOf, Json.isObject]
  have hkeys : ∀ a ∈ axes sec, ∀ k, k ∈ axisKeys a → k = a.1 := by
    intro a ha k hkm
    obtain ⟨v, hv, hkv⟩ := List.mem_flatMap.mp hkm
    rw [hw a ha v hv] at hkv
    simpa using hkv
  have hnd : ((axes sec).map (·.1)).Nodup := (axes_keys_sublist sec).nodup hk
  refine grid_outputs_distinct_partial h ?_ ?_
  · -- different axes have different names, and a scalar axis writes only its name
    have hp : (axes sec).Pairwise (fun a b => a.1 ≠ b.1) := by
      have := List.pairwise_map.mp hnd
      exact this
    refine List.Pairwise.imp_of_mem ?_ hp
    intro a b ha hb hab k hka hkb
    exact hab ((hkeys a ha k hka).symm.trans (hkeys b hb k hkb))
  · intro a ha j j' hj hj' hall
    have e := hall a.1
    simp only [observe, hw a ha _ (List.getElem_mem hj), hw a ha _ (List.getElem_mem hj'),
      List.reverse_singleton, lookup_cons, if_true, Option.some.injEq] at e
    exact (List.Nodup.getElem_inj_iff (ho a ha)).mp e

def exScalarSection : List (String × Json) :=
  [("x", .arr [.num "1" 0, .num "2" 0]), ("y", .arr [.str "p", .str "q", .str "r"])]
def exScalarQuery : List (String × Json) := [("k", .null), ("grid_search", .obj exScalarSection)]

-- non-vacuity, scalar instance: a 2 × 3 scalar grid
example : ∃ outs, process (.obj exScalarQuery) = .ok (.arr outs) ∧ outs.Nodup ∧ outs.length = 6 := by
  have hg : GridQuery (.obj exScalarQuery) exScalarQuery exScalarSection :=
    ⟨rfl, by rfl, by decide +kernel, by decide +kernel⟩
  obtain ⟨_, outs, h1, h2⟩ := grid_outputs_distinct_scalar_axes_partial hg (by decide +kernel)
    (by simp [axes, exScalarSection, Json.isObject]) (by simp [axes, exScalarSection])
  obtain ⟨outs', h3, h4⟩ := grid_count hg
  rw [h1] at h3
  cases h3
  exact ⟨outs, h1, h2, by rw [h4]; decide +kernel⟩

/-- the repository's own `test_grid_search_using_objects`: a scalar axis and an axis of objects -/
def exObjectSection : List (String × Json) :=
  [("a", .arr [.num "1" 0, .num "2" 0]),
   ("ignored_inner_key", .arr [.obj [("x", .num "0" 0), ("y", .num "0" 0)],
                               .obj [("x", .num "1" 0), ("y", .num "1" 0)]])]
def exObjectQuery : List (String × Json) :=
  [("ignored_key", .str "ignored_value"), ("grid_search", .obj exObjectSection)]

-- non-vacuity, general theorem: object options (outside the scalar instance) satisfy its hypotheses
example : ∃ outs, process (.obj exObjectQuery) = .ok (.arr outs) ∧ outs.Nodup := by
  have hg : GridQuery (.obj exObjectQuery) exObjectQuery exObjectSection :=
    ⟨rfl, by rfl, by decide +kernel, by decide +kernel⟩
  refine (grid_outputs_distinct_partial hg ?_ ?_).2
  · -- axis `a` writes `a`; axis `ignored_inner_key` writes `x`, `y`
    simp only [AxesDisjoint, axes, exObjectSection, List.pairwise_cons, List.mem_singleton,
      List.not_mem_nil, forall_eq, List.Pairwise.nil, and_true, false_imp_iff, implies_true]
    decide +kernel
  · intro a ha
    simp only [axes, exObjectSection, List.mem_cons, List.not_mem_nil, or_false] at ha
    rcases ha with rfl | rfl
    · -- options 1, 2 differ under `a`
      intro j j' hj hj' hall
      have e := hall "a"
      simp only [List.length_cons, List.length_nil] at hj hj'
      have : j = 0 ∨ j = 1 := by omega
      have : j' = 0 ∨ j' = 1 := by omega
      rcases ‹j = 0 ∨ j = 1› with rfl | rfl <;> rcases ‹j' = 0 ∨ j' = 1› with rfl | rfl <;>
        first | rfl | (exfalso; simp [observe, writesOf, lookup_cons] at e)
    · -- the two objects differ under `x`
      intro j j' hj hj' hall
      have e := hall "x"
      simp only [List.length_cons, List.length_nil] at hj hj'
      have : j = 0 ∨ j = 1 := by omega
      have : j' = 0 ∨ j' = 1 := by omega
      rcases ‹j = 0 ∨ j = 1› with rfl | rfl <;> rcases ‹j' = 0 ∨ j' = 1› with rfl | rfl <;>
        first | rfl | (exfalso; simp [observe, writesOf, lookup_cons] at e)

/-! ### key order (the correspondence run compares it textually) -/

/-- removal of the grid key is `swap_remove`: the last field takes its slot … -/
theorem removal_moves_last_field (a b : List (String × Json)) (x : Json) (l : String × Json)
    (h : gridKey ∉ a.map (·.1)) :
    swapRemoveKv (a ++ (gridKey, x) :: (b ++ [l])) gridKey = a ++ l :: b :=
  swapRemoveKv_middle a b gridKey x l h

/-- … unless the grid key was last -/
theorem removal_of_last_field (a : List (String × Json)) (x : Json) (h : gridKey ∉ a.map (·.1)) :
    swapRemoveKv (a ++ [(gridKey, x)]) gridKey = a :=
  swapRemoveKv_last a gridKey x h

/-- a write keeps the place of an existing key and appends a new one -/
theorem write_key_order (kvs : List (String × Json)) (k : String) (v : Json) :
    (insertKv kvs k v).map (·.1)
      = if k ∈ kvs.map (·.1) then kvs.map (·.1) else kvs.map (·.1) ++ [k] :=
  keys_insertKv kvs k v

/-! ### the guards -/

/-- the guard rejects exactly the degenerate sections: no array-valued field, or an empty array -/
theorem guard_rejects_exactly_degenerate (kvs sec : List (String × Json))
    (hs : lookup kvs gridKey = some (.obj sec)) (hr : recurses (.obj sec) = false) :
    process (.obj kvs) = .error .degenerate ↔ (axes sec = [] ∨ ∃ a ∈ axes sec, a.2 = []) := by
  by_cases hd : degenerate (axes sec) = true
  · have : process (.obj kvs) = .error .degenerate := by
      simp [process, plan, Json.get?, hs, hr, hd]
    simp only [this, true_iff]
    simp only [degenerate, Bool.or_eq_true, List.isEmpty_iff, List.any_eq_true,
      List.isEmpty_iff] at hd
    exact hd
  · have hd' : degenerate (axes sec) = false := Bool.eq_false_iff.mpr hd
    rw [grid_expansion ⟨rfl, hs, hr, hd'⟩]
    obtain ⟨h1, h2⟩ := degenerate_false hd'
    simp only [reduceCtorEq, false_iff, not_or, not_exists, not_and]
    exact ⟨h1, fun a ha => h2 a ha⟩

/-- the recursion guard is a **text** test: a section whose compact serialization contains the text
`grid_search` anywhere — a key, a nested key, or merely a string value — is rejected … -/
theorem guard_rejects_text (q s : Json) (hs : q.get? gridKey = some s)
    (ht : gridKey.toList <:+: s.toCompact.toList) : process q = .error .recursion := by
  have : recurses s = true := strContains_of_infix _ _ ht
  simp [process, plan, hs, this]

/-- … and only then: the recursion error is given **exactly** when the text occurs (`Json.strContains`
is proved to be the substring test, both directions) -/
theorem guard_rejects_text_iff (q s : Json) (hs : q.get? gridKey = some s) :
    process q = .error .recursion ↔ gridKey.toList <:+: s.toCompact.toList := by
  constructor
  · intro h
    by_contra hn
    have hr : recurses s = false := by
      cases hrec : recurses s with
      | false => rfl
      | true => exact absurd ((strContains_iff_infix _ _).mp hrec) hn
    cases s with
    | obj sec =>
      by_cases hd : degenerate (axes sec) = true
      · simp [process, plan, hs, hr, hd] at h
      · cases q with
        | obj kvs =>
          have hd' : degenerate (axes sec) = false := Bool.eq_false_iff.mpr hd
          rw [grid_expansion ⟨rfl, by simpa [Json.get?] using hs, hr, hd'⟩] at h
          cases h
        | _ => simp [Json.get?] at hs
    | _ => simp [process, plan, hs, hr] at h
  · exact guard_rejects_text q s hs

/-- … in particular whenever any field of the section, at top level, is a string mentioning it -/
theorem guard_rejects_string_value (kvs sec : List (String × Json))
    (hs : lookup kvs gridKey = some (.obj sec)) (k : String) (str : String)
    (hk : (k, Json.str str) ∈ sec) (hm : gridKey.toList <:+: (Json.escapeStr str).toList) :
    process (.obj kvs) = .error .recursion :=
  guard_rejects_text _ _ (by simpa [Json.get?] using hs)
    (hm.trans (by simpa [Json.toCompact] using infix_obj_val sec k (.str str) hk))

/-- a grid section that is not an object is rejected (after the text test) -/
theorem guard_rejects_non_object_section (q s : Json) (hs : q.get? gridKey = some s)
    (hr : recurses s = false) (ho : s.isObject = false) : process q = .error .sectionNotObject := by
  cases s <;> simp_all [process, plan, Json.isObject]

/-- every answer of the plugin: unchanged, an array of objects, or one of three errors
(`queryNotObject` is unreachable) -/
theorem process_cases (q : Json) :
    process q = .ok q ∨
    (∃ outs, process q = .ok (.arr outs) ∧ outs.all Json.isObject = true) ∨
    process q = .error .recursion ∨ process q = .error .sectionNotObject ∨
    process q = .error .degenerate := by
  cases hp : plan q with
  | ok o =>
    cases o with
    | none => left; simp [process, hp]
    | some p =>
      obtain ⟨kvs, sec, hg, _, _, _⟩ := plan_wf hp
      right; left
      exact ⟨_, grid_expansion hg, by simp [expand, Json.isObject]⟩
  | error e =>
    have hpe : process q = .error e := by simp [process, hp]
    rw [hpe]
    cases e with
    | recursion => simp
    | sectionNotObject => simp
    | degenerate => simp
    | queryNotObject =>
      exfalso
      unfold plan at hp
      cases hq : q.get? gridKey with
      | none => rw [hq] at hp; simp at hp
      | some s =>
        rw [hq] at hp
        simp only at hp
        by_cases hr : recurses s = true
        · simp [hr] at hp
        · simp only [hr] at hp
          cases s with
          | obj sec =>
            simp only [Bool.false_eq_true, if_false] at hp
            by_cases hd : degenerate (axes sec) = true
            · simp [hd] at hp
            · simp only [hd] at hp
              cases q <;> simp_all [Json.get?]
          | _ => simp at hp

-- non-vacuity: the three historical witnesses are rejected as degenerate; a string value mentioning
-- the key trips the (textual) recursion guard; a query without the key passes through
example : process (.obj [("grid_search", .obj [("x", .arr [])])]) = .error .degenerate :=
  (guard_rejects_exactly_degenerate _ [("x", .arr [])] (by rfl) (by decide +kernel)).mpr
    (Or.inr ⟨("x", []), by simp [axes], rfl⟩)
example : process (.obj [("grid_search", .obj [])]) = .error .degenerate :=
  (guard_rejects_exactly_degenerate _ [] (by rfl) (by decide +kernel)).mpr (Or.inl rfl)
example : process (.obj [("grid_search", .obj [("a", .num "1" 0)])]) = .error .degenerate :=
  (guard_rejects_exactly_degenerate _ [("a", .num "1" 0)] (by rfl) (by decide +kernel)).mpr
    (Or.inl rfl)
example : process (.obj [("grid_search", .obj [("a", .arr [.num "1" 0]), ("note", .str "see grid_search")])])
    = .error .recursion :=
  guard_rejects_string_value _ [("a", .arr [.num "1" 0]), ("note", .str "see grid_search")] (by rfl)
    "note" "see grid_search" (by simp) (by decide +kernel)
example : process (.obj [("a", .num "1" 0)]) = .ok (.obj [("a", .num "1" 0)]) :=
  passthrough_without_grid_section _ (by rfl)
example : process (.str "grid_search") = .ok (.str "grid_search") :=
  passthrough_non_object _ rfl

/-! ### the plugin pipeline (`apply_input_plugins` with the grid-search plugin) -/

/-- the nested array produced by the plugin is flattened into exactly the generated queries -/
theorem pipeline_yields_the_expansion {q : Json} {kvs sec : List (String × Json)}
    (h : GridQuery q kvs sec) :
    applyInputPlugins [process] q = .ok (expand (swapRemoveKv kvs gridKey) (axes sec)) := by
  have hall : (expand (swapRemoveKv kvs gridKey) (axes sec)).all Json.isObject = true := by
    simp [expand, Json.isObject]
  have ho : q.isObject = true := by rw [h.isObj]; rfl
  simp [applyInputPlugins, ho, applyOps, jsonArrayOp, mapOp, grid_expansion h, flattenInPlace,
    Json.isArray, flatten1, jsonArrayFlatten, hall]

/-- a query object without grid section comes back alone and unchanged -/
theorem pipeline_passthrough (kvs : List (String × Json)) (h : lookup kvs gridKey = none) :
    applyInputPlugins [process] (.obj kvs) = .ok [.obj kvs] := by
  have hp : process (.obj kvs) = .ok (.obj kvs) :=
    passthrough_without_grid_section _ (by simpa [Json.get?] using h)
  simp [applyInputPlugins, applyOps, jsonArrayOp, mapOp, hp, flattenInPlace, Json.isArray,
    jsonArrayFlatten, Json.isObject]

/-- a rejected query becomes an error response carrying the request -/
theorem pipeline_error_carries_request (q : Json) (e : ErrKind) (h : process q = .error e) :
    applyInputPlugins [process] q = .error (.plugin q e) := by
  have ho : q.isObject = true := by
    cases hq : q.isObject with
    | true => rfl
    | false => rw [passthrough_non_object q hq] at h; cases h
  simp [applyInputPlugins, ho, applyOps, jsonArrayOp, mapOp, h]

/-- a query that is not a JSON object never reaches the plugins: it is answered with an error response
that echoes it (it used to be flattened — `[q₁, q₂]` became two queries, `[]` none — or to end in an
invariant error without the request) -/
theorem pipeline_rejects_non_object {ε : Type} (plugins : List (Json → Except ε Json)) (q : Json)
    (h : q.isObject = false) : applyInputPlugins plugins q = .error (.notObject q) := by
  simp [applyInputPlugins, h]

/-! ### a whole query state (`json_array_op` over several queries, as an earlier plugin leaves them) -/

/-- what one query of the state stands for after the plugin ran on it: the elements of an array
result, or the single result -/
def standsFor : Json → List Json
  | .arr sub => sub
  | v => [v]

theorem flatten1_eq_flatMap (l : List Json) : flatten1 l = l.flatMap standsFor := by
  induction l with
  | nil => rfl
  | cons v r ih => cases v <;> simp [flatten1, standsFor, ih]

theorem flatMap_standsFor_of_no_array (l : List Json) (h : l.all (fun v => !v.isArray) = true) :
    l.flatMap standsFor = l := by
  induction l with
  | nil => rfl
  | cons v r ih =>
    simp only [List.all_cons, Bool.and_eq_true] at h
    cases v <;> simp_all [standsFor, Json.isArray]

theorem mapOp_ok {ε : Type} (op : Json → Except ε Json) (qs rs : List Json)
    (h : qs.map op = rs.map Except.ok) : mapOp op qs = .ok rs := by
  induction qs generalizing rs with
  | nil => cases rs <;> simp_all [mapOp]
  | cons q r ih =>
    cases rs with
    | nil => simp at h
    | cons a rs =>
      simp only [List.map_cons, List.cons.injEq] at h
      simp [mapOp, h.1, ih rs h.2]

/-- **`json_array_op` flattens exactly one level, in order**: when the plugin succeeds on every query
of the state, the new state is the concatenation, in order, of what each query stands for — the
generated queries of a query with a grid section, the query itself otherwise; nothing is lost,
duplicated or left nested, whatever mixture of the two kinds the state holds. -/
theorem state_op_concatenates {ε : Type} (op : Json → Except ε Json) (qs rs : List Json)
    (h : qs.map op = rs.map Except.ok) :
    jsonArrayOp op (.arr qs) = .ok (.arr (rs.flatMap standsFor)) := by
  simp only [jsonArrayOp, mapOp_ok op qs rs h, flattenInPlace]
  split
  · next hall => rw [flatMap_standsFor_of_no_array rs hall]
  · rw [flatten1_eq_flatMap]

/-- a plain query next to the 2 × 3 example grid query: seven queries, the plain one first -/
example :
    jsonArrayOp process (.arr [.obj [("plain", .null)], .obj exQuery])
      = .ok (.arr (.obj [("plain", .null)] ::
          expand (swapRemoveKv exQuery gridKey) (axes exSection))) := by
  have h := state_op_concatenates process [.obj [("plain", .null)], .obj exQuery]
    [.obj [("plain", .null)], .arr (expand (swapRemoveKv exQuery gridKey) (axes exSection))]
    (by simp [grid_expansion exQuery_is_grid_query,
          passthrough_without_grid_section (.obj [("plain", .null)]) (by rfl)])
  simpa [standsFor] using h


/-! ### `input_plugin_ops.rs`, every function on every value -/

/-- an error response is exactly `{"request": …, "error": <text>}`, in that order, and carries the
request it is about.  (Holds by definition of the model `packageError`; that the real responses have
this shape is checked by the harness, oracle key `response/shape`.) -/
theorem error_response_shape (q : Json) :
    packageError q = .obj [("request", q), ("error", errorText)] ∧
    (packageError q).get? "request" = some q := ⟨rfl, rfl⟩

/-- the invariant error carries the query state when the caller still has it, else the placeholder
`{"error": "unable to display query"}`; the sub-section only goes into the message.  (A description of
the model function by cases, not a property derived from anything.) -/
theorem invariant_error_request (q sub : Option Json) :
    packageInvariantError q sub = packageError (q.getD noRequest) := by
  cases q <;> rfl

/-- every error of the pipeline answers with the request it names (by definition of `PipeErr.response`) -/
theorem pipe_error_response_carries_request {ε : Type} (e : PipeErr ε) :
    e.response.get? "request" = some e.request := rfl

/-- **`json_array_flatten_in_place`, every value**: an array becomes the concatenation, in order, of
what its elements stand for (an array element for its elements, anything else for itself) — exactly
one level; anything that is not an array is rejected, untouched, and echoed as the request -/
theorem flatten_in_place_spec {ε : Type} (v : Json) :
    (∀ xs, v = .arr xs →
      flattenInPlace (ε := ε) v = .ok (.arr (xs.flatMap standsFor))) ∧
    (v.isArray = false → flattenInPlace (ε := ε) v = .error (.invariant v)) := by
  constructor
  · rintro xs rfl
    simp only [flattenInPlace]
    split
    · next hall => rw [flatMap_standsFor_of_no_array xs hall]
    · rw [flatten1_eq_flatMap]
  · intro h
    cases v <;> simp_all [flattenInPlace, Json.isArray]

/-- only one level is removed: `[[[a]]]` becomes `[[a]]` -/
example : flattenInPlace (ε := ErrKind) (.arr [.arr [.arr [.null]], .bool true])
    = .ok (.arr [.arr [.null], .bool true]) := rfl

/-- **`json_array_flatten`, every value**: it returns the elements of an array of objects, as they
are; an array holding anything else is an invariant error (without the state: it was consumed); a
value that is not an array is an invariant error that echoes it -/
theorem final_flatten_spec {ε : Type} (v : Json) :
    (∀ xs, v = .arr xs → xs.all Json.isObject = true →
      jsonArrayFlatten (ε := ε) v = .ok xs) ∧
    (∀ xs, v = .arr xs → xs.all Json.isObject = false →
      jsonArrayFlatten (ε := ε) v = .error (.invariant noRequest)) ∧
    (v.isArray = false → jsonArrayFlatten (ε := ε) v = .error (.invariant v)) := by
  refine ⟨?_, ?_, ?_⟩
  · rintro xs rfl h; simp [jsonArrayFlatten, h]
  · rintro xs rfl h; simp [jsonArrayFlatten, h]
  · intro h; cases v <;> simp_all [jsonArrayFlatten, Json.isArray]

/-- `json_array_op` on a state that is not an array: an invariant error with the placeholder -/
theorem state_op_rejects_non_array {ε : Type} (op : Json → Except ε Json) (v : Json)
    (h : v.isArray = false) : jsonArrayOp op v = .error (.invariant noRequest) := by
  cases v <;> simp_all [jsonArrayOp, Json.isArray]

/-- `json_array_op`: the first query the plugin rejects decides; the response names that query -/
theorem state_op_first_failure {ε : Type} (op : Json → Except ε Json) (pre post : List Json)
    (q : Json) (e : ε) (hpre : ∀ p ∈ pre, ∃ r, op p = .ok r) (hq : op q = .error e) :
    jsonArrayOp op (.arr (pre ++ q :: post)) = .error (.plugin q e) := by
  have : mapOp op (pre ++ q :: post) = .error (.plugin q e) := by
    induction pre with
    | nil => simp [mapOp, hq]
    | cons p pre ih =>
      obtain ⟨r, hr⟩ := hpre p (by simp)
      simp [mapOp, hr, ih (fun x hx => hpre x (by simp [hx]))]
  simp [jsonArrayOp, this]

/-! ### plugins from configuration (`GridSearchBuilder`, `build_input_plugins`) -/

/-- the builder ignores its parameters and cannot fail (definitional: the model function is the
constant; the real builder is run on arbitrary parameters by the harness, key `builder/behaviour`) -/
theorem builder_ignores_parameters {ε : Type} (parameters : Json) :
    gridSearchBuilder (ε := ε) parameters = .ok process := rfl

/-- a plugin section listing `n` grid-search entries — whatever else the entries hold — builds `n`
grid-search plugins -/
theorem build_grid_search_entries (cfg : List (String × Json)) (entries : List Json)
    (hc : lookup cfg "input_plugins" = some (.arr entries))
    (he : ∀ e ∈ entries, e.get? "type" = some (.str gridKey)) :
    buildInputPlugins gridOnlyRegistry (.obj cfg) = .ok (List.replicate entries.length process) := by
  have : ∀ (es : List Json), (∀ e ∈ es, e.get? "type" = some (.str gridKey)) →
      buildEntries gridOnlyRegistry es = .ok (List.replicate es.length process) := by
    intro es
    induction es with
    | nil => intro _; rfl
    | cons e r ih =>
      intro hes
      have h1 := hes e (by simp)
      have h2 := ih (fun x hx => hes x (by simp [hx]))
      simp [buildEntries, h1, gridOnlyRegistry, gridSearchBuilder, h2, List.replicate_succ]
  simp [buildInputPlugins, Json.get?, hc, this entries he]

/-- malformed sections: no `input_plugins` field, or one that is not an array -/
theorem build_rejects_malformed_section (config : Json) :
    (config.get? "input_plugins" = none →
      buildInputPlugins gridOnlyRegistry config = .error .expectedField) ∧
    (∀ v, config.get? "input_plugins" = some v → v.isArray = false →
      buildInputPlugins gridOnlyRegistry config = .error .expectedType) := by
  constructor
  · intro h; simp [buildInputPlugins, h]
  · intro v h hv; cases v <;> simp_all [buildInputPlugins, Json.isArray]

/-- the first malformed entry decides: no `type`, a `type` that is not a string, or an unregistered
name -/
theorem build_first_bad_entry (pre post : List Json) (bad : Json)
    (hpre : ∀ e ∈ pre, e.get? "type" = some (.str gridKey)) :
    (bad.get? "type" = none →
      buildEntries gridOnlyRegistry (pre ++ bad :: post) = .error .expectedField) ∧
    (∀ v, bad.get? "type" = some v → v.isString = false →
      buildEntries gridOnlyRegistry (pre ++ bad :: post) = .error .expectedType) ∧
    (∀ t, bad.get? "type" = some (.str t) → t ≠ gridKey →
      buildEntries gridOnlyRegistry (pre ++ bad :: post) = .error .unknownPlugin) := by
  induction pre with
  | nil =>
    refine ⟨?_, ?_, ?_⟩
    · intro h; simp [buildEntries, h]
    · intro v h hv; cases v <;> simp_all [buildEntries, Json.isString]
    · intro t h ht; simp [buildEntries, h, gridOnlyRegistry, ht]
  | cons e pre ih =>
    have h1 := hpre e (by simp)
    obtain ⟨i1, i2, i3⟩ := ih (fun x hx => hpre x (by simp [hx]))
    refine ⟨?_, ?_, ?_⟩
    · intro h; simp [buildEntries, h1, gridOnlyRegistry, gridSearchBuilder, i1 h]
    · intro v h hv; simp [buildEntries, h1, gridOnlyRegistry, gridSearchBuilder, i2 v h hv]
    · intro t h ht; simp [buildEntries, h1, gridOnlyRegistry, gridSearchBuilder, i3 t h ht]

/-- a state of queries the plugin leaves alone, none of them an array, is left alone -/
theorem state_op_identity {ε : Type} (op : Json → Except ε Json) (qs : List Json)
    (hop : ∀ q ∈ qs, op q = .ok q) (hna : qs.all (fun v => !v.isArray) = true) :
    jsonArrayOp op (.arr qs) = .ok (.arr qs) := by
  have h := state_op_concatenates op qs qs (List.map_congr_left hop)
  rw [flatMap_standsFor_of_no_array qs hna] at h
  exact h

/-- **listing the plugin several times changes nothing**: a generated query has no grid section
left, so every further grid-search pass returns the state as it is -/
theorem repeated_grid_search_is_idempotent {q : Json} {kvs sec : List (String × Json)}
    (h : GridQuery q kvs sec) (hn : (kvs.map (·.1)).Nodup) (n : Nat) :
    applyInputPlugins (List.replicate (n + 1) process) q = applyInputPlugins [process] q := by
  have ho : q.isObject = true := by rw [h.isObj]; rfl
  let outs := expand (swapRemoveKv kvs gridKey) (axes sec)
  have hfirst : jsonArrayOp process (.arr [q]) = .ok (.arr outs) := by
    have hall : outs.all (fun v => !v.isArray) = true := by
      simp [outs, expand, Json.isArray]
    simp [jsonArrayOp, mapOp, grid_expansion h, flattenInPlace, Json.isArray, flatten1, outs]
  have hleave : ∀ o ∈ outs, process o = .ok o := by
    intro o hoo
    obtain ⟨c, _, rfl⟩ := List.mem_map.mp hoo
    apply passthrough_without_grid_section
    simpa [Json.get?, instanceKv] using output_has_no_grid_key h hn c
  have hna : outs.all (fun v => !v.isArray) = true := by
    simp [outs, expand, Json.isArray]
  have hrest : ∀ m, applyOps (List.replicate m process) (.arr outs) = .ok (.arr outs) := by
    intro m
    induction m with
    | zero => rfl
    | succ m ih => simp [List.replicate_succ, applyOps, state_op_identity process outs hleave hna, ih]
  simp only [applyInputPlugins, ho, if_true, List.replicate_succ, applyOps, hfirst, hrest n]

-- non-vacuity: the example query through the plugin listed three times; a section with two entries
-- and stray parameters; the malformed sections
example : applyInputPlugins [process, process, process] (.obj exQuery)
    = applyInputPlugins [process] (.obj exQuery) :=
  repeated_grid_search_is_idempotent exQuery_is_grid_query (by decide +kernel) 2
example : (buildInputPlugins gridOnlyRegistry (.obj [("output_plugins", .arr []), ("input_plugins",
      .arr [.obj [("type", .str "grid_search")],
            .obj [("anything", .num "1" 0), ("type", .str "grid_search")]])])).map List.length
    = .ok 2 := by
  rw [build_grid_search_entries _ _ (by rfl) (by
    intro e he
    simp only [List.mem_cons, List.not_mem_nil, or_false] at he
    rcases he with rfl | rfl <;> rfl)]
  rfl
example : buildInputPlugins gridOnlyRegistry (.obj []) = .error .expectedField :=
  (build_rejects_malformed_section _).1 rfl
example : buildInputPlugins gridOnlyRegistry (.obj [("input_plugins", .str "grid_search")])
    = .error .expectedType :=
  (build_rejects_malformed_section _).2 _ (by rfl) rfl
example : buildEntries gridOnlyRegistry [.obj [("type", .str "grid_search")], .obj [("type", .str "nope")]]
    = .error .unknownPlugin :=
  (build_first_bad_entry [.obj [("type", .str "grid_search")]] [] _ (by
    intro e he; simp only [List.mem_cons, List.not_mem_nil, or_false] at he; subst he; rfl)).2.2
    "nope" (by rfl) (by decide)

end C17
end Compass
