/-
C06 — one response per query, independent of parallelism, order and schedule.

Model: `Model/Batch.lean` (`CompassApp::run` with chunking, `apply_input_plugins` over the grid-search plugin
of C17, the inject plugin, the load-balancer plugin and table plugins for the r-tree matchers, partition into
processed queries / error responses, `apply_load_balancing_policy`, per-bin execution, both persistence
policies, workers as interleavings of atomic steps), tied to the code by `harness/src/c06.rs`: the real
`app.run` on generated batches against `runO`, response by response, in the order returned.

The single-query function (`run_single_query`) is the parameter `respond`; the theorems hold for every
`respond`, every plugin list, every weight arithmetic `W` (in particular IEEE doubles), every batch.

What is proved in full: load balancing is a partition (`balance_partition`); chunking is invisible
(`chunking_invisible`); the responses of a batch are, as a multiset, the union of what each query gives on its
own (`run_multiset`, `run_equals_alone_runs`), hence independent of parallelism (configured or per run), of
the weights, of the batch order (`run_order_independent`), of the worker schedule (`sched_independent`); a
query that fails input processing contributes exactly its own error response and changes nothing else
(`failing_query_contributes_its_error`); both persistence policies (`run_multiset`, discard ⇒ exactly the
input-stage error responses).

Repaired (the former `_counterexample` theorems are now the positive statements; the witnesses stay in the
harness corpus under their oracle keys): a query that is not a JSON object is answered with an error response
that echoes it (`non_object_query_echoed`; it used to be answered with the placeholder request
`{"error":"unable to display query"}`, key `pipeline/request-not-echoed`, and `[]` with no response at all,
key `pipeline/query-unanswered`); every query is answered (`every_query_answered_partial`: for plugins that keep objects); every response carries the
request it answers (`response_carries_request`).

Where the code still deviates from the property (findings, each with a counterexample on the faithful model):
* `pipeline/sibling-responses-lost` — `json_array_op` stops at the first failing element: when grid search
  has expanded a query into n and a later plugin fails on one of them, the query yields ONE error response and
  its n−1 siblings are lost (`one_response_per_expanded_query_partial`, `answer_is_itemwise_partial`,
  `sibling_responses_lost_counterexample`); repairing it needs `json_array_op` to return several results
  (an API change);
  the same holds when a (user-defined) plugin breaks the invariant on one expanded query
  (`broken_child_takes_siblings_counterexample`) — the error response now names the original query
  (`invariant_error_carries_query`, fix 755333a; the placeholder request was finding
  `pipeline/invariant-error-loses-request`);
* the prediction cache is the one piece of shared mutable state: transparent iff no two inputs with different
  predictions share a rounded key (`cache_transparent`, `cache_collision_counterexample`; the collision on the
  real record is C08's finding `predict/cache-rounding-collision`).

Plugin configurations include user-defined plugins (`Plugin.userSplit`, `userFailOn`, `userBreaker`; the harness
pushes real implementations of them into `CompassApp.input_plugins`): a plugin that expands only SOME of the
queries leaves a state that mixes plain queries and nested arrays, which is de-nested element by element
(`flatten_denests_mixed_states`, `plugin_step_concatenates`).

Entry points (`Model/BatchEntry.lean`): `get_queries` (`get_queries_spec`, `call_value_spec`), the per-run
configuration (`run_config_without_keys`, `invalid_run_config_fails_call`), the call as `run`
(`call_is_run`, `call_multiset`), the response sink (`sink_transparent`, `sink_build_errors`,
`failing_sink_fails_call` — under both persistence policies since fix 80a5c9a, `discard_policy_with_failing_sink`),
`CompassAppBindings::run_queries` (`run_queries_spec`), the load-balancer builder
(`load_balancer_builder_spec`) and the order of the build stages (`build_reports_first_failing_stage`).

The theorems about answering and echoing take the hypothesis that every plugin maps an object to an object or
a non-empty array of objects (`ObjOp`): proved for grid search, inject, the load balancer and the user-defined
split / fail-on-marker plugins of the harness (`builtin_plugins_keep_objects`,
`user_split_and_fail_keep_objects`), false of the user-defined invariant breaker
(`user_breaker_does_not_keep_objects`); `error_echoes_request` needs no hypothesis; for a recorded table
plugin it is a property of the recorded data (true of
the r-tree matchers and the haversine load balancer, which only insert fields).

Not a finding (configuration, outside the quantifier `parallelism 1..#cores`): parallelism 0 makes
`apply_load_balancing_policy` fail the whole batch (`parallelism_zero_fails_batch`).

Assumptions of the batch-level theorems, named: (1) they are stated over `runO` — the per-run configuration
already parsed and `ResponseSink::None`; `call_is_run` extends them to any sink that can be built and whose
writes succeed, `call_multiset` restates `run_multiset` over the model with configuration parsing and sinks, and
with a sink whose writes fail the call is an `Err` under both policies (`failing_sink_fails_call`);
(2) `respond` is a total pure function — everything inside `run_single_query` is outside this model;
(3) "each response carries the request" for search-stage responses is the premise `hr` of
`response_carries_request`, derived in `single_query_echoes_request` from a model of the packaging of
`run_single_query` (`create_initial_output`, `package_error`, output plugins that write other keys) and checked
on every response of the differential run (oracle key `response/request-not-echoed-by-search`);
(4) `sched_independent` and `cache_transparent` hold by construction of the model (pure `respond`, atomic steps;
per-step transparency as the hypothesis).

Partial in this sense: real thread interleavings are only sampled by the harness; the model has atomic
"run the next query of my bin" steps; purity of `respond` rests on Rust's aliasing rules (trusted).
-/
import Compass.Proofs.Batch
import Compass.Proofs.BatchEntry
import Compass.Proofs.Cli

namespace Compass
namespace C06
open Batch
open MultiSet (Outcome)
open GridSearch (noRequest)

/-! ## chunking of the input stage -/

/-- `plugin_chunk_size ≥ 1` whatever the batch size and the configured parallelism (0 included): the
`.max(1)` guard (fix 93abeee) -/
theorem chunk_size_positive (len selfPar : Nat) : 1 ≤ chunkSize len selfPar :=
  chunkSize_pos len selfPar

/-- the chunks, joined in order, are the batch: every query is in exactly one chunk -/
theorem chunks_partition {α : Type} (n : Nat) (hn : 1 ≤ n) (l : List α) : (chunks n l).flatten = l :=
  chunks_flatten n hn l

/-- **chunking is invisible**: `run` is the function of the whole batch that partitions it into processed
queries and error responses, whatever `self.parallelism` (which only sets the chunk size) is -/
theorem chunking_invisible {α : Type} (W : WOps α) (cfg : Config) (respond : Json → Json)
    (batch : List Json) (selfPar' : Nat) :
    runO W { cfg with selfPar := selfPar', runPar := some cfg.parallelism } respond batch
      = runO W cfg respond batch := by
  rw [runO_eq, runO_eq]
  rfl

example : chunks 2 [1, 2, 3, 4, 5] = [[1, 2], [3, 4], [5]] := by decide
example : chunkSize 5 2 = 3 ∧ chunkSize 0 2 = 1 ∧ chunkSize 5 16 = 1 ∧ chunkSize 0 0 = 1 := by decide

/-! ## load balancing -/

/-- **Load balancing is a partition.**  For every parallelism `p ≥ 1`, every weight arithmetic and every
weight estimates (numbers, other JSON, missing), `apply_load_balancing_policy` neither fails nor panics, makes
`min p n` bins for `n` queries (never more bins than queries, fix: a huge `p` used to be allocated and aborted
the process), and the bins joined are a permutation of the queries: every query is in exactly one bin. -/
theorem balance_partition {α : Type} (W : WOps α) (p : Nat) (hp : 1 ≤ p) (qs : List Json) :
    ∃ bins, balanceO W p qs = .ok (.ok bins) ∧ bins.flatten.Perm qs ∧
      (qs ≠ [] → bins.length = min p qs.length) := by
  obtain ⟨bins, h1, h2, h3, _⟩ := balanceO_spec W p hp qs
  exact ⟨bins, h1, h2, h3⟩

/-- the bin chosen is always an existing one, and it is the **first** minimal one -/
theorem min_bin_in_range {α : Type} (W : WOps α) (totals : List α) (i : Nat)
    (h : minBin W totals = some i) : i < totals.length :=
  minBin_lt W h

/-- a weight estimate that is not a number counts as the default weight (fix 1eb0c7f: it used to make the
whole batch fail) -/
theorem non_numeric_weight_is_default {α : Type} (W : WOps α) (kvs : List (String × Json)) (v : Json)
    (hv : v.isNumber = false) (h : Json.lookup kvs weightKey = some v) :
    weightOf W (.obj kvs) = W.default := by
  cases v <;> simp_all [weightOf, Json.get?, Json.isNumber]

/-- parallelism 0 (a configuration error, outside the property's quantifier): `Err` for the whole batch as
soon as one query passes input processing — never a panic -/
theorem parallelism_zero_fails_batch {α : Type} (W : WOps α) (cfg : Config) (respond : Json → Json)
    (batch : List Json) (h0 : cfg.parallelism = 0) (hq : processed cfg.plugins batch ≠ []) :
    runO W cfg respond batch = .ok (.error .minBinEmpty) := by
  rw [runO_eq, h0, balanceO_zero]
  have : (processed cfg.plugins batch).isEmpty = false := by
    cases h : processed cfg.plugins batch with
    | nil => exact absurd h hq
    | cons _ _ => rfl
  simp [this]

def natOps : WOps Nat := { zero := 0, add := (· + ·), lt := fun a b => decide (a < b), ofBits := id, default := 1 }
def wq (i w : Nat) : Json := .obj [("i", .num "" i), (weightKey, .num "" w)]

-- non-vacuity: the repository's "cycling" example 1,4,1,2,… over 4 bins gives its documented layout
example : (match balanceO natOps 4 ((List.range 12).map fun i => wq i ([1, 4, 1, 2].getD (i % 4) 0)) with
    | .ok (.ok bins) => bins.map (fun b => b.map fun q => (q.get? "i").bind Json.asF64Bits?)
    | _ => [])
    = [[some 0, some 4, some 6, some 8, some 9], [some 1, some 10], [some 2, some 5],
       [some 3, some 7, some 11]] := by decide +kernel

/-! ## the batch as a multiset -/

/-- **The responses of a batch.**  (`runO`: the per-run configuration already parsed, `ResponseSink::None` — or,
by `call_is_run`, any sink that can be built and whose writes succeed; with a sink whose writes fail the call is
an `Err` under both policies, `failing_sink_fails_call`; `call_multiset` is this theorem over the model with
configuration parsing and sinks.)  For every batch, every plugin list, every parallelism `≥ 1` (configured or
per run), every weight arithmetic: `run` returns — never an `Err`, never a panic — a list that is a permutation
of the per-query answers `⨄_q answer q` (the answers to the expanded queries of `q`, or `q`'s error response);
under the discard policy exactly the input-stage error responses. -/
theorem run_multiset {α : Type} (W : WOps α) (cfg : Config) (respond : Json → Json) (batch : List Json)
    (hp : 1 ≤ cfg.parallelism) :
    ∃ out, runO W cfg respond batch = .ok (.ok out) ∧
      out.Perm (if cfg.persist then answers cfg.plugins respond batch
                else answersErr cfg.plugins batch) := by
  obtain ⟨bins, h1, h2, _, h4⟩ := balanceO_spec W cfg.parallelism hp (processed cfg.plugins batch)
  refine ⟨_, by rw [runO_eq, h1], ?_⟩
  refine (assemble_perm cfg.persist respond bins _ _ h2 h4).trans ?_
  cases cfg.persist with
  | true => simpa using answers_perm cfg.plugins respond batch
  | false => simp [answersErr_eq]

/-- **Independent of the parallelism setting and of the load-balancing assignment**: two runs of the same
batch under any two parallelisms `≥ 1` (configured, per run) and any two weight arithmetics return the same
multiset of responses -/
theorem run_parallelism_independent {α β : Type} (W : WOps α) (W' : WOps β) (cfg cfg' : Config)
    (respond : Json → Json) (batch : List Json) (hpl : cfg'.plugins = cfg.plugins)
    (hpe : cfg'.persist = cfg.persist) (hp : 1 ≤ cfg.parallelism) (hp' : 1 ≤ cfg'.parallelism) :
    ∃ out out', runO W cfg respond batch = .ok (.ok out) ∧ runO W' cfg' respond batch = .ok (.ok out') ∧
      out.Perm out' := by
  obtain ⟨out, h1, h2⟩ := run_multiset W cfg respond batch hp
  obtain ⟨out', h1', h2'⟩ := run_multiset W' cfg' respond batch hp'
  rw [hpl, hpe] at h2'
  exact ⟨out, out', h1, h1', h2.trans h2'.symm⟩

/-- **Independent of the order of the batch** -/
theorem run_order_independent {α : Type} (W : WOps α) (cfg : Config) (respond : Json → Json)
    (batch batch' : List Json) (hb : batch.Perm batch') (hp : 1 ≤ cfg.parallelism) :
    ∃ out out', runO W cfg respond batch = .ok (.ok out) ∧ runO W cfg respond batch' = .ok (.ok out') ∧
      out.Perm out' := by
  obtain ⟨out, h1, h2⟩ := run_multiset W cfg respond batch hp
  obtain ⟨out', h1', h2'⟩ := run_multiset W cfg respond batch' hp
  refine ⟨out, out', h1, h1', h2.trans (List.Perm.trans ?_ h2'.symm)⟩
  cases cfg.persist with
  | true => simpa [answers] using hb.flatMap_right _
  | false => simpa [answersErr] using hb.flatMap_right _

/-- **Equal to what each query returns when run alone**: there is a function `alone` giving the result of
`run` on each single-query batch, and the batch's responses are a permutation of `⨄_q alone q` -/
theorem run_equals_alone_runs {α : Type} (W : WOps α) (cfg : Config) (respond : Json → Json)
    (batch : List Json) (hp : 1 ≤ cfg.parallelism) :
    ∃ (alone : Json → List Json) (out : List Json),
      (∀ q, runO W cfg respond [q] = .ok (.ok (alone q))) ∧
      runO W cfg respond batch = .ok (.ok out) ∧ out.Perm (batch.flatMap alone) := by
  have hex : ∀ q, ∃ o, runO W cfg respond [q] = .ok (.ok o) ∧
      o.Perm (if cfg.persist then answers cfg.plugins respond [q] else answersErr cfg.plugins [q]) :=
    fun q => run_multiset W cfg respond [q] hp
  choose alone ha using hex
  obtain ⟨out, h1, h2⟩ := run_multiset W cfg respond batch hp
  refine ⟨alone, out, fun q => (ha q).1, h1, h2.trans ?_⟩
  have key : ∀ l : List Json, (if cfg.persist then answers cfg.plugins respond l
      else answersErr cfg.plugins l).Perm (l.flatMap alone) := by
    intro l
    induction l with
    | nil => cases cfg.persist <;> simp [answers, answersErr]
    | cons q r ih =>
      have hq := (ha q).2
      cases hpers : cfg.persist with
      | true =>
        simp only [hpers, if_true, answers, List.flatMap_cons, List.flatMap_nil, List.append_nil]
          at hq ih ⊢
        exact List.Perm.append hq.symm ih
      | false =>
        simp only [hpers, Bool.false_eq_true, if_false, answersErr, List.flatMap_cons, List.flatMap_nil,
          List.append_nil] at hq ih ⊢
        exact List.Perm.append hq.symm ih
  exact key batch

/-- **A failing query becomes its own error response and changes no other response**: the per-query answers
of `pre ++ q :: post` are those of `pre`, then `q`'s error response, then those of `post` -/
theorem failing_query_contributes_its_error (plugins : List Plugin) (respond : Json → Json)
    (pre post : List Json) (q e : Json) (h : prepT plugins q = .error e) :
    answers plugins respond (pre ++ q :: post)
      = answers plugins respond pre ++ e :: answers plugins respond post := by
  simp [answers, answer, h]

/-- an error response has the shape `{"request": …, "error": <kind>}` -/
theorem error_response_shape (plugins : List Plugin) (q e : Json) (h : prepT plugins q = .error e) :
    ∃ req kind, e = .obj [("request", req), ("error", .str kind)] := by
  unfold prepT at h
  cases hp : GridSearch.applyInputPlugins (plugins.map processT) q with
  | ok qs => simp [hp] at h
  | error pe =>
    simp only [hp, Except.error.injEq] at h
    subst h
    cases pe with
    | plugin r pe => exact ⟨_, _, by simp only [errorResponse]; rw [fixRequest_response]⟩
    | invariant r => exact ⟨_, _, by simp only [errorResponse]; rw [fixRequest_response]⟩
    | notObject r => exact ⟨_, _, by simp only [errorResponse]; rw [fixRequest_response]⟩

/-- grid search, inject (both modes) and the load balancer map an object to an object or to a non-empty array
of objects -/
theorem builtin_plugins_keep_objects (p : Plugin) (hp : p.wellBehaved = true) : ObjOp (processT p) :=
  processT_objOp p hp

/-- … and so do the user-defined split plugin (a query with a non-empty `alts` array becomes its children, any
other query is left alone) and the user-defined plugin that fails on a marker key -/
theorem user_split_and_fail_keep_objects (key : String) :
    ObjOp (processT (.userSplit key)) ∧ ObjOp (processT (.userFailOn key)) :=
  ⟨processT_objOp _ rfl, processT_objOp _ rfl⟩

/-- the hypothesis is not empty talk: the user-defined invariant breaker does **not** satisfy it (a scalar, an
empty array, an array nested two levels deep) -/
theorem user_breaker_does_not_keep_objects (key : String) : ¬ ObjOp (processT (.userBreaker key)) := by
  intro h
  have := h (.obj [(key, .str "scalar")]) seven rfl (by simp [processT, userT, Json.get?, Json.lookup])
  rcases this with h1 | ⟨xs, h1, _⟩
  · simp [seven, Json.isObject] at h1
  · simp [seven] at h1

/-- **A query that is not a JSON object is answered with an error response that echoes it**, whatever the
plugins (fix 6b89952; it used to be answered with the placeholder request, an array was split into several
queries when a plugin was configured, and `[]` got no response at all) -/
theorem non_object_query_echoed (plugins : List Plugin) (respond : Json → Json) (q : Json)
    (h : q.isObject = false) :
    prepT plugins q = .error (.obj [("request", q), ("error", .str "UnexpectedQueryStructure")]) ∧
    answer plugins respond q = [.obj [("request", q), ("error", .str "UnexpectedQueryStructure")]] := by
  have := prepT_non_object plugins q h
  exact ⟨this, by simp [answer, this]⟩

/-- an object query under object-preserving plugins expands into at least one query, all objects -/
theorem expansion_nonempty (plugins : List Plugin) (hw : ∀ p ∈ plugins, ObjOp (processT p)) (q : Json)
    (qs : List Json) (h : prepT plugins q = .ok qs) : qs ≠ [] ∧ qs.all Json.isObject = true := by
  have ho := prepT_ok_isObject h
  unfold prepT GridSearch.applyInputPlugins at h
  simp only [ho, if_true] at h
  cases ha : GridSearch.applyOps (plugins.map processT) (.arr [q]) with
  | error e => simp [ha] at h
  | ok s =>
    obtain ⟨final, rfl, hall, hne⟩ := applyOps_objects (plugins.map processT)
      (by intro op hop; obtain ⟨p, hp, rfl⟩ := List.mem_map.mp hop; exact hw p hp)
      [q] s (by simp [ho]) (by simp) ha
    simp only [ha, GridSearch.jsonArrayFlatten, hall, if_true, Except.ok.injEq] at h
    subst h
    exact ⟨hne, hall⟩

/-- **Every query is answered** (`_partial`: hypothesis `hw`, every plugin maps an object to an object or a
non-empty array of objects — false of a plugin that answers `[]`, `C12.table_plugin_can_erase_a_query_counterexample`):
whatever JSON value is offered as a query, it gets at least one response
(its expanded queries' responses, or one error response) -/
theorem every_query_answered_partial (plugins : List Plugin) (hw : ∀ p ∈ plugins, ObjOp (processT p))
    (respond : Json → Json) (q : Json) : answer plugins respond q ≠ [] := by
  unfold answer
  cases h : prepT plugins q with
  | error e => simp
  | ok qs => simpa using (expansion_nonempty plugins hw q qs h).1

/-- **What an error response of the input stage carries** — for every plugin list, user-defined and
invariant-breaking plugins included.  Either the query is not an object and is echoed verbatim; or some plugin
`p` failed on a query `x` of the state the plugins before it produced from `q` (`q` itself for the first plugin;
an expanded / augmented query later) and the request is `x` as `p` left it (or the original query, should that
be the literal placeholder object); or a plugin left something that is not an object and the request is the
original query (fix 755333a: it was the placeholder `{"error":"unable to display query"}`). -/
theorem error_echoes_request (plugins : List Plugin) (q e : Json) (h : prepT plugins q = .error e) :
    (q.isObject = false ∧ e = .obj [("request", q), ("error", .str "UnexpectedQueryStructure")]) ∨
    (∃ pre p post xs x pe req, plugins = pre ++ p :: post ∧
      GridSearch.applyOps (pre.map processT) (.arr [q]) = .ok (.arr xs) ∧ x ∈ xs ∧
      processT p x = .error pe ∧
      e = .obj [("request", req), ("error", .str pe.kind)] ∧ (req = pe.left.getD x ∨ req = q)) ∨
    (q.isObject = true ∧ e = .obj [("request", q), ("error", .str invariantKind)]) := by
  cases ho : q.isObject with
  | false =>
    left
    rw [prepT_non_object plugins q ho] at h
    exact ⟨rfl, by cases h; rfl⟩
  | true =>
    right
    unfold prepT GridSearch.applyInputPlugins at h
    simp only [ho, if_true] at h
    cases ha : GridSearch.applyOps (plugins.map processT) (.arr [q]) with
    | ok s =>
      right
      obtain ⟨final, rfl⟩ := applyOps_ok_arr _ _ s ha
      simp only [ha, GridSearch.jsonArrayFlatten] at h
      by_cases hall : final.all Json.isObject = true
      · simp [hall] at h
      · simp only [hall, Bool.false_eq_true, if_false, GridSearch.withRequest, isNoRequest_noRequest,
          if_true, errorResponse, fixRequest_self, Except.error.injEq] at h
        exact ⟨rfl, h.symm⟩
    | error pe =>
      left
      simp only [ha, Except.error.injEq] at h
      obtain ⟨pre', op, post', xs, x, pe', h1, h2, h3, h4, h5⟩ := applyOps_error _ _ pe ha
      obtain ⟨pre, rest, rfl, hpre, hrest⟩ := List.map_eq_append_iff.mp h1
      obtain ⟨p, post, rfl, hp, hpost⟩ := List.map_eq_cons_iff.mp hrest
      subst hpre hp h5
      simp only [GridSearch.withRequest] at h
      by_cases hx : GridSearch.isNoRequest x = true
      · simp only [hx, if_true, errorResponse, fixRequest_response] at h
        refine ⟨pre, p, post, xs, x, pe', _, rfl, h2, h3, h4, h.symm, ?_⟩
        cases hl : pe'.left with
        | none => simp
        | some l => by_cases hn : GridSearch.isNoRequest l = true <;> simp [hn]
      · simp only [hx, Bool.false_eq_true, if_false, errorResponse, fixRequest_response] at h
        refine ⟨pre, p, post, xs, x, pe', _, rfl, h2, h3, h4, h.symm, ?_⟩
        by_cases hn : GridSearch.isNoRequest (pe'.left.getD x) = true <;> simp [hn]

/-- **The search-stage responses carry their request — from the packaging of `run_single_query`**:
`create_initial_output` puts the request under `request` (a failed search: `package_error(request, e)`), every
output plugin either fails — `package_error(request, e)` again — or returns the next output, and the response
carries the request provided no output plugin removes or replaces the `request` field (`KeepsRequest`; writing
any other key does: `output_plugin_writing_another_key_keeps_request` — which is all the summary, traversal and
uuid plugins do).  This discharges the premise `hr` of `response_carries_request` for the modelled packaging;
that the real plugins only write other keys is read off the code and checked on every response of the
differential run (oracle key `response/request-not-echoed-by-search`). -/
theorem single_query_echoes_request (search : Json → Option String)
    (outPlugins : List (Json → Json → Except String Json)) (hk : ∀ p ∈ outPlugins, KeepsRequest p)
    (q : Json) : (singleQuery search outPlugins q).get? "request" = some q := by
  unfold singleQuery
  cases search q with
  | some e => simp [Json.get?, Json.lookup]
  | none => exact applyOut_request outPlugins q _ hk (by simp [Json.get?, Json.lookup])

theorem output_plugin_writing_another_key_keeps_request (key : String) (hk : key ≠ "request")
    (f : Json → Json → Json) :
    KeepsRequest (fun q out => match out with
      | .obj kvs => .ok (.obj (Json.insertKv kvs key (f q out)))
      | _ => .error "output is not an object") :=
  set_other_key_keepsRequest key hk f

/-- **Each response carries the request it answers**, under the PREMISE `hr` that the single-query function
echoes its argument (`single_query_echoes_request` derives it from the packaging of `run_single_query`; it is
an assumption about `respond`, not a consequence of the batch model): a response is the answer to an expanded
query `e` and carries `e`, or it is the error response characterised by `error_echoes_request` -/
theorem response_carries_request (plugins : List Plugin) (respond : Json → Json)
    (hr : ∀ q, (respond q).get? "request" = some q) (q r : Json)
    (h : r ∈ answer plugins respond q) :
    (∃ qs e, prepT plugins q = .ok qs ∧ e ∈ qs ∧ r = respond e ∧ r.get? "request" = some e) ∨
    (prepT plugins q = .error r ∧ ∃ req kind, r = .obj [("request", req), ("error", .str kind)] ∧
      r.get? "request" = some req) := by
  unfold answer at h
  cases hp : prepT plugins q with
  | ok qs =>
    simp only [hp, List.mem_map] at h
    obtain ⟨e, he, rfl⟩ := h
    exact Or.inl ⟨qs, e, rfl, he, rfl, hr e⟩
  | error e =>
    simp only [hp, List.mem_singleton] at h
    subst h
    obtain ⟨req, kind, rfl⟩ := error_response_shape plugins q r hp
    exact Or.inr ⟨rfl, req, kind, rfl, by simp [Json.get?, Json.lookup]⟩

/-- … hence, with `respond` the packaged single-query function, the same conclusion without any premise on
`respond` (the premise left is `hk`: every output plugin keeps the `request` key): the response answers an
expanded query `e` of `q` and carries exactly `e`, or it is the error response of `q` -/
theorem response_carries_request_packaged (plugins : List Plugin) (search : Json → Option String)
    (outPlugins : List (Json → Json → Except String Json)) (hk : ∀ p ∈ outPlugins, KeepsRequest p)
    (q r : Json) (h : r ∈ answer plugins (singleQuery search outPlugins) q) :
    (∃ qs e, prepT plugins q = .ok qs ∧ e ∈ qs ∧ r = singleQuery search outPlugins e ∧
      r.get? "request" = some e) ∨
    (prepT plugins q = .error r ∧ ∃ req kind, r = .obj [("request", req), ("error", .str kind)] ∧
      r.get? "request" = some req) :=
  response_carries_request plugins (singleQuery search outPlugins)
    (single_query_echoes_request search outPlugins hk) q r h

-- non-vacuity: a number, an array of queries and the empty array are echoed, under any plugins
example (respond : Json → Json) : answer [.gridSearch] respond (.arr [])
    = [.obj [("request", .arr []), ("error", .str "UnexpectedQueryStructure")]] :=
  (non_object_query_echoed _ respond _ rfl).2

/-! ### mixed query states, and plugins that break the invariant -/

/-- **A query state that mixes plain queries and nested arrays is de-nested element by element**
(`json_array_flatten_in_place`): `[a, [b₁, b₂], c]` becomes `[a, b₁, b₂, c]`.  This is the state a plugin
leaves that expands only SOME of the queries an earlier plugin produced. -/
theorem flatten_denests_mixed_states {ε : Type} (rs : List Json) :
    (GridSearch.flattenInPlace (.arr rs) : Except (GridSearch.PipeErr ε) Json)
      = .ok (.arr (rs.flatMap expand1)) :=
  flattenInPlace_arr rs

/-- every plugin step: the new state is the concatenation, in order, of what each query became (its children
if it became an array, itself otherwise) -/
theorem plugin_step_concatenates {ε : Type} (op : Json → Except ε Json) (items rs : List Json)
    (h : GridSearch.mapOp op items = .ok rs) :
    GridSearch.jsonArrayOp op (.arr items) = .ok (.arr (rs.flatMap expand1)) := by
  simp [GridSearch.jsonArrayOp, h, flattenInPlace_arr]

def mixQuery : Json :=
  .obj [("o", .num "0" 0),
        ("alts", .arr [.obj [("n", .str "a")],
                       .obj [("n", .str "b"), ("more", .arr [.obj [("d", .num "1" 0)], .obj [("d", .num "2" 0)]])],
                       .obj [("n", .str "c")]])]

-- non-vacuity: a first split makes three children, the second split expands only the middle one — a mixed
-- state `[a, [b₁, b₂], c]` — and all four expanded queries are answered, in order
example (respond : Json → Json) :
    answer [.userSplit "alts", .userSplit "more"] respond mixQuery
      = [respond (.obj [("o", .num "0" 0), ("n", .str "a")]),
         respond (.obj [("o", .num "0" 0), ("n", .str "b"), ("d", .num "1" 0)]),
         respond (.obj [("o", .num "0" 0), ("n", .str "b"), ("d", .num "2" 0)]),
         respond (.obj [("o", .num "0" 0), ("n", .str "c")])] := by
  rfl

/-- **A plugin-broken invariant is answered with the original query as its request** (fix 755333a; the request
was the placeholder, key `pipeline/invariant-error-loses-request`): whenever the plugin stage succeeds but
leaves something that is not an object, the query gets exactly one response, `{"request": q, "error":
<invariant>}` -/
theorem invariant_error_carries_query (plugins : List Plugin) (respond : Json → Json) (q : Json)
    (final : List Json) (ho : q.isObject = true)
    (hs : GridSearch.applyOps (plugins.map processT) (.arr [q]) = .ok (.arr final))
    (hb : final.all Json.isObject = false) :
    answer plugins respond q = [.obj [("request", q), ("error", .str invariantKind)]] := by
  simp [answer, prepT, GridSearch.applyInputPlugins, ho, hs, GridSearch.jsonArrayFlatten, hb,
    GridSearch.withRequest, isNoRequest_noRequest, errorResponse]

-- non-vacuity: the user-defined breaker leaves the scalar 7; the response names the query
example (respond : Json → Json) :
    answer [.userBreaker "break"] respond (.obj [("break", .str "scalar")])
      = [.obj [("request", .obj [("break", .str "scalar")]), ("error", .str invariantKind)]] := by
  rfl

/-- … but the queries next to the broken one are still lost with it (part of finding
`pipeline/sibling-responses-lost`: one result per original query): the split makes two children, the breaker
turns the first into `7`, and the second — which was fine — is never served -/
theorem broken_child_takes_siblings_counterexample (respond : Json → Json) :
    let q : Json := .obj [("alts", .arr [.obj [("break", .str "scalar")], .obj [("fine", .null)]])]
    answer [.userSplit "alts", .userBreaker "break"] respond q
      = [.obj [("request", q), ("error", .str invariantKind)]] ∧
    (itemwiseAnswer [.userSplit "alts", .userBreaker "break"] respond q).length = 2 := by
  exact ⟨by rfl, by rfl⟩

/-! ### one response per expanded query -/

/-- when no plugin fails on any expanded query, there is exactly one response per expanded query, in order -/
theorem one_response_per_expanded_query_partial (plugins : List Plugin) (respond : Json → Json)
    (q : Json) (qs : List Json) (h : prepT plugins q = .ok qs) :
    (answer plugins respond q).length = qs.length ∧
    ∀ i (hi : i < qs.length), (answer plugins respond q)[i]? = some (respond qs[i]) := by
  simp only [answer, h, List.length_map, true_and]
  intro i hi
  simp [List.getElem?_map, List.getElem?_eq_getElem hi]

/-- … and then the code computes exactly the item-by-item semantics the property asks for (`itemwise`: every
plugin applied to every expanded query on its own, a failing one becoming its own error response) -/
theorem answer_is_itemwise_partial (plugins : List Plugin) (respond : Json → Json) (q : Json)
    (qs : List Json) (h : prepT plugins q = .ok qs) :
    answer plugins respond q = itemwiseAnswer plugins respond q := by
  simp [answer, itemwiseAnswer, h, prepT_ok_isObject h, prepT_ok_itemwise plugins q qs h, List.map_map,
    Function.comp_def]

/-- … as it does on every query that is not an object -/
theorem answer_is_itemwise_non_object (plugins : List Plugin) (respond : Json → Json) (q : Json)
    (h : q.isObject = false) : answer plugins respond q = itemwiseAnswer plugins respond q := by
  simp [answer, itemwiseAnswer, h, prepT_non_object plugins q h, errorResponse]

/-- `json_array_op` stops at the first failing element: the error response of that element is all that is
left of the whole array -/
theorem first_failing_element_ends_the_query {ε : Type} (op : Json → Except ε Json)
    (pre post : List Json) (pre' : List Json) (x : Json) (e : ε)
    (hpre : GridSearch.mapOp op pre = .ok pre') (hx : op x = .error e) :
    GridSearch.jsonArrayOp op (.arr (pre ++ x :: post)) = .error (.plugin x e) := by
  have : ∀ (pre pre' : List Json), GridSearch.mapOp op pre = .ok pre' →
      GridSearch.mapOp op (pre ++ x :: post) = .error (.plugin x e) := by
    intro pre
    induction pre with
    | nil => intro _ _; simp [GridSearch.mapOp, hx]
    | cons a r ih =>
      intro pre' h
      simp only [List.cons_append, GridSearch.mapOp] at h ⊢
      cases ha : op a with
      | error e' => simp [ha] at h
      | ok a' =>
        simp only [ha] at h ⊢
        cases hr : GridSearch.mapOp op r with
        | error e' => simp [hr] at h
        | ok r' => simp [ih r' hr]
  simp [GridSearch.jsonArrayOp, this pre pre' hpre]

/- Full statement (false of the code): for every plugin list and every query,
`(answer plugins respond q).Perm (itemwiseAnswer plugins respond q)` — one response per expanded query, a
failing expanded query being answered by its own error response while its siblings are served.  Proved above
when no plugin fails (`answer_is_itemwise_partial`); refuted below when one does. -/

def s1Sec : List (String × Json) :=
  [("_o", .arr [.obj [("x", .num "1" 0), ("destination_vertex", .num "3" 0)],
                .obj [("destination_vertex", .num "4" 0)]])]
def s1Kvs : List (String × Json) := [("origin_vertex", .num "0" 0), ("grid_search", .obj s1Sec)]
/-- `{"origin_vertex":0,"grid_search":{"_o":[{"x":1,"destination_vertex":3},{"destination_vertex":4}]}}` -/
def s1Query : Json := .obj s1Kvs
def s1Inject : Plugin := .inject "x" (.num "7" 0) false
def s1Child1 : Json :=
  .obj [("origin_vertex", .num "0" 0), ("x", .num "1" 0), ("destination_vertex", .num "3" 0)]
def s1Child2 : Json := .obj [("origin_vertex", .num "0" 0), ("destination_vertex", .num "4" 0)]

theorem s1_grid_expands : processT .gridSearch s1Query = .ok (.arr [s1Child1, s1Child2]) := by
  have hg : GridSearch.GridQuery (.obj s1Kvs) s1Kvs s1Sec :=
    ⟨rfl, by rfl, by decide +kernel, by decide +kernel⟩
  have h := GridSearch.plan_grid hg
  simp only [s1Query, processT, GridSearch.process, h]
  rfl

theorem s1_first_child_fails :
    processT s1Inject s1Child1 = .error { kind := "InputPluginFailed" } := by rfl

theorem s1_second_child_passes :
    processT s1Inject s1Child2
      = .ok (.obj [("origin_vertex", .num "0" 0), ("destination_vertex", .num "4" 0), ("x", .num "7" 0)]) := by
  rfl

/-- **Finding `pipeline/sibling-responses-lost`**: grid search expands the query into two; the no-overwrite
inject plugin fails on the first child only (the second child alone passes); the whole query is answered by
ONE error response (for the first child) and the second child is never served, where the item-by-item
semantics gives two responses -/
theorem sibling_responses_lost_counterexample (respond : Json → Json) :
    processT .gridSearch s1Query = .ok (.arr [s1Child1, s1Child2]) ∧
    (∃ e, processT s1Inject s1Child1 = .error e) ∧
    (∃ c, processT s1Inject s1Child2 = .ok c) ∧
    answer [.gridSearch, s1Inject] respond s1Query
      = [.obj [("request", s1Child1), ("error", .str "InputPluginFailed")]] ∧
    (itemwiseAnswer [.gridSearch, s1Inject] respond s1Query).length = 2 := by
  refine ⟨s1_grid_expands, ⟨_, s1_first_child_fails⟩, ⟨_, s1_second_child_passes⟩, ?_, ?_⟩
  · have ho : s1Query.isObject = true := rfl
    have hn : GridSearch.isNoRequest s1Child1 = false := rfl
    simp [answer, prepT, GridSearch.applyInputPlugins, ho, GridSearch.applyOps, GridSearch.jsonArrayOp,
      GridSearch.mapOp, s1_grid_expands, GridSearch.flattenInPlace, GridSearch.flatten1, Json.isArray,
      s1_first_child_fails, errorResponse, GridSearch.withRequest, hn, fixRequest_response]
  · have ho : s1Query.isObject = true := rfl
    simp [itemwiseAnswer, ho, itemwise, s1_grid_expands, expand1, s1_first_child_fails,
      s1_second_child_passes]

/-! ## worker threads -/

/-- (By construction of the model: `respond` is a pure function and a step touches one worker only, so this
is a statement about the bookkeeping — done ++ map respond todo is constant per worker — not about real
threads; that the real single-query function is pure rests on Rust's aliasing rules and on `cache_transparent`.)
**Schedule independence.**  Workers are an arbitrary interleaving of atomic steps "run the next query of
my bin".  Whatever the schedule — any order, any unfairness, steps of idle or unknown workers — once every bin
is drained the collected responses are exactly those of running the bins one after the other. -/
theorem sched_independent (respond : Json → Json) (bins : List (List Json)) (sched : Sched)
    (h : finished (exec respond sched (initWorkers bins)) = true) :
    collected (exec respond sched (initWorkers bins)) = (bins.map (fun b => b.map respond)).flatten := by
  unfold collected
  rw [← finished_total respond _ h, exec_total, initWorkers_total]

/-- before the end, too: no schedule changes what a worker will have produced when it is done -/
theorem sched_invariant (respond : Json → Json) (bins : List (List Json)) (sched : Sched) :
    (exec respond sched (initWorkers bins)).map (fun w => w.done ++ w.todo.map respond)
      = bins.map (fun b => b.map respond) := by
  have := exec_total respond sched (initWorkers bins)
  rw [initWorkers_total] at this
  exact this

/-- finishing schedules exist (so the theorem above is not vacuous), and any two agree -/
theorem sched_exists_and_agree (respond : Json → Json) (bins : List (List Json)) :
    (∃ sched, finished (exec respond sched (initWorkers bins)) = true) ∧
    ∀ s₁ s₂, finished (exec respond s₁ (initWorkers bins)) = true →
      finished (exec respond s₂ (initWorkers bins)) = true →
      collected (exec respond s₁ (initWorkers bins)) = collected (exec respond s₂ (initWorkers bins)) := by
  constructor
  · obtain ⟨sched, hs⟩ := exists_draining_sched respond (initWorkers bins) []
    exact ⟨sched, by
      simp only [List.nil_append] at hs
      rw [hs]; exact finished_drain respond _⟩
  · intro s₁ s₂ h₁ h₂
    rw [sched_independent respond bins s₁ h₁, sched_independent respond bins s₂ h₂]

/-- `run` with the bins executed by scheduled workers returns what `run` returns -/
theorem run_sched_independent (persist : Bool) (respond : Json → Json) (bins : List (List Json))
    (errors : List Json) (sched : Sched) (h : finished (exec respond sched (initWorkers bins)) = true) :
    assembleSched persist respond sched bins errors = assemble persist respond bins errors := by
  unfold assembleSched assemble
  rw [sched_independent respond bins sched h]

example : collected (exec (fun q => .arr [q]) [1, 0, 1, 0, 7, 0] (initWorkers [[.null, .bool true], [.str "a", .str "b"]]))
    = [.arr [.null], .arr [.bool true], .arr [.str "a"], .arr [.str "b"]] := by rfl

/-! ## shared mutable state: the prediction cache -/

/-- (The hypothesis `h` IS transparency, step by step; the theorem lifts it from one step to every schedule.  It
is discharged only for the modelled rounded cache, `rounded_cache_transparent`, under the no-collision condition;
for the real `PredictionModelRecord` it is C08's business.)
**A transparent cache changes nothing.**  If, on every state reachable under an invariant `I`, the
stateful single-query function answers what the pure `respond` answers, then under every schedule the workers
end up exactly as with `respond` — the theorems above apply unchanged. -/
theorem cache_transparent {σ : Type} (respondS : RespondS σ) (respond : Json → Json) (I : σ → Prop)
    (h : ∀ s q, I s → (respondS s q).1 = respond q ∧ I (respondS s q).2) (s₀ : σ) (h₀ : I s₀)
    (sched : Sched) (bins : List (List Json)) :
    (execS respondS sched (s₀, initWorkers bins)).2 = exec respond sched (initWorkers bins) :=
  execS_snd respondS respond I h sched _ s₀ h₀

/-- the float cache *is* transparent when inputs that share a rounded key have the same prediction -/
theorem rounded_cache_transparent (round f : Nat → Nat) (hinj : ∀ x y, round x = round y → f x = f y)
    (sched : Sched) (bins : List (List Json)) :
    (execS (cacheRespond round f) sched ([], initWorkers bins)).2
      = exec (fun q => (cacheRespond round f [] q).1) sched (initWorkers bins) := by
  refine cache_transparent (cacheRespond round f) _ (CacheOk round f) ?_ [] (by intro p hp; cases hp) sched bins
  intro s q hs
  cases q with
  | num l x =>
    obtain ⟨h1, h2⟩ := cachedPredict_ok round f hinj s hs x
    obtain ⟨h1', _⟩ := cachedPredict_ok round f hinj [] (by intro p hp; cases hp) x
    simp only [cacheRespond]
    exact ⟨by rw [h1, h1'], h2⟩
  | _ => exact ⟨rfl, hs⟩

/-- **… and it is not when two inputs with different predictions share a rounded key**: two workers, one
query each, keys rounded to tens; the two schedules give different responses (30, 30 versus 34, 34) —
the result depends on which query ran first.  (On the real `PredictionModelRecord` this is C08's finding
`predict/cache-rounding-collision`.) -/
theorem cache_collision_counterexample :
    let bins : List (List Json) := [[.num "30" 30], [.num "34" 34]]
    let run := fun sched => (collected (execS (cacheRespond (· / 10) id) sched ([], initWorkers bins)).2).map
      Json.asF64Bits?
    run [0, 1] = [some 30, some 30] ∧ run [1, 0] = [some 34, some 34] ∧
    ¬ (run [0, 1]).Perm (run [1, 0]) := by
  intro bins run
  have h1 : run [0, 1] = [some 30, some 30] := by rfl
  have h2 : run [1, 0] = [some 34, some 34] := by rfl
  refine ⟨h1, h2, ?_⟩
  rw [h1, h2]
  decide

/-! ## entry points: `get_queries`, the per-run configuration, the response sink, `run_queries` -/

/-- **`get_queries`**: an array is the batch; an object without a `queries` field is a batch of itself; an object
with a `queries` array is that array; an object whose `queries` is anything else, and every other value, is
refused (`Err(CompassFailure)` for the call — nothing is run).  (A RESTATEMENT of the definition `getQueries`,
case by case — what ties it to the code is the differential check of the `gq` cases.) -/
theorem get_queries_spec :
    (∀ qs, getQueries (.arr qs) = some qs) ∧
    (∀ kvs, Json.lookup kvs queriesKey = none → getQueries (.obj kvs) = some [.obj kvs]) ∧
    (∀ kvs qs, Json.lookup kvs queriesKey = some (.arr qs) → getQueries (.obj kvs) = some qs) ∧
    (∀ kvs v, Json.lookup kvs queriesKey = some v → v.isArray = false → getQueries (.obj kvs) = none) ∧
    (∀ v, v.isArray = false → v.isObject = false → getQueries v = none) := by
  refine ⟨fun _ => rfl, ?_, ?_, ?_, ?_⟩
  · intro kvs h; simp [getQueries, h]
  · intro kvs qs h; simp [getQueries, h]
  · intro kvs v h hv; cases v <;> simp_all [getQueries, Json.isArray]
  · intro v ha ho; cases v <;> simp_all [getQueries, Json.isArray, Json.isObject]

/-- `run` offered a JSON value is `run` on the batch `get_queries` makes of it (a RESTATEMENT of the definition
`callValueO`, proved by unfolding) -/
theorem call_value_spec {α : Type} (W : WOps α) (env : String → Bool × Bool) (app : App)
    (runCfg : Option Json) (respond : Json → Json) (v : Json) :
    callValueO W env app runCfg respond v
      = match getQueries v with
        | some batch => callO W env app runCfg respond batch
        | none => .ok (.error .notABatch) := by
  unfold callValueO; cases getQueries v <;> rfl

/-- a per-run configuration that is absent, or is not a JSON object, overrides nothing -/
theorem run_config_without_keys (env : String → Bool × Bool) (cfg : Option Json)
    (h : ∀ c, cfg = some c → c.isObject = false) :
    ∃ o, parseRunConfig env cfg = some o ∧ o.par = none ∧ o.persist = none ∧ o.policy.isNone = true := by
  cases cfg with
  | none => exact ⟨_, rfl, rfl, rfl, rfl⟩
  | some c =>
    have hc := h c rfl
    have hg : ∀ k, c.get? k = none := by intro k; cases c <;> simp_all [Json.get?, Json.isObject]
    refine ⟨{ par := none, persist := none, policy := none }, ?_, rfl, rfl, rfl⟩
    simp [parseRunConfig, runConfigKey, hg]

/-- a per-run value that is present and does not deserialize fails the whole call, before anything is run:
`parallelism` that is not a non-negative integer, an unknown persistence policy, an output policy that is none
of serde's accepted shapes (`decodePolicy`: object or sequence, tag by name; the `Combined` policy and a file
policy with the CSV format are accepted by the code and are not modelled — `decodePolicy` answers `none` for
them, which is not the code's answer — hence `isCombined v = false` and `isCsvFile v = false`) -/
theorem invalid_run_config_fails_call {α : Type} (W : WOps α) (env : String → Bool × Bool) (app : App)
    (c : Json) (respond : Json → Json) (batch : List Json)
    (h : (∃ v, c.get? "parallelism" = some v ∧ decodeUsize v = none) ∨
         (∃ v, c.get? "response_persistence_policy" = some v ∧ decodePersist v = none) ∨
         (∃ v, c.get? "response_output_policy" = some v ∧ decodePolicy env v = none ∧ isCombined v = false ∧
           isCsvFile v = false)) :
    callO W env app (some c) respond batch = .ok (.error .runConfig) := by
  have hp : parseRunConfig env (some c) = none := by
    unfold parseRunConfig
    rcases h with ⟨v, h1, h2⟩ | ⟨v, h1, h2⟩ | ⟨v, h1, h2, _, _⟩
    · simp [runConfigKey, h1, h2]
    · cases hq : runConfigKey (some c) "parallelism" decodeUsize with
      | none => rfl
      | some p => simp [runConfigKey, h1, h2]
    · cases hq : runConfigKey (some c) "parallelism" decodeUsize with
      | none => rfl
      | some p =>
        cases hr : runConfigKey (some c) "response_persistence_policy" decodePersist with
        | none => rfl
        | some q => simp [runConfigKey, h1, h2]
  simp [callO, hp]

/-- **The call is `run`**: with a valid per-run configuration and — the only sinks of the model — no sink or a
JSON file sink that can be built and written (an `OutPolicy` is `none | file`; a CSV file sink and the `Combined`
policy are not modelled, and `parseRunConfig` answers `none` for them, so `hp` excludes them), the call returns
exactly what `run` returns under the overridden parallelism and persistence policy —
so all of the theorems above apply to it -/
theorem call_is_run {α : Type} (W : WOps α) (env : String → Bool × Bool) (app : App)
    (runCfg : Option Json) (respond : Json → Json) (batch : List Json) (o : RunOverrides)
    (hp : parseRunConfig env runCfg = some o) (hb : buildSink (o.policy.getD app.policy) = .ok ())
    (hw : sinkFails (o.policy.getD app.policy) = false) :
    callO W env app runCfg respond batch = liftRun (runO W (app.config o) respond batch) := by
  simp only [callO, hp, hb]
  exact callCoreO_of_sink_ok W _ _ respond batch hw

/-- a file sink whose file opens, whose flush rate is absent or positive and whose writes succeed changes
nothing of what is returned -/
theorem sink_transparent {α : Type} (W : WOps α) (cfg : Config) (s : SinkSpec) (respond : Json → Json)
    (batch : List Json) (hw : s.writeOk = true) :
    callCoreO W cfg (.file s) respond batch = callCoreO W cfg .none respond batch := by
  rw [callCoreO_of_sink_ok W cfg (.file s) respond batch (by simp [sinkFails, hw]),
    callCoreO_of_sink_ok W cfg .none respond batch rfl]

/-- the sink is built before anything runs: a file that cannot be opened, then a flush rate `≤ 0`, fail the
call (a RESTATEMENT of the definition `buildSink`, case by case) -/
theorem sink_build_errors (s : SinkSpec) :
    (s.openOk = false → buildSink (.file s) = .error .sinkOpen) ∧
    (s.openOk = true → ∀ r, s.flushRate = some r → r ≤ 0 → buildSink (.file s) = .error .flushRate) ∧
    (s.openOk = true → (∀ r, s.flushRate = some r → 0 < r) → buildSink (.file s) = .ok ()) := by
  refine ⟨?_, ?_, ?_⟩
  · intro h; simp [buildSink, h]
  · intro h r hr hle; simp [buildSink, h, hr, hle]
  · intro h hr
    cases hf : s.flushRate with
    | none => simp [buildSink, h, hf]
    | some r =>
      have := hr r hf
      simp [buildSink, h, hf]; omega

/-- **A sink whose writes fail fails the call — under both persistence policies** (fix 80a5c9a:
`run_batch_without_responses` dropped the result of its own fold, so under the discard policy every response
was lost silently and the call returned `Ok`): for parallelism `≥ 1`, as soon as there is one response to
write — an error response of the input stage or one query to run — the call is `Err`; with nothing to write it
returns `[]` -/
theorem failing_sink_fails_call {α : Type} (W : WOps α) (cfg : Config) (s : SinkSpec)
    (respond : Json → Json) (batch : List Json) (hp : 1 ≤ cfg.parallelism) (hw : s.writeOk = false) :
    (errs cfg.plugins batch ≠ [] ∨ processed cfg.plugins batch ≠ [] →
      callCoreO W cfg (.file s) respond batch = .ok (.error .sinkWrite)) ∧
    (errs cfg.plugins batch = [] → processed cfg.plugins batch = [] →
      callCoreO W cfg (.file s) respond batch = .ok (.ok [])) := by
  obtain ⟨bins, hb, hbe⟩ := bins_isEmpty_iff W cfg.parallelism hp (processed cfg.plugins batch)
  have hf : sinkFails (.file s) = true := by simp [sinkFails, hw]
  constructor
  · intro h
    rw [callCoreO_eq, hb]
    by_cases he : errs cfg.plugins batch = []
    · have hq : processed cfg.plugins batch ≠ [] := by
        rcases h with h | h
        · exact absurd he h
        · exact h
      have hne : bins.isEmpty = false := by
        cases hx : bins.isEmpty with
        | false => rfl
        | true => exact absurd (hbe.mp hx) hq
      simp [hf, he, hne]
    · have : (errs cfg.plugins batch).isEmpty = false := by
        cases hx : (errs cfg.plugins batch).isEmpty with
        | false => rfl
        | true => exact absurd (List.isEmpty_iff.mp hx) he
      simp [hf, this]
  · intro he hq
    rw [callCoreO_eq, hb]
    have : bins.isEmpty = true := hbe.mpr hq
    simp [hf, he, this]

/-- in particular under the discard policy, whose responses exist nowhere but in the sink -/
theorem discard_policy_with_failing_sink {α : Type} (W : WOps α) (plugins : List Plugin)
    (selfPar : Nat) (par : Nat) (s : SinkSpec) (respond : Json → Json) (batch : List Json)
    (hp : 1 ≤ par) (hw : s.writeOk = false) (hq : processed plugins batch ≠ []) :
    callCoreO W { plugins := plugins, selfPar := selfPar, runPar := some par, persist := false } (.file s)
      respond batch = .ok (.error .sinkWrite) :=
  (failing_sink_fails_call W
    { plugins := plugins, selfPar := selfPar, runPar := some par, persist := false } s respond batch
    (by simpa [Config.parallelism] using hp) hw).1 (Or.inr hq)

/-- `CompassAppBindings::run_queries`: when every text is JSON it is the call on the parsed values; one text
that is not JSON — a query or the configuration — fails the whole call (the texts are made by
`json.dumps` on the Python side; a malformed text is outside the property's quantifier "JSON value") -/
theorem run_queries_spec {α : Type} (W : WOps α) (env : String → Bool × Bool) (app : App)
    (respond : Json → Json) :
    (∀ (cfg : Option Json) (qs : List Json),
      runQueriesO W env app (cfg.map some) respond (qs.map some) = callO W env app cfg respond qs) ∧
    (∀ cfg texts, none ∈ texts → runQueriesO W env app cfg respond texts = .ok (.error .notJson)) ∧
    (∀ texts, runQueriesO W env app (some none) respond texts = .ok (.error .notJson)) := by
  refine ⟨?_, ?_, fun _ => rfl⟩
  · intro cfg qs
    have h1 : (qs.map some).any Option.isNone = false := by simp
    have h2 : (qs.map (some : Json → Option Json)).filterMap id = qs := by simp
    cases cfg with
    | none => simp [runQueriesO, h1]
    | some c => simp [runQueriesO, h1]
  · intro cfg texts h
    have : texts.any Option.isNone = true := List.any_eq_true.mpr ⟨none, h, rfl⟩
    cases cfg with
    | none => simp [runQueriesO, this]
    | some c => cases c <;> simp [runQueriesO, this]

/-- the call's responses as a multiset: the per-query answers, whatever the entry and the (working) sink -/
theorem call_multiset {α : Type} (W : WOps α) (env : String → Bool × Bool) (app : App)
    (runCfg : Option Json) (respond : Json → Json) (batch : List Json) (o : RunOverrides)
    (hp : parseRunConfig env runCfg = some o) (hb : buildSink (o.policy.getD app.policy) = .ok ())
    (hw : sinkFails (o.policy.getD app.policy) = false) (hpar : 1 ≤ (app.config o).parallelism) :
    ∃ out, callO W env app runCfg respond batch = .ok (.ok out) ∧
      out.Perm (if (app.config o).persist then answers app.plugins respond batch
                else answersErr app.plugins batch) := by
  obtain ⟨out, h1, h2⟩ := run_multiset W (app.config o) respond batch hpar
  exact ⟨out, by rw [call_is_run W env app runCfg respond batch o hp hb hw, h1]; rfl, h2⟩

-- non-vacuity: per-run values that are accepted and refused
example : decodeUsize (.str "3") = none ∧ decodeUsize .null = none ∧ decodeUsize (.bool true) = none :=
  ⟨rfl, rfl, rfl⟩
-- serde's shapes of the output policy: object, sequence, nested index; the tag of the policy itself by name only
example (env : String → Bool × Bool) :
    (decodePolicy env (.arr [.str "none"])).isSome = true ∧
    (decodePolicy env (.arr [.str "none", .null])).isSome = false ∧
    (decodePolicy env (.arr [.str "file", .str "f", .arr [.str "json", .bool true], .null])).isSome = true ∧
    (∀ l b, (Json.num l b).asU64? = some 0 →
      (decodePolicy env (.obj [("type", .str "file"), ("filename", .str "f"),
        ("format", .obj [("type", .num l b), ("newline_delimited", .bool true)])])).isSome = true) ∧
    (decodePolicy env (.obj [("type", .num "0" 0)])).isSome = false ∧
    (decodePolicy env (.str "none")).isSome = false := by
  refine ⟨by rfl, by rfl, by rfl, ?_, by rfl, by rfl⟩
  intro l b h0
  simp [decodePolicy, tagged, tagName, Tagged.arity, Tagged.req, Tagged.opt, Json.lookup, isJsonFormat, h0,
    decodeOptI64]
-- the two policies the code accepts and the model does not: the model answers `none` (so `callO` answers
-- `runConfig`, which is NOT what the code does) and the predicates that exclude them from the statements are true
example (env : String → Bool × Bool) :
    decodePolicy env (.obj [("type", .str "file"), ("filename", .str "f"),
        ("format", .obj [("type", .str "csv")])]) = none ∧
    isCsvFile (.obj [("type", .str "file"), ("filename", .str "f"),
        ("format", .obj [("type", .str "csv")])]) = true ∧
    isCsvFile (.arr [.str "file", .str "f", .arr [.str "csv"], .null]) = true ∧
    isCsvFile (.obj [("type", .str "file"), ("filename", .str "f"),
        ("format", .obj [("type", .str "json"), ("newline_delimited", .bool true)])]) = false ∧
    decodePolicy env (.obj [("type", .str "combined"), ("policies", .arr [])]) = none ∧
    isCombined (.obj [("type", .str "combined"), ("policies", .arr [])]) = true := by
  refine ⟨by rfl, by rfl, by rfl, by rfl, by rfl, by rfl⟩
example : decodePersist (.str "discard_response_from_memory") = some false ∧
    decodePersist (.obj [("persist_response_in_memory", .null)]) = some true ∧
    decodePersist (.str "Persist") = none := by decide

/-! ## the load-balancer builder, the build stages -/

/-- `LoadBalancerBuilder::build`: without `weight_heuristic` a missing-field error; a heuristic that is neither an
object nor a sequence (serde's two shapes of an internally tagged enum) a deserialization error; the sequence
shape `["haversine"]` builds the haversine heuristic and takes no further element; a numeric custom weight may
be given as `{"type":"numeric",…}`, positionally as `["numeric", "w"]`, or — nested values are buffered — with
the variant's index `{"type":0,"column_name":"w"}`; without `column_name` it reads `query_weight_estimate` -/
theorem load_balancer_builder_spec (fmt : Nat → String) :
    (∀ params, params.get? "weight_heuristic" = none → buildLoadBalancer fmt params = .error .missingField) ∧
    (∀ params v, params.get? "weight_heuristic" = some v → v.isObject = false → v.isArray = false →
      buildLoadBalancer fmt params = .error .serde) ∧
    (∀ params, params.get? "weight_heuristic" = some (.arr [.str "haversine"]) →
      ∃ b, buildLoadBalancer fmt params = .ok b) ∧
    (∀ params x, params.get? "weight_heuristic" = some (.arr [.str "haversine", x]) →
      buildLoadBalancer fmt params = .error .serde) ∧
    decodeCustomWeight fmt (.obj [("type", .str "numeric")]) = some (.lbNumeric weightKey fmt) ∧
    decodeCustomWeight fmt (.arr [.str "numeric", .str "w"]) = some (.lbNumeric "w" fmt) ∧
    (∀ l b, (Json.num l b).asU64? = some 0 →
      decodeCustomWeight fmt (.obj [("type", .num l b), ("column_name", .str "w")])
        = some (.lbNumeric "w" fmt)) ∧
    decodeCustomWeight fmt (.arr [.str "numeric"]) = none := by
  refine ⟨?_, ?_, ?_, ?_, by rfl, by rfl, ?_, by rfl⟩
  rotate_left 4
  · intro l b h0
    simp [decodeCustomWeight, tagged, tagName, Tagged.arity, Tagged.opt, Json.lookup, h0, decodeOptString]
  · intro params h; simp [buildLoadBalancer, h]
  · intro params v h ho ha
    cases v <;> simp_all [buildLoadBalancer, tagged, Json.isObject, Json.isArray]
  · intro params h
    refine ⟨.haversine, ?_⟩
    simp only [buildLoadBalancer, h]
    rfl
  · intro params x h
    simp only [buildLoadBalancer, h]
    rfl

/-- `CompassApp::try_from`: the error reported is the one of the first stage — in the order configuration,
algorithm, state, traversal, access, cost, frontier, termination, graph, input plugins, output plugins,
parallelism, search orientation, persistence policy, output policy — that fails; the build succeeds exactly
when no stage fails.  (A RESTATEMENT of the definition `firstFailure` = `List.find?` over the list
`buildStages`: the ORDER of the stages is a transcription of `try_from`, tied to the code only by the
differential check of the `stages` cases, not proved of it.) -/
theorem build_reports_first_failing_stage (fails : String → Bool) :
    (firstFailure fails = none ↔ ∀ s ∈ buildStages, fails s = false) ∧
    (∀ s, firstFailure fails = some s → fails s = true ∧
      ∃ pre post, buildStages = pre ++ s :: post ∧ ∀ t ∈ pre, fails t = false) := by
  refine ⟨firstFailure_none fails, ?_⟩
  intro s h
  obtain ⟨h1, _, h3⟩ := firstFailure_some fails s h
  exact ⟨h1, h3⟩

example : firstFailure (fun s => s == "input_plugins" || s == "parallelism") = some "input_plugins" := by
  decide +kernel

/-! ## the command-line entry (`app/cli/run.rs`): how batches reach `CompassApp::run`

`run_newline_json` cuts the lines of the query file into chunks of `chunksize` lines (`itertools::chunks`) and
hands the lines of a chunk that parse to one `CompassApp::run`; `run_json` reads the file as ONE document and hands
`get_queries` of it to one `run`.  Model: `Model/Cli.lean`; the batch runner is a parameter, instantiated with
`callO`.  Run against the real `command_line_runner` by the `cli` stream of harness/src/c06/cli.rs. -/

/-- **(b) chunking is a partition of the lines**, for every chunk size `n ≥ 1` (what `validate` lets through) and
every file: the chunks joined are the lines in file order, no chunk is empty, none is longer than `n`, and every
chunk but the last holds exactly `n` lines -/
theorem cli_chunks_partition {α : Type} (n : Nat) (hn : 1 ≤ n) (l : List α) :
    (chunks n l).flatten = l ∧
    (∀ c ∈ chunks n l, c ≠ [] ∧ c.length ≤ n) ∧
    (∀ i, i + 1 < (chunks n l).length → ∃ c, (chunks n l)[i]? = some c ∧ c.length = n) :=
  ⟨chunks_flatten n hn l, Cli.chunks_mem n hn l, Cli.chunks_full n hn l⟩

/-- … so every line that parses is handed to exactly one `run`, in file order: the batches of the chunks,
joined, are the parsable lines of the file -/
theorem cli_every_parsable_line_in_one_batch (n : Nat) (hn : 1 ≤ n) (lines : List (Option Json)) :
    ((chunks n lines).map Cli.chunkBatch).flatten = lines.filterMap id := by
  rw [Cli.chunkBatch_flatten, chunks_flatten n hn]
  rfl

/-- **(c) which chunk a line is in depends on its position alone**: chunking commutes with every map over the
lines — whether a line parses, and to what, moves no other line into another chunk -/
theorem cli_chunking_ignores_line_content {α β : Type} (f : α → β) (n : Nat) (l : List α) :
    chunks n (l.map f) = (chunks n l).map (List.map f) :=
  Cli.chunks_map f n l

/-- … and inside its chunk a line that does not parse changes nothing but the count of reported lines: the
chunk's batch is the batch without it, it is counted once; a line that parses is never counted -/
theorem cli_unparsable_line_in_chunk (pre post : List (Option Json)) :
    Cli.chunkBatch (pre ++ none :: post) = Cli.chunkBatch (pre ++ post) ∧
    Cli.chunkBad (pre ++ none :: post) = Cli.chunkBad (pre ++ post) + 1 ∧
    (∀ v, Cli.chunkBad (pre ++ some v :: post) = Cli.chunkBad (pre ++ post) ∧
          Cli.chunkBatch (pre ++ some v :: post) = Cli.chunkBatch pre ++ v :: Cli.chunkBatch post) := by
  refine ⟨?_, ?_, ?_⟩
  · simp [Cli.chunkBatch, List.filterMap_append]
  · simp [Cli.chunkBad, List.filter_append]; omega
  · intro v
    constructor
    · simp [Cli.chunkBad, List.filter_append]
    · simp [Cli.chunkBatch, List.filterMap_append]

/-- **`run_newline_json` when every run succeeds** (any batch runner): one run per chunk, in order, on the chunk's
parsable lines; the call is `Ok`; **every unparsable line is reported exactly once** — the reports add up to the
number of lines that do not parse -/
theorem cli_newline_json_all_chunks_run {ε ρ : Type} (run : List Json → MultiSet.Outcome (Except ε ρ))
    (r : List (Option Json) → ρ) (n : Nat) (hn : 1 ≤ n) (doc : Option Json) (lines : List (Option Json))
    (hok : ∀ c ∈ chunks n lines, run (Cli.chunkBatch c) = .ok (.ok (r c))) :
    ∃ o, Cli.runNewlineJsonO run (some n) (.content doc lines) = .ok o ∧
      o.result = .ok () ∧
      o.log.map (·.served) = (chunks n lines).map r ∧
      (o.log.map (·.parseErrors)).sum = (lines.filter Option.isNone).length := by
  have hn0 : n ≠ 0 := by omega
  refine ⟨_, by simp only [Cli.runNewlineJsonO, Option.getD_some, Cli.itChunksO, hn0, if_false];
                 exact Cli.runChunksO_all_ok run r _ hok, rfl, ?_, ?_⟩
  · simp [List.map_map, Function.comp_def]
  · have := Cli.chunkBad_sum (chunks n lines)
    rw [chunks_flatten n hn] at this
    simp only [List.map_map]
    exact this

/-- **One response for every parsable line, through the command line** (`--chunksize n --newline-delimited`, the
application persisting its responses, a per-run configuration that parses, a sink that works, parallelism `≥ 1`):
whatever the chunk size and whichever lines do not parse, the call is `Ok`, makes one run per chunk, and the
responses of all runs together are — as a multiset — the per-query answers of the parsable lines: chunking and
unparsable neighbours lose, duplicate and alter nothing -/
theorem cli_one_response_per_parsable_line {α : Type} (W : WOps α) (env : String → Bool × Bool) (app : App)
    (runCfg : Option Json) (respond : Json → Json) (o : RunOverrides)
    (hp : parseRunConfig env runCfg = some o) (hb : buildSink (o.policy.getD app.policy) = .ok ())
    (hw : sinkFails (o.policy.getD app.policy) = false) (hpar : 1 ≤ (app.config o).parallelism)
    (hpersist : (app.config o).persist = true)
    (n : Nat) (hn : 1 ≤ n) (doc : Option Json) (lines : List (Option Json)) :
    ∃ out, Cli.runNewlineJsonO (callO W env app runCfg respond) (some n) (.content doc lines) = .ok out ∧
      out.result = .ok () ∧
      out.log.length = (chunks n lines).length ∧
      (out.log.map (·.served)).flatten.Perm (answers app.plugins respond (lines.filterMap id)) := by
  have hcall : ∀ batch, ∃ out, callO W env app runCfg respond batch = .ok (.ok out) ∧
      out.Perm (answers app.plugins respond batch) := by
    intro batch
    have := call_multiset W env app runCfg respond batch o hp hb hw hpar
    rw [hpersist] at this
    simpa using this
  let r : List (Option Json) → List Json := fun c => Classical.choose (hcall (Cli.chunkBatch c))
  have hr : ∀ c, callO W env app runCfg respond (Cli.chunkBatch c) = .ok (.ok (r c)) ∧
      (r c).Perm (answers app.plugins respond (Cli.chunkBatch c)) :=
    fun c => Classical.choose_spec (hcall (Cli.chunkBatch c))
  obtain ⟨out, h1, h2, h3, _⟩ := cli_newline_json_all_chunks_run (callO W env app runCfg respond) r n hn doc lines
    (fun c _ => (hr c).1)
  refine ⟨out, h1, h2, ?_, ?_⟩
  · have := congrArg List.length h3
    simpa using this
  · rw [h3, ← cli_every_parsable_line_in_one_batch n hn lines]
    generalize chunks n lines = cs
    induction cs with
    | nil => exact List.Perm.refl _
    | cons c cs ih =>
      simp only [List.map_cons, List.flatten_cons]
      have : answers app.plugins respond (Cli.chunkBatch c ++ (cs.map Cli.chunkBatch).flatten)
          = answers app.plugins respond (Cli.chunkBatch c)
            ++ answers app.plugins respond (cs.map Cli.chunkBatch).flatten := by
        simp [answers, List.flatMap_append]
      rw [this]
      exact List.Perm.append (hr c).2 ih

/-- `run_json`: the document is the batch — `get_queries` of it is handed to ONE run, whose result is the call's -/
theorem cli_run_json_spec {ε ρ : Type} (run : List Json → MultiSet.Outcome (Except ε ρ)) (v : Json)
    (lines : List (Option Json)) :
    (getQueries v = none →
      Cli.runJsonO run (.content (some v) lines) = .ok { log := [], result := .error .notABatch }) ∧
    (∀ batch res, getQueries v = some batch → run batch = .ok (.ok res) →
      Cli.runJsonO run (.content (some v) lines)
        = .ok { log := [{ served := res, parseErrors := 0 }], result := .ok () }) ∧
    (∀ batch e, getQueries v = some batch → run batch = .ok (.error e) →
      Cli.runJsonO run (.content (some v) lines) = .ok { log := [], result := .error (.run e) }) := by
  refine ⟨?_, ?_, ?_⟩
  · intro h; simp only [Cli.runJsonO, h]
  · intro batch res h hr; simp only [Cli.runJsonO, h, hr]
  · intro batch e h hr; simp only [Cli.runJsonO, h, hr]

-- non-vacuity: seven lines in chunks of three — two full chunks and a rest; the second and the fifth line do not
-- parse: the batches are the other lines in file order, each chunk reports its own unparsable lines
example : chunks 3 [1, 2, 3, 4, 5, 6, 7] = [[1, 2, 3], [4, 5, 6], [7]] := by decide
example :
    (chunks 3 [some Json.null, none, some (.bool true), some (.bool false), none, some .null, some .null]).map
      (fun c => ((Cli.chunkBatch c).length, Cli.chunkBad c)) = [(2, 1), (2, 1), (1, 0)] := by decide

end C06
end Compass
