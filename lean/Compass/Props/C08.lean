/-
C08 — vehicle energy and battery state follow the powertrain model along a route.

Model: `Compass/Model/Energy.lean` (tied to the Rust code by the bit-exact correspondence run of
`harness/src/c08.rs` against `Drv/C08.lean`).  All theorems are over an arbitrary linearly ordered
field `α` (ℚ, ℝ): every edge sequence, every length / speed / grade (any sign), every vehicle type,
starting charge and unit configuration, and every *positive* battery capacity (see below).  The
prediction model is the parameter `PredRecord.rate`; the cache is the parameter `Caches` (any key
type, any key function).

Modelled rather than verified (the theorems do not speak about these):
* f64 arithmetic.  The theorems are exact arithmetic in an ordered field; rounding, overflow and
  NaN of the code's doubles are outside them (the direct oracle of the harness runs on doubles).
  One place where a field artefact would hide a real failure is division by the battery capacity:
  in a field `x / 0 = 0`, so `asSocPercent 0 0 = 0` and the clamp bounds would "hold" at capacity 0,
  while the code computes `(0.0 / 0.0) * 100 = NaN` and `NaN.clamp(0, 100) = NaN`
  (`soc_capacity_zero_artefact`).  Every charge-BOUNDS theorem (the ones carrying `CapacityPos`) is
  therefore stated for a positive capacity, which the vehicle builders guarantee since /repo fix f2c4b1e (`battery_capacity_positive`,
  `battery_capacity_rejected`); `BEV::new` / `PHEV::new` called directly still take any capacity.
* the time model is the speed-table engine (`SpeedTraversalModel`), the only time model the energy
  service is configured with; the prediction model is an arbitrary function (parameter); the LRU
  order of the `lru` crate is modelled, not verified; the haversine value used by
  `estimate_traversal` is an input.
* table files: the configured path reads rows through `Speed::from_str` / `Grade::from_str`, which
  refuse NaN (speeds, grades), negative speeds and infinite grades (`bad_speed_row_rejected`,
  `bad_grade_row_rejected`); an infinite speed is accepted (edge time 0).  `get_max_speed` on a
  table that contains NaN (reachable only by constructing the engine directly) follows the
  `OrderedFloat` order in the code and is not modelled.
* a query that changes the *format* of `battery_state` is refused by `StateModel::extend`
  (`stateFeaturesAccepted`; the rule itself is C11's `StateFeature.eqv`).
* `PredRecord.predict` itself does not check the cache policy's length; the check
  (`FloatCachePolicy::get`) is modelled where `traverse_edge` reaches it (`cacheAccepts`).
-/
import Compass.Gen.Decisions
import Compass.Gen.FnsC08
import Compass.Proofs.Num
import Compass.Model.Energy
import Compass.Proofs.Energy

namespace Compass
namespace C08
open Compass.Energy

set_option linter.unusedSectionVars false

section
variable {K α : Type} [DecidableEq K] [Field α] [LinearOrder α] [IsStrictOrderedRing α] [Lit α] [LawfulLit α]

/-! ## Energy of one edge -/

/-- `predict` without a cache: rate at the given speed and grade (converted to the prediction
model's units) × real-world adjustment × distance in the rate's distance unit, tagged with the
rate's energy unit. -/
theorem predict_energy (r : PredRecord α) (speed : α) (su : SpeedUnit) (grade : α) (gu : GradeUnit)
    (d : α) (du : DistanceUnit) :
    (r.predict (none : Option (Cache K α)) speed su grade gu d du).1
      = (r.rate (su.convert r.speedUnit speed) (gu.convert r.gradeUnit grade) * r.adjustment
          * du.convert r.rateUnit.associatedDistanceUnit d,
         r.rateUnit.associatedEnergyUnit) := rfl

/-- with or without a cache, the energy is (the rate `lookupRate` settled on) × adjustment × distance -/
theorem predict_energy_of_rate (r : PredRecord α) (c : Option (Cache K α)) (speed : α) (su : SpeedUnit)
    (grade : α) (gu : GradeUnit) (d : α) (du : DistanceUnit) :
    (r.predict c speed su grade gu d du).1
      = ((r.lookupRate c speed su grade gu).1 * r.adjustment
          * du.convert r.rateUnit.associatedDistanceUnit d,
         r.rateUnit.associatedEnergyUnit) := rfl

/-- ICE: the edge's energy, converted to the feature's unit, is added to `energy_liquid`; nothing
else changes. -/
theorem ice_edge_energy (r : PredRecord α) (fu : FeatureUnits) (c : Caches K α)
    (speed : α) (su : SpeedUnit) (grade : α) (gu : GradeUnit) (d : α) (du : DistanceUnit) (s : VState α) :
    let s' := ((Vehicle.ice r).consumeEnergy fu c speed su grade gu d du s).1
    s'.liquid = s.liquid + r.rateUnit.associatedEnergyUnit.convert fu.liquid
                  (r.predict c.main speed su grade gu d du).1.1
      ∧ s'.electric = s.electric ∧ s'.soc = s.soc ∧ s'.time = s.time ∧ s'.distance = s.distance := by
  simp [Vehicle.consumeEnergy, iceApply]

/-- BEV: the edge's energy, converted to the feature's unit, is added to `energy_electric`. -/
theorem bev_edge_energy (r : PredRecord α) (b : Battery α) (fu : FeatureUnits) (c : Caches K α)
    (speed : α) (su : SpeedUnit) (grade : α) (gu : GradeUnit) (d : α) (du : DistanceUnit) (s : VState α) :
    let s' := ((Vehicle.bev r b).consumeEnergy fu c speed su grade gu d du s).1
    s'.electric = s.electric + r.rateUnit.associatedEnergyUnit.convert fu.electric
                    (r.predict c.main speed su grade gu d du).1.1
      ∧ s'.liquid = s.liquid ∧ s'.time = s.time ∧ s'.distance = s.distance := by
  simp [Vehicle.consumeEnergy, bevApply, PredRecord.predict, PredRecord.energyOfRate, createEnergy]

/-! ## State of charge -/

/-- BEV: the charge moves by exactly `-100 · E / capacity` (E = the edge's electric energy in the
battery's unit) and is then clamped to 0–100. -/
theorem bev_soc_step (r : PredRecord α) (b : Battery α) (fu : FeatureUnits) (c : Caches K α)
    (speed : α) (su : SpeedUnit) (grade : α) (gu : GradeUnit) (d : α) (du : DistanceUnit) (s : VState α)
    (hcap : b.capacity ≠ 0) :
    ((Vehicle.bev r b).consumeEnergy fu c speed su grade gu d du s).1.soc
      = clamp (s.soc - 100 * r.rateUnit.associatedEnergyUnit.convert b.unit
                  (r.predict c.main speed su grade gu d du).1.1 / b.capacity) 0 100 := by
  simp only [Vehicle.consumeEnergy, bevApply]
  rw [updateSoc_soc _ _ _ hcap]
  rfl

/-- C08 `soc_unclamped_step` (BEV): whenever the new charge is strictly inside 0–100 it is the old
charge minus `100 · E / capacity`. -/
theorem bev_soc_unclamped_step (r : PredRecord α) (b : Battery α) (fu : FeatureUnits) (c : Caches K α)
    (speed : α) (su : SpeedUnit) (grade : α) (gu : GradeUnit) (d : α) (du : DistanceUnit) (s : VState α)
    (hcap : b.capacity ≠ 0)
    (h0 : 0 < ((Vehicle.bev r b).consumeEnergy fu c speed su grade gu d du s).1.soc)
    (h1 : ((Vehicle.bev r b).consumeEnergy fu c speed su grade gu d du s).1.soc < 100) :
    ((Vehicle.bev r b).consumeEnergy fu c speed su grade gu d du s).1.soc
      = s.soc - 100 * r.rateUnit.associatedEnergyUnit.convert b.unit
                  (r.predict c.main speed su grade gu d du).1.1 / b.capacity := by
  rw [bev_soc_step r b fu c speed su grade gu d du s hcap] at h0 h1 ⊢
  exact clamp_interior h0 h1

/-- … and when `old − 100·E/capacity` is itself within 0–100 nothing is clamped -/
theorem bev_soc_step_in_range (r : PredRecord α) (b : Battery α) (fu : FeatureUnits) (c : Caches K α)
    (speed : α) (su : SpeedUnit) (grade : α) (gu : GradeUnit) (d : α) (du : DistanceUnit) (s : VState α)
    (hcap : b.capacity ≠ 0)
    (h0 : 0 ≤ s.soc - 100 * r.rateUnit.associatedEnergyUnit.convert b.unit
                  (r.predict c.main speed su grade gu d du).1.1 / b.capacity)
    (h1 : s.soc - 100 * r.rateUnit.associatedEnergyUnit.convert b.unit
                  (r.predict c.main speed su grade gu d du).1.1 / b.capacity ≤ 100) :
    ((Vehicle.bev r b).consumeEnergy fu c speed su grade gu d du s).1.soc
      = s.soc - 100 * r.rateUnit.associatedEnergyUnit.convert b.unit
                  (r.predict c.main speed su grade gu d du).1.1 / b.capacity := by
  rw [bev_soc_step r b fu c speed su grade gu d du s hcap]
  exact clamp_of_mem h0 h1

/-! ## Plug-in hybrid: the charge at the start of the edge decides -/

/-- C08 `phev_switch`, charge remaining: an edge entered with `soc > 0` draws only electricity — the
charge-depleting model's energy goes to `energy_electric`, `energy_liquid` is unchanged — and the
charge moves by `-100 · E / capacity`, clamped. -/
theorem phev_switch_electric (sus dep : PredRecord α) (b : Battery α) (fu : FeatureUnits) (c : Caches K α)
    (speed : α) (su : SpeedUnit) (grade : α) (gu : GradeUnit) (d : α) (du : DistanceUnit) (s : VState α)
    (hcap : b.capacity ≠ 0) (hsoc : 0 < s.soc) :
    let s' := ((Vehicle.phev sus dep b).consumeEnergy fu c speed su grade gu d du s).1
    s'.liquid = s.liquid
      ∧ s'.electric = s.electric + dep.rateUnit.associatedEnergyUnit.convert fu.electric
                        (dep.predict c.main speed su grade gu d du).1.1
      ∧ s'.soc = clamp (s.soc - 100 * dep.rateUnit.associatedEnergyUnit.convert b.unit
                        (dep.predict c.main speed su grade gu d du).1.1 / b.capacity) 0 100 := by
  have hz : (zero : α) < s.soc := by rw [zero_eq]; exact hsoc
  simp only [Vehicle.consumeEnergy, if_pos hz, phevApply]
  refine ⟨?_, ?_, ?_⟩
  · simp [EnergyUnit.convert, Factor.apply_eq]
  · rfl
  · rw [updateSoc_soc _ _ _ hcap]; rfl

/-- C08 `phev_switch`, empty: an edge entered with `soc ≤ 0` (with `soc_bounds`: `soc = 0`) draws
only liquid fuel — the charge-sustaining model's energy goes to `energy_liquid`, `energy_electric`
is unchanged — and the battery stays where it is (clamped). -/
theorem phev_switch_liquid (sus dep : PredRecord α) (b : Battery α) (fu : FeatureUnits) (c : Caches K α)
    (speed : α) (su : SpeedUnit) (grade : α) (gu : GradeUnit) (d : α) (du : DistanceUnit) (s : VState α)
    (hcap : b.capacity ≠ 0) (hsoc : s.soc ≤ 0) :
    let s' := ((Vehicle.phev sus dep b).consumeEnergy fu c speed su grade gu d du s).1
    s'.electric = s.electric
      ∧ s'.liquid = s.liquid + sus.rateUnit.associatedEnergyUnit.convert fu.liquid
                      (sus.predict c.sustain speed su grade gu d du).1.1
      ∧ s'.soc = clamp s.soc 0 100 := by
  have hz : ¬ (zero : α) < s.soc := by rw [zero_eq]; exact not_lt.mpr hsoc
  simp only [Vehicle.consumeEnergy, if_neg hz, phevApply]
  refine ⟨?_, ?_, ?_⟩
  · simp [EnergyUnit.convert, Factor.apply_eq]
  · rfl
  · rw [updateSoc_soc _ _ _ hcap]
    simp [EnergyUnit.convert, Factor.apply_eq]

/-- an empty plug-in hybrid stays empty whatever the edge (also downhill: regeneration is not
modelled once the charge-sustaining model is in use) -/
theorem phev_empty_stays_empty (sus dep : PredRecord α) (b : Battery α) (fu : FeatureUnits) (c : Caches K α)
    (speed : α) (su : SpeedUnit) (grade : α) (gu : GradeUnit) (d : α) (du : DistanceUnit) (s : VState α)
    (hcap : b.capacity ≠ 0) (hsoc : s.soc = 0) :
    ((Vehicle.phev sus dep b).consumeEnergy fu c speed su grade gu d du s).1.soc = 0 := by
  have h := (phev_switch_liquid sus dep b fu c speed su grade gu d du s hcap (le_of_eq hsoc)).2.2
  rw [h, hsoc]
  exact clamp_of_mem (le_refl _) (by norm_num)

/-- C08 `soc_unclamped_step` (PHEV) -/
theorem phev_soc_unclamped_step (sus dep : PredRecord α) (b : Battery α) (fu : FeatureUnits) (c : Caches K α)
    (speed : α) (su : SpeedUnit) (grade : α) (gu : GradeUnit) (d : α) (du : DistanceUnit) (s : VState α)
    (hcap : b.capacity ≠ 0) (hsoc : 0 < s.soc)
    (h0 : 0 < ((Vehicle.phev sus dep b).consumeEnergy fu c speed su grade gu d du s).1.soc)
    (h1 : ((Vehicle.phev sus dep b).consumeEnergy fu c speed su grade gu d du s).1.soc < 100) :
    ((Vehicle.phev sus dep b).consumeEnergy fu c speed su grade gu d du s).1.soc
      = s.soc - 100 * dep.rateUnit.associatedEnergyUnit.convert b.unit
                  (dep.predict c.main speed su grade gu d du).1.1 / b.capacity := by
  have h := (phev_switch_electric sus dep b fu c speed su grade gu d du s hcap hsoc).2.2
  rw [h] at h0 h1 ⊢
  exact clamp_interior h0 h1

/-! ## Bounds along every route -/

/-- C08 `soc_bounds`: for every vehicle with a positive battery capacity, every edge sequence and every
cache state, if the charge starts within 0–100 it is within 0–100 after the route (hence, the
statement being for every edge list, after every prefix of it).  No hypothesis on energies or
units.  The capacity hypothesis is not used by the field proof — the clamp alone gives the bounds in
exact arithmetic, `x / 0 = 0` included (`Proofs/Energy.traverseEdge_socOk`) — but without it the
statement would be false of the code: at capacity 0 the doubles are NaN
(`soc_capacity_zero_artefact`).  Configured vehicles satisfy it: `battery_capacity_positive`,
`soc_bounds_configured`. -/
theorem soc_bounds (svc : Service α) (eng : SpeedEngine α) (v : Vehicle α) (fu : FeatureUnits)
    (edges : List (Edge α)) (st st' : VState α × Caches K α) (_hcap : CapacityPos v)
    (h0 : 0 ≤ st.1.soc ∧ st.1.soc ≤ 100)
    (h : traverseRoute svc eng v fu edges st = .ok st') :
    0 ≤ st'.1.soc ∧ st'.1.soc ≤ 100 := by
  induction edges generalizing st with
  | nil => simp only [traverseRoute] at h; cases h; exact h0
  | cons e es ih =>
    simp only [traverseRoute] at h
    split at h
    · cases h
    · rename_i st1 h1
      exact ih st1 (traverseEdge_socOk h1 h0) h

/-- for a battery vehicle one traversed edge is enough: whatever the charge before (even out of
range), it is within 0–100 after the edge -/
theorem soc_bounds_after_edge (svc : Service α) (eng : SpeedEngine α) (v : Vehicle α) (fu : FeatureUnits)
    (e : Edge α) (st st' : VState α × Caches K α) (hv : ∀ r, v ≠ .ice r) (_hcap : CapacityPos v)
    (h : traverseEdge svc eng v fu e st = .ok st') :
    0 ≤ st'.1.soc ∧ st'.1.soc ≤ 100 := by
  obtain ⟨s1, grade, _, _, rfl⟩ := traverseEdge_ok h
  cases v with
  | ice r => exact absurd rfl (hv r)
  | bev r b => exact updateSoc_bounds _ _ _
  | phev sus dep b =>
    simp only [Vehicle.consumeEnergy]
    split <;> exact updateSoc_bounds (α := α) _ _ _

/-- the initial state's charge is within 0–100 for every vehicle with a positive capacity (whatever
its start energy; same remark on the capacity as for `soc_bounds`) -/
theorem soc_initial_bounds (v : Vehicle α) (_hcap : CapacityPos v) :
    0 ≤ v.initialState.soc ∧ v.initialState.soc ≤ 100 := by
  cases v with
  | ice r => simp [Vehicle.initialState]
  | bev r b => exact asSoc_bounds _ _
  | phev s d b => exact asSoc_bounds _ _

/-- C08 `soc_bounds` from the initial state of any vehicle with a positive capacity -/
theorem soc_bounds_from_start (svc : Service α) (eng : SpeedEngine α) (v : Vehicle α) (fu : FeatureUnits)
    (edges : List (Edge α)) (c : Caches K α) (st' : VState α × Caches K α) (hcap : CapacityPos v)
    (h : traverseRoute svc eng v fu edges (v.initialState, c) = .ok st') :
    0 ≤ st'.1.soc ∧ st'.1.soc ≤ 100 :=
  soc_bounds svc eng v fu edges _ st' hcap (soc_initial_bounds v hcap) h

/-! ## Starting charge -/

/-- C08 `soc_rejected`: a battery vehicle accepts a numeric starting charge exactly when it is
within 0–100 … -/
theorem soc_accepted_iff_bev (r : PredRecord α) (b : Battery α) (x : α) :
    (∃ v', (Vehicle.bev r b).updateFromQuery (.num x) = .ok v') ↔ (0 ≤ x ∧ x ≤ 100) := by
  simp only [Vehicle.updateFromQuery, Battery.withStartSoc, zero_eq, hundred_eq]
  by_cases hx : 0 ≤ x ∧ x ≤ 100
  · simp [hx]
  · simp [hx]

theorem soc_accepted_iff_phev (sus dep : PredRecord α) (b : Battery α) (x : α) :
    (∃ v', (Vehicle.phev sus dep b).updateFromQuery (.num x) = .ok v') ↔ (0 ≤ x ∧ x ≤ 100) := by
  simp only [Vehicle.updateFromQuery, Battery.withStartSoc, zero_eq, hundred_eq]
  by_cases hx : 0 ≤ x ∧ x ≤ 100
  · simp [hx]
  · simp [hx]

/-- … outside it is a build error, as is a non-numeric value -/
theorem soc_rejected (v : Vehicle α) (x : α) (hv : ∀ r, v ≠ .ice r) (hx : x < 0 ∨ 100 < x) :
    v.updateFromQuery (.num x) = .error .build := by
  have hn : ¬ (0 ≤ x ∧ x ≤ 100) := by
    rintro ⟨a, b⟩; rcases hx with h | h
    · exact absurd a (not_le.mpr h)
    · exact absurd b (not_le.mpr h)
  cases v with
  | ice r => exact absurd rfl (hv r)
  | bev r b => simp [Vehicle.updateFromQuery, Battery.withStartSoc, hn]
  | phev s d b => simp [Vehicle.updateFromQuery, Battery.withStartSoc, hn]

theorem soc_rejected_non_numeric (v : Vehicle α) (hv : ∀ r, v ≠ .ice r) :
    v.updateFromQuery .nonNumeric = .error .build := by
  cases v with
  | ice r => exact absurd rfl (hv r)
  | bev r b => rfl
  | phev s d b => rfl

/-- C08 `soc_start`: the charge of the initial state is the query's starting value (capacity ≠ 0) -/
theorem soc_start (v v' : Vehicle α) (x : α) (hv : ∀ r, v ≠ .ice r)
    (hcap : ∀ r b, v = .bev r b → b.capacity ≠ 0) (hcap' : ∀ s d b, v = .phev s d b → b.capacity ≠ 0)
    (h : v.updateFromQuery (.num x) = .ok v') :
    v'.initialState.soc = x := by
  cases v with
  | ice r => exact absurd rfl (hv r)
  | bev r b =>
    have hc := hcap r b rfl
    simp only [Vehicle.updateFromQuery] at h
    split at h
    · rename_i b' hb
      cases h
      obtain ⟨hx, rfl⟩ := withStartSoc_ok hb
      exact asSoc_of_start _ _ hc hx
    · cases h
  | phev s d b =>
    have hc := hcap' s d b rfl
    simp only [Vehicle.updateFromQuery] at h
    split at h
    · rename_i b' hb
      cases h
      obtain ⟨hx, rfl⟩ := withStartSoc_ok hb
      exact asSoc_of_start _ _ hc hx
    · cases h

/-- a BEV query without `starting_soc_percent` starts full; a PHEV query without it is rejected -/
theorem soc_start_default (r : PredRecord α) (b : Battery α) (hcap : b.capacity ≠ 0) :
    ∃ v', (Vehicle.bev r b).updateFromQuery .absent = .ok v' ∧ v'.initialState.soc = 100 := by
  have h100 : (0 : α) ≤ 100 ∧ (100 : α) ≤ 100 := ⟨by norm_num, le_refl _⟩
  simp only [Vehicle.updateFromQuery, Battery.withStartSoc, zero_eq, hundred_eq, if_pos h100]
  refine ⟨_, rfl, ?_⟩
  exact asSoc_of_start _ _ hcap h100

theorem phev_requires_start (sus dep : PredRecord α) (b : Battery α) :
    (Vehicle.phev sus dep b).updateFromQuery .absent = .error .build := rfl

/-! ## Best case -/

/-- the record whose ideal rate orders the search: the vehicle's own, the charge-depleting one for a PHEV -/
def bestRecord : Vehicle α → PredRecord α
  | .ice r => r
  | .bev r _ => r
  | .phev _ dep _ => dep

/-- C08 `best_case`: the best-case energy is the ideal rate × the distance expressed in the rate's
distance unit, in the rate's energy unit. -/
theorem best_case (v : Vehicle α) (d : α) (du : DistanceUnit) :
    v.bestCaseEnergy d du
      = ((bestRecord v).idealRate * du.convert (bestRecord v).rateUnit.associatedDistanceUnit d,
         (bestRecord v).rateUnit.associatedEnergyUnit) := by
  cases v <;> rfl

/-- ICE: `best_case_energy_state` adds exactly that energy (converted to the feature's unit) -/
theorem best_case_state_ice (r : PredRecord α) (fu : FeatureUnits) (d : α) (du : DistanceUnit) (s : VState α) :
    ((Vehicle.ice r).bestCaseEnergyState fu d du s).liquid
      = s.liquid + r.rateUnit.associatedEnergyUnit.convert fu.liquid ((Vehicle.ice r).bestCaseEnergy d du).1 := rfl

/-- C08 `best_case` as recorded in the state (BEV, PHEV), every unit configuration:
`best_case_energy_state` adds the best-case energy E — a quantity in the rate's energy unit —
converted to the feature's unit to `energy_electric`, and moves the charge by
`-100 · E[battery unit] / capacity`, clamped.  (Before /repo fix 2aef62e the code tagged E with the
battery's unit and used the raw number against the capacity; the theorem then needed
`battery unit = rate's energy unit` and a counterexample stood beside it — the old witness is now
`best_case_state_unit_mix_regression`.) -/
theorem best_case_state (v : Vehicle α) (b : Battery α) (fu : FeatureUnits) (d : α) (du : DistanceUnit)
    (s : VState α) (hv : (∃ r, v = .bev r b) ∨ (∃ sus dep, v = .phev sus dep b)) (hcap : b.capacity ≠ 0) :
    (v.bestCaseEnergyState fu d du s).electric
        = s.electric + (bestRecord v).rateUnit.associatedEnergyUnit.convert fu.electric (v.bestCaseEnergy d du).1
      ∧ (v.bestCaseEnergyState fu d du s).soc
        = clamp (s.soc - 100 * (bestRecord v).rateUnit.associatedEnergyUnit.convert b.unit (v.bestCaseEnergy d du).1
                  / b.capacity) 0 100 := by
  rcases hv with ⟨r, rfl⟩ | ⟨sus, dep, rfl⟩
  · simp only [bestRecord, Vehicle.bestCaseEnergyState]
    rw [updateSoc_soc _ _ _ hcap]
    exact ⟨rfl, rfl⟩
  · simp only [bestRecord, Vehicle.bestCaseEnergyState]
    rw [updateSoc_soc _ _ _ hcap]
    exact ⟨rfl, rfl⟩

/-- `estimate_traversal` (the A* heuristic; `hm` = great-circle distance in metres): a zero distance
leaves the state alone; otherwise, after the time model's estimate (which touches neither energy nor
charge), it is `best_case_energy_state` over that distance in the service's distance unit. -/
theorem estimate_ok {svc : Service α} {eng : SpeedEngine α} {ms : α} {v : Vehicle α} {fu : FeatureUnits}
    {hm : α} {s s' : VState α} (h : estimateTraversal svc eng ms v fu hm s = .ok s') :
    (isZero (DistanceUnit.meters.convert svc.distanceUnit hm) = true ∧ s' = s)
      ∨ (isZero (DistanceUnit.meters.convert svc.distanceUnit hm) = false ∧
          ∃ s1, s1.liquid = s.liquid ∧ s1.electric = s.electric ∧ s1.soc = s.soc ∧
            s' = v.bestCaseEnergyState fu (DistanceUnit.meters.convert svc.distanceUnit hm) svc.distanceUnit s1) := by
  simp only [estimateTraversal] at h
  split at h
  · rename_i hz; cases h; exact Or.inl ⟨hz, rfl⟩
  · rename_i hz
    right
    refine ⟨by simpa using hz, ?_⟩
    split at h
    · cases h
    · rename_i s1 h1
      cases h
      refine ⟨s1, ?_, ?_, ?_, rfl⟩ <;>
      · simp only [SpeedEngine.estimate] at h1
        split at h1
        · cases h1; rfl
        · split at h1
          · cases h1
          · cases h1; rfl

/-- C08 `best_case` as the search sees it (ICE): the estimate adds ideal rate × great-circle
distance (in the rate's distance unit), converted to the feature's unit. -/
theorem estimate_energy_ice (svc : Service α) (eng : SpeedEngine α) (ms : α) (r : PredRecord α)
    (fu : FeatureUnits) (hm : α) (s s' : VState α)
    (h : estimateTraversal svc eng ms (.ice r) fu hm s = .ok s')
    (hz : isZero (DistanceUnit.meters.convert svc.distanceUnit hm) = false) :
    s'.liquid = s.liquid + r.rateUnit.associatedEnergyUnit.convert fu.liquid
      (r.idealRate * svc.distanceUnit.convert r.rateUnit.associatedDistanceUnit
        (DistanceUnit.meters.convert svc.distanceUnit hm)) := by
  rcases estimate_ok h with ⟨hz', _⟩ | ⟨_, s1, hl, _, _, rfl⟩
  · rw [hz] at hz'; cases hz'
  · rw [best_case_state_ice, hl]; rfl

/-- … and for a battery vehicle, whatever unit its battery capacity is configured in -/
theorem estimate_energy_battery (svc : Service α) (eng : SpeedEngine α) (ms : α) (v : Vehicle α)
    (b : Battery α) (fu : FeatureUnits) (hm : α) (s s' : VState α)
    (hv : (∃ r, v = .bev r b) ∨ (∃ sus dep, v = .phev sus dep b)) (hcap : b.capacity ≠ 0)
    (h : estimateTraversal svc eng ms v fu hm s = .ok s')
    (hz : isZero (DistanceUnit.meters.convert svc.distanceUnit hm) = false) :
    s'.electric = s.electric + (bestRecord v).rateUnit.associatedEnergyUnit.convert fu.electric
      ((bestRecord v).idealRate * svc.distanceUnit.convert (bestRecord v).rateUnit.associatedDistanceUnit
        (DistanceUnit.meters.convert svc.distanceUnit hm)) := by
  rcases estimate_ok h with ⟨hz', _⟩ | ⟨_, s1, _, hel, _, rfl⟩
  · rw [hz] at hz'; cases hz'
  · rw [(best_case_state v b fu _ svc.distanceUnit s1 hv hcap).1, hel, best_case]

/-- the estimate keeps the charge within 0–100 as well (positive capacity, as for `soc_bounds`) -/
theorem estimate_soc_bounds (svc : Service α) (eng : SpeedEngine α) (ms : α) (v : Vehicle α)
    (fu : FeatureUnits) (hm : α) (s s' : VState α) (_hcap : CapacityPos v)
    (h0 : 0 ≤ s.soc ∧ s.soc ≤ 100)
    (h : estimateTraversal svc eng ms v fu hm s = .ok s') : 0 ≤ s'.soc ∧ s'.soc ≤ 100 := by
  rcases estimate_ok h with ⟨_, rfl⟩ | ⟨_, s1, _, _, hs, rfl⟩
  · exact h0
  · cases v with
    | ice r => simp only [Vehicle.bestCaseEnergyState]; rw [addLiquid_soc, hs]; exact h0
    | bev r b => exact updateSoc_bounds _ _ _
    | phev sus dep b => exact updateSoc_bounds _ _ _

/-! ## The speed handed to the predictor -/

/-- the exact factor between the speed-table entry (in the time model's speed unit) and the speed
`traverse_edge` reconstructs from the time model's time delta (in `time_model_speed_unit`), for a
time model with units `esu, edu, etu`, a `time` feature kept in `ftu`, and service speed unit `tmsu` -/
def recK (esu : SpeedUnit) (edu : DistanceUnit) (etu ftu : TimeUnit) (tmsu : SpeedUnit) : ℚ :=
  (dK baseDistanceUnit tmsu.associatedDistanceUnit * sK esu baseSpeedUnit)
    / (dK baseDistanceUnit edu * dK edu baseDistanceUnit * tK baseTimeUnit etu * tK etu ftu
        * tK ftu tmsu.associatedTimeUnit)

/-- C08 (speed reconstruction): whenever the time model accepts the edge, the speed handed to the
vehicle is the speed-table entry times `recK` — for every accumulated time, edge length and unit
configuration; in particular it does not depend on the history. -/
theorem speed_reconstruction (svc : Service α) (eng : SpeedEngine α) (fu : FeatureUnits) (e : Edge α)
    (s s1 : VState α) (speed : α) (h : eng.traverse fu e s = .ok s1)
    (hs : eng.speedTable[e.id]? = some speed) :
    reconstructSpeed svc fu e s s1
      = speed * (recK eng.speedUnit eng.distanceUnit eng.timeUnit fu.time svc.timeModelSpeedUnit : α) := by
  obtain ⟨speed', t, hs', ht, rfl⟩ := traverse_ok h
  rw [hs] at hs'; cases hs'
  rw [C09.createTime_eq] at ht
  split at ht
  · cases ht
  · rename_i hpos
    cases ht
    have hsp : speed ≠ 0 := by
      intro h0; apply hpos; left; rw [h0]
    have hd : e.distance ≠ 0 := by
      intro h0; apply hpos; right; rw [h0]; simp [DistanceUnit.convert, Factor.apply_eq]
    have a1 := (dK_pos (α := α) baseDistanceUnit eng.distanceUnit).ne'
    have a2 := (dK_pos (α := α) eng.distanceUnit baseDistanceUnit).ne'
    have a3 := (tK_pos (α := α) baseTimeUnit eng.timeUnit).ne'
    have a4 := (tK_pos (α := α) eng.timeUnit fu.time).ne'
    have a5 := (tK_pos (α := α) fu.time svc.timeModelSpeedUnit.associatedTimeUnit).ne'
    have a6 := (sK_pos (α := α) eng.speedUnit baseSpeedUnit).ne'
    have a7 := (dK_pos (α := α) baseDistanceUnit svc.timeModelSpeedUnit.associatedDistanceUnit).ne'
    simp only [reconstructSpeed, getTime, addDistance_time, addTime_time, time_conv_eq, distance_conv_eq,
      recK, dK, tK, sK] at *
    push_cast
    field_simp
    ring

/-- the factor is physically 1: the reconstructed speed, in `tmsu`, is the table speed, in `esu`,
within 0.1 percent — for all 720 unit configurations -/
theorem recK_physical : ∀ esu edu etu ftu tmsu,
    |recK esu edu etu ftu tmsu * C09.siSpeed tmsu / C09.siSpeed esu - 1| ≤ C09.tol := by
  decide +kernel

/-- the edge length the energy is computed from (metres → the service's distance unit → the rate's
distance unit) is physically the edge length within 0.1 percent, for all 25 unit pairs -/
theorem edge_length_physical : ∀ sdu rd : DistanceUnit,
    |dK baseDistanceUnit sdu * dK sdu rd * C09.siDistance rd / C09.siDistance baseDistanceUnit - 1| ≤ C09.tol := by
  decide +kernel

/-! ## The prediction cache -/

/-- every cached rate is the prediction for every input that maps to its key (for the fixed units
`su`, `gu` the traversal model calls `predict` with) -/
def CacheSound (r : PredRecord α) (su : SpeedUnit) (gu : GradeUnit) (c : Cache K α) : Prop :=
  ∀ kv ∈ c.entries, ∀ s g, c.keyOf s g = kv.1 → kv.2 = r.rateOf s su g gu

/-- the key determines the prediction — true of a key that keeps its inputs exactly -/
def KeyDetermines (r : PredRecord α) (su : SpeedUnit) (gu : GradeUnit) (keyOf : α → α → K) : Prop :=
  ∀ s g s' g', keyOf s g = keyOf s' g' → r.rateOf s su g gu = r.rateOf s' su g' gu

theorem cacheSound_empty (r : PredRecord α) (su : SpeedUnit) (gu : GradeUnit) (n : Nat) (keyOf : α → α → K) :
    CacheSound r su gu { capacity := n, keyOf := keyOf, entries := [] } := by
  intro kv h; simp at h

/-- C08 (cache = identity when the key determines the prediction): on a sound cache `predict`
uses exactly the rate the prediction model gives at this speed and grade, and leaves a sound cache
with the same key function — for any capacity and any eviction history. -/
theorem lookupRate_cached (r : PredRecord α) (su : SpeedUnit) (gu : GradeUnit) (c : Cache K α)
    (speed grade : α) (hs : CacheSound r su gu c) (hk : KeyDetermines r su gu c.keyOf) :
    (r.lookupRate (some c) speed su grade gu).1 = r.rateOf speed su grade gu
      ∧ ∃ c', (r.lookupRate (some c) speed su grade gu).2 = some c' ∧ c'.keyOf = c.keyOf
          ∧ CacheSound r su gu c' := by
  simp only [PredRecord.lookupRate]
  cases hget : c.get (c.keyOf speed grade) with
  | none =>
    refine ⟨rfl, _, rfl, rfl, ?_⟩
    intro kv hkv s g hkey
    simp only [Cache.put] at hkv hkey
    rcases List.mem_cons.mp (List.mem_of_mem_take hkv) with h | h
    · subst h; exact hk _ _ _ _ hkey.symm
    · exact hs kv (mem_remove h) s g hkey
  | some p =>
    obtain ⟨v, c'⟩ := p
    simp only [Cache.get] at hget
    split at hget
    · cases hget
    · rename_i v' hf
      cases hget
      have hm := find_mem hf
      refine ⟨hs _ hm speed grade rfl, _, rfl, rfl, ?_⟩
      intro kv hkv s g hkey
      rcases List.mem_cons.mp hkv with h | h
      · subst h; exact hs _ hm s g hkey
      · exact hs kv (mem_remove h) s g hkey

/-- … hence the predicted energy is the same as without a cache -/
theorem predict_cached (r : PredRecord α) (su : SpeedUnit) (gu : GradeUnit) (c : Cache K α)
    (speed grade d : α) (du : DistanceUnit) (hs : CacheSound r su gu c) (hk : KeyDetermines r su gu c.keyOf) :
    (r.predict (some c) speed su grade gu d du).1
      = (r.predict (none : Option (Cache K α)) speed su grade gu d du).1 := by
  simp only [PredRecord.predict, (lookupRate_cached r su gu c speed grade hs hk).1]
  rfl

/-- an exact key (the pair of inputs itself) determines the prediction -/
theorem keyDetermines_exact (r : PredRecord α) (su : SpeedUnit) (gu : GradeUnit) :
    KeyDetermines r su gu (fun s g => (s, g)) := by
  intro s g s' g' h
  cases h; rfl

/-- an optional cache is fine for a record: sound, with a key that determines the prediction -/
def CacheFine (r : PredRecord α) (su : SpeedUnit) (gu : GradeUnit) (c : Option (Cache K α)) : Prop :=
  ∀ cm, c = some cm → CacheSound r su gu cm ∧ KeyDetermines r su gu cm.keyOf

theorem predict_fine (r : PredRecord α) (su : SpeedUnit) (gu : GradeUnit) (c : Option (Cache K α))
    (speed grade d : α) (du : DistanceUnit) (hc : CacheFine r su gu c) :
    (r.predict c speed su grade gu d du).1 = (r.predict (none : Option (Cache K α)) speed su grade gu d du).1
      ∧ CacheFine r su gu (r.predict c speed su grade gu d du).2 := by
  cases c with
  | none => exact ⟨rfl, by intro cm h; cases h⟩
  | some cm =>
    obtain ⟨hs, hk⟩ := hc cm rfl
    refine ⟨predict_cached r su gu cm speed grade d du hs hk, ?_⟩
    obtain ⟨_, c', hc', hkey, hs'⟩ := lookupRate_cached r su gu cm speed grade hs hk
    intro cm' h
    have : (r.predict (some cm) speed su grade gu d du).2 = (r.lookupRate (some cm) speed su grade gu).2 := rfl
    rw [this, hc'] at h
    cases h
    exact ⟨hs', by rw [hkey]; exact hk⟩

/-- no cache is a fine cache -/
theorem cacheFine_none (r : PredRecord α) (su : SpeedUnit) (gu : GradeUnit) :
    CacheFine r su gu (none : Option (Cache K α)) := by
  intro cm h; cases h

/-- non-vacuity of `CacheFine`: an empty cache keyed by the exact pair of inputs, any capacity -/
theorem cacheFine_exact_empty (r : PredRecord α) (su : SpeedUnit) (gu : GradeUnit) (n : Nat) :
    CacheFine r su gu (some ({ capacity := n, keyOf := fun s g => (s, g), entries := [] } : Cache (α × α) α)) := by
  intro cm h
  cases h
  exact ⟨cacheSound_empty r su gu n _, keyDetermines_exact r su gu⟩

/-! ## Energy of an edge of the route, and additivity -/

/-- the energy the property prescribes for an edge, in the rate's energy unit: the record's rate at
the edge's speed (table entry × `recK`, converted to the prediction model's speed unit) and grade
(table entry converted to the model's grade unit) × real-world adjustment × the edge's length in the
rate's distance unit -/
def edgeEnergy (svc : Service α) (eng : SpeedEngine α) (fu : FeatureUnits) (r : PredRecord α)
    (e : Edge α) (speed grade : α) : α :=
  r.rate
      (svc.timeModelSpeedUnit.convert r.speedUnit
        (speed * (recK eng.speedUnit eng.distanceUnit eng.timeUnit fu.time svc.timeModelSpeedUnit : α)))
      (svc.gradeUnit.convert r.gradeUnit grade)
    * r.adjustment
    * svc.distanceUnit.convert r.rateUnit.associatedDistanceUnit
        (baseDistanceUnit.convert svc.distanceUnit e.distance)

/-- what `traverse_edge` hands to the vehicle -/
theorem traverseEdge_inputs {svc : Service α} {eng : SpeedEngine α} {v : Vehicle α} {fu : FeatureUnits}
    {e : Edge α} {st st' : VState α × Caches K α} {speed grade : α}
    (h : traverseEdge svc eng v fu e st = .ok st')
    (hs : eng.speedTable[e.id]? = some speed) (hg : getGrade svc.gradeTable e.id = .ok grade) :
    ∃ s1, s1.liquid = st.1.liquid ∧ s1.electric = st.1.electric ∧ s1.soc = st.1.soc ∧
      st' = v.consumeEnergy fu st.2
              (speed * (recK eng.speedUnit eng.distanceUnit eng.timeUnit fu.time svc.timeModelSpeedUnit : α))
              svc.timeModelSpeedUnit grade svc.gradeUnit
              (baseDistanceUnit.convert svc.distanceUnit e.distance) svc.distanceUnit s1 := by
  obtain ⟨s1, grade', h1, hg', rfl⟩ := traverseEdge_ok h
  rw [hg] at hg'; cases hg'
  obtain ⟨a, b, c⟩ := traverse_soc h1
  exact ⟨s1, b, c, a, by rw [speed_reconstruction svc eng fu e st.1 s1 speed h1 hs]⟩

/-
Full statement of `edge_energy`: for every vehicle, unit configuration and cache, the energy recorded
for an edge is `edgeEnergy` (rate at the edge's speed and grade × adjustment × length) in the
feature's unit.  It is false for an arbitrary cache (`cache_rounding_counterexample`: the float
cache's rounded key lets an edge be charged the rate of an earlier, slightly different speed or grade
— the precision trade-off of a rounding cache; a truncated key is no longer possible,
`cache_key_length_rejected`); it is proved below without a cache and with any
cache that is sound and whose key determines the prediction (`CacheFine`, e.g. an exact key) —
hence `_partial`.
-/
/-- C08 `edge_energy` (ICE): the energy recorded for the edge is `edgeEnergy`, converted to the
unit of the `energy_liquid` feature. -/
theorem edge_energy_ice_partial (svc : Service α) (eng : SpeedEngine α) (r : PredRecord α) (fu : FeatureUnits)
    (e : Edge α) (st st' : VState α × Caches K α) (speed grade : α)
    (h : traverseEdge svc eng (.ice r) fu e st = .ok st')
    (hs : eng.speedTable[e.id]? = some speed) (hg : getGrade svc.gradeTable e.id = .ok grade)
    (hc : CacheFine r svc.timeModelSpeedUnit svc.gradeUnit st.2.main) :
    st'.1.liquid = st.1.liquid
      + r.rateUnit.associatedEnergyUnit.convert fu.liquid (edgeEnergy svc eng fu r e speed grade) := by
  obtain ⟨s1, hl, _, _, rfl⟩ := traverseEdge_inputs h hs hg
  rw [(ice_edge_energy r fu st.2 _ _ _ _ _ _ s1).1, hl, (predict_fine r _ _ st.2.main _ _ _ _ hc).1]
  rfl

/-- C08 `edge_energy` (BEV), with the battery step in the same terms -/
theorem edge_energy_bev_partial (svc : Service α) (eng : SpeedEngine α) (r : PredRecord α) (b : Battery α)
    (fu : FeatureUnits) (e : Edge α) (st st' : VState α × Caches K α) (speed grade : α)
    (h : traverseEdge svc eng (.bev r b) fu e st = .ok st')
    (hs : eng.speedTable[e.id]? = some speed) (hg : getGrade svc.gradeTable e.id = .ok grade)
    (hc : CacheFine r svc.timeModelSpeedUnit svc.gradeUnit st.2.main) (hcap : b.capacity ≠ 0) :
    st'.1.electric = st.1.electric
        + r.rateUnit.associatedEnergyUnit.convert fu.electric (edgeEnergy svc eng fu r e speed grade)
      ∧ st'.1.soc = clamp (st.1.soc - 100 * r.rateUnit.associatedEnergyUnit.convert b.unit
                              (edgeEnergy svc eng fu r e speed grade) / b.capacity) 0 100 := by
  obtain ⟨s1, _, hel, hsoc, rfl⟩ := traverseEdge_inputs h hs hg
  rw [(bev_edge_energy r b fu st.2 _ _ _ _ _ _ s1).1, bev_soc_step r b fu st.2 _ _ _ _ _ _ s1 hcap,
    hel, hsoc, (predict_fine r _ _ st.2.main _ _ _ _ hc).1]
  exact ⟨rfl, rfl⟩

/-- C08 `edge_energy` (PHEV): with charge remaining the charge-depleting record's
`edgeEnergy` goes to `energy_electric` (and the battery), `energy_liquid` is untouched … -/
theorem edge_energy_phev_electric_partial (svc : Service α) (eng : SpeedEngine α) (sus dep : PredRecord α)
    (b : Battery α) (fu : FeatureUnits) (e : Edge α) (st st' : VState α × Caches K α) (speed grade : α)
    (h : traverseEdge svc eng (.phev sus dep b) fu e st = .ok st')
    (hs : eng.speedTable[e.id]? = some speed) (hg : getGrade svc.gradeTable e.id = .ok grade)
    (hc : CacheFine dep svc.timeModelSpeedUnit svc.gradeUnit st.2.main) (hcap : b.capacity ≠ 0)
    (hsoc : 0 < st.1.soc) :
    st'.1.liquid = st.1.liquid
      ∧ st'.1.electric = st.1.electric
          + dep.rateUnit.associatedEnergyUnit.convert fu.electric (edgeEnergy svc eng fu dep e speed grade)
      ∧ st'.1.soc = clamp (st.1.soc - 100 * dep.rateUnit.associatedEnergyUnit.convert b.unit
                              (edgeEnergy svc eng fu dep e speed grade) / b.capacity) 0 100 := by
  obtain ⟨s1, hl, hel, hs1, rfl⟩ := traverseEdge_inputs h hs hg
  have := phev_switch_electric sus dep b fu st.2
    (speed * (recK eng.speedUnit eng.distanceUnit eng.timeUnit fu.time svc.timeModelSpeedUnit : α))
    svc.timeModelSpeedUnit grade svc.gradeUnit (baseDistanceUnit.convert svc.distanceUnit e.distance)
    svc.distanceUnit s1 hcap (by rw [hs1]; exact hsoc)
  obtain ⟨p1, p2, p3⟩ := this
  rw [p1, p2, p3, hl, hel, hs1, (predict_fine dep _ _ st.2.main _ _ _ _ hc).1]
  exact ⟨rfl, rfl, rfl⟩

/-- … and entered empty, the charge-sustaining record's `edgeEnergy` goes to `energy_liquid`,
`energy_electric` is untouched. -/
theorem edge_energy_phev_liquid_partial (svc : Service α) (eng : SpeedEngine α) (sus dep : PredRecord α)
    (b : Battery α) (fu : FeatureUnits) (e : Edge α) (st st' : VState α × Caches K α) (speed grade : α)
    (h : traverseEdge svc eng (.phev sus dep b) fu e st = .ok st')
    (hs : eng.speedTable[e.id]? = some speed) (hg : getGrade svc.gradeTable e.id = .ok grade)
    (hc : CacheFine sus svc.timeModelSpeedUnit svc.gradeUnit st.2.sustain) (hcap : b.capacity ≠ 0)
    (hsoc : st.1.soc ≤ 0) :
    st'.1.electric = st.1.electric
      ∧ st'.1.liquid = st.1.liquid
          + sus.rateUnit.associatedEnergyUnit.convert fu.liquid (edgeEnergy svc eng fu sus e speed grade) := by
  obtain ⟨s1, hl, hel, hs1, rfl⟩ := traverseEdge_inputs h hs hg
  have := phev_switch_liquid sus dep b fu st.2
    (speed * (recK eng.speedUnit eng.distanceUnit eng.timeUnit fu.time svc.timeModelSpeedUnit : α))
    svc.timeModelSpeedUnit grade svc.gradeUnit (baseDistanceUnit.convert svc.distanceUnit e.distance)
    svc.distanceUnit s1 hcap (by rw [hs1]; exact hsoc)
  obtain ⟨p1, p2, _⟩ := this
  rw [p1, p2, hl, hel, (predict_fine sus _ _ st.2.sustain _ _ _ _ hc).1]
  exact ⟨rfl, rfl⟩

/-- the energies (`energy_liquid`, `energy_electric`), in the units of the state features, that
`consume_energy` draws for one edge: the prediction converted from the rate's energy unit -/
def draw (v : Vehicle α) (fu : FeatureUnits) (c : Caches K α)
    (speed : α) (su : SpeedUnit) (grade : α) (gu : GradeUnit) (d : α) (du : DistanceUnit) (s : VState α) : α × α :=
  match v with
  | .ice r => (r.rateUnit.associatedEnergyUnit.convert fu.liquid (r.predict c.main speed su grade gu d du).1.1, 0)
  | .bev r _ => (0, r.rateUnit.associatedEnergyUnit.convert fu.electric (r.predict c.main speed su grade gu d du).1.1)
  | .phev sus dep _ =>
    if 0 < s.soc then
      (0, dep.rateUnit.associatedEnergyUnit.convert fu.electric (dep.predict c.main speed su grade gu d du).1.1)
    else
      (sus.rateUnit.associatedEnergyUnit.convert fu.liquid (sus.predict c.sustain speed su grade gu d du).1.1, 0)

/-- every vehicle, any cache, any units: the accumulators grow by exactly the edge's draw -/
theorem consume_adds (v : Vehicle α) (fu : FeatureUnits) (c : Caches K α)
    (speed : α) (su : SpeedUnit) (grade : α) (gu : GradeUnit) (d : α) (du : DistanceUnit) (s : VState α) :
    (v.consumeEnergy fu c speed su grade gu d du s).1.liquid
        = s.liquid + (draw v fu c speed su grade gu d du s).1
      ∧ (v.consumeEnergy fu c speed su grade gu d du s).1.electric
        = s.electric + (draw v fu c speed su grade gu d du s).2 := by
  cases v with
  | ice r => simp [Vehicle.consumeEnergy, iceApply, draw]
  | bev r b => simp [Vehicle.consumeEnergy, bevApply, draw]
  | phev sus dep b =>
    by_cases hsoc : 0 < s.soc
    · have hz : (zero : α) < s.soc := by rw [zero_eq]; exact hsoc
      simp [Vehicle.consumeEnergy, phevApply, draw, hsoc, hz, EnergyUnit.convert, Factor.apply_eq]
    · have hz : ¬ (zero : α) < s.soc := by rw [zero_eq]; exact hsoc
      simp [Vehicle.consumeEnergy, phevApply, draw, hsoc, hz, EnergyUnit.convert, Factor.apply_eq]

/-- the draws along a route, edge by edge, as the run produces them -/
def routeDraws (svc : Service α) (eng : SpeedEngine α) (v : Vehicle α) (fu : FeatureUnits) :
    List (Edge α) → VState α × Caches K α → List (α × α)
  | [], _ => []
  | e :: es, st =>
    match eng.traverse fu e st.1, getGrade svc.gradeTable e.id, traverseEdge svc eng v fu e st with
    | .ok s1, .ok grade, .ok st' =>
      draw v fu st.2 (reconstructSpeed svc fu e st.1 s1) svc.timeModelSpeedUnit grade svc.gradeUnit
          (baseDistanceUnit.convert svc.distanceUnit e.distance) svc.distanceUnit s1
        :: routeDraws svc eng v fu es st'
    | _, _, _ => []

/-- C08 `energy_additive`.  What this says and what it does not: `routeDraws` lists, by replaying the
run, what `consume_energy` drew on each edge (each draw is characterised independently of the run by
`consume_adds` and, in closed form, by `edge_energy_*_partial`); the theorem is the accumulation —
nothing but these draws ever enters the accumulators, in particular the time model and the charge
update leave them alone, and nothing is lost or counted twice over any number of edges.
For every vehicle, edge sequence, cache and unit configuration, the
accumulated `energy_liquid` / `energy_electric` after the route are the starting values plus the sum
of the per-edge draws (each the edge's predicted energy converted from the rate's energy unit to
the feature's unit), one draw per edge. -/
theorem energy_additive (svc : Service α) (eng : SpeedEngine α) (v : Vehicle α) (fu : FeatureUnits)
    (edges : List (Edge α)) (st st' : VState α × Caches K α)
    (h : traverseRoute svc eng v fu edges st = .ok st') :
    st'.1.liquid = st.1.liquid + ((routeDraws svc eng v fu edges st).map Prod.fst).sum
      ∧ st'.1.electric = st.1.electric + ((routeDraws svc eng v fu edges st).map Prod.snd).sum
      ∧ (routeDraws svc eng v fu edges st).length = edges.length := by
  induction edges generalizing st with
  | nil => simp only [traverseRoute] at h; cases h; simp [routeDraws]
  | cons e es ih =>
    simp only [traverseRoute] at h
    split at h
    · cases h
    · rename_i st1 h1
      obtain ⟨s1, grade, ht, hg, hst1⟩ := traverseEdge_ok h1
      obtain ⟨_, hl, hel⟩ := traverse_soc ht
      obtain ⟨i1, i2, i3⟩ := ih st1 h
      have hd : routeDraws svc eng v fu (e :: es) st
          = draw v fu st.2 (reconstructSpeed svc fu e st.1 s1) svc.timeModelSpeedUnit grade svc.gradeUnit
              (baseDistanceUnit.convert svc.distanceUnit e.distance) svc.distanceUnit s1
            :: routeDraws svc eng v fu es st1 := by
        simp only [routeDraws, ht, hg, h1]
      obtain ⟨c1, c2⟩ := consume_adds v fu st.2 (reconstructSpeed svc fu e st.1 s1) svc.timeModelSpeedUnit
        grade svc.gradeUnit (baseDistanceUnit.convert svc.distanceUnit e.distance) svc.distanceUnit s1
      have c1' := c1; have c2' := c2
      rw [← hst1] at c1' c2'
      refine ⟨?_, ?_, ?_⟩
      · rw [hd, i1, c1', hl]; simp only [List.map_cons, List.sum_cons]; ring
      · rw [hd, i2, c2', hel]; simp only [List.map_cons, List.sum_cons]; ring
      · rw [hd]; simp only [List.length_cons, i3]

/-! ## Caches along a route -/

/-- the caches of a vehicle are fine for the units the traversal model predicts with -/
def CachesFine (v : Vehicle α) (su : SpeedUnit) (gu : GradeUnit) (c : Caches K α) : Prop :=
  match v with
  | .ice r => CacheFine r su gu c.main
  | .bev r _ => CacheFine r su gu c.main
  | .phev sus dep _ => CacheFine dep su gu c.main ∧ CacheFine sus su gu c.sustain

def noCaches : Caches K α := { main := none, sustain := none }

theorem cacheInUse_noCaches (v : Vehicle α) (s : VState α) :
    cacheAccepts (v.cacheInUse (noCaches : Caches K α) s) = true := by
  cases v with
  | ice r => rfl
  | bev r b => rfl
  | phev sus dep b => simp only [Vehicle.cacheInUse, noCaches]; split <;> rfl

/-- C08 (cache policy of the wrong length): a record whose `float_cache_policy` does not have one
`key_precisions` entry per model input (speed, grade) never serves an edge — the traversal fails
with a cache error instead of keying the cache on a truncated key.  (Before /repo fix 428ce00 `zip`
silently dropped inputs: with `key_precisions = [2]` the grade was not part of the key; the old
counterexample is now `cache_key_length_regression`.  The vehicle builders reject such a policy
when the configuration is read: `cachesConfigOk`.) -/
theorem cache_key_length_rejected (svc : Service α) (eng : SpeedEngine α) (v : Vehicle α) (fu : FeatureUnits)
    (e : Edge α) (st st' : VState α × Caches K α)
    (h : ∀ s, cacheAccepts (v.cacheInUse st.2 s) = false) :
    traverseEdge svc eng v fu e st ≠ .ok st' := by
  intro h'
  simp only [traverseEdge] at h'
  split at h'
  · cases h'
  · split at h'
    · cases h'
    · split at h'
      · rename_i hc; rw [h] at hc; cases hc
      · cases h'

theorem consume_cache_irrelevant (v : Vehicle α) (fu : FeatureUnits) (c : Caches K α)
    (speed : α) (su : SpeedUnit) (grade : α) (gu : GradeUnit) (d : α) (du : DistanceUnit) (s : VState α)
    (hc : CachesFine v su gu c) :
    (v.consumeEnergy fu c speed su grade gu d du s).1
        = (v.consumeEnergy fu (noCaches : Caches K α) speed su grade gu d du s).1
      ∧ CachesFine v su gu (v.consumeEnergy fu c speed su grade gu d du s).2 := by
  cases v with
  | ice r =>
    obtain ⟨h1, h2⟩ := predict_fine r su gu c.main speed grade d du hc
    simp only [Vehicle.consumeEnergy, noCaches, CachesFine]
    exact ⟨by rw [h1], h2⟩
  | bev r b =>
    obtain ⟨h1, h2⟩ := predict_fine r su gu c.main speed grade d du hc
    simp only [Vehicle.consumeEnergy, noCaches, CachesFine]
    exact ⟨by rw [h1], h2⟩
  | phev sus dep b =>
    obtain ⟨hm, hsus⟩ := hc
    obtain ⟨h1, h2⟩ := predict_fine dep su gu c.main speed grade d du hm
    obtain ⟨h3, h4⟩ := predict_fine sus su gu c.sustain speed grade d du hsus
    simp only [Vehicle.consumeEnergy, noCaches, CachesFine]
    split
    · exact ⟨by rw [h1], h2, hsus⟩
    · exact ⟨by rw [h3], hm, h4⟩

/-- C08 (with and without the prediction cache): when every cache is sound and its key determines
the prediction (e.g. an exact key, starting empty), a route produces exactly the states it produces
without any cache — every edge sequence, every capacity / eviction history. -/
theorem route_cache_irrelevant (svc : Service α) (eng : SpeedEngine α) (v : Vehicle α) (fu : FeatureUnits)
    (edges : List (Edge α)) (s : VState α) (c : Caches K α) (st' : VState α × Caches K α)
    (hc : CachesFine v svc.timeModelSpeedUnit svc.gradeUnit c)
    (h : traverseRoute svc eng v fu edges (s, c) = .ok st') :
    ∃ c', traverseRoute svc eng v fu edges (s, (noCaches : Caches K α)) = .ok (st'.1, c') := by
  induction edges generalizing s c with
  | nil => simp only [traverseRoute] at h ⊢; cases h; exact ⟨_, rfl⟩
  | cons e es ih =>
    simp only [traverseRoute] at h ⊢
    split at h
    · cases h
    · rename_i st1 h1
      obtain ⟨s1, grade, ht, hg, hst1⟩ := traverseEdge_ok h1
      obtain ⟨e1, e2⟩ := consume_cache_irrelevant v fu c (reconstructSpeed svc fu e s s1)
        svc.timeModelSpeedUnit grade svc.gradeUnit (baseDistanceUnit.convert svc.distanceUnit e.distance)
        svc.distanceUnit s1 hc
      have hno : traverseEdge svc eng v fu e (s, (noCaches : Caches K α))
          = .ok (v.consumeEnergy fu (noCaches : Caches K α) (reconstructSpeed svc fu e s s1)
              svc.timeModelSpeedUnit grade svc.gradeUnit
              (baseDistanceUnit.convert svc.distanceUnit e.distance) svc.distanceUnit s1) := by
        simp only [traverseEdge, ht, hg, cacheInUse_noCaches, if_true]
      rw [hno]
      simp only
      have hcn : (v.consumeEnergy fu (noCaches : Caches K α) (reconstructSpeed svc fu e s s1)
              svc.timeModelSpeedUnit grade svc.gradeUnit
              (baseDistanceUnit.convert svc.distanceUnit e.distance) svc.distanceUnit s1).2
            = (noCaches : Caches K α) := by
        cases v with
        | ice r => rfl
        | bev r b => rfl
        | phev sus dep b => simp only [Vehicle.consumeEnergy, noCaches]; split <;> rfl
      have hst : st1 = (st1.1, st1.2) := rfl
      rw [hst, hst1] at h
      rw [← hst1] at e1 e2
      have := ih st1.1 st1.2 e2 (by rw [hst1]; exact h)
      obtain ⟨c', hc'⟩ := this
      refine ⟨c', ?_⟩
      rw [← hc']
      congr 1
      exact Prod.ext e1.symm hcn

/-! ## Configuration: what the builders put in force, and which vehicle a query gets -/

/-- the library behaves like the `HashMap` it is: the last vehicle configured under a name wins … -/
theorem libraryGet_append_hit {β : Type} (l : List (Nat × β)) (id : Nat) (v : β) :
    libraryGet (l ++ [(id, v)]) id = some v := by
  simp [libraryGet, List.foldl_append]

/-- … and vehicles of other names do not matter -/
theorem libraryGet_append_miss {β : Type} (l1 l2 : List (Nat × β)) (id : Nat)
    (h : ∀ p ∈ l2, p.1 ≠ id) : libraryGet (l1 ++ l2) id = libraryGet l1 id := by
  induction l2 generalizing l1 with
  | nil => simp
  | cons p r ih =>
    have hp : p.1 ≠ id := h p List.mem_cons_self
    have hr : ∀ q ∈ r, q.1 ≠ id := fun q hq => h q (List.mem_cons_of_mem _ hq)
    have e : l1 ++ p :: r = (l1 ++ [p]) ++ r := by simp
    rw [e, ih (l1 ++ [p]) hr]
    simp [libraryGet, List.foldl_append, hp]

/-- C08 (vehicle selection): a query whose `model_name` is missing, is not a string, or names no
vehicle of the library gets a build error — never some other vehicle … -/
theorem select_rejected (lib : List (Nat × Vehicle α)) (q : SocQuery α) :
    selectVehicle lib .absent q = .error .build ∧ selectVehicle lib .nonString q = .error .build
      ∧ ∀ id, libraryGet lib id = none → selectVehicle lib (.name id) q = .error .build := by
  refine ⟨rfl, rfl, ?_⟩
  intro id h
  simp [selectVehicle, h]

/-- … and a query that names a configured vehicle gets exactly that vehicle, updated from the query
(so every theorem above applies to it with the configured capacity, unit, rates and adjustment) -/
theorem select_named (lib : List (Nat × Vehicle α)) (q : SocQuery α) (id : Nat) (v : Vehicle α)
    (h : libraryGet lib id = some v) : selectVehicle lib (.name id) q = v.updateFromQuery q := by
  simp [selectVehicle, h]

/-- a configured `ideal_energy_rate` and `real_world_energy_adjustment` are the ones in force; a
missing adjustment is 1 -/
theorem record_of_config (rate : α → α → α) (su : SpeedUnit) (gu : GradeUnit) (ru : EnergyRateUnit)
    (sweep : List α) (x a : α) (io ao : Option α) :
    (PredRecord.ofConfig rate su gu ru (some x) sweep ao).idealRate = x
      ∧ (PredRecord.ofConfig rate su gu ru io sweep (some a)).adjustment = a
      ∧ (PredRecord.ofConfig rate su gu ru io sweep none).adjustment = 1
      ∧ (PredRecord.ofConfig rate su gu ru none sweep ao).idealRate = findMinEnergyRate sweep := by
  refine ⟨rfl, rfl, ?_, rfl⟩
  simp [PredRecord.ofConfig]

/-- the swept ideal rate is a lower bound of every swept prediction -/
theorem findMinEnergyRate_le (sweep : List α) : ∀ r ∈ sweep, findMinEnergyRate sweep ≤ r := by
  have key : ∀ (l : List α) (m : α),
      l.foldl (fun m r => if r < m then r else m) m ≤ m ∧
        ∀ r ∈ l, l.foldl (fun m r => if r < m then r else m) m ≤ r := by
    intro l
    induction l with
    | nil => intro m; exact ⟨le_refl _, by simp⟩
    | cons a t ih =>
      intro m
      simp only [List.foldl_cons]
      by_cases ham : a < m
      · rw [if_pos ham]
        obtain ⟨h1, h2⟩ := ih a
        refine ⟨le_trans h1 (le_of_lt ham), ?_⟩
        intro r hr
        rcases List.mem_cons.mp hr with rfl | hr
        · exact h1
        · exact h2 r hr
      · rw [if_neg ham]
        obtain ⟨h1, h2⟩ := ih m
        refine ⟨h1, ?_⟩
        intro r hr
        rcases List.mem_cons.mp hr with rfl | hr
        · exact le_trans h1 (not_lt.mp ham)
        · exact h2 r hr
  intro r hr
  exact (key sweep f64Max).2 r hr

/-- C08 (builder, accepted; by construction of the model — `Battery.ofConfig`'s `if` read back, tied to the
code by the builder stream): a battery the vehicle builders accept has the configured capacity — a
positive one —, the configured unit, and starts full … -/
theorem battery_capacity_positive (cap : α) (u : EnergyUnit) (b : Battery α)
    (h : Battery.ofConfig cap u = .ok b) :
    0 < b.capacity ∧ b.capacity = cap ∧ b.unit = u ∧ b.startEnergy = cap := by
  simp only [Battery.ofConfig, zero_eq] at h
  split at h
  · rename_i hpos; cases h; exact ⟨hpos, rfl, rfl, rfl⟩
  · cases h

/-- … and (builder, rejected) a `battery_capacity` that is not positive is a configuration error -/
theorem battery_capacity_rejected (cap : α) (u : EnergyUnit) (h : ¬ 0 < cap) :
    Battery.ofConfig cap u = .error .build := by
  simp [Battery.ofConfig, h]

/-- a configured battery vehicle starts full (before any query), so `bev_soc_step` etc. read
`-100 · E[configured unit] / configured capacity` with a positive capacity -/
theorem battery_of_config (cap : α) (u : EnergyUnit) (b : Battery α) (h : Battery.ofConfig cap u = .ok b)
    (r sus dep : PredRecord α) :
    (Vehicle.bev r b).initialState.soc = 100 ∧ (Vehicle.phev sus dep b).initialState.soc = 100
      ∧ CapacityPos (Vehicle.bev r b) ∧ CapacityPos (Vehicle.phev sus dep b) := by
  obtain ⟨hpos, hc, _, hs⟩ := battery_capacity_positive cap u b h
  have e : asSocPercent b.startEnergy b.capacity = (100 : α) := by
    rw [hs, hc]
    simp only [asSocPercent, hundred_eq, zero_eq, div_self (hc ▸ hpos).ne', one_mul]
    exact clamp_of_mem (by norm_num) (le_refl _)
  exact ⟨e, e, hpos, hpos⟩

/-- C08 `soc_bounds`, end to end for a configured battery vehicle: the battery comes from the builder
(hence a positive capacity, taken from `battery_capacity_positive`, not from an artefact of
division), the query is accepted by `update_from_query`, and after any route from the initial state
the charge is within 0–100 — and the capacity in force is still the configured positive one.
Excluded, and not a theorem: a `state_features` override that starts `battery_state` outside 0–100 — the run
then starts from that value, not from `initialState`, and with the empty route the bound fails (the harness
lists it; the property speaks of the configured starting charge). -/
theorem soc_bounds_configured (svc : Service α) (eng : SpeedEngine α) (fu : FeatureUnits)
    (edges : List (Edge α)) (c : Caches K α) (st' : VState α × Caches K α)
    (cap : α) (u : EnergyUnit) (b : Battery α) (v v' : Vehicle α) (q : SocQuery α)
    (hb : Battery.ofConfig cap u = .ok b)
    (hv : (∃ r, v = .bev r b) ∨ (∃ sus dep, v = .phev sus dep b))
    (hq : v.updateFromQuery q = .ok v')
    (h : traverseRoute svc eng v' fu edges (v'.initialState, c) = .ok st') :
    (0 ≤ st'.1.soc ∧ st'.1.soc ≤ 100) ∧ CapacityPos v' := by
  have hpos := (battery_capacity_positive cap u b hb).1
  have hcv : CapacityPos v := by
    rcases hv with ⟨r, rfl⟩ | ⟨sus, dep, rfl⟩ <;> exact hpos
  have hcv' := updateFromQuery_capacityPos hq hcv
  exact ⟨soc_bounds_from_start svc eng v' fu edges c st' hcv' h, hcv'⟩

/-- units left out of the configuration default to the base units; the service's speed unit is the
time model's -/
theorem config_defaults (rows : List (Row α)) (su : SpeedUnit) (eng : SpeedEngine α) (m : α)
    (h : SpeedEngine.ofConfig rows su none none = .ok (eng, m)) (gt : Option (List α)) (gu : GradeUnit) :
    eng.distanceUnit = baseDistanceUnit ∧ eng.timeUnit = baseTimeUnit ∧ eng.speedUnit = su
      ∧ (Service.ofConfig su gt gu none).distanceUnit = baseDistanceUnit
      ∧ (Service.ofConfig su gt gu none).timeModelSpeedUnit = su := by
  simp only [SpeedEngine.ofConfig] at h
  split at h
  · cases h
  · split at h
    · cases h
    · cases h; exact ⟨rfl, rfl, rfl, rfl, rfl⟩

/-- a speed table with a negative row or a NaN row does not build (an infinite speed does) … -/
theorem bad_speed_row_rejected (rows : List (Row α)) (su : SpeedUnit) (du : Option DistanceUnit)
    (tu : Option TimeUnit) (h : Row.nan ∈ rows ∨ ∃ x, Row.val x ∈ rows ∧ x < 0) :
    SpeedEngine.ofConfig rows su du tu = .error .build := by
  have : rows.any Row.badSpeed = true := by
    rw [List.any_eq_true]
    rcases h with h | ⟨x, hx, hneg⟩
    · exact ⟨_, h, rfl⟩
    · exact ⟨_, hx, by simpa [Row.badSpeed] using hneg⟩
  simp only [SpeedEngine.ofConfig, loadSpeedTable, this, if_true]

/-- … and neither does a grade table with a row that is not a finite number (NaN, ±inf): such a
grade would turn into a NaN energy and a NaN charge (repaired in /repo: `Grade::from_str`) -/
theorem bad_grade_row_rejected (rows : List (Row α)) (h : Row.nan ∈ rows) :
    loadGradeTable (some rows) = .error .build := by
  have : rows.any Row.isNan = true := by
    rw [List.any_eq_true]; exact ⟨_, h, rfl⟩
  simp only [loadGradeTable, this, if_true]

end

/-! ## Where the code leaves the property: machine-checked witnesses (over ℚ) -/

/-- a prediction model that rises with speed and grade and is negative on a steep downhill -/
def cxRec : PredRecord ℚ :=
  { rate := fun s g => 1 / 5 + s / 1000 + 3 * g, speedUnit := .milesPerHour, gradeUnit := .decimal,
    rateUnit := .kilowattHoursPerMile, idealRate := 1 / 5, adjustment := 1 }

/-- `key_precisions = [2]`: one precision for two inputs (`zip` would drop the grade and key on the
speed rounded to 0.01) -/
def cxCache : Cache Int ℚ :=
  { capacity := 100, keyOf := fun s _ => Rat.floor (s * 100 + 1 / 2), entries := [], arityOk := false }

/-- Regression witness of the repaired defect `predict/cache-key-length`: the one-precision policy is
refused — by `FloatCachePolicy::get` on the first prediction and by the vehicle builders when the
configuration is read — so an uphill edge can no longer be charged the cached flat rate. -/
theorem cache_key_length_regression :
    cacheAccepts (some cxCache) = false
      ∧ cachesConfigOk ({ main := some cxCache, sustain := none } : Caches Int ℚ) = false := by
  decide

/-- `key_precisions = [0, 0]`: both inputs are in the key, rounded to integers -/
def cxCache0 : Cache (Int × Int) ℚ :=
  { capacity := 100, keyOf := fun s g => (Rat.floor (s + 1 / 2), Rat.floor (g + 1 / 2)), entries := [] }

/-- What remains of the cache finding (`predict/cache-rounding-collision`, the documented trade-off of
a rounding cache): with a well-formed but coarse policy two different speeds share a key — 30.4 mph
is charged the rate of 30.0 mph; the deviation is bounded by the key precision. -/
theorem cache_rounding_counterexample :
    (cxRec.predict (cxRec.predict (some cxCache0) 30 .milesPerHour 0 .decimal 1 .miles).2
        (152 / 5) .milesPerHour 0 .decimal 1 .miles).1
      ≠ (cxRec.predict (none : Option (Cache (Int × Int) ℚ)) (152 / 5) .milesPerHour 0 .decimal 1 .miles).1 := by
  decide +kernel

/-- a BEV whose battery capacity is configured in gallons of gasoline while its rate is in kWh per mile -/
def cxMixedBev : Vehicle ℚ := .bev cxRec { capacity := 2, startEnergy := 1, unit := .gallonsGasoline }
def exBevCx : Vehicle ℚ := .bev cxRec { capacity := 60, startEnergy := 60, unit := .kilowattHours }
def cxMixedUnits : FeatureUnits :=
  { time := .hours, distance := .miles, liquid := .gallonsGasoline, electric := .gallonsGasoline }

/-- Regression witness of the repaired defect `best_case_energy_state/unit-mix`: the best-case energy
of 10 miles is 2 kWh = 0.062 gallons; `best_case_energy_state` records 0.062 gallons and moves the
half-full 2-gallon battery to 46.9 % (before the fix: 2 *gallons* recorded, battery emptied). -/
theorem best_case_state_unit_mix_regression :
    (cxMixedBev.bestCaseEnergyState cxMixedUnits 10 .miles cxMixedBev.initialState).electric
        = cxMixedBev.initialState.electric
            + EnergyUnit.kilowattHours.convert .gallonsGasoline (cxMixedBev.bestCaseEnergy 10 .miles).1
      ∧ (cxMixedBev.bestCaseEnergyState cxMixedUnits 10 .miles cxMixedBev.initialState).soc
        = clamp (cxMixedBev.initialState.soc
            - 100 * EnergyUnit.kilowattHours.convert .gallonsGasoline (cxMixedBev.bestCaseEnergy 10 .miles).1 / 2)
            0 100
      ∧ 0 < (cxMixedBev.bestCaseEnergyState cxMixedUnits 10 .miles cxMixedBev.initialState).soc := by
  decide +kernel

/-- Why the charge theorems assume a positive capacity: in exact arithmetic a zero capacity gives a
charge of 0 (`0 / 0 = 0` in a field), within bounds, whereas the code computes
`(0.0 / 0.0) * 100 = NaN` and `NaN.clamp(0, 100) = NaN` — reproduced on the real code through the
vehicle builders before /repo fix f2c4b1e (oracle key `builder/battery-capacity-invalid`:
`battery_capacity = 0` built, initial charge NaN, NaN after every edge; `battery_capacity = -5`
built, consumption raised the charge). -/
theorem soc_capacity_zero_artefact : asSocPercent (0 : ℚ) 0 = 0 := by decide +kernel

/-- Regression witness of the repaired defect `builder/battery-capacity-invalid`: the builders refuse
a zero and a negative capacity, and accept 60 kWh. -/
theorem battery_capacity_regression :
    Battery.ofConfig (0 : ℚ) .kilowattHours = .error .build
      ∧ Battery.ofConfig (-5 : ℚ) .kilowattHours = .error .build
      ∧ (∃ b, Battery.ofConfig (60 : ℚ) .kilowattHours = .ok b ∧ b.capacity = 60) := by
  refine ⟨battery_capacity_rejected _ _ (by norm_num), battery_capacity_rejected _ _ (by norm_num), ?_⟩
  refine ⟨Battery.unchecked 60 .kilowattHours, ?_, rfl⟩
  simp only [Battery.ofConfig, zero_eq]
  rw [if_pos (by norm_num)]; rfl

/-
Full statement of `soc_start` / `soc_rejected` / `soc_bounds` over *every* way a query can set the
starting charge: besides `starting_soc_percent` (range-checked by `update_from_query`, theorems
`soc_rejected`, `soc_start`) the query's `state_features` section may replace the `battery_state`
feature, and its initial value is taken as is.  The theorems above therefore carry the hypothesis
"the route starts from `initialState`" (or `0 ≤ soc ≤ 100` at the start); without it:
-/
/-- Defect witness (`state_features/soc-unchecked`): a query with `starting_soc_percent = 50` and a
`state_features.battery_state` whose initial value is 250 is accepted and the route starts at 250 %. -/
theorem state_features_soc_counterexample :
    (match exBevCx.updateFromQuery (.num 50) with
      | .ok v' => decide ((v'.initialStateWith (some 250)).soc = 250 ∧ ¬ (v'.initialStateWith (some 250)).soc ≤ 100)
      | .error _ => false) = true := by
  decide +kernel

/-! ## Non-vacuity: a concrete world in which the hypotheses hold and every branch is taken -/

def exSvc : Service ℚ :=
  { timeModelSpeedUnit := .kilometersPerHour, gradeTable := some [0, 1 / 20, -1 / 5], gradeUnit := .decimal,
    distanceUnit := .miles }
def exEng : SpeedEngine ℚ :=
  { speedTable := [50, 60, 80], speedUnit := .kilometersPerHour, distanceUnit := .kilometers, timeUnit := .minutes }
def exRoute : List (Edge ℚ) := [⟨0, 2000⟩, ⟨1, 3000⟩, ⟨2, 5000⟩, ⟨2, 5000⟩]
def exNoCache : Caches Int ℚ := { main := none, sustain := none }
def exBev (cap : ℚ) : Vehicle ℚ := .bev cxRec { capacity := cap, startEnergy := cap, unit := .kilowattHours }
def exLiquid : PredRecord ℚ :=
  { cxRec with rate := fun s g => 1 / 40 + s / 10000 + g / 4, rateUnit := .gallonsGasolinePerMile, idealRate := 1 / 50 }
def exPhev (cap : ℚ) : Vehicle ℚ := .phev exLiquid cxRec { capacity := cap, startEnergy := cap, unit := .kilowattHours }
def exUnits (v : Vehicle ℚ) : FeatureUnits := v.featureUnits .minutes .kilometers

def socAfter (v : Vehicle ℚ) (q : ℚ) (edges : List (Edge ℚ)) : Option (VState ℚ) :=
  match v.updateFromQuery (.num q) with
  | .error _ => none
  | .ok v' =>
    match traverseRoute exSvc exEng v' (exUnits v') edges (v'.initialState, exNoCache) with
    | .error _ => none
    | .ok st => some st.1

-- the route is accepted; after two edges the charge is strictly inside (0,100) (unclamped steps),
-- the steep downhill edges give negative energy (the accumulated energy falls) and a small battery
-- is regenerated up to the clamp at 100
example : ((socAfter (exBev 60) 50 (exRoute.take 2)).map fun s => decide (0 < s.soc ∧ s.soc < 50)) = some true := by
  decide +kernel
example : ((socAfter (exBev 60) 50 exRoute).bind fun s =>
    (socAfter (exBev 60) 50 (exRoute.take 2)).map fun s2 => decide (s.electric < s2.electric ∧ s2.soc < s.soc))
      = some true := by
  decide +kernel
example : ((socAfter (exBev (1 / 10)) 99 exRoute).map fun s => decide (s.soc = 100)) = some true := by
  decide +kernel
-- a tiny battery is emptied by the first edges (clamp at 0)
example : ((socAfter (exBev (1 / 100)) 50 (exRoute.take 2)).map fun s => decide (s.soc = 0)) = some true := by
  decide +kernel
-- PHEV: electricity first, then liquid fuel once empty, and it stays empty downhill
example : ((socAfter (exPhev (1 / 10)) 50 (exRoute.take 1)).map fun s =>
    decide (s.liquid = 0 ∧ 0 < s.electric ∧ s.soc = 0)) = some true := by
  decide +kernel
example : ((socAfter (exPhev (1 / 10)) 50 (exRoute.take 2)).map fun s => decide (0 < s.liquid ∧ s.soc = 0)) = some true := by
  decide +kernel
example : ((socAfter (exPhev (1 / 10)) 50 exRoute).map fun s => decide (s.soc = 0)) = some true := by
  decide +kernel
-- starting charge: accepted inside, rejected outside, and it is where the route starts
example : ((socAfter (exBev 60) 50 []).map fun s => decide (s.soc = 50)) = some true := by decide +kernel
example : socAfter (exBev 60) 101 [] = none ∧ socAfter (exPhev 12) (-1 / 1000) [] = none := by
  constructor <;> decide +kernel
-- the best case is the ideal rate × distance
example : (exBev 60).bestCaseEnergy 10 .miles = (2, .kilowattHours) := by decide +kernel

-- `soc_bounds_configured` applies to a realistic configuration: a 60 kWh battery accepted by the builder,
-- a query starting at 50 %, the four-edge route above — every hypothesis instantiated
example : ∃ b v', Battery.ofConfig (60 : ℚ) .kilowattHours = .ok b
    ∧ (Vehicle.bev cxRec b).updateFromQuery (.num 50) = .ok v'
    ∧ (∃ st', traverseRoute exSvc exEng v' (exUnits v') exRoute (v'.initialState, exNoCache) = .ok st')
    ∧ ∀ st', traverseRoute exSvc exEng v' (exUnits v') exRoute (v'.initialState, exNoCache) = .ok st' →
        (0 ≤ st'.1.soc ∧ st'.1.soc ≤ 100) ∧ CapacityPos v' := by
  have hb : Battery.ofConfig (60 : ℚ) .kilowattHours = .ok (Battery.unchecked 60 .kilowattHours) := by
    simp only [Battery.ofConfig, zero_eq]; rw [if_pos (by norm_num)]; rfl
  have hq : (Vehicle.bev cxRec (Battery.unchecked (60 : ℚ) .kilowattHours)).updateFromQuery (.num 50)
      = .ok (Vehicle.bev cxRec { capacity := 60, startEnergy := Lit.lit 1 100 * 50 * 60, unit := .kilowattHours }) := by
    simp only [Vehicle.updateFromQuery, Battery.withStartSoc, zero_eq, hundred_eq, Battery.unchecked]
    rw [if_pos (by norm_num)]
  refine ⟨_, _, hb, hq, ?_, ?_⟩
  · have : (match traverseRoute exSvc exEng
        (Vehicle.bev cxRec { capacity := 60, startEnergy := Lit.lit 1 100 * 50 * 60, unit := .kilowattHours })
        (exUnits (Vehicle.bev cxRec { capacity := 60, startEnergy := Lit.lit 1 100 * 50 * 60, unit := .kilowattHours }))
        exRoute ((Vehicle.bev cxRec { capacity := 60, startEnergy := Lit.lit 1 100 * 50 * 60, unit := .kilowattHours }).initialState, exNoCache) with
        | .ok _ => true | .error _ => false) = true := by decide +kernel
    split at this
    · exact ⟨_, ‹_›⟩
    · cases this
  · intro st' h
    exact soc_bounds_configured exSvc exEng _ exRoute exNoCache st' 60 .kilowattHours _ _ _ (.num 50) hb
      (Or.inl ⟨cxRec, rfl⟩) hq h

end C08
end Compass

namespace Compass
namespace C08
open Src

/-! ### Source decision ties

The relational operators at the named comparison sites of the Rust source are re-extracted on every run
by `tools/gen_model.py` into `Compass/Gen/Decisions.lean` (`Src.<site> : Src.Rel`).  Each theorem below
says that the hand-written model decides at that site by exactly the operator the source has there
(`Rel.nat` / `Rel.int` / `Rel.num` interpret the extracted operator; an unrecognised line is `none`).  A
source change that turns `<` into `<=`, `>` into `>=`, … at a site changes the generated constant and this
proof obligation stops checking, whether or not a generated case lands on the tie. -/

/-- A SYNTACTIC tie (as `C02.src_max_speed_fold`): a running minimum is the same under `<` and `<=`; the
statement with `.le` is also true, the proof script is what stops checking when the operator changes. -/
theorem src_energy_rate_floor {α : Type} [Field α] [LinearOrder α] [IsStrictOrderedRing α] [Lit α] [LawfulLit α] (sweep : List α) :
    Energy.findMinEnergyRate sweep =
      sweep.foldl (fun m r => if energy_rate_floor.num r m = some true then r else m) Energy.f64Max := by
  simp [Energy.findMinEnergyRate, energy_rate_floor, Rel.num]

theorem src_phev_battery_left {α : Type} [Field α] [LinearOrder α] [IsStrictOrderedRing α] [Lit α] [LawfulLit α] {K : Type} (sus dep : Energy.PredRecord α) (b : Energy.Battery α)
    (c : Energy.Caches K α) (s : Energy.VState α) :
    (Energy.Vehicle.phev sus dep b).cacheInUse c s =
      if phev_battery_left.num s.soc (zero : α) = some true then c.main else c.sustain := by
  simp [Energy.Vehicle.cacheInUse, phev_battery_left, Rel.num]


/-! ### Generated function bodies

`tools/gen_fns.py` re-translates the body of the Rust function on every run into `Compass/Gen/FnsC08.lean`
(conventions in the header of the tool).  Each `gen_*_eq` theorem below says that the generated definition
*is* the hand-written model function the property theorems are about.  A source change to the function
changes the generated definition and the proof stops checking (a body the translator no longer recognises is
not emitted: the theorem no longer elaborates). -/

/-- Both sides divide by `max` in the field (`x / 0 = 0`); the Rust function divides in `f64` (`±inf` / NaN for a
zero capacity, then clamped).  The equality therefore speaks for the code only for `max ≠ 0` — which the builders
guarantee (a non-positive battery capacity is a configuration error, fix f2c4b1e). -/
theorem gen_as_soc_percent_eq {α : Type} [Field α] [LinearOrder α] [IsStrictOrderedRing α] [Lit α] [LawfulLit α] (remaining max : α) :
    Gen.as_soc_percent remaining max = Energy.asSocPercent remaining max := rfl

/-- as `gen_as_soc_percent_eq`: meaningful for `max ≠ 0` -/
theorem gen_soc_from_battery_and_delta_eq {α : Type} [Field α] [LinearOrder α] [IsStrictOrderedRing α] [Lit α] [LawfulLit α] (start used max : α) :
    Gen.soc_from_battery_and_delta start used max = Energy.socFromBatteryAndDelta start used max := rfl

end C08
end Compass
