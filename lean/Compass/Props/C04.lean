/-
C04 — routes and trees never use an edge or turn the query is forbidden to use.

Per-model statements about the frontier models of `Model/Instance.lean` (road class, vehicle
restriction with unit conversion through the generated tables, turn restriction, edge cut, and
their combination).  (Tree / route level theorems are added from `Proofs/SearchRoute`.)
-/
import Compass.Proofs.Num
import Compass.Model.Instance
import Compass.Proofs.SearchRoute
import Compass.Proofs.SearchDiscipline

namespace Compass
namespace C04

variable {α : Type} [Field α] [LinearOrder α] [IsStrictOrderedRing α] [Lit α] [LawfulLit α]

/-- road classes: with an allowed set, an edge is usable exactly when its class is in the set;
an edge missing from the class table is an error, never "allowed" -/
theorem road_class_valid_iff (cls table : List Nat) (e : Nat) (prev : Option Nat) :
    (FrontierM.roadClass (α := α) (some cls) table).valid e prev = some true ↔
      ∃ c, table[e]? = some c ∧ c ∈ cls := by
  simp only [FrontierM.valid]
  cases h : table[e]? with
  | none => simp
  | some c => simp [List.contains_iff_mem]

theorem road_class_unfiltered (table : List Nat) (e : Nat) (prev : Option Nat) :
    (FrontierM.roadClass (α := α) none table).valid e prev = some true := rfl

/-- an edge cut by an alternative-route search is never usable -/
theorem no_cut_edge (cut : List Nat) (e : Nat) (prev : Option Nat) :
    (FrontierM.edgeCut (α := α) cut).valid e prev = some true ↔ e ∉ cut := by
  simp [FrontierM.valid, List.contains_iff_mem]

/-- turn restrictions: the pair (previous edge, edge) must not be listed; the first edge of a
search has no previous edge and is always usable -/
theorem turn_restriction_valid_iff (pairs : List (Nat × Nat)) (e p : Nat) :
    (FrontierM.turnRestriction (α := α) pairs).valid e (some p) = some true ↔ (p, e) ∉ pairs := by
  simp only [FrontierM.valid, Option.some.injEq, Bool.not_eq_true', List.any_eq_false]
  constructor
  · intro h hm
    have := h (p, e) hm
    simp at this
  · intro h q hq
    by_contra hc
    simp only [Bool.not_eq_false, Bool.and_eq_true, beq_iff_eq] at hc
    apply h
    have : q = (p, e) := Prod.ext hc.1 hc.2
    rw [← this]; exact hq

theorem turn_restriction_first_edge (pairs : List (Nat × Nat)) (e : Nat) :
    (FrontierM.turnRestriction (α := α) pairs).valid e none = some true := rfl

/-- vehicle restrictions compare after converting the vehicle's dimension to the restriction's
unit: total weight, weight per axle, and the four lengths -/
theorem vehicle_weight_valid_iff (p : VehicleParams α) (limit : α) (unit : WeightUnit) :
    (Restriction.weight false limit unit).valid p = true ↔
      p.totalWeight.2.convert unit p.totalWeight.1 ≤ limit := by
  simp [Restriction.valid]

theorem vehicle_weight_per_axle_valid_iff (p : VehicleParams α) (limit : α) (unit : WeightUnit) :
    (Restriction.weight true limit unit).valid p = true ↔
      p.totalWeight.2.convert unit p.totalWeight.1 / p.axles ≤ limit := by
  simp [Restriction.valid]

theorem vehicle_length_valid_iff (p : VehicleParams α) (limit : α) (unit : DistanceUnit) :
    ((Restriction.length 2 limit unit).valid p = true ↔ p.totalLength.2.convert unit p.totalLength.1 ≤ limit) ∧
    ((Restriction.length 3 limit unit).valid p = true ↔ p.width.2.convert unit p.width.1 ≤ limit) ∧
    ((Restriction.length 4 limit unit).valid p = true ↔ p.height.2.convert unit p.height.1 ≤ limit) ∧
    ((Restriction.length 5 limit unit).valid p = true ↔ p.trailerLength.2.convert unit p.trailerLength.1 ≤ limit) := by
  simp [Restriction.valid]

/-- an edge with restrictions is usable exactly when the vehicle meets every one of them; an edge
without a table row is unrestricted -/
theorem vehicle_model_valid_iff (table : List (Nat × List (Restriction α))) (p : VehicleParams α)
    (e : Nat) (prev : Option Nat) :
    (FrontierM.vehicle table p).valid e prev = some true ↔
      ∀ row, table.find? (fun r => r.1 == e) = some row → ∀ r ∈ row.2, r.valid p = true := by
  simp only [FrontierM.valid]
  cases h : table.find? (fun r => r.1 == e) with
  | none => simp
  | some row => simp [List.all_eq_true]

/-- combination: when no model errs, an edge is usable exactly when every model permits it -/
theorem combined_iff_all (ms : List (FrontierM α)) (e : Nat) (prev : Option Nat)
    (hne : ∀ m ∈ ms, m.valid e prev ≠ none) :
    frontierValid ms e prev = .ok true ↔ ∀ m ∈ ms, m.valid e prev = some true := by
  induction ms with
  | nil => simp [frontierValid]
  | cons m ms ih =>
    have hm := hne m (List.mem_cons_self ..)
    have ih' := ih (fun m' hm' => hne m' (List.mem_cons_of_mem _ hm'))
    simp only [frontierValid]
    cases hv : m.valid e prev with
    | none => exact absurd hv hm
    | some b =>
      cases b with
      | false => simp [hv]
      | true => simp [hv, ih']

/-- … and a single refusing model makes the edge unusable whatever the later models say -/
theorem combined_false_of_refusal (ms₁ ms₂ : List (FrontierM α)) (m : FrontierM α) (e : Nat)
    (prev : Option Nat) (h₁ : ∀ m' ∈ ms₁, m'.valid e prev = some true) (hm : m.valid e prev = some false) :
    frontierValid (ms₁ ++ m :: ms₂) e prev = .ok false := by
  induction ms₁ with
  | nil => simp [frontierValid, hm]
  | cons a as ih =>
    have ha := h₁ a (List.mem_cons_self ..)
    simp only [List.cons_append, frontierValid, ha]
    exact ih (fun m' hm' => h₁ m' (List.mem_cons_of_mem _ hm'))


/-! ### Search level: what the search keeps was submitted to, and accepted by, the frontier model -/

/-- Every entry of a returned tree (search with or without destination, any algorithm setting,
any schedule, forward or reverse) records an edge that the frontier model accepted for the state
and previous edge its parent carried when the entry was written, with the costs and state the
traversal returned.  No hypothesis on the instance. -/
theorem tree_edges_valid (I : Inst α) (source : Nat) (target : Option Nat) (sched : List Nat)
    (s : SState α) (h : runAStar I source target sched = .ok s) :
    ∀ v b, s.sol v = some b → ∃ (st : List α) (le : Option Nat),
      I.valid b.edge st le = .ok true ∧ I.trav b.edge le st = .ok (b.access, b.traversal, b.state) :=
  SearchRoute.runAStar_validInv I source target sched s h

/-- For restrictions that depend only on the edge (road classes, vehicle restrictions, edge cuts and
their combinations): no tree entry and no route edge is a forbidden edge. -/
theorem route_edges_permitted (I : Inst α) (ok : Nat → Bool)
    (hloc : ∀ e st le, I.valid e st le = .ok (ok e)) (source : Nat) (target : Option Nat)
    (sched : List Nat) (res : SearchResult α)
    (h : runVertexOriented I source target sched = .ok res) :
    (∀ v b, res.final.sol v = some b → ok b.edge = true) ∧
    (∀ route, res.route = some route → ∀ e ∈ route.map (·.edge), ok e = true) :=
  SearchRoute.route_edges_ok hloc h


open SearchDiscipline in
/-- Dijkstra, every configuration incl. turn restrictions and state-dependent models: every
consecutive pair of edges of the returned route was submitted to the frontier model as
(previous edge, edge) with the previous element's reported state, and accepted — so the route
contains no restricted turn and no edge refused for the state it was reached in.
(`_partial`: false of model and code for A* with an estimate inconsistent for the network, and at
the two seams of edge-oriented routes — see known_findings.txt.) -/
theorem dijkstra_route_turns_valid_partial (c : Config α) (hadj : c.AdjConsistent) (hwf : c.wf = some 0)
    {source t : Nat} {sched : List Nat} {res : SearchResult α} (hts : t ≠ source)
    (hrun : runVertexOriented c.inst source (some t) sched = .ok res) :
    ∃ route, res.route = some route ∧ route ≠ [] ∧
      (∀ b, route.head? = some b → c.inst.valid b.edge (initialState c.feats) none = .ok true) ∧
      ∀ i (hi : i + 1 < route.length),
        c.inst.valid route[i + 1].edge route[i].state (some route[i].edge) = .ok true := by
  obtain ⟨route, h1, h2, _, _, h5, h6⟩ :=
    route_links_fresh (c.inst_wf hadj) (config_zeroH c hwf) hts hrun
  exact ⟨route, h1, h2, fun b hb => (h5 b hb).1, fun i hi => (h6 i hi).1⟩


/-! ### Counterexamples on the model for the two recorded findings -/

/-- the 5-vertex re-opening witness (see `C03.staleConfig`) with the turn (w→u, u→v) = (2,3) restricted -/
def staleTurnConfig : Config ℚ where
  nV := 5
  edges := [⟨0, 2, 1000⟩, ⟨0, 1, 100⟩, ⟨1, 2, 100⟩, ⟨2, 3, 100⟩, ⟨3, 4, 100⟩]
  outAdj := [[0, 1], [2], [3], [4], []]
  inAdj := [[], [1], [0, 2], [3], [4]]
  feats := [{ name := "distance", kind := .dist .meters, init := 0 }]
  trav := .distance .meters
  access := .noAccess
  cost := { indices := [0], weights := [1], vehicleRates := [.raw], networkRates := [.zero], agg := .sum }
  frontier := [.turnRestriction [(2, 3)]]
  term := .combined []
  reverse := false
  gc := [7000, 6000, 5000, 5200, 0]
  wf := some 1

def routeEdgesOf (r : Except ErrKind (AlgResult ℚ)) : Option (List (List Nat)) :=
  match r with
  | .ok res => some (res.routes.map (·.map (·.edge)))
  | .error _ => none

/-- A* (estimate inconsistent for the network) returns s→w→u→v→t, which takes the restricted turn
(2,3): u was first expanded via s→u (entry of v written), then re-labelled via w→u, and on its second
expansion the edge u→v was refused — but v's earlier entry stays. -/
theorem restricted_turn_after_reopening_counterexample :
    routeEdgesOf (staleTurnConfig.runVertex 0 (some 4) [0, 2, 1, 2, 3, 4]) = some [[1, 2, 3, 4]] ∧
    (FrontierM.turnRestriction (α := ℚ) [(2, 3)]).valid 3 (some 2) = some false := by
  decide +kernel

/-- Edge-oriented seam: origin edge 0 (0→1), destination edge 2 (2→3), restricted turn (0,1):
the wrapper returns [0,1,2] although the turn from the origin edge onto edge 1 is restricted. -/
def seamConfig : Config ℚ where
  nV := 4
  edges := [⟨0, 1, 10⟩, ⟨1, 2, 10⟩, ⟨2, 3, 10⟩]
  outAdj := [[0], [1], [2], []]
  inAdj := [[], [0], [1], [2]]
  feats := [{ name := "distance", kind := .dist .meters, init := 0 }]
  trav := .distance .meters
  access := .noAccess
  cost := { indices := [0], weights := [1], vehicleRates := [.raw], networkRates := [.zero], agg := .sum }
  frontier := [.turnRestriction [(0, 1)]]
  term := .combined []
  reverse := false
  gc := [0, 0, 0, 0]
  wf := some 0

theorem edge_oriented_seam_counterexample :
    routeEdgesOf (seamConfig.runEdge 0 (some 2) [1, 2]) = some [[0, 1, 2]] ∧
    (FrontierM.turnRestriction (α := ℚ) [(0, 1)]).valid 1 (some 0) = some false := by
  decide +kernel

/-! ### Non-vacuity -/
example : (FrontierM.roadClass (α := ℚ) (some [1, 2]) [0, 2, 5]).valid 1 none = some true := by decide
example : (FrontierM.roadClass (α := ℚ) (some [1, 2]) [0, 2, 5]).valid 2 none = some false := by decide
example : (FrontierM.turnRestriction (α := ℚ) [(3, 4)]).valid 4 (some 3) = some false := by decide
example : frontierValid (α := ℚ) [.edgeCut [7], .roadClass (some [1]) [1, 1]] 1 none = .ok true := by decide

end C04
end Compass
