/-
C04 — routes and trees never use an edge or turn the query is forbidden to use.

Per-model statements about the frontier models of `Model/Instance.lean` (road class, vehicle
restriction with unit conversion through the generated tables, turn restriction, edge cut, and
their combination).  (Tree / route level theorems are added from `Proofs/SearchRoute`.)
-/
import Compass.Proofs.Num
import Compass.Model.Instance
import Compass.Proofs.SearchRoute
import Compass.Proofs.SearchDiscipline
import Compass.Proofs.Build

namespace Compass
namespace C04

variable {α : Type} [Field α] [LinearOrder α] [IsStrictOrderedRing α] [Lit α] [LawfulLit α]

/-- road classes: with an allowed set, an edge is usable exactly when its class is in the set;
an edge missing from the class table is an error, never "allowed" -/
theorem road_class_valid_iff (cls table : List Nat) (e : Nat) (prev : Option Nat) :
    (FrontierM.roadClass (α := α) (some cls) table).valid e prev = some true ↔
      ∃ c, table[e]? = some c ∧ c ∈ cls := by
  simp only [FrontierM.valid]
  cases h : table[e]? with
  | none => simp
  | some c => simp [List.contains_iff_mem]

theorem road_class_unfiltered (table : List Nat) (e : Nat) (prev : Option Nat) :
    (FrontierM.roadClass (α := α) none table).valid e prev = some true := rfl

/-- an edge cut by an alternative-route search is never usable -/
theorem no_cut_edge (cut : List Nat) (e : Nat) (prev : Option Nat) :
    (FrontierM.edgeCut (α := α) cut).valid e prev = some true ↔ e ∉ cut := by
  simp [FrontierM.valid, List.contains_iff_mem]

/-- turn restrictions: the pair (previous edge, edge) must not be listed; the first edge of a
search has no previous edge and is always usable -/
theorem turn_restriction_valid_iff (pairs : List (Nat × Nat)) (e p : Nat) :
    (FrontierM.turnRestriction (α := α) pairs).valid e (some p) = some true ↔ (p, e) ∉ pairs := by
  simp only [FrontierM.valid, Option.some.injEq, Bool.not_eq_true', List.any_eq_false]
  constructor
  · intro h hm
    have := h (p, e) hm
    simp at this
  · intro h q hq
    by_contra hc
    simp only [Bool.not_eq_false, Bool.and_eq_true, beq_iff_eq] at hc
    apply h
    have : q = (p, e) := Prod.ext hc.1 hc.2
    rw [← this]; exact hq

theorem turn_restriction_first_edge (pairs : List (Nat × Nat)) (e : Nat) :
    (FrontierM.turnRestriction (α := α) pairs).valid e none = some true := rfl

/-- vehicle restrictions compare after converting the vehicle's dimension to the restriction's
unit: total weight, weight per axle, and the four lengths -/
theorem vehicle_weight_valid_iff (p : VehicleParams α) (limit : α) (unit : WeightUnit) :
    (Restriction.weight false limit unit).valid p = true ↔
      p.totalWeight.2.convert unit p.totalWeight.1 ≤ limit := by
  simp [Restriction.valid]

theorem vehicle_weight_per_axle_valid_iff (p : VehicleParams α) (limit : α) (unit : WeightUnit) :
    (Restriction.weight true limit unit).valid p = true ↔
      p.totalWeight.2.convert unit p.totalWeight.1 / p.axles ≤ limit := by
  simp [Restriction.valid]

theorem vehicle_length_valid_iff (p : VehicleParams α) (limit : α) (unit : DistanceUnit) :
    ((Restriction.length 2 limit unit).valid p = true ↔ p.totalLength.2.convert unit p.totalLength.1 ≤ limit) ∧
    ((Restriction.length 3 limit unit).valid p = true ↔ p.width.2.convert unit p.width.1 ≤ limit) ∧
    ((Restriction.length 4 limit unit).valid p = true ↔ p.height.2.convert unit p.height.1 ≤ limit) ∧
    ((Restriction.length 5 limit unit).valid p = true ↔ p.trailerLength.2.convert unit p.trailerLength.1 ≤ limit) := by
  simp [Restriction.valid]

/-- an edge with restrictions is usable exactly when the vehicle meets every one of them; an edge
without a table row is unrestricted -/
theorem vehicle_model_valid_iff (table : List (Nat × List (Restriction α))) (p : VehicleParams α)
    (e : Nat) (prev : Option Nat) :
    (FrontierM.vehicle table p).valid e prev = some true ↔
      ∀ row, table.find? (fun r => r.1 == e) = some row → ∀ r ∈ row.2, r.valid p = true := by
  simp only [FrontierM.valid]
  cases h : table.find? (fun r => r.1 == e) with
  | none => simp
  | some row => simp [List.all_eq_true]

/-- combination: when no model errs, an edge is usable exactly when every model permits it -/
theorem combined_iff_all (ms : List (FrontierM α)) (e : Nat) (prev : Option Nat)
    (hne : ∀ m ∈ ms, m.valid e prev ≠ none) :
    frontierValid ms e prev = .ok true ↔ ∀ m ∈ ms, m.valid e prev = some true := by
  induction ms with
  | nil => simp [frontierValid]
  | cons m ms ih =>
    have hm := hne m (List.mem_cons_self ..)
    have ih' := ih (fun m' hm' => hne m' (List.mem_cons_of_mem _ hm'))
    simp only [frontierValid]
    cases hv : m.valid e prev with
    | none => exact absurd hv hm
    | some b =>
      cases b with
      | false => simp [hv]
      | true => simp [hv, ih']

/-- … and a single refusing model makes the edge unusable whatever the later models say -/
theorem combined_false_of_refusal (ms₁ ms₂ : List (FrontierM α)) (m : FrontierM α) (e : Nat)
    (prev : Option Nat) (h₁ : ∀ m' ∈ ms₁, m'.valid e prev = some true) (hm : m.valid e prev = some false) :
    frontierValid (ms₁ ++ m :: ms₂) e prev = .ok false := by
  induction ms₁ with
  | nil => simp [frontierValid, hm]
  | cons a as ih =>
    have ha := h₁ a (List.mem_cons_self ..)
    simp only [List.cons_append, frontierValid, ha]
    exact ih (fun m' hm' => h₁ m' (List.mem_cons_of_mem _ hm'))


/-! ### Search level: what the search keeps was submitted to, and accepted by, the frontier model -/

/-- Every entry of a returned tree (search with or without destination, any algorithm setting,
any schedule, forward or reverse) records an edge that the frontier model accepted for the state
and previous edge its parent carried when the entry was written, with the costs and state the
traversal returned.  No hypothesis on the instance. -/
theorem tree_edges_valid (I : Inst α) (source : Nat) (target : Option Nat) (sched : List Nat)
    (s : SState α) (h : runAStar I source target sched = .ok s) :
    ∀ v b, s.sol v = some b → ∃ (st : List α) (le : Option Nat),
      I.valid b.edge st le = .ok true ∧ I.trav b.edge le st = .ok (b.access, b.traversal, b.state) :=
  SearchRoute.runAStar_validInv I source target sched s h

/-- For restrictions that depend only on the edge (road classes, vehicle restrictions, edge cuts and
their combinations): no tree entry and no route edge is a forbidden edge. -/
theorem route_edges_permitted (I : Inst α) (ok : Nat → Bool)
    (hloc : ∀ e st le, I.valid e st le = .ok (ok e)) (source : Nat) (target : Option Nat)
    (sched : List Nat) (res : SearchResult α)
    (h : runVertexOriented I source target sched = .ok res) :
    (∀ v b, res.final.sol v = some b → ok b.edge = true) ∧
    (∀ route, res.route = some route → ∀ e ∈ route.map (·.edge), ok e = true) :=
  SearchRoute.route_edges_ok hloc h


open SearchDiscipline in
/-- Dijkstra, every configuration incl. turn restrictions and state-dependent models: every
consecutive pair of edges of the returned route was submitted to the frontier model as
(previous edge, edge) with the previous element's reported state, and accepted — so the route
contains no restricted turn and no edge refused for the state it was reached in.
(`_partial`: false of model and code for A* with an estimate inconsistent for the network, and at
the two seams of edge-oriented routes — see known_findings.txt.) -/
theorem dijkstra_route_turns_valid_partial (c : Config α) (hadj : c.AdjConsistent) (hwf : c.wf = some 0)
    {source t : Nat} {sched : List Nat} {res : SearchResult α} (hts : t ≠ source)
    (hrun : runVertexOriented c.inst source (some t) sched = .ok res) :
    ∃ route, res.route = some route ∧ route ≠ [] ∧
      (∀ b, route.head? = some b → c.inst.valid b.edge (initialState c.feats) none = .ok true) ∧
      ∀ i (hi : i + 1 < route.length),
        c.inst.valid route[i + 1].edge route[i].state (some route[i].edge) = .ok true := by
  obtain ⟨route, h1, h2, _, _, h5, h6⟩ :=
    route_links_fresh (c.inst_wf hadj) (config_zeroH c hwf) hts hrun
  exact ⟨route, h1, h2, fun b hb => (h5 b hb).1, fun i hi => (h6 i hi).1⟩


/-! ### Counterexamples on the model for the two recorded findings -/

/-- the 5-vertex re-opening witness (see `C03.staleConfig`) with the turn (w→u, u→v) = (2,3) restricted -/
def staleTurnConfig : Config ℚ where
  nV := 5
  edges := [⟨0, 2, 1000⟩, ⟨0, 1, 100⟩, ⟨1, 2, 100⟩, ⟨2, 3, 100⟩, ⟨3, 4, 100⟩]
  outAdj := [[0, 1], [2], [3], [4], []]
  inAdj := [[], [1], [0, 2], [3], [4]]
  feats := [{ name := "distance", kind := .dist .meters, init := 0 }]
  trav := .distance .meters
  access := .noAccess
  cost := { indices := [0], weights := [1], vehicleRates := [.raw], networkRates := [.zero], agg := .sum }
  frontier := [.turnRestriction [(2, 3)]]
  term := .combined []
  reverse := false
  gc := [7000, 6000, 5000, 5200, 0]
  wf := some 1

def routeEdgesOf (r : Except ErrKind (AlgResult ℚ)) : Option (List (List Nat)) :=
  match r with
  | .ok res => some (res.routes.map (·.map (·.edge)))
  | .error _ => none

/-- A* (estimate inconsistent for the network) returns s→w→u→v→t, which takes the restricted turn
(2,3): u was first expanded via s→u (entry of v written), then re-labelled via w→u, and on its second
expansion the edge u→v was refused — but v's earlier entry stays. -/
theorem restricted_turn_after_reopening_counterexample :
    routeEdgesOf (staleTurnConfig.runVertex 0 (some 4) [0, 2, 1, 2, 3, 4]) = some [[1, 2, 3, 4]] ∧
    (FrontierM.turnRestriction (α := ℚ) [(2, 3)]).valid 3 (some 2) = some false := by
  decide +kernel

/-- Edge-oriented seam: origin edge 0 (0→1), destination edge 2 (2→3), restricted turn (0,1):
the wrapper returns [0,1,2] although the turn from the origin edge onto edge 1 is restricted. -/
def seamConfig : Config ℚ where
  nV := 4
  edges := [⟨0, 1, 10⟩, ⟨1, 2, 10⟩, ⟨2, 3, 10⟩]
  outAdj := [[0], [1], [2], []]
  inAdj := [[], [0], [1], [2]]
  feats := [{ name := "distance", kind := .dist .meters, init := 0 }]
  trav := .distance .meters
  access := .noAccess
  cost := { indices := [0], weights := [1], vehicleRates := [.raw], networkRates := [.zero], agg := .sum }
  frontier := [.turnRestriction [(0, 1)]]
  term := .combined []
  reverse := false
  gc := [0, 0, 0, 0]
  wf := some 0

theorem edge_oriented_seam_counterexample :
    routeEdgesOf (seamConfig.runEdge 0 (some 2) [1, 2]) = some [[0, 1, 2]] ∧
    (FrontierM.turnRestriction (α := ℚ) [(0, 1)]).valid 1 (some 0) = some false := by
  decide +kernel

/-! ### What the query and the files say is what the models compare with

The property quantifies over queries: `VehicleParameters::from_query` and
`RoadClassParser::read_query` turn JSON into the vehicle and the allowed classes.  A well-formed
query is read to exactly the given dimensions in the given units; anything else is an error response
— the functions below are total, so never a panic — and never a different vehicle. -/

open Build

/-- a dimension is read from exactly a two-element array `[number, "unit"]`, as that number in that
unit; no other JSON shape gives a dimension -/
theorem vehicle_dimension_read_exactly (dec : Nat → α) (j : Option Json) :
    (∀ x u, dimOfJson dec j = some (x, u) ↔ ∃ l b, j = some (.arr [.num l b, .str u.name]) ∧ x = dec b) ∧
    (∀ x u, weightOfJson dec j = some (x, u) ↔ ∃ l b, j = some (.arr [.num l b, .str u.name]) ∧ x = dec b) :=
  ⟨dimOfJson_iff dec j, weightOfJson_iff dec j⟩

/-- `from_query` answers with a vehicle exactly when the query's `vehicle_parameters` has the five
dimensions well-formed and `number_of_axles` an integer from 0 to 255, and the vehicle is those
values as they stand: the integer in the query is the number of axles (it is never wrapped). -/
theorem vehicle_parameters_parsed_exactly (dec : Nat → α) (q : Json) (p : VParams α) :
    vehicleParamsOfQuery dec q = .ok p ↔
      ∃ vp, q.get? "vehicle_parameters" = some vp ∧
        dimOfJson dec (vp.get? "height") = some p.height ∧
        dimOfJson dec (vp.get? "width") = some p.width ∧
        dimOfJson dec (vp.get? "total_length") = some p.totalLength ∧
        dimOfJson dec (vp.get? "trailer_length") = some p.trailerLength ∧
        weightOfJson dec (vp.get? "total_weight") = some p.totalWeight ∧
        ∃ a, vp.get? "number_of_axles" = some a ∧ u64OfJson a = some p.axles ∧ p.axles ≤ 255 :=
  vehicleParams_ok_iff dec q p

/-- the refusals name what is wrong: no `vehicle_parameters`; a number of axles that is missing, not
a non-negative integer, or beyond what a vehicle record can hold -/
theorem vehicle_parameters_refusals (dec : Nat → α) (q : Json) :
    (q.get? "vehicle_parameters" = none → vehicleParamsOfQuery dec q = .error .missing) ∧
    (∀ vp h w tl trl tw, q.get? "vehicle_parameters" = some vp →
      dimOfJson dec (vp.get? "height") = some h → dimOfJson dec (vp.get? "width") = some w →
      dimOfJson dec (vp.get? "total_length") = some tl → dimOfJson dec (vp.get? "trailer_length") = some trl →
      weightOfJson dec (vp.get? "total_weight") = some tw →
      (vp.get? "number_of_axles" = none → vehicleParamsOfQuery dec q = .error .axlesMissing) ∧
      (∀ a, vp.get? "number_of_axles" = some a → u64OfJson a = none →
        vehicleParamsOfQuery dec q = .error .axlesType) ∧
      (∀ a n, vp.get? "number_of_axles" = some a → u64OfJson a = some n → 255 < n →
        vehicleParamsOfQuery dec q = .error .axlesRange)) := by
  refine ⟨fun h => by simp [vehicleParamsOfQuery, h], ?_⟩
  intro vp h w tl trl tw hq h1 h2 h3 h4 h5
  refine ⟨fun h6 => by simp [vehicleParamsOfQuery, hq, h1, h2, h3, h4, h5, h6],
    fun a h6 h7 => by simp [vehicleParamsOfQuery, hq, h1, h2, h3, h4, h5, h6, h7],
    fun a n h6 h7 hn => ?_⟩
  simp only [vehicleParamsOfQuery, hq, h1, h2, h3, h4, h5, h6, h7]
  rw [if_neg (by omega)]

/-- a query whose first offending dimension is `f` is refused with the error that names `f`
(height, width, total length, trailer length, total weight, in the order the code reads them) -/
theorem vehicle_parameters_first_bad_field (dec : Nat → α) (q vp : Json)
    (hq : q.get? "vehicle_parameters" = some vp) :
    (dimOfJson dec (vp.get? "height") = none → vehicleParamsOfQuery dec q = .error .height) ∧
    (∀ h, dimOfJson dec (vp.get? "height") = some h → dimOfJson dec (vp.get? "width") = none →
      vehicleParamsOfQuery dec q = .error .width) ∧
    (∀ h w, dimOfJson dec (vp.get? "height") = some h → dimOfJson dec (vp.get? "width") = some w →
      dimOfJson dec (vp.get? "total_length") = none → vehicleParamsOfQuery dec q = .error .totalLength) ∧
    (∀ h w tl, dimOfJson dec (vp.get? "height") = some h → dimOfJson dec (vp.get? "width") = some w →
      dimOfJson dec (vp.get? "total_length") = some tl → dimOfJson dec (vp.get? "trailer_length") = none →
      vehicleParamsOfQuery dec q = .error .trailerLength) ∧
    (∀ h w tl trl, dimOfJson dec (vp.get? "height") = some h → dimOfJson dec (vp.get? "width") = some w →
      dimOfJson dec (vp.get? "total_length") = some tl → dimOfJson dec (vp.get? "trailer_length") = some trl →
      weightOfJson dec (vp.get? "total_weight") = none → vehicleParamsOfQuery dec q = .error .totalWeight) := by
  refine ⟨fun h1 => by simp [vehicleParamsOfQuery, hq, h1], fun h h1 h2 => by simp [vehicleParamsOfQuery, hq, h1, h2],
    fun h w h1 h2 h3 => by simp [vehicleParamsOfQuery, hq, h1, h2, h3],
    fun h w tl h1 h2 h3 h4 => by simp [vehicleParamsOfQuery, hq, h1, h2, h3, h4],
    fun h w tl trl h1 h2 h3 h4 h5 => by simp [vehicleParamsOfQuery, hq, h1, h2, h3, h4, h5]⟩

/-- an array of integers from 0 to 255 is the allowed set as it stands -/
theorem road_classes_numeric_iff (v : Json) (cls : List Nat) :
    u8SetOfJson v = some cls ↔
      ∃ xs, v = .arr xs ∧ List.Forall₂ (fun x c => u64OfJson x = some c ∧ c ≤ 255) xs cls := by
  unfold u8SetOfJson
  cases v with
  | arr xs =>
    simp only [Json.asArray?, Json.arr.injEq, exists_eq_left']
    rw [allSome_iff]
    constructor <;> intro h <;> refine List.Forall₂.imp ?_ h <;> intro x c hxc
    · unfold u8OfJson at hxc
      split at hxc
      · rename_i n hn
        split at hxc
        · injection hxc with hxc; subst hxc; exact ⟨hn, ‹_›⟩
        · cases hxc
      · cases hxc
    · simp [u8OfJson, hxc.1, hxc.2]
  | _ => simp [Json.asArray?]

/-- `road_classes` of the query: no field = no filter; an array of class numbers is the allowed set;
otherwise — only when the model has a name mapping — an array of names, each mapped; a name without
mapping entry, a value that is neither, and names without a mapping are errors, never "no filter" -/
theorem road_classes_of_query (mapping : List (String × Nat)) (q : Json) :
    (q.get? "road_classes" = none → roadClassesOfQuery mapping q = some none) ∧
    (∀ v, q.get? "road_classes" = some v →
      (∀ cls, u8SetOfJson v = some cls → roadClassesOfQuery mapping q = some (some cls)) ∧
      (u8SetOfJson v = none → mapping = [] → roadClassesOfQuery mapping q = none) ∧
      (u8SetOfJson v = none → mapping ≠ [] → ∀ names : List String, v = .arr (names.map Json.str) →
        roadClassesOfQuery mapping q =
          (Build.allSome (fun s => (mapping.find? (fun p => p.1 == s)).map (·.2)) names).map some) ∧
      (u8SetOfJson v = none → (∀ names : List String, v ≠ .arr (names.map Json.str)) →
        roadClassesOfQuery mapping q = none)) := by
  refine ⟨fun h => by simp [roadClassesOfQuery, h], fun v hv => ⟨fun cls h => by simp [roadClassesOfQuery, hv, h],
    fun h hm => by simp [roadClassesOfQuery, hv, h, hm], ?_, ?_⟩⟩
  · intro h hm names hnames
    subst hnames
    have hne : mapping.isEmpty = false := by cases mapping <;> simp_all
    have hstr : ∀ ns : List String, Build.allSome Json.asStr? (ns.map Json.str) = some ns := by
      intro ns
      rw [allSome_iff]
      induction ns with
      | nil => exact List.Forall₂.nil
      | cons n ns ih => exact List.Forall₂.cons rfl ih
    simp only [roadClassesOfQuery, hv, h, hne, Bool.false_eq_true, ↓reduceIte, Json.asArray?, hstr]
    cases Build.allSome (fun s => (mapping.find? (fun p => p.1 == s)).map (·.2)) names <;> rfl
  · intro h hno
    simp only [roadClassesOfQuery, hv, h]
    split
    · rfl
    · cases hv' : v.asArray? with
      | none => rfl
      | some xs =>
        simp only
        cases hs : Build.allSome Json.asStr? xs with
        | none => rfl
        | some names =>
          exfalso
          apply hno names
          have hxs : v = .arr xs := by cases v <;> simp_all [Json.asArray?]
          rw [hxs]
          congr 1
          have hfa := (allSome_iff _ _ _).1 hs
          clear hs hxs hv' hv h hno
          induction hfa with
          | nil => rfl
          | @cons x n xs ns hxn _ ih =>
            have : x = .str n := by cases x <;> simp_all [Json.asStr?]
            rw [this, ih]; rfl

/-- the class of an edge beyond the loaded table is an error of the search, never "allowed" -/
theorem road_class_beyond_table (cls table : List Nat) (e : Nat) (prev : Option Nat) :
    (FrontierM.roadClass (α := α) (some cls) table).valid e prev = none ↔ table[e]? = none := by
  simp only [FrontierM.valid]
  cases table[e]? <;> simp

/-- what `RoadClassBuilder` and its service hand the search: the file's rows as the class table (each
row an integer 0‥255), the allowed set read from the query with the configured mapping -/
theorem road_class_build_ok (cfg : Json) (file : Option (List IntCell)) (q : Json) (m : FrontierM α)
    (h : roadClassBuild cfg file q = .ok m) :
    ∃ rows table mapping allowed, file = some rows ∧ Build.allSome IntCell.u8 rows = some table ∧
      roadClassParserOfConfig cfg = some mapping ∧ roadClassesOfQuery mapping q = some allowed ∧
      m = .roadClass allowed table := by
  unfold roadClassBuild at h
  split at h
  · cases h
  · split at h
    · cases h
    · rename_i rows _
      split at h
      · cases h
      · rename_i table ht
        split at h
        · cases h
        · rename_i mapping hm
          split at h
          · cases h
          · rename_i allowed ha
            injection h with h
            exact ⟨rows, table, mapping, allowed, rfl, ht, hm, ha, h.symm⟩

/-- a row of the vehicle restriction file becomes a restriction only when its name is one of the six
and its unit belongs to the name's family; the restriction limits that dimension at that value -/
theorem restriction_row_read_exactly (name : String) (x : α) (unit : String) (r : Restriction α)
    (h : toRestriction name x unit = some r) :
    (∃ wu, WeightUnit.ofName? unit = some wu ∧
      ((name = "maximum_total_weight" ∧ r = .weight false x wu) ∨
       (name = "maximum_weight_per_axle" ∧ r = .weight true x wu))) ∨
    (∃ du, DistanceUnit.ofName? unit = some du ∧
      ((name = "maximum_length" ∧ r = .length 2 x du) ∨ (name = "maximum_width" ∧ r = .length 3 x du) ∨
       (name = "maximum_height" ∧ r = .length 4 x du) ∨ (name = "maximum_trailer_length" ∧ r = .length 5 x du))) := by
  unfold toRestriction at h
  simp only [beq_iff_eq] at h
  split at h
  · rename_i hn
    cases hu : WeightUnit.ofName? unit with
    | none => simp [hu] at h
    | some wu => simp only [hu, Option.map_some, Option.some.injEq] at h; exact Or.inl ⟨wu, rfl, Or.inl ⟨hn, h.symm⟩⟩
  · split at h
    · rename_i hn
      cases hu : WeightUnit.ofName? unit with
      | none => simp [hu] at h
      | some wu => simp only [hu, Option.map_some, Option.some.injEq] at h; exact Or.inl ⟨wu, rfl, Or.inr ⟨hn, h.symm⟩⟩
    · cases hu : DistanceUnit.ofName? unit with
      | none =>
        simp only [hu, Option.map_none] at h
        repeat' split at h
        all_goals cases h
      | some du =>
        simp only [hu, Option.map_some] at h
        right
        refine ⟨du, rfl, ?_⟩
        split at h
        · rename_i hn; injection h with h; exact Or.inl ⟨hn, h.symm⟩
        · split at h
          · rename_i hn; injection h with h; exact Or.inr (Or.inl ⟨hn, h.symm⟩)
          · split at h
            · rename_i hn; injection h with h; exact Or.inr (Or.inr (Or.inl ⟨hn, h.symm⟩))
            · split at h
              · rename_i hn; injection h with h; exact Or.inr (Or.inr (Or.inr ⟨hn, h.symm⟩))
              · cases h

/-! Non-vacuity: a well-formed query, an out-of-range number of axles, class names with and without mapping. -/
def exQuery : Json :=
  .obj [("vehicle_parameters", .obj [("height", .arr [.num "4.1" 41, .str "meters"]), ("width", .arr [.num "8" 8, .str "feet"]),
    ("total_length", .arr [.num "20" 20, .str "meters"]), ("trailer_length", .arr [.num "48" 48, .str "feet"]),
    ("total_weight", .arr [.num "36" 36, .str "tons"]), ("number_of_axles", .num "5" 5)]),
   ("road_classes", .arr [.str "motorway", .str "trunk"])]

example : (vehicleParamsOfQuery (fun b => (b : ℚ) / 10) exQuery).toOption.map
    (fun p => (p.height, p.width, p.totalWeight, p.axles)) =
    some ((41 / 10, .meters), (8 / 10, .feet), (36 / 10, .tons), 5) := by decide +kernel
example : (match vehicleParamsOfQuery (fun b => (b : ℚ))
    (.obj [("vehicle_parameters", .obj [("height", .arr [.num "4" 4, .str "meters"]), ("width", .arr [.num "8" 8, .str "feet"]),
      ("total_length", .arr [.num "20" 20, .str "meters"]), ("trailer_length", .arr [.num "48" 48, .str "feet"]),
      ("total_weight", .arr [.num "36" 36, .str "tons"]), ("number_of_axles", .num "256" 256)])]) with
    | .error e => some e | .ok _ => none) = some .axlesRange := by decide +kernel
example : roadClassesOfQuery [("motorway", 1), ("trunk", 2)] exQuery = some (some [1, 2]) := by decide
example : roadClassesOfQuery [] exQuery = none := by decide
example : roadClassesOfQuery [("motorway", 1)] exQuery = none := by decide
example : roadClassesOfQuery [] (.obj [("road_classes", .arr [.num "3" 3, .num "7" 7])]) = some (some [3, 7]) := by decide
example : roadClassesOfQuery [] (.obj [("road_classes", .arr [.num "256" 256])]) = none := by decide

/-! ### Non-vacuity -/
example : (FrontierM.roadClass (α := ℚ) (some [1, 2]) [0, 2, 5]).valid 1 none = some true := by decide
example : (FrontierM.roadClass (α := ℚ) (some [1, 2]) [0, 2, 5]).valid 2 none = some false := by decide
example : (FrontierM.turnRestriction (α := ℚ) [(3, 4)]).valid 4 (some 3) = some false := by decide
example : frontierValid (α := ℚ) [.edgeCut [7], .roadClass (some [1]) [1, 1]] 1 none = .ok true := by decide

end C04
end Compass
