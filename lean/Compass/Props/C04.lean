/-
C04 — routes and trees never use an edge or turn the query is forbidden to use.

Per-model statements about the frontier models of `Model/Instance.lean` (road class, vehicle
restriction with unit conversion through the generated tables, turn restriction, edge cut, and
their combination), then the search level.

What the search-level theorems cover, said once:
* **forbidden edges** (road class, vehicle restriction, edge cut, any combination, with or without
  a turn-restriction model beside them): `config_edges_permitted` — every tree entry and every route
  element of every vertex-oriented run of **every** configuration, any algorithm setting (A* with
  re-opening included), schedule and direction; no hypothesis;
* **what the frontier model was asked** about a tree entry: `tree_edges_valid` (every instance; the
  pair is the one the entry's parent carried *when the entry was written*), and under the Dijkstra
  discipline the pair the parent carries in the *returned* tree (`dijkstra_tree_edges_valid`,
  `consistent_tree_edges_valid`).  For A* with an estimate that is inconsistent for the network the
  two differ (`restricted_turn_after_reopening_counterexample`, a recorded finding);
* **restricted turns**: forward Dijkstra routes contain none
  (`dijkstra_route_no_restricted_turn_forward`).  A **reverse** search shows the frontier model the
  pair in *search* order, i.e. (later edge, earlier edge) of the travel order the restrictions are
  listed in, so a reverse route can take a listed turn
  (`reverse_search_restricted_turn_counterexample`; recorded finding — the application runs plain
  searches forward only, and the single-via k-shortest-path algorithm, the one user of
  `Direction::Reverse`, re-validates its alternatives in travel order since /repo bfda969, C13);
* **edge-oriented queries** are covered only *between* their endpoint edges: the origin and the
  destination edge are given by the query, attached by `run_edge_oriented` without consulting the
  frontier model — neither the edges themselves (`edge_oriented_endpoint_edges_counterexample`) nor
  the turns at the two seams (`edge_oriented_seam_counterexample`); recorded findings, by design of
  `run_edge_oriented`.  The inner elements and the tree are covered
  (`edge_oriented_inner_edges_permitted`).
* **modelled rather than verified — the NaN-free domain**: `VehicleRestriction::valid` compares in
  `OrderedFloat`'s total order (`x <= NaN` is true: a NaN limit admits every vehicle), the model in
  IEEE `≤` (false).  Restriction files and queries cannot hold a NaN (the readers refuse it); the
  extreme-value stream gives restriction limits every other extreme (0, −0, negative, 1e308, ±∞,
  subnormal; no axles, 255 axles), correspondence only.
* the query / configuration decoders accept every form serde accepts: a unit as its name or as
  `{"name": null}`, `road_class_parser` as `{"mapping": {…}}` or `[{…}]`
  (`vehicle_dimension_read_exactly` was restated accordingly).
-/
import Compass.Model.Search
import Compass.Gen.Decisions
import Compass.Gen.FnsC04
import Compass.Proofs.Num
import Compass.Model.Instance
import Compass.Proofs.SearchRoute
import Compass.Proofs.SearchDiscipline
import Compass.Proofs.Build
import Compass.Proofs.SearchValid

namespace Compass
namespace C04

variable {α : Type} [Field α] [LinearOrder α] [IsStrictOrderedRing α] [Lit α] [LawfulLit α]

/-- road classes: with an allowed set, an edge is usable exactly when its class is in the set;
an edge missing from the class table is an error, never "allowed" -/
theorem road_class_valid_iff (cls table : List Nat) (e : Nat) (prev : Option Nat) :
    (FrontierM.roadClass (α := α) (some cls) table).valid e prev = some true ↔
      ∃ c, table[e]? = some c ∧ c ∈ cls := by
  simp only [FrontierM.valid]
  cases h : table[e]? with
  | none => simp
  | some c => simp [List.contains_iff_mem]

theorem road_class_unfiltered (table : List Nat) (e : Nat) (prev : Option Nat) :
    (FrontierM.roadClass (α := α) none table).valid e prev = some true := rfl

/-- an edge cut by an alternative-route search is never usable -/
theorem no_cut_edge (cut : List Nat) (e : Nat) (prev : Option Nat) :
    (FrontierM.edgeCut (α := α) cut).valid e prev = some true ↔ e ∉ cut := by
  simp [FrontierM.valid, List.contains_iff_mem]

/-- turn restrictions: the pair (previous edge, edge) must not be listed; the first edge of a
search has no previous edge and is always usable -/
theorem turn_restriction_valid_iff (pairs : List (Nat × Nat)) (e p : Nat) :
    (FrontierM.turnRestriction (α := α) pairs).valid e (some p) = some true ↔ (p, e) ∉ pairs := by
  simp only [FrontierM.valid, Option.some.injEq, Bool.not_eq_true', List.any_eq_false]
  constructor
  · intro h hm
    have := h (p, e) hm
    simp at this
  · intro h q hq
    by_contra hc
    simp only [Bool.not_eq_false, Bool.and_eq_true, beq_iff_eq] at hc
    apply h
    have : q = (p, e) := Prod.ext hc.1 hc.2
    rw [← this]; exact hq

theorem turn_restriction_first_edge (pairs : List (Nat × Nat)) (e : Nat) :
    (FrontierM.turnRestriction (α := α) pairs).valid e none = some true := rfl

/-- vehicle restrictions compare after converting the vehicle's dimension to the restriction's
unit: total weight, weight per axle, and the four lengths -/
theorem vehicle_weight_valid_iff (p : VehicleParams α) (limit : α) (unit : WeightUnit) :
    (Restriction.weight false limit unit).valid p = true ↔
      p.totalWeight.2.convert unit p.totalWeight.1 ≤ limit := by
  simp [Restriction.valid]

/-- weight per axle: with at least one axle the converted weight divided by the number of axles is
compared with the limit.  `from_query` also accepts **0 axles** (`vehicle_parameters_parsed_exactly`);
the code then compares the f64 quotient by zero — +∞ for a positive weight, so the edge is refused
whatever the limit; −∞ for a negative weight, so it is usable; NaN for weight 0, refused — and the
model says the same in every number type (no `x / 0 = 0`). -/
theorem vehicle_weight_per_axle_valid_iff (p : VehicleParams α) (limit : α) (unit : WeightUnit) :
    (Restriction.weight true limit unit).valid p = true ↔
      (p.axles ≠ 0 ∧ p.totalWeight.2.convert unit p.totalWeight.1 / p.axles ≤ limit) ∨
      (p.axles = 0 ∧ p.totalWeight.2.convert unit p.totalWeight.1 < 0) := by
  simp only [Restriction.valid, if_true, perAxleOk, beq_iff_eq, zero_eq]
  by_cases hax : p.axles = 0
  · simp only [hax, if_true, ne_eq, not_true_eq_false, false_and, true_and, false_or]
    rcases lt_trichotomy (p.totalWeight.2.convert unit p.totalWeight.1) 0 with hw | hw | hw
    · simp [hw, not_lt.2 (le_of_lt hw)]
    · simp [hw]
    · simp only [hw, if_true, not_lt.2 (le_of_lt hw), iff_false, Bool.and_eq_true, decide_eq_true_eq,
        not_and, not_le]
      intro hl
      linarith
  · simp [hax]

/-- the two readings separately: at least one axle … -/
theorem vehicle_weight_per_axle_positive_axles (p : VehicleParams α) (limit : α) (unit : WeightUnit)
    (hax : p.axles ≠ 0) :
    (Restriction.weight true limit unit).valid p = true ↔
      p.totalWeight.2.convert unit p.totalWeight.1 / p.axles ≤ limit := by
  rw [vehicle_weight_per_axle_valid_iff]
  simp [hax]

/-- … and none: a vehicle of positive weight meets no per-axle limit -/
theorem vehicle_weight_per_axle_zero_axles (p : VehicleParams α) (limit : α) (unit : WeightUnit)
    (hax : p.axles = 0) (hw : 0 < p.totalWeight.2.convert unit p.totalWeight.1) :
    (Restriction.weight true limit unit).valid p = false := by
  have := vehicle_weight_per_axle_valid_iff p limit unit
  cases hv : (Restriction.weight true limit unit).valid p with
  | false => rfl
  | true =>
    rcases this.1 hv with ⟨h, _⟩ | ⟨_, h⟩
    · exact absurd hax h
    · exact absurd h (not_lt.2 (le_of_lt hw))

theorem vehicle_length_valid_iff (p : VehicleParams α) (limit : α) (unit : DistanceUnit) :
    ((Restriction.length 2 limit unit).valid p = true ↔ p.totalLength.2.convert unit p.totalLength.1 ≤ limit) ∧
    ((Restriction.length 3 limit unit).valid p = true ↔ p.width.2.convert unit p.width.1 ≤ limit) ∧
    ((Restriction.length 4 limit unit).valid p = true ↔ p.height.2.convert unit p.height.1 ≤ limit) ∧
    ((Restriction.length 5 limit unit).valid p = true ↔ p.trailerLength.2.convert unit p.trailerLength.1 ≤ limit) := by
  simp [Restriction.valid]

/-- an edge with restrictions is usable exactly when the vehicle meets every one of them; an edge
without a table row is unrestricted -/
theorem vehicle_model_valid_iff (table : List (Nat × List (Restriction α))) (p : VehicleParams α)
    (e : Nat) (prev : Option Nat) :
    (FrontierM.vehicle table p).valid e prev = some true ↔
      ∀ row, table.find? (fun r => r.1 == e) = some row → ∀ r ∈ row.2, r.valid p = true := by
  simp only [FrontierM.valid]
  cases h : table.find? (fun r => r.1 == e) with
  | none => simp
  | some row => simp [List.all_eq_true]

/-- combination: when no model errs, an edge is usable exactly when every model permits it -/
theorem combined_iff_all (ms : List (FrontierM α)) (e : Nat) (prev : Option Nat)
    (hne : ∀ m ∈ ms, m.valid e prev ≠ none) :
    frontierValid ms e prev = .ok true ↔ ∀ m ∈ ms, m.valid e prev = some true := by
  induction ms with
  | nil => simp [frontierValid]
  | cons m ms ih =>
    have hm := hne m (List.mem_cons_self ..)
    have ih' := ih (fun m' hm' => hne m' (List.mem_cons_of_mem _ hm'))
    simp only [frontierValid]
    cases hv : m.valid e prev with
    | none => exact absurd hv hm
    | some b =>
      cases b with
      | false => simp [hv]
      | true => simp [hv, ih']

/-- … and a single refusing model makes the edge unusable whatever the later models say -/
theorem combined_false_of_refusal (ms₁ ms₂ : List (FrontierM α)) (m : FrontierM α) (e : Nat)
    (prev : Option Nat) (h₁ : ∀ m' ∈ ms₁, m'.valid e prev = some true) (hm : m.valid e prev = some false) :
    frontierValid (ms₁ ++ m :: ms₂) e prev = .ok false := by
  induction ms₁ with
  | nil => simp [frontierValid, hm]
  | cons a as ih =>
    have ha := h₁ a (List.mem_cons_self ..)
    simp only [List.cons_append, frontierValid, ha]
    exact ih (fun m' hm' => h₁ m' (List.mem_cons_of_mem _ hm'))


/-! ### What "permitted" means, model by model -/

/-- the edge `e` is permitted by the model `m` taken alone (a turn-restriction model forbids no edge
as such) -/
def EdgeAllowedBy (m : FrontierM α) (e : Nat) : Prop :=
  match m with
  | .roadClass none _ => True
  | .roadClass (some cls) table => ∃ c, table[e]? = some c ∧ c ∈ cls
  | .turnRestriction _ => True
  | .vehicle table p =>
    ∀ row, table.find? (fun r => r.1 == e) = some row → ∀ r ∈ row.2, r.valid p = true
  | .edgeCut cut => e ∉ cut

/-- a model, asked without previous edge, answers "usable" exactly for the edges it permits: class in
the allowed set; every restriction of the edge's row satisfied after unit conversion
(`vehicle_weight_valid_iff`, `vehicle_weight_per_axle_valid_iff`, `vehicle_length_valid_iff`); not
cut -/
theorem model_allows_iff (m : FrontierM α) (e : Nat) :
    m.valid e none = some true ↔ EdgeAllowedBy m e := by
  cases m with
  | roadClass allowed table =>
    cases allowed with
    | none => simp [EdgeAllowedBy, FrontierM.valid]
    | some cls => exact road_class_valid_iff cls table e none
  | turnRestriction pairs => simp [EdgeAllowedBy, FrontierM.valid]
  | vehicle table p => exact vehicle_model_valid_iff table p e none
  | edgeCut cut => exact no_cut_edge cut e none

/-- `Config.okOf e`: every model of the configuration permits `e` (combined = all) -/
theorem okOf_iff_all_models (c : Config α) (e : Nat) :
    c.okOf e = true ↔ ∀ m ∈ c.frontier, EdgeAllowedBy m e := by
  rw [SearchValid.okOf_iff]
  exact forall₂_congr (fun m _ => model_allows_iff m e)

/-! ### Search level: what the search keeps was submitted to, and accepted by, the frontier model -/

open SearchLimits in
/-- **Every instance, no hypothesis** (search with or without destination, any algorithm setting,
any schedule, forward or reverse).  Every entry `v ↦ b` of a returned tree was written in a loop
turn of this very run: there are a prefix `pre₀ ++ [u]` of the replayed schedule and the loop head
`h₀` the run reached after expanding `pre₀`, such that `b.edge` is one of the edges iterated at `u`,
`v` is its far end and `b.terminal` its near end, and the frontier model accepted `b.edge` — and the
traversal returned `b`'s costs and state — **for the state and previous edge the loop read at `u`
at `h₀`**: the initial state and no previous edge when `u` is the search origin, otherwise the state
and edge of the tree entry `u` had at that loop head.  (With consistent incident lists `u` is
`b.terminal`, the entry's parent: `tree_entry_joins` of C01.)

What this does *not* say: that `u`'s entry in the *returned* tree is still that one.  Under the
Dijkstra discipline it is (`dijkstra_tree_edges_valid`); for A* with re-opening it need not be
(`restricted_turn_after_reopening_counterexample`). -/
theorem tree_edges_valid (I : Inst α) (source : Nat) (target : Option Nat) (sched : List Nat)
    (s : SState α) (h : runAStar I source target sched = .ok s) :
    ∀ v b, s.sol v = some b → v = I.keyV b.edge ∧ b.terminal = I.termV b.edge ∧
      ∃ (f0 : α) (pre₀ : List Nat) (h₀ : SState α) (u : Nat) (le : Option Nat) (st : List α),
        startF I source target = .ok f0 ∧
        Reach I source target pre₀ (initState source f0) h₀ ∧ (pre₀ ++ [u]) <+: sched ∧
        b.edge ∈ I.incident u ∧
        ((u = source ∧ le = none ∧ st = I.init) ∨
          (u ≠ source ∧ ∃ bu, h₀.sol u = some bu ∧ le = some bu.edge ∧ st = bu.state)) ∧
        I.valid b.edge st le = .ok true ∧
        I.trav b.edge le st = .ok (b.access, b.traversal, b.state) := by
  intro v b hb
  obtain ⟨hk, f0, pre₀, h₀, u, hf0, hr, hpre, hinc, hterm, le, st, hcur, hv, htr⟩ :=
    SearchValid.runAStar_entry_history I source target sched s h v b hb
  exact ⟨hk, hterm, f0, pre₀, h₀, u, le, st, hf0, hr, hpre, hinc, SearchValid.curOf_cases hcur, hv, htr⟩

open SearchDiscipline in
/-- **Dijkstra, every configuration** (turn restrictions, turn delays, any state-dependent model,
forward or reverse, with or without destination): every entry `v ↦ b` of the returned tree was
accepted by the frontier model, and traversed, from the pair its parent carries **in the returned
tree**: from the initial state and no previous edge when the parent is the search origin, from
`(bu.state, some bu.edge)` with `bu` the parent's entry otherwise (and that entry exists). -/
theorem dijkstra_tree_edges_valid (c : Config α) (hadj : c.AdjConsistent) (hwf : c.wf = some 0)
    {source : Nat} {target : Option Nat} {sched : List Nat} {s : SState α}
    (hrun : runAStar c.inst source target sched = .ok s) {v : Nat} {b : Branch α}
    (hb : s.sol v = some b) :
    (b.terminal = source ∧
      c.inst.valid b.edge (initialState c.feats) none = .ok true ∧
      c.inst.trav b.edge none (initialState c.feats) = .ok (b.access, b.traversal, b.state)) ∨
    (b.terminal ≠ source ∧ ∃ bu, s.sol b.terminal = some bu ∧
      c.inst.valid b.edge bu.state (some bu.edge) = .ok true ∧
      c.inst.trav b.edge (some bu.edge) bu.state = .ok (b.access, b.traversal, b.state)) :=
  entry_fresh (c.inst_wf hadj) (config_zeroH c hwf) hrun hb

open SearchDiscipline in
/-- the same for every instance with positive costs whose heuristic is a consistent function of the
vertex (`Heur`: along every accepted traversal it drops by at most the cost charged) -/
theorem consistent_tree_edges_valid {I : Inst α} (hI : SearchTree.WF I) {H : Nat → α}
    {source : Nat} {target : Option Nat} (hH : Heur I target.isSome H)
    {sched : List Nat} {s : SState α} (hrun : runAStar I source target sched = .ok s)
    {v : Nat} {b : Branch α} (hb : s.sol v = some b) :
    (b.terminal = source ∧
      I.valid b.edge I.init none = .ok true ∧
      I.trav b.edge none I.init = .ok (b.access, b.traversal, b.state)) ∨
    (b.terminal ≠ source ∧ ∃ bu, s.sol b.terminal = some bu ∧
      I.valid b.edge bu.state (some bu.edge) = .ok true ∧
      I.trav b.edge (some bu.edge) bu.state = .ok (b.access, b.traversal, b.state)) :=
  entry_fresh_of_heur hI hH hrun hb

/-- **No forbidden edge in trees and routes.**  For **every** configuration (road class, vehicle
restriction, edge cut, turn restriction, in any combination; any traversal / access / cost /
termination model), every vertex-oriented run (with or without destination, Dijkstra or A* with any
weight factor and estimate, re-opening or not, any schedule, forward or reverse): every entry of the
returned tree and every element of the returned route carries an edge that **every** model of the
configuration permits — its road class is in the allowed set, the vehicle meets every restriction of
the edge after unit conversion, and the edge is not cut (`EdgeAllowedBy`; a turn-restriction model
forbids pairs of edges, no edge).  No hypothesis. -/
theorem config_edges_permitted (c : Config α)
    {source : Nat} {target : Option Nat} {sched : List Nat} {r : AlgResult α}
    (h : c.runVertex source target sched = .ok r) :
    (∀ tree ∈ r.trees, ∀ v b, tree v = some b →
      c.okOf b.edge = true ∧ ∀ m ∈ c.frontier, EdgeAllowedBy m b.edge) ∧
    (∀ route ∈ r.routes, ∀ b ∈ route,
      c.okOf b.edge = true ∧ ∀ m ∈ c.frontier, EdgeAllowedBy m b.edge) := by
  obtain ⟨h1, h2⟩ := SearchValid.config_edges_permitted c h
  exact ⟨fun tree ht v b hb => ⟨h1 tree ht v b hb, (okOf_iff_all_models c _).1 (h1 tree ht v b hb)⟩,
    fun route hr b hb => ⟨h2 route hr b hb, (okOf_iff_all_models c _).1 (h2 route hr b hb)⟩⟩

/-- **Edge-oriented queries, between the endpoint edges** (non-adjacent origin and destination
edges; every configuration): every entry of the returned tree and every *inner* element of the
route — everything but the origin element in front and the destination element behind — carries a
permitted edge.  The two endpoint edges are not covered: `edge_oriented_endpoint_edges_counterexample`. -/
theorem edge_oriented_inner_edges_permitted (c : Config α) (source tgt : Nat) (sched : List Nat)
    (r : AlgResult α) (e1 e2 : EdgeRec α) (h1 : c.edges[source]? = some e1)
    (h2 : c.edges[tgt]? = some e2) (hne : source ≠ tgt) (hnadj : e1.dst ≠ e2.src)
    (h : c.runEdge source (some tgt) sched = .ok r) :
    (∀ tree ∈ r.trees, ∀ v b, tree v = some b → c.okOf b.edge = true) ∧
    ∃ (origin dest : Branch α) (inner : List (Branch α)),
      r.routes = [origin :: inner ++ [dest]] ∧ origin.edge = source ∧ dest.edge = tgt ∧
      ∀ b ∈ inner, c.okOf b.edge = true := by
  obtain ⟨ht, inner, last, hroutes, hin⟩ :=
    SearchRoute.runEdge_inner_valid c source tgt sched r e1 e2 h1 h2 hne hnadj h
  refine ⟨fun tree htree v b hb => ?_, _, _, inner, hroutes, rfl, rfl, fun b hb => ?_⟩
  · obtain ⟨st, le, hv, _⟩ := ht tree htree v b hb
    exact SearchValid.okOf_of_valid c hv
  · obtain ⟨st, le, hv, _⟩ := hin b hb
    exact SearchValid.okOf_of_valid c hv

open SearchDiscipline in
/-- Dijkstra, every configuration incl. turn restrictions and state-dependent models: every
consecutive pair of elements of the returned route was submitted to the frontier model as
(previous edge, edge) **in search order** with the previous element's reported state, and accepted —
so no element carries an edge refused for the state it was reached in, and in a forward search the
route contains no restricted turn (`dijkstra_route_no_restricted_turn_forward`).
(`_partial`, three exclusions, each with a counterexample below and a line in known_findings.txt:
A* with an estimate inconsistent for the network — false of model and code; **reverse searches** —
the statement holds but is about search-order pairs, while restrictions are listed in travel order,
so a reverse route can take a listed turn; the two seams and the two endpoint edges of edge-oriented
routes.) -/
theorem dijkstra_route_turns_valid_partial (c : Config α) (hadj : c.AdjConsistent) (hwf : c.wf = some 0)
    {source t : Nat} {sched : List Nat} {res : SearchResult α} (hts : t ≠ source)
    (hrun : runVertexOriented c.inst source (some t) sched = .ok res) :
    ∃ route, res.route = some route ∧ route ≠ [] ∧
      (∀ b, route.head? = some b → c.inst.valid b.edge (initialState c.feats) none = .ok true) ∧
      ∀ i (hi : i + 1 < route.length),
        c.inst.valid route[i + 1].edge route[i].state (some route[i].edge) = .ok true := by
  obtain ⟨route, h1, h2, _, _, h5, h6⟩ :=
    route_links_fresh (c.inst_wf hadj) (config_zeroH c hwf) hts hrun
  exact ⟨route, h1, h2, fun b hb => (h5 b hb).1, fun i hi => (h6 i hi).1⟩

/-- an accepted (previous edge, edge) pair is not listed by any turn-restriction model of the
configuration, and the edge is permitted by every model -/
theorem accepted_pair_not_restricted (c : Config α) {e p : Nat} {st : List α}
    (h : c.inst.valid e st (some p) = .ok true) :
    ∀ pairs, FrontierM.turnRestriction pairs ∈ c.frontier → (p, e) ∉ pairs := by
  intro pairs hm
  simp only [Config.inst] at h
  split at h
  · cases h
  · exact (turn_restriction_valid_iff pairs e p).1
      ((SearchValid.frontierValid_true_iff c.frontier e (some p)).1 h _ hm)

/-- **Forward Dijkstra routes take no restricted turn**: no two consecutive edges of the returned
route are listed — in travel order, as the restrictions are — by a turn-restriction model of the
configuration (alone or inside a combination). -/
theorem dijkstra_route_no_restricted_turn_forward (c : Config α) (hadj : c.AdjConsistent)
    (hwf : c.wf = some 0) (_hfwd : c.reverse = false)
    {source t : Nat} {sched : List Nat} {res : SearchResult α} (hts : t ≠ source)
    (hrun : runVertexOriented c.inst source (some t) sched = .ok res) :
    ∃ route, res.route = some route ∧
      ∀ pairs, FrontierM.turnRestriction pairs ∈ c.frontier →
        ∀ i (hi : i + 1 < route.length), (route[i].edge, route[i + 1].edge) ∉ pairs := by
  obtain ⟨route, h1, _, _, h4⟩ := dijkstra_route_turns_valid_partial c hadj hwf hts hrun
  exact ⟨route, h1, fun pairs hm i hi => accepted_pair_not_restricted c (h4 i hi) pairs hm⟩


/-! ### Counterexamples on the model for the recorded findings -/

/-- the 5-vertex re-opening witness (see `C03.staleConfig`) with the turn (w→u, u→v) = (2,3) restricted -/
def staleTurnConfig : Config ℚ where
  nV := 5
  edges := [⟨0, 2, 1000⟩, ⟨0, 1, 100⟩, ⟨1, 2, 100⟩, ⟨2, 3, 100⟩, ⟨3, 4, 100⟩]
  outAdj := [[0, 1], [2], [3], [4], []]
  inAdj := [[], [1], [0, 2], [3], [4]]
  feats := [{ name := "distance", kind := .dist .meters, init := 0 }]
  trav := .distance .meters
  access := .noAccess
  cost := { indices := [0], weights := [1], vehicleRates := [.raw], networkRates := [.zero], agg := .sum }
  frontier := [.turnRestriction [(2, 3)]]
  term := .combined []
  reverse := false
  gc := [7000, 6000, 5000, 5200, 0]
  wf := some 1

def routeEdgesOf (r : Except ErrKind (AlgResult ℚ)) : Option (List (List Nat)) :=
  match r with
  | .ok res => some (res.routes.map (·.map (·.edge)))
  | .error _ => none

/-- A* (estimate inconsistent for the network) returns s→w→u→v→t, which takes the restricted turn
(2,3): u was first expanded via s→u (entry of v written), then re-labelled via w→u, and on its second
expansion the edge u→v was refused — but v's earlier entry stays. -/
theorem restricted_turn_after_reopening_counterexample :
    routeEdgesOf (staleTurnConfig.runVertex 0 (some 4) [0, 2, 1, 2, 3, 4]) = some [[1, 2, 3, 4]] ∧
    (FrontierM.turnRestriction (α := ℚ) [(2, 3)]).valid 3 (some 2) = some false := by
  decide +kernel

/-- Edge-oriented seam: origin edge 0 (0→1), destination edge 2 (2→3), restricted turn (0,1):
the wrapper returns [0,1,2] although the turn from the origin edge onto edge 1 is restricted. -/
def seamConfig : Config ℚ where
  nV := 4
  edges := [⟨0, 1, 10⟩, ⟨1, 2, 10⟩, ⟨2, 3, 10⟩]
  outAdj := [[0], [1], [2], []]
  inAdj := [[], [0], [1], [2]]
  feats := [{ name := "distance", kind := .dist .meters, init := 0 }]
  trav := .distance .meters
  access := .noAccess
  cost := { indices := [0], weights := [1], vehicleRates := [.raw], networkRates := [.zero], agg := .sum }
  frontier := [.turnRestriction [(0, 1)]]
  term := .combined []
  reverse := false
  gc := [0, 0, 0, 0]
  wf := some 0

theorem edge_oriented_seam_counterexample :
    routeEdgesOf (seamConfig.runEdge 0 (some 2) [1, 2]) = some [[0, 1, 2]] ∧
    (FrontierM.turnRestriction (α := ℚ) [(0, 1)]).valid 1 (some 0) = some false := by
  decide +kernel

/-- Edge-oriented endpoint edges are never shown to the frontier model.  On the same network:
(a) with the origin edge 0 and the destination edge 2 both cut, the query from edge 0 to edge 2
still answers `[0, 1, 2]`, although `okOf` forbids both;
(b) in the adjacent arm nothing is asked at all: with edge 1 cut *and* the turn (0,1) restricted the
query from edge 0 to edge 1 answers `[0, 1]`.
(Recorded finding `route/forbidden-endpoint-edge-edge-oriented`; by design of `run_edge_oriented`:
the endpoint edges are the query's, not the search's.) -/
theorem edge_oriented_endpoint_edges_counterexample :
    (routeEdgesOf (({ seamConfig with frontier := [.edgeCut [0, 2]] } : Config ℚ).runEdge 0 (some 2) [1, 2])
        = some [[0, 1, 2]] ∧
      ({ seamConfig with frontier := [.edgeCut [0, 2]] } : Config ℚ).okOf 0 = false ∧
      ({ seamConfig with frontier := [.edgeCut [0, 2]] } : Config ℚ).okOf 2 = false) ∧
    (routeEdgesOf (({ seamConfig with frontier := [.edgeCut [1], .turnRestriction [(0, 1)]] } :
        Config ℚ).runEdge 0 (some 1) []) = some [[0, 1]] ∧
      ({ seamConfig with frontier := [.edgeCut [1], .turnRestriction [(0, 1)]] } : Config ℚ).okOf 1
        = false) := by
  decide +kernel

/-- Reverse searches see the turn pairs reversed.  `run_a_star` hands `valid_frontier` the edge it
is about to take and the edge it came by **in search order**; `TurnRestrictionFrontierModel` looks
the pair up as (prev_edge_id, next_edge_id), and the restrictions are listed in travel order.  On
`seamConfig` searched in reverse from vertex 2 back to vertex 0, Dijkstra returns `[1, 0]` (search
order): travelled forward that is edge 0 then edge 1, the listed turn (0,1); the model was asked
about (previous 1, edge 0), which is not listed, and said yes.  (Recorded finding
`route/restricted-turn-reverse-search`.  The application runs plain searches forward only; the
single-via k-shortest-path algorithm re-validates its alternatives in travel order, C13.) -/
theorem reverse_search_restricted_turn_counterexample :
    routeEdgesOf (({ seamConfig with reverse := true } : Config ℚ).runVertex 2 (some 0) [2, 1, 0])
      = some [[1, 0]] ∧
    ({ seamConfig with reverse := true } : Config ℚ).inst.valid 0 [10] (some 1) = .ok true ∧
    (FrontierM.turnRestriction (α := ℚ) [(0, 1)]).valid 1 (some 0) = some false := by
  decide +kernel

/-! ### What the query and the files say is what the models compare with

The property quantifies over queries: `VehicleParameters::from_query` and
`RoadClassParser::read_query` turn JSON into the vehicle and the allowed classes.  A well-formed
query is read to exactly the given dimensions in the given units; anything else is an error response
— the functions below are total, so never a panic — and never a different vehicle. -/

open Build

/-- a dimension is read from exactly a two-element array `[number, unit]`, as that number in that
unit; no other JSON shape gives a dimension.  The unit is its serde name, as a string (`"feet"`) or
— serde's other form of a unit variant — as the single key of an object with value `null`
(`{"feet": null}`): `Build.unitName? false`.  (RESTATED after the fidelity review of the builders:
the earlier statement admitted the string form only, which is false of the code —
`"height": [5.0, {"feet": null}]` is accepted by `VehicleParameters::from_query`.) -/
theorem vehicle_dimension_read_exactly (dec : Nat → α) (j : Option Json) :
    (∀ x u, dimOfJson dec j = some (x, u) ↔
      ∃ l b uj, j = some (.arr [.num l b, uj]) ∧ unitName? false uj = some u.name ∧ x = dec b) ∧
    (∀ x u, weightOfJson dec j = some (x, u) ↔
      ∃ l b uj, j = some (.arr [.num l b, uj]) ∧ unitName? false uj = some u.name ∧ x = dec b) :=
  ⟨dimOfJson_iff dec j, weightOfJson_iff dec j⟩

/-- `from_query` answers with a vehicle exactly when the query's `vehicle_parameters` has the five
dimensions well-formed and `number_of_axles` an integer from 0 to 255, and the vehicle is those
values as they stand: the integer in the query is the number of axles (it is never wrapped). -/
theorem vehicle_parameters_parsed_exactly (dec : Nat → α) (q : Json) (p : VParams α) :
    vehicleParamsOfQuery dec q = .ok p ↔
      ∃ vp, q.get? "vehicle_parameters" = some vp ∧
        dimOfJson dec (vp.get? "height") = some p.height ∧
        dimOfJson dec (vp.get? "width") = some p.width ∧
        dimOfJson dec (vp.get? "total_length") = some p.totalLength ∧
        dimOfJson dec (vp.get? "trailer_length") = some p.trailerLength ∧
        weightOfJson dec (vp.get? "total_weight") = some p.totalWeight ∧
        ∃ a, vp.get? "number_of_axles" = some a ∧ u64OfJson a = some p.axles ∧ p.axles ≤ 255 :=
  vehicleParams_ok_iff dec q p

/-- the refusals name what is wrong: no `vehicle_parameters`; a number of axles that is missing, not
a non-negative integer, or beyond what a vehicle record can hold -/
theorem vehicle_parameters_refusals (dec : Nat → α) (q : Json) :
    (q.get? "vehicle_parameters" = none → vehicleParamsOfQuery dec q = .error .missing) ∧
    (∀ vp h w tl trl tw, q.get? "vehicle_parameters" = some vp →
      dimOfJson dec (vp.get? "height") = some h → dimOfJson dec (vp.get? "width") = some w →
      dimOfJson dec (vp.get? "total_length") = some tl → dimOfJson dec (vp.get? "trailer_length") = some trl →
      weightOfJson dec (vp.get? "total_weight") = some tw →
      (vp.get? "number_of_axles" = none → vehicleParamsOfQuery dec q = .error .axlesMissing) ∧
      (∀ a, vp.get? "number_of_axles" = some a → u64OfJson a = none →
        vehicleParamsOfQuery dec q = .error .axlesType) ∧
      (∀ a n, vp.get? "number_of_axles" = some a → u64OfJson a = some n → 255 < n →
        vehicleParamsOfQuery dec q = .error .axlesRange)) := by
  refine ⟨fun h => by simp [vehicleParamsOfQuery, h], ?_⟩
  intro vp h w tl trl tw hq h1 h2 h3 h4 h5
  refine ⟨fun h6 => by simp [vehicleParamsOfQuery, hq, h1, h2, h3, h4, h5, h6],
    fun a h6 h7 => by simp [vehicleParamsOfQuery, hq, h1, h2, h3, h4, h5, h6, h7],
    fun a n h6 h7 hn => ?_⟩
  simp only [vehicleParamsOfQuery, hq, h1, h2, h3, h4, h5, h6, h7]
  rw [if_neg (by omega)]

/-- a query whose first offending dimension is `f` is refused with the error that names `f`
(height, width, total length, trailer length, total weight, in the order the code reads them) -/
theorem vehicle_parameters_first_bad_field (dec : Nat → α) (q vp : Json)
    (hq : q.get? "vehicle_parameters" = some vp) :
    (dimOfJson dec (vp.get? "height") = none → vehicleParamsOfQuery dec q = .error .height) ∧
    (∀ h, dimOfJson dec (vp.get? "height") = some h → dimOfJson dec (vp.get? "width") = none →
      vehicleParamsOfQuery dec q = .error .width) ∧
    (∀ h w, dimOfJson dec (vp.get? "height") = some h → dimOfJson dec (vp.get? "width") = some w →
      dimOfJson dec (vp.get? "total_length") = none → vehicleParamsOfQuery dec q = .error .totalLength) ∧
    (∀ h w tl, dimOfJson dec (vp.get? "height") = some h → dimOfJson dec (vp.get? "width") = some w →
      dimOfJson dec (vp.get? "total_length") = some tl → dimOfJson dec (vp.get? "trailer_length") = none →
      vehicleParamsOfQuery dec q = .error .trailerLength) ∧
    (∀ h w tl trl, dimOfJson dec (vp.get? "height") = some h → dimOfJson dec (vp.get? "width") = some w →
      dimOfJson dec (vp.get? "total_length") = some tl → dimOfJson dec (vp.get? "trailer_length") = some trl →
      weightOfJson dec (vp.get? "total_weight") = none → vehicleParamsOfQuery dec q = .error .totalWeight) := by
  refine ⟨fun h1 => by simp [vehicleParamsOfQuery, hq, h1], fun h h1 h2 => by simp [vehicleParamsOfQuery, hq, h1, h2],
    fun h w h1 h2 h3 => by simp [vehicleParamsOfQuery, hq, h1, h2, h3],
    fun h w tl h1 h2 h3 h4 => by simp [vehicleParamsOfQuery, hq, h1, h2, h3, h4],
    fun h w tl trl h1 h2 h3 h4 h5 => by simp [vehicleParamsOfQuery, hq, h1, h2, h3, h4, h5]⟩

/-- an array of integers from 0 to 255 is the allowed set as it stands -/
theorem road_classes_numeric_iff (v : Json) (cls : List Nat) :
    u8SetOfJson v = some cls ↔
      ∃ xs, v = .arr xs ∧ List.Forall₂ (fun x c => u64OfJson x = some c ∧ c ≤ 255) xs cls := by
  unfold u8SetOfJson
  cases v with
  | arr xs =>
    simp only [Json.asArray?, Json.arr.injEq, exists_eq_left']
    rw [allSome_iff]
    constructor <;> intro h <;> refine List.Forall₂.imp ?_ h <;> intro x c hxc
    · unfold u8OfJson at hxc
      split at hxc
      · rename_i n hn
        split at hxc
        · injection hxc with hxc; subst hxc; exact ⟨hn, ‹_›⟩
        · cases hxc
      · cases hxc
    · simp [u8OfJson, hxc.1, hxc.2]
  | _ => simp [Json.asArray?]

/-- `road_classes` of the query: no field = no filter; an array of class numbers is the allowed set;
otherwise — only when the model has a name mapping — an array of names, each mapped; a name without
mapping entry, a value that is neither, and names without a mapping are errors, never "no filter" -/
theorem road_classes_of_query (mapping : List (String × Nat)) (q : Json) :
    (q.get? "road_classes" = none → roadClassesOfQuery mapping q = some none) ∧
    (∀ v, q.get? "road_classes" = some v →
      (∀ cls, u8SetOfJson v = some cls → roadClassesOfQuery mapping q = some (some cls)) ∧
      (u8SetOfJson v = none → mapping = [] → roadClassesOfQuery mapping q = none) ∧
      (u8SetOfJson v = none → mapping ≠ [] → ∀ names : List String, v = .arr (names.map Json.str) →
        roadClassesOfQuery mapping q =
          (Build.allSome (fun s => (mapping.find? (fun p => p.1 == s)).map (·.2)) names).map some) ∧
      (u8SetOfJson v = none → (∀ names : List String, v ≠ .arr (names.map Json.str)) →
        roadClassesOfQuery mapping q = none)) := by
  refine ⟨fun h => by simp [roadClassesOfQuery, h], fun v hv => ⟨fun cls h => by simp [roadClassesOfQuery, hv, h],
    fun h hm => by simp [roadClassesOfQuery, hv, h, hm], ?_, ?_⟩⟩
  · intro h hm names hnames
    subst hnames
    have hne : mapping.isEmpty = false := by cases mapping <;> simp_all
    have hstr : ∀ ns : List String, Build.allSome Json.asStr? (ns.map Json.str) = some ns := by
      intro ns
      rw [allSome_iff]
      induction ns with
      | nil => exact List.Forall₂.nil
      | cons n ns ih => exact List.Forall₂.cons rfl ih
    simp only [roadClassesOfQuery, hv, h, hne, Bool.false_eq_true, ↓reduceIte, Json.asArray?, hstr]
    cases Build.allSome (fun s => (mapping.find? (fun p => p.1 == s)).map (·.2)) names <;> rfl
  · intro h hno
    simp only [roadClassesOfQuery, hv, h]
    split
    · rfl
    · cases hv' : v.asArray? with
      | none => rfl
      | some xs =>
        simp only
        cases hs : Build.allSome Json.asStr? xs with
        | none => rfl
        | some names =>
          exfalso
          apply hno names
          have hxs : v = .arr xs := by cases v <;> simp_all [Json.asArray?]
          rw [hxs]
          congr 1
          have hfa := (allSome_iff _ _ _).1 hs
          clear hs hxs hv' hv h hno
          induction hfa with
          | nil => rfl
          | @cons x n xs ns hxn _ ih =>
            have : x = .str n := by cases x <;> simp_all [Json.asStr?]
            rw [this, ih]; rfl

/-- the class of an edge beyond the loaded table is an error of the search, never "allowed" -/
theorem road_class_beyond_table (cls table : List Nat) (e : Nat) (prev : Option Nat) :
    (FrontierM.roadClass (α := α) (some cls) table).valid e prev = none ↔ table[e]? = none := by
  simp only [FrontierM.valid]
  cases table[e]? <;> simp

/-- what `RoadClassBuilder` and its service hand the search: the file's rows as the class table (each
row an integer 0‥255), the allowed set read from the query with the configured mapping -/
theorem road_class_build_ok (cfg : Json) (file : Option (List IntCell)) (q : Json) (m : FrontierM α)
    (h : roadClassBuild cfg file q = .ok m) :
    ∃ rows table mapping allowed, file = some rows ∧ Build.allSome IntCell.u8 rows = some table ∧
      roadClassParserOfConfig cfg = some mapping ∧ roadClassesOfQuery mapping q = some allowed ∧
      m = .roadClass allowed table := by
  unfold roadClassBuild at h
  split at h
  · cases h
  · split at h
    · cases h
    · rename_i rows _
      split at h
      · cases h
      · rename_i table ht
        split at h
        · cases h
        · rename_i mapping hm
          split at h
          · cases h
          · rename_i allowed ha
            injection h with h
            exact ⟨rows, table, mapping, allowed, rfl, ht, hm, ha, h.symm⟩

/-- a row of the vehicle restriction file becomes a restriction only when its name is one of the six
and its unit belongs to the name's family; the restriction limits that dimension at that value -/
theorem restriction_row_read_exactly (name : String) (x : α) (unit : String) (r : Restriction α)
    (h : toRestriction name x unit = some r) :
    (∃ wu, WeightUnit.ofName? unit = some wu ∧
      ((name = "maximum_total_weight" ∧ r = .weight false x wu) ∨
       (name = "maximum_weight_per_axle" ∧ r = .weight true x wu))) ∨
    (∃ du, DistanceUnit.ofName? unit = some du ∧
      ((name = "maximum_length" ∧ r = .length 2 x du) ∨ (name = "maximum_width" ∧ r = .length 3 x du) ∨
       (name = "maximum_height" ∧ r = .length 4 x du) ∨ (name = "maximum_trailer_length" ∧ r = .length 5 x du))) := by
  unfold toRestriction at h
  simp only [beq_iff_eq] at h
  split at h
  · rename_i hn
    cases hu : WeightUnit.ofName? unit with
    | none => simp [hu] at h
    | some wu => simp only [hu, Option.map_some, Option.some.injEq] at h; exact Or.inl ⟨wu, rfl, Or.inl ⟨hn, h.symm⟩⟩
  · split at h
    · rename_i hn
      cases hu : WeightUnit.ofName? unit with
      | none => simp [hu] at h
      | some wu => simp only [hu, Option.map_some, Option.some.injEq] at h; exact Or.inl ⟨wu, rfl, Or.inr ⟨hn, h.symm⟩⟩
    · cases hu : DistanceUnit.ofName? unit with
      | none =>
        simp only [hu, Option.map_none] at h
        repeat' split at h
        all_goals cases h
      | some du =>
        simp only [hu, Option.map_some] at h
        right
        refine ⟨du, rfl, ?_⟩
        split at h
        · rename_i hn; injection h with h; exact Or.inl ⟨hn, h.symm⟩
        · split at h
          · rename_i hn; injection h with h; exact Or.inr (Or.inl ⟨hn, h.symm⟩)
          · split at h
            · rename_i hn; injection h with h; exact Or.inr (Or.inr (Or.inl ⟨hn, h.symm⟩))
            · split at h
              · rename_i hn; injection h with h; exact Or.inr (Or.inr (Or.inr ⟨hn, h.symm⟩))
              · cases h

/-! Non-vacuity: a well-formed query, an out-of-range number of axles, class names with and without mapping. -/
def exQuery : Json :=
  .obj [("vehicle_parameters", .obj [("height", .arr [.num "4.1" 41, .str "meters"]), ("width", .arr [.num "8" 8, .str "feet"]),
    ("total_length", .arr [.num "20" 20, .str "meters"]), ("trailer_length", .arr [.num "48" 48, .str "feet"]),
    ("total_weight", .arr [.num "36" 36, .str "tons"]), ("number_of_axles", .num "5" 5)]),
   ("road_classes", .arr [.str "motorway", .str "trunk"])]

example : (vehicleParamsOfQuery (fun b => (b : ℚ) / 10) exQuery).toOption.map
    (fun p => (p.height, p.width, p.totalWeight, p.axles)) =
    some ((41 / 10, .meters), (8 / 10, .feet), (36 / 10, .tons), 5) := by decide +kernel
example : (match vehicleParamsOfQuery (fun b => (b : ℚ))
    (.obj [("vehicle_parameters", .obj [("height", .arr [.num "4" 4, .str "meters"]), ("width", .arr [.num "8" 8, .str "feet"]),
      ("total_length", .arr [.num "20" 20, .str "meters"]), ("trailer_length", .arr [.num "48" 48, .str "feet"]),
      ("total_weight", .arr [.num "36" 36, .str "tons"]), ("number_of_axles", .num "256" 256)])]) with
    | .error e => some e | .ok _ => none) = some .axlesRange := by decide +kernel
example : roadClassesOfQuery [("motorway", 1), ("trunk", 2)] exQuery = some (some [1, 2]) := by decide
example : roadClassesOfQuery [] exQuery = none := by decide
example : roadClassesOfQuery [("motorway", 1)] exQuery = none := by decide
example : roadClassesOfQuery [] (.obj [("road_classes", .arr [.num "3" 3, .num "7" 7])]) = some (some [3, 7]) := by decide
example : roadClassesOfQuery [] (.obj [("road_classes", .arr [.num "256" 256])]) = none := by decide

/-! ### Non-vacuity of the search-level theorems

`permConfig`: five edges 0: 0→1, 1: 1→3, 2: 0→2, 3: 2→3, 4: 0→3 (a 10 m shortcut); a road-class
model (classes 0 and 1 allowed; the shortcut is class 2), a vehicle-restriction model (edge 1: at
most 3 short tons in total — the vehicle weighs 8000 kg ≈ 8.8 tons; edge 3: at most 2 tons per axle,
five axles, and at most 5 m of height, both met), an edge cut (edge 0) and a turn-restriction model,
combined.  Dijkstra from 0 to 3 must go round by `[2, 3]`. -/

def permConfig : Config ℚ where
  nV := 4
  edges := [⟨0, 1, 100⟩, ⟨1, 3, 100⟩, ⟨0, 2, 300⟩, ⟨2, 3, 300⟩, ⟨0, 3, 10⟩]
  outAdj := [[0, 2, 4], [1], [3], []]
  inAdj := [[], [0], [2], [1, 3, 4]]
  feats := [{ name := "distance", kind := .dist .meters, init := 0 }]
  trav := .distance .meters
  access := .noAccess
  cost := { indices := [0], weights := [1], vehicleRates := [.raw], networkRates := [.zero], agg := .sum }
  frontier := [.roadClass (some [0, 1]) [0, 0, 1, 1, 2],
    .vehicle [(1, [.weight false 3 .tons]), (3, [.weight true 2 .tons, .length 4 5 .meters])]
      { height := (4, .meters), width := (5 / 2, .meters), totalLength := (20, .meters),
        trailerLength := (10, .meters), totalWeight := (8000, .kg), axles := 5 },
    .edgeCut [0], .turnRestriction [(0, 1), (4, 3)]]
  term := .combined []
  reverse := false
  gc := [0, 0, 0, 0]
  wf := some 0

/-- (parent, edge) of the tree entry of `v` in a result of `run_a_star` -/
def entryOf (r : Except ErrKind (SState ℚ)) (v : Nat) : Option (Nat × Nat) :=
  match r with
  | .ok s => (s.sol v).map (fun b => (b.terminal, b.edge))
  | .error _ => none

/-- three edges are forbidden, one by each model; the run avoids them, and `config_edges_permitted`
says so of every element of the route it returned -/
example : ∃ r, permConfig.runVertex 0 (some 3) [0, 2, 3] = .ok r ∧
    routeEdgesOf (permConfig.runVertex 0 (some 3) [0, 2, 3]) = some [[2, 3]] ∧
    permConfig.okOf 0 = false ∧ permConfig.okOf 1 = false ∧ permConfig.okOf 4 = false ∧
    ∀ route ∈ r.routes, ∀ b ∈ route,
      permConfig.okOf b.edge = true ∧ ∀ m ∈ permConfig.frontier, EdgeAllowedBy m b.edge := by
  have hobs : routeEdgesOf (permConfig.runVertex 0 (some 3) [0, 2, 3]) = some [[2, 3]] := by
    decide +kernel
  cases hr : permConfig.runVertex 0 (some 3) [0, 2, 3] with
  | error k => rw [hr] at hobs; simp [routeEdgesOf] at hobs
  | ok r =>
    exact ⟨r, rfl, by rw [← hr]; exact hobs, by decide +kernel, by decide +kernel, by decide +kernel,
      (config_edges_permitted permConfig hr).2⟩

/-- `tree_edges_valid` on that run: the entry of vertex 3 carries edge 3 and was written in the turn
of a scheduled vertex `u` at which edge 3 is listed -/
example : ∃ s b, runAStar permConfig.inst 0 (some 3) [0, 2, 3] = .ok s ∧ s.sol 3 = some b ∧
    b.edge = 3 ∧ ∃ pre₀ u, (pre₀ ++ [u]) <+: [0, 2, 3] ∧ b.edge ∈ permConfig.inst.incident u := by
  have hobs : entryOf (runAStar permConfig.inst 0 (some 3) [0, 2, 3]) 3 = some (2, 3) := by
    decide +kernel
  cases hs : runAStar permConfig.inst 0 (some 3) [0, 2, 3] with
  | error k => rw [hs] at hobs; cases hobs
  | ok s =>
    rw [hs] at hobs
    simp only [entryOf] at hobs
    cases hb : s.sol 3 with
    | none => rw [hb] at hobs; cases hobs
    | some b =>
      rw [hb] at hobs
      simp only [Option.map_some, Option.some.injEq, Prod.mk.injEq] at hobs
      obtain ⟨_, _, f0, pre₀, h₀, u, le, st, _, _, hpre, hinc, _⟩ :=
        tree_edges_valid _ _ _ _ s hs 3 b hb
      exact ⟨s, b, rfl, hb, hobs.2, pre₀, u, hpre, hinc⟩

/-- `dijkstra_tree_edges_valid` with a turn restriction: the re-opening witness under Dijkstra
(weight factor 0), destination-less: vertex 2 is entered by edge 2 from vertex 1, accepted for the
pair (state of 1's entry, previous edge 1) of the returned tree; edge 3 is then refused (turn (2,3)),
so vertices 3 and 4 stay out of the tree -/
def staleTurnDijkstra : Config ℚ := { staleTurnConfig with wf := some 0 }

example : ∃ s b bu, runAStar staleTurnDijkstra.inst 0 none [0, 1, 2] = .ok s ∧
    s.sol 2 = some b ∧ s.sol b.terminal = some bu ∧ s.sol 3 = none ∧
    staleTurnDijkstra.inst.valid b.edge bu.state (some bu.edge) = .ok true := by
  have hobs : entryOf (runAStar staleTurnDijkstra.inst 0 none [0, 1, 2]) 2 = some (1, 2) ∧
      entryOf (runAStar staleTurnDijkstra.inst 0 none [0, 1, 2]) 3 = none := by decide +kernel
  have hadj : staleTurnDijkstra.AdjConsistent := by
    intro v e he
    match v with
    | 0 => simp [Config.inst, staleTurnDijkstra, staleTurnConfig] at he; rcases he with rfl | rfl <;> rfl
    | 1 => simp [Config.inst, staleTurnDijkstra, staleTurnConfig] at he; subst he; rfl
    | 2 => simp [Config.inst, staleTurnDijkstra, staleTurnConfig] at he; subst he; rfl
    | 3 => simp [Config.inst, staleTurnDijkstra, staleTurnConfig] at he; subst he; rfl
    | 4 => simp [Config.inst, staleTurnDijkstra, staleTurnConfig] at he
    | n + 5 => simp [Config.inst, staleTurnDijkstra, staleTurnConfig] at he
  cases hs : runAStar staleTurnDijkstra.inst 0 none [0, 1, 2] with
  | error k => rw [hs] at hobs; cases hobs.1
  | ok s =>
    rw [hs] at hobs
    simp only [entryOf] at hobs
    obtain ⟨h2, h3⟩ := hobs
    cases hb : s.sol 2 with
    | none => rw [hb] at h2; cases h2
    | some b =>
      rw [hb] at h2
      simp only [Option.map_some, Option.some.injEq, Prod.mk.injEq] at h2
      have h3' : s.sol 3 = none := by
        cases h : s.sol 3 with
        | none => rfl
        | some x => rw [h] at h3; cases h3
      rcases dijkstra_tree_edges_valid staleTurnDijkstra hadj rfl hs hb with ⟨h0, _⟩ | ⟨_, bu, hbu, hv, _⟩
      · rw [h2.1] at h0; cases h0
      · exact ⟨s, b, bu, rfl, hb, hbu, h3', hv⟩

/-- `consistent_tree_edges_valid` on the A* run of `SearchDiscipline.Example.instA` (a consistent,
non-zero heuristic; a restricted turn and a turn delay) -/
example : ∃ s, runAStar SearchDiscipline.Example.instA 0 (some 3) [0, 1, 2, 3] = .ok s ∧
    ∀ v b, s.sol v = some b →
      (b.terminal = 0 ∧ SearchDiscipline.Example.instA.valid b.edge SearchDiscipline.Example.instA.init none = .ok true) ∨
      (b.terminal ≠ 0 ∧ ∃ bu, s.sol b.terminal = some bu ∧
        SearchDiscipline.Example.instA.valid b.edge bu.state (some bu.edge) = .ok true) := by
  have hobs : entryOf (runAStar SearchDiscipline.Example.instA 0 (some 3) [0, 1, 2, 3]) 3 = some (2, 4) := by
    decide +kernel
  cases hs : runAStar SearchDiscipline.Example.instA 0 (some 3) [0, 1, 2, 3] with
  | error k => rw [hs] at hobs; cases hobs
  | ok s =>
    refine ⟨s, rfl, fun v b hb => ?_⟩
    rcases consistent_tree_edges_valid SearchDiscipline.Example.instA_wf
      (target := some 3) SearchDiscipline.Example.instA_heur hs hb with ⟨h1, h2, _⟩ | ⟨h1, bu, h2, h3, _⟩
    · exact Or.inl ⟨h1, h2⟩
    · exact Or.inr ⟨h1, bu, h2, h3⟩

/-- forward Dijkstra with a restricted turn on the way: edges 0: 0→1, 1: 1→2, 2: 0→2 (long), turn
(0,1) restricted: the route is `[2]`, and `dijkstra_route_no_restricted_turn_forward` applies -/
def detourConfig : Config ℚ :=
  { seamConfig with
    nV := 3
    edges := [⟨0, 1, 10⟩, ⟨1, 2, 10⟩, ⟨0, 2, 100⟩]
    outAdj := [[0, 2], [1], []]
    inAdj := [[], [0], [1, 2]]
    gc := [0, 0, 0] }

example : ∃ res route, runVertexOriented detourConfig.inst 0 (some 2) [0, 1, 2] = .ok res ∧
    res.route = some route ∧ route.map (·.edge) = [2] ∧
    ∀ i (hi : i + 1 < route.length), (route[i].edge, route[i + 1].edge) ∉ [(0, 1)] := by
  have hobs : routeEdgesOf (detourConfig.runVertex 0 (some 2) [0, 1, 2]) = some [[2]] := by
    decide +kernel
  have hadj : detourConfig.AdjConsistent := by
    intro v e he
    match v with
    | 0 => simp [Config.inst, detourConfig, seamConfig] at he; rcases he with rfl | rfl <;> rfl
    | 1 => simp [Config.inst, detourConfig, seamConfig] at he; subst he; rfl
    | 2 => simp [Config.inst, detourConfig, seamConfig] at he
    | n + 3 => simp [Config.inst, detourConfig, seamConfig] at he
  cases hr : detourConfig.runVertex 0 (some 2) [0, 1, 2] with
  | error k => rw [hr] at hobs; simp [routeEdgesOf] at hobs
  | ok r =>
    obtain ⟨res, hres, _, hroutes, _⟩ := SearchRoute.runVertex_ok hr
    obtain ⟨route, h1, h2⟩ := dijkstra_route_no_restricted_turn_forward detourConfig hadj rfl rfl
      (by decide) hres
    rw [hr] at hobs
    simp only [routeEdgesOf, hroutes, h1, Option.toList_some, List.map_cons, List.map_nil,
      Option.some.injEq, List.cons.injEq, and_true] at hobs
    exact ⟨res, route, hres, h1, hobs, h2 [(0, 1)] (by simp [detourConfig, seamConfig])⟩

/-- no axles: over ℚ as in f64 a vehicle of positive weight meets no per-axle limit (the quotient is
+∞), however generous -/
example : (Restriction.weight true (1000000 : ℚ) .kg).valid
    { height := (1, .meters), width := (1, .meters), totalLength := (1, .meters),
      trailerLength := (1, .meters), totalWeight := (1, .kg), axles := 0 } = false := by
  decide +kernel

/-! ### Non-vacuity -/
example : (FrontierM.roadClass (α := ℚ) (some [1, 2]) [0, 2, 5]).valid 1 none = some true := by decide
example : (FrontierM.roadClass (α := ℚ) (some [1, 2]) [0, 2, 5]).valid 2 none = some false := by decide
example : (FrontierM.turnRestriction (α := ℚ) [(3, 4)]).valid 4 (some 3) = some false := by decide
example : frontierValid (α := ℚ) [.edgeCut [7], .roadClass (some [1]) [1, 1]] 1 none = .ok true := by decide

/-! ### Non-vacuity: serde's other spellings are read, the near misses refused -/

example :
    Build.dimOfJson (fun b => (b : ℚ)) (some (.arr [.num "5.0" 5, .obj [("feet", .null)]])) = some (5, .feet) ∧
    Build.dimOfJson (fun b => (b : ℚ)) (some (.arr [.num "5.0" 5, .obj [("feet", .obj [])]])) = none ∧
    Build.dimOfJson (fun b => (b : ℚ)) (some (.arr [.num "5.0" 5, .obj [("feet", .null), ("x", .null)]])) = none ∧
    Build.distanceBuild (.obj [("type", .str "distance"), ("distance_unit", .obj [("miles", .null)])]) = .ok .miles ∧
    Build.roadClassParserOfConfig (.obj [("road_class_parser", .arr [.obj [("class1", .num "1" 0)]])]) =
      Build.roadClassParserOfConfig
        (.obj [("road_class_parser", .obj [("mapping", .obj [("class1", .num "1" 0)])])]) ∧
    Build.roadClassParserOfConfig (.obj [("road_class_parser", .arr [])]) = none := by
  decide +kernel


end C04
end Compass

namespace Compass
namespace C04
open Src

/-! ### Source decision ties

The relational operators at the named comparison sites of the Rust source are re-extracted on every run
by `tools/gen_model.py` into `Compass/Gen/Decisions.lean` (`Src.<site> : Src.Rel`).  Each theorem below
says that the hand-written model decides at that site by exactly the operator the source has there
(`Rel.nat` / `Rel.int` / `Rel.num` interpret the extracted operator; an unrecognised line is `none`).  A
source change that turns `<` into `<=`, `>` into `>=`, … at a site changes the generated constant and this
proof obligation stops checking, whether or not a generated case lands on the tie. -/







/-- shared by every search property: the label test of `run_a_star`'s relaxation (`improves`) is the
source's `tentative_gscore < existing_gscore`; with `<=` an equal-cost arrival re-labels an expanded vertex -/
theorem src_relax_improves {α : Type} [Field α] [LinearOrder α] [IsStrictOrderedRing α] [Lit α] [LawfulLit α] (tent ex : α) :
    some (improves tent (some ex)) = relax_improves.num tent ex := by
  simp [improves, relax_improves, Rel.num]


/-! ### Generated function bodies

`tools/gen_fns.py` re-translates the body of the Rust function on every run into `Compass/Gen/FnsC04.lean`
(conventions in the header of the tool).  Each `gen_*_eq` theorem below says that the generated definition
*is* the hand-written model function the property theorems are about.  A source change to the function
changes the generated definition and the proof stops checking (a body the translator no longer recognises is
not emitted: the theorem no longer elaborates). -/

/-! `VehicleRestriction::valid` is translated arm by arm (the model's `Restriction` folds the six variants into a
per-axle flag and a dimension selector): each arm of the source is the model's `valid` at the constructor that
stands for the variant. -/

theorem gen_valid_total_weight_eq {α : Type} [Field α] [LinearOrder α] [IsStrictOrderedRing α] [Lit α] [LawfulLit α] (x : α) (u : WeightUnit) (p : VehicleParams α) :
    Gen.VehicleRestriction_valid_MaximumTotalWeight (x, u) p = (Restriction.weight false x u).valid p := by
  simp [Gen.VehicleRestriction_valid_MaximumTotalWeight, Restriction.valid]

/-- the source divides by `number_of_axles as f64` as it is; the model spells out what IEEE division by zero
does (`perAxleOk`), which is outside a field: the two agree for a vehicle with axles -/
theorem gen_valid_weight_per_axle_eq {α : Type} [Field α] [LinearOrder α] [IsStrictOrderedRing α] [Lit α] [LawfulLit α] (x : α) (u : WeightUnit) (p : VehicleParams α) (h : p.axles ≠ 0) :
    Gen.VehicleRestriction_valid_MaximumWeightPerAxle (x, u) p = (Restriction.weight true x u).valid p := by
  simp [Gen.VehicleRestriction_valid_MaximumWeightPerAxle, Restriction.valid, perAxleOk, h]

theorem gen_valid_length_eq {α : Type} [Field α] [LinearOrder α] [IsStrictOrderedRing α] [Lit α] [LawfulLit α] (x : α) (u : DistanceUnit) (p : VehicleParams α) :
    Gen.VehicleRestriction_valid_MaximumLength (x, u) p = (Restriction.length 2 x u).valid p := by
  simp [Gen.VehicleRestriction_valid_MaximumLength, Restriction.valid]

theorem gen_valid_width_eq {α : Type} [Field α] [LinearOrder α] [IsStrictOrderedRing α] [Lit α] [LawfulLit α] (x : α) (u : DistanceUnit) (p : VehicleParams α) :
    Gen.VehicleRestriction_valid_MaximumWidth (x, u) p = (Restriction.length 3 x u).valid p := by
  simp [Gen.VehicleRestriction_valid_MaximumWidth, Restriction.valid]

theorem gen_valid_height_eq {α : Type} [Field α] [LinearOrder α] [IsStrictOrderedRing α] [Lit α] [LawfulLit α] (x : α) (u : DistanceUnit) (p : VehicleParams α) :
    Gen.VehicleRestriction_valid_MaximumHeight (x, u) p = (Restriction.length 4 x u).valid p := by
  simp [Gen.VehicleRestriction_valid_MaximumHeight, Restriction.valid]

theorem gen_valid_trailer_length_eq {α : Type} [Field α] [LinearOrder α] [IsStrictOrderedRing α] [Lit α] [LawfulLit α] (x : α) (u : DistanceUnit) (p : VehicleParams α) :
    Gen.VehicleRestriction_valid_MaximumTrailerLength (x, u) p = (Restriction.length 5 x u).valid p := by
  simp [Gen.VehicleRestriction_valid_MaximumTrailerLength, Restriction.valid]

end C04
end Compass
