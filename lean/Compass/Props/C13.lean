/-
C13 — k-shortest-paths returns up to k valid, distinct routes, best first, and ends.

Model: `Model/Ksp.lean` (`single_via_paths_algorithm::run`, `yens_algorithm::run`,
`KspTerminationCriteria`, `KspQuery`, `RouteSimilarityFunction`, `reorient_reverse_route`,
`route_contains_loop`) over the search model of `Model/Search.lean` and the concrete instances of
`Model/Instance.lean`.

PART A, single-via: all statements are for every configuration whose adjacency lists agree with the
edge list in both directions (what the loader guarantees, C15), every origin / destination, every
`k`, every termination criterion, an ARBITRARY similarity test
`sim : List Nat → List Nat → Except ErrKind Bool` (edge-id lists of candidate and accepted route; it
may even fail), every schedule of the two underlying searches (Dijkstra and A* alike: the heuristic
is a field of the instance) and every replayed pop sequence of the intersection queue.
Routes are read in graph orientation (`Ksp.GWalk`).

Naming: a theorem whose name ends in `_partial` proves a clause of the property on a stated
sub-case only; its docstring gives the full clause, what is excluded and why, and the
`…_counterexample` next to it (or the one named there) shows the clause false of the faithful model
outside the sub-case.  Theorems whose docstring says "by definition of the model" unfold a
definition: what they state about the code rests on the correspondence run, not on the proof.

MODELLED RATHER THAN VERIFIED (what the statements below do not cover):
* numbers are an ordered field with exact arithmetic (`Field α`, ℚ in the examples); the code
  computes in `f64`.  The driver runs the same model at `Float` and is compared with the code
  case by case, but no theorem speaks about rounding.  In particular the cosine of an EMPTY route
  (origin = destination) is `0/0 = 0` in a field and NaN in the code (`NaN >= threshold` is false:
  the same decision for every positive threshold, a different one for a threshold ≤ 0), and a
  distance-weighted threshold within 1e-9 of a rank is skipped by the harness.
* the cosine similarity functions (`Ksp.cosSimilarity`) are part of the model, their decision rule
  and totality are stated (`similarity_decision`, `similarity_never_fails_on_graph_edges`), but no
  theorem says what the cosine VALUE is; every route-level theorem is for an arbitrary `sim`.
* `HashMap` / `InternalPriorityQueue` iteration and tie-breaking order are not modelled: the order
  of equal-priority pops is a replayed input (`fs rs pops`, `scheds`), each pop checked by `popOk`.
  The theorems hold for every accepted replay; that the code's order IS an accepted replay is
  evidenced by the correspondence run only.  `.scheduleExhausted` / `.badSchedule` are outcomes of
  the model alone.
* trees, labels and adjacency are total functions / `getD` lookups in the model where the code has
  `HashMap::get` and `Result`s: the model's `Config.inst.valid` ignores the state (true of the four
  frontier models the model knows, not of the `FrontierModel` trait), `initialState` is total, a
  missing edge id reads as vertex 0 in `keyV` / `termV` (every use is guarded by the edge lookup).
* `run_edge_oriented` around the two algorithms (`Ksp.runEdgeWith`, `runEdgeWithOutcome`: a
  zero-cost element for the origin and destination edge around every route) is modelled and
  compared case by case; no theorem here is about it (C01 owns the wrapper).
* origin = destination: `single_via_routes_valid`, `single_via_failures`, `yens_routes_valid` and
  what is derived from them assume `target ≠ source` (the property quantifies over routes of at
  least one edge); the other Yen theorems and the witnesses cover the empty route.
* termination of the underlying `run_a_star` and of `backtrack` is C01's subject; here only the
  loops of the two k-shortest-paths algorithms are shown to end.
-/
import Compass.Model.Search
import Compass.Gen.Decisions
import Compass.Gen.FnsC13
import Compass.Proofs.Num
import Compass.Model.Ksp
import Compass.Proofs.Ksp

namespace Compass
namespace C13

open Ksp SearchTree

set_option linter.unusedSectionVars false

variable {α : Type} [Field α] [LinearOrder α] [IsStrictOrderedRing α] [Lit α] [LawfulLit α]

/-! ## `KspTerminationCriteria::terminate_search`, as coded -/

/-- (by definition of the model — `KspTerm.terminate` is the transcription of `terminate_search`,
compared with the code on every `u64` edge case by the `kterm` stream)
every criterion stops only at exactly `k` routes; `Exact` stops exactly then; `MaxIteration`
additionally needs `k ≤ max` and `Factor` `k ≤ factor * k` — so `MaxIteration {max < k}` and
`Factor {0}` never stop the loop (it then runs until the queue is empty and `take(k)` truncates) -/
theorem terminate_search_spec (t : KspTerm) (k n : Nat) :
    (t.terminate k n = true → n = k) ∧
    (KspTerm.exact.terminate k n = true ↔ n = k) ∧
    (∀ max, (KspTerm.maxIteration max).terminate k n = true ↔ n = k ∧ k ≤ max) ∧
    (∀ f, (KspTerm.factor f).terminate k n = true ↔ n = k ∧ k ≤ f * n) := by
  refine ⟨terminate_length, ?_, ?_, ?_⟩ <;> simp [KspTerm.terminate]

/-- `k = 0`: the solution starts with one route, so no criterion ever fires; the loop drains the
whole intersection queue and `take(0)` returns no route -/
theorem terminate_search_k_zero (t : KspTerm) (n : Nat) : t.terminate 0 (n + 1) = false := by
  cases t <;> simp [KspTerm.terminate]

/-- (by definition of the model, `Ksp.kspK`)
`KspQuery::new`: `k` is the query's `"k"` when that field is present and an unsigned integer, a
build error when it is present and anything else (`as_u64` is `None`: a float, a string, a
negative number, `null` — exercised on the real code by the harness),
and the configured value when it is absent -/
theorem ksp_query_k_spec (kDefault : Nat) :
    kspK none kDefault = .ok kDefault ∧
    (∀ j n, j.asU64? = some n → kspK (some j) kDefault = .ok n) ∧
    (∀ j, j.asU64? = none → kspK (some j) kDefault = .error .build) ∧
    (∀ s, kspK (some (.str s)) kDefault = .error .build) ∧
    kspK (some .null) kDefault = .error .build := by
  refine ⟨rfl, ?_, ?_, fun s => rfl, rfl⟩
  · intro j n h; simp [kspK, h]
  · intro j h; simp [kspK, h]

/-! ## single-via: count, order, termination -/

/-- **between one and k routes**: never more than `k`; at least one as soon as `k ≥ 1` (the
underlying search answered the query, otherwise the result is that search's error) -/
theorem single_via_count {c : Config α} {g : List α}
    {sim : List Nat → List Nat → Except ErrKind Bool} {term : KspTerm} {source target k : Nat}
    {fs rs pops : List Nat} {r : AlgResult α}
    (h : singleVia c g sim term source target k fs rs pops = .ok r) :
    r.routes.length ≤ k ∧ (1 ≤ k → 1 ≤ r.routes.length) := by
  obtain ⟨fres, tsp, _, _, ⟨_, rfl⟩ | ⟨rres, sol, it, _, hloop, rfl⟩⟩ := singleVia_ok h
  · simp only [List.length_take, List.length_singleton]
    omega
  · have hlen := svLoop_length_le _ _ _ _ _ hloop
    simp only [List.length_singleton] at hlen
    simp only [List.length_take]
    omega

/-- **the algorithm ends**: when the reverse search fails (other than by a limit, which fails the
query) there is no loop at all (`iterations` is
the forward search's count); otherwise the loop is structurally recursive on the replayed pops, and
every turn — a dropped candidate included — removes one entry of the intersection queue:
`iterations` is the two searches' count plus at most one turn per intersection entry, of which
there are at most `nV` -/
theorem single_via_terminates {c : Config α} {g : List α}
    {sim : List Nat → List Nat → Except ErrKind Bool} {term : KspTerm} {source target k : Nat}
    {fs rs pops : List Nat} {r : AlgResult α}
    (h : singleVia c g sim term source target k fs rs pops = .ok r) :
    ∃ fres, runVertexOriented c.fwd.inst source (some target) fs = .ok fres ∧
      (((∃ e, runVertexOriented (c.rev g).inst target (some source) rs = .error e ∧
            e.stopsQuery = false) ∧
          r.iterations = fres.final.iters) ∨
       ∃ rres turns,
        runVertexOriented (c.rev g).inst target (some source) rs = .ok rres ∧
        r.iterations = fres.final.iters + rres.final.iters + turns ∧
        turns ≤ (interQueue c.nV fres.final.sol rres.final.sol).length ∧
        (interQueue c.nV fres.final.sol rres.final.sol).length ≤ c.nV) := by
  obtain ⟨fres, tsp, h1, _, ⟨he, rfl⟩ | ⟨rres, sol, it, h2, hloop, rfl⟩⟩ := singleVia_ok h
  · exact ⟨fres, h1, Or.inl ⟨he, rfl⟩⟩
  · have := (svLoop_turns _ _ _ _ _ hloop).2
    refine ⟨fres, h1, Or.inr ⟨rres, it, h2, rfl, by simpa using this, ?_⟩⟩
    unfold interQueue
    exact (List.length_filterMap_le _ _).trans (by simp)

/-- **best first**: the first returned route is the route of the underlying forward search -/
theorem single_via_first_is_underlying_route {c : Config α} {g : List α}
    {sim : List Nat → List Nat → Except ErrKind Bool} {term : KspTerm} {source target k : Nat}
    {fs rs pops : List Nat} {r : AlgResult α} (hk : 1 ≤ k)
    (h : singleVia c g sim term source target k fs rs pops = .ok r) :
    ∃ fres, runVertexOriented c.fwd.inst source (some target) fs = .ok fres ∧
      r.routes.head? = fres.route := by
  obtain ⟨fres, tsp, h1, htsp, ⟨_, rfl⟩ | ⟨rres, sol, it, _, hloop, rfl⟩⟩ := singleVia_ok h
  · refine ⟨fres, h1, ?_⟩
    rw [tsp_eq_route h1 htsp]
    cases k with
    | zero => omega
    | succ k => simp
  · refine ⟨fres, h1, ?_⟩
    rw [tsp_eq_route h1 htsp]
    have := svLoop_head tsp _ _ _ _ _ rfl hloop
    cases sol with
    | nil => simp at this
    | cons a rest =>
      simp only [List.head?_cons, Option.some.injEq] at this
      subst this
      cases k with
      | zero => omega
      | succ k => simp

/-- **the first route is a least-cost route** — PARTIAL: proved for EDGE-LOCAL configurations
(`Config.EdgeLocal`: consistent adjacency, no access model, no turn restriction — the cost of an edge
does not depend on how it was reached), a non-negative weight factor and an estimate that is
admissible for the destination (`SearchOpt.Admissible` of the configuration's own `Config.hOf`;
C02 proves it for the distance and speed-table estimates on metrically consistent networks).  Then
the first returned route is a valid walk origin ⇝ destination, its summed cost is `Σ costOf` over
its edges, and no valid walk origin ⇝ destination costs less.

Full clause: "the first route is a least-cost route", for every configuration and both underlying
searches.  Excluded, because C02 itself does not prove it there: configurations with an access model
(turn delays) or turn restrictions — the cost of an edge then depends on the previous edge and a
vertex-labelling search is not optimal over walks in general — and estimates that are not admissible
(A* with weight factor > 1 returns dearer routes by design).  What holds without any premise is
`single_via_first_is_underlying_route`: the first route IS the underlying search's route, so
whatever C02 establishes about that search carries over.  (The earlier version of this theorem
assumed `SearchOpt.Uniform`, which no `Config.inst` satisfies, and was vacuous.) -/
theorem single_via_first_least_cost_partial {c : Config α} {g : List α}
    {sim : List Nat → List Nat → Except ErrKind Bool} {term : KspTerm} {source target k : Nat}
    {fs rs pops : List Nat} {r : AlgResult α} (hk : 1 ≤ k) (hts : target ≠ source)
    (hEL : c.fwd.EdgeLocal) (hwf : 0 ≤ c.fwd.wfOf)
    (hadm : SearchOpt.Admissible c.fwd.inst c.fwd.okOf c.fwd.costOf c.fwd.hOf target)
    (h : singleVia c g sim term source target k fs rs pops = .ok r) :
    ∃ first, r.routes.head? = some first ∧ first ≠ [] ∧
      SearchOpt.Walk c.fwd.inst c.fwd.okOf source (first.map (·.edge)) target ∧
      (first.map (fun b => b.access + b.traversal)).sum =
        SearchOpt.cost c.fwd.costOf (first.map (·.edge)) ∧
      ∀ es, SearchOpt.Walk c.fwd.inst c.fwd.okOf source es target →
        (first.map (fun b => b.access + b.traversal)).sum ≤ SearchOpt.cost c.fwd.costOf es := by
  obtain ⟨fres, h1, h2⟩ := single_via_first_is_underlying_route hk h
  obtain ⟨first, hr, rest⟩ := first_route_least_cost c.fwd hEL hwf hts hadm h1
  exact ⟨first, by rw [h2, hr], rest⟩

/-- the same for **Dijkstra** as the underlying search (weight factor 0): no admissibility premise —
every edge-local configuration, whatever its weights, rates, lengths, features and tables -/
theorem single_via_first_least_cost_dijkstra_partial {c : Config α} {g : List α}
    {sim : List Nat → List Nat → Except ErrKind Bool} {term : KspTerm} {source target k : Nat}
    {fs rs pops : List Nat} {r : AlgResult α} (hk : 1 ≤ k) (hts : target ≠ source)
    (hEL : c.fwd.EdgeLocal) (hwf : c.fwd.wf = some 0)
    (h : singleVia c g sim term source target k fs rs pops = .ok r) :
    ∃ first, r.routes.head? = some first ∧ first ≠ [] ∧
      SearchOpt.Walk c.fwd.inst c.fwd.okOf source (first.map (·.edge)) target ∧
      (first.map (fun b => b.access + b.traversal)).sum =
        SearchOpt.cost c.fwd.costOf (first.map (·.edge)) ∧
      ∀ es, SearchOpt.Walk c.fwd.inst c.fwd.okOf source es target →
        (first.map (fun b => b.access + b.traversal)).sum ≤ SearchOpt.cost c.fwd.costOf es :=
  single_via_first_least_cost_partial hk hts hEL (by simp [Config.wfOf, hwf])
    (c.fwd.admissible_dijkstra hwf target) h

/-! ## single-via: every route is a valid loop-free origin → destination walk -/

/-- **every returned route** (the first and every alternative) is a contiguous walk from the origin
to the destination in graph orientation, passes `route_contains_loop` (the source vertices of its
edges are pairwise distinct: no vertex is left twice) and therefore repeats no edge -/
theorem single_via_routes_valid {c : Config α} {g : List α} (hf : c.fwd.AdjConsistent)
    (hr : (c.rev g).AdjConsistent) {sim : List Nat → List Nat → Except ErrKind Bool}
    {term : KspTerm} {source target k : Nat} (hts : target ≠ source) {fs rs pops : List Nat}
    {r : AlgResult α} (h : singleVia c g sim term source target k fs rs pops = .ok r) :
    ∀ route ∈ r.routes,
      GWalk c.edges source (route.map (·.edge)) target ∧
      (∃ vs, srcVertices c.fwd route = .ok vs ∧ vs.Nodup) ∧
      (route.map (·.edge)).Nodup := by
  obtain ⟨fres, tsp, h1, htsp, hcase⟩ := singleVia_ok h
  obtain ⟨hinvF, hedgesF⟩ := fwd_tree_of_run c hf hts h1
  obtain ⟨hwT, hlT, _⟩ := fwd_backtrack_walk' hinvF hedgesF htsp
  have hgood : ∀ route, GWalk c.edges source (route.map (·.edge)) target →
      routeContainsLoop c.fwd route = .ok false →
      GWalk c.edges source (route.map (·.edge)) target ∧
      (∃ vs, srcVertices c.fwd route = .ok vs ∧ vs.Nodup) ∧ (route.map (·.edge)).Nodup := by
    intro route hw hl
    obtain ⟨vs, hvs, hnd, hed⟩ := routeContainsLoop_false hl
    exact ⟨hw, ⟨vs, hvs, hnd⟩, hed⟩
  rcases hcase with ⟨_, rfl⟩ | ⟨rres, sol, it, h2, hloop, rfl⟩
  · intro route hroute
    have := List.mem_of_mem_take hroute
    simp only [List.mem_singleton] at this
    subst this
    exact hgood _ hwT hlT
  · have T := trees_of_runs c g hf hr hts h1 h2
    have hall : ∀ route ∈ sol, GWalk c.edges source (route.map (·.edge)) target ∧
        routeContainsLoop c.fwd route = .ok false := by
      refine svLoop_invariant (fun s => ∀ route ∈ s,
        GWalk c.edges source (route.map (·.edge)) target ∧
        routeContainsLoop c.fwd route = .ok false) ?_ _ _ _ _ _ ?_ hloop
      · intro s v this hs hcand hl _ _ route hroute
        rcases List.mem_append.1 hroute with hm | hm
        · exact hs route hm
        · simp only [List.mem_singleton] at hm
          subst hm
          exact ⟨(svCandidate_walk T hcand).1, hl⟩
      · intro route hroute
        simp only [List.mem_singleton] at hroute
        subst hroute
        exact ⟨hwT, hlT⟩
    intro route hroute
    obtain ⟨hw, hl⟩ := hall route (List.mem_of_mem_take hroute)
    exact hgood _ hw hl

/-- what an alternative route is: the forward backtrack to a via vertex `v` followed by a forward
re-accumulation, permitted by the frontier model in travel order -/
def IsAlternative (c : Config α) (source target : Nat) (fwdSol : Nat → Option (Branch α))
    (fwdSize : Nat) (route : List (Branch α)) : Prop :=
  ∃ v fwdRoute revRoute,
    route = fwdRoute ++ revRoute ∧
    backtrack source v fwdSol (fwdSize + 1) = .ok fwdRoute ∧
    GWalk c.edges source (fwdRoute.map (·.edge)) v ∧
    GWalk c.edges v (revRoute.map (·.edge)) target ∧
    (∀ b ∈ fwdRoute, ∃ u, fwdSol u = some b) ∧
    Reaccumulated c.fwd (lastEdge fwdRoute) (lastState c.fwd fwdRoute) revRoute ∧
    PermittedFrom c.fwd (initialState c.fwd.feats) none route

/-- every route after the first is an `IsAlternative` of the forward tree -/
theorem single_via_alternatives {c : Config α} {g : List α} (hf : c.fwd.AdjConsistent)
    (hr : (c.rev g).AdjConsistent) {sim : List Nat → List Nat → Except ErrKind Bool}
    {term : KspTerm} {source target k : Nat} (hts : target ≠ source) {fs rs pops : List Nat}
    {r : AlgResult α} (h : singleVia c g sim term source target k fs rs pops = .ok r) :
    ∃ fres, runVertexOriented c.fwd.inst source (some target) fs = .ok fres ∧
    ∀ route ∈ r.routes.tail,
      IsAlternative c source target fres.final.sol fres.final.solSize route := by
  obtain ⟨fres, tsp, h1, htsp, ⟨_, rfl⟩ | ⟨rres, sol, it, h2, hloop, rfl⟩⟩ := singleVia_ok h
  · refine ⟨fres, h1, ?_⟩
    intro route hroute
    cases k with
    | zero => simp at hroute
    | succ k => simp at hroute
  · have T := trees_of_runs c g hf hr hts h1 h2
    refine ⟨fres, h1, ?_⟩
    have hall := svLoop_invariant (fun s => s ≠ [] ∧ ∀ route ∈ s.tail,
        IsAlternative c source target fres.final.sol fres.final.solSize route)
        ?_ _ _ _ _ _ ?_ hloop
    · intro route hroute
      apply hall.2 route
      cases k with
      | zero => simp at hroute
      | succ k =>
        cases sol with
        | nil => simp at hroute
        | cons a rest =>
          simp only [List.take_succ_cons, List.tail_cons] at hroute ⊢
          exact List.mem_of_mem_take hroute
    · intro s v this hs hcand _ hperm _
      refine ⟨by simp, ?_⟩
      intro route hroute
      cases s with
      | nil => exact absurd rfl hs.1
      | cons a rest =>
        simp only [List.cons_append, List.tail_cons] at hroute
        rcases List.mem_append.1 hroute with hm | hm
        · exact hs.2 route (by simpa using hm)
        · simp only [List.mem_singleton] at hm
          subst hm
          obtain ⟨_, fr, rr, e1, e2, e3, e4, e5, e6⟩ := svCandidate_walk T hcand
          exact ⟨v, fr, rr, e1, e2, e3, e4, e5, e6,
            (routePermitted_iff c.fwd _ _ _).1 hperm⟩
    · exact ⟨by simp, by simp⟩

/-- **the re-created half of an alternative carries correctly accumulated state** (every
configuration, Dijkstra and A*): every route after the first is
`fwdRoute ++ revRoute` for some intersection vertex `v`, where `fwdRoute` is the backtrack of the
forward tree to `v` (its elements are that tree's entries, a walk origin ⇝ `v`) and `revRoute` is a
walk `v` ⇝ destination each of whose elements is `EdgeTraversal::forward_traversal` of its edge from
the previous element's edge and state, starting from the last edge and state of `fwdRoute`.
This says nothing about the state INSIDE `fwdRoute` (nor about the first route): that is
`single_via_routes_state_partial`. -/
theorem single_via_alternative_state {c : Config α} {g : List α} (hf : c.fwd.AdjConsistent)
    (hr : (c.rev g).AdjConsistent) {sim : List Nat → List Nat → Except ErrKind Bool}
    {term : KspTerm} {source target k : Nat} (hts : target ≠ source) {fs rs pops : List Nat}
    {r : AlgResult α} (h : singleVia c g sim term source target k fs rs pops = .ok r) :
    ∃ fres, runVertexOriented c.fwd.inst source (some target) fs = .ok fres ∧
    ∀ route ∈ r.routes.tail, ∃ v fwdRoute revRoute,
      route = fwdRoute ++ revRoute ∧
      backtrack source v fres.final.sol (fres.final.solSize + 1) = .ok fwdRoute ∧
      GWalk c.edges source (fwdRoute.map (·.edge)) v ∧
      GWalk c.edges v (revRoute.map (·.edge)) target ∧
      (∀ b ∈ fwdRoute, ∃ u, fres.final.sol u = some b) ∧
      Reaccumulated c.fwd (lastEdge fwdRoute) (lastState c.fwd fwdRoute) revRoute := by
  obtain ⟨fres, h1, hall⟩ := single_via_alternatives hf hr hts h
  refine ⟨fres, h1, ?_⟩
  intro route hroute
  obtain ⟨v, fr, rr, e1, e2, e3, e4, e5, e6, _⟩ := hall route hroute
  exact ⟨v, fr, rr, e1, e2, e3, e4, e5, e6⟩

/-- **every returned route carries correctly accumulated state** — PARTIAL: proved when the
underlying search runs under the label-setting discipline, i.e. its estimate is a consistent function
`H` of the vertex (`SearchDiscipline.Heur`: Dijkstra is `H = 0`, `SearchDiscipline.ZeroH.heur`; A*
with an estimate that is consistent for the network).  Then EVERY returned route — the first one and
every alternative, forward half, junction and re-created half alike — is the forward accumulation
from the initial state: its first element is `EdgeTraversal::forward_traversal` of its edge from the
initial state and no previous edge, every later element that of its edge from the edge and state of
the element before it (`Ksp.Reaccumulated … none (initialState …)`).

Full clause: "every route … with correctly accumulated state", for both underlying searches.
Excluded: A* with an estimate that is inconsistent for the network, where the clause is FALSE — a
re-opened vertex leaves a child tree entry computed from its parent's earlier label, and the first
route as well as the forward half of every alternative are read off that tree
(`routes_state_stale_link_counterexample` below; C03 finding `route/stale-link-after-reopening`, here
under the oracle keys `ksp/stale-link-after-reopening` and `yens/stale-link-after-reopening`). -/
theorem single_via_routes_state_partial {c : Config α} {g : List α} (hf : c.fwd.AdjConsistent)
    (hr : (c.rev g).AdjConsistent) {H : Nat → α} (hH : SearchDiscipline.Heur c.fwd.inst true H)
    {sim : List Nat → List Nat → Except ErrKind Bool}
    {term : KspTerm} {source target k : Nat} (hts : target ≠ source) {fs rs pops : List Nat}
    {r : AlgResult α} (h : singleVia c g sim term source target k fs rs pops = .ok r) :
    ∀ route ∈ r.routes, Reaccumulated c.fwd none (initialState c.fwd.feats) route := by
  intro route hroute
  have hk : 1 ≤ k := by
    have h1 := (single_via_count h).1
    have h2 := List.length_pos_of_mem hroute
    omega
  obtain ⟨fres, h1, hall⟩ := single_via_alternatives hf hr hts h
  obtain ⟨fres', h1', hhead⟩ := single_via_first_is_underlying_route hk h
  rw [h1] at h1'; cases h1'
  cases hrr : r.routes with
  | nil => rw [hrr] at hroute; simp at hroute
  | cons a rest =>
    rw [hrr] at hroute hall hhead
    rcases List.mem_cons.1 hroute with rfl | hm
    · simp only [List.head?_cons] at hhead
      exact first_route_reaccumulated (c.fwd.inst_wf hf) hH h1 hhead.symm
    · obtain ⟨v, fr, rr, e1, e2, _, _, _, e6, _⟩ := hall route (by simpa using hm)
      rw [e1]
      exact reaccumulated_append_init
        (tree_path_reaccumulated (c.fwd.inst_wf hf) hH hts h1 e2) e6

/-- **every returned alternative is permitted by the frontier model, pairwise, in travel order**
(the repair of `ksp/single-via-restricted-turn`): the first edge is accepted from the initial state
with no previous edge, every later edge from the state and edge the route reports for its
predecessor — the junction of the two halves and the re-traversed reverse half included; in
particular no alternative takes a turn listed by a turn-restriction model of the configuration -/
theorem single_via_routes_permitted {c : Config α} {g : List α} (hf : c.fwd.AdjConsistent)
    (hr : (c.rev g).AdjConsistent) {sim : List Nat → List Nat → Except ErrKind Bool}
    {term : KspTerm} {source target k : Nat} (hts : target ≠ source) {fs rs pops : List Nat}
    {r : AlgResult α} (h : singleVia c g sim term source target k fs rs pops = .ok r) :
    ∀ route ∈ r.routes.tail,
      (∀ b, route.head? = some b →
        c.fwd.inst.valid b.edge (initialState c.fwd.feats) none = .ok true) ∧
      (∀ i (hi : i + 1 < route.length),
        c.fwd.inst.valid route[i + 1].edge route[i].state (some route[i].edge) = .ok true) ∧
      ∀ pairs, FrontierM.turnRestriction pairs ∈ c.frontier →
        ∀ i (hi : i + 1 < route.length), (route[i].edge, route[i + 1].edge) ∉ pairs := by
  obtain ⟨fres, _, hall⟩ := single_via_alternatives hf hr hts h
  intro route hroute
  obtain ⟨_, _, _, _, _, _, _, _, _, hperm⟩ := hall route hroute
  obtain ⟨g1, g2⟩ := PermittedFrom.getElem hperm
  exact ⟨g1, g2, fun pairs hm => PermittedFrom.no_restricted_turn (cf := c.fwd) hm hperm⟩

/-- the same for **the first route under the Dijkstra discipline** (weight factor 0): by
`SearchDiscipline.route_links_fresh` every link of the underlying search's route was validated from
the state and edge the route itself reports for the previous link -/
theorem single_via_first_route_permitted {c : Config α} {g : List α} (hf : c.fwd.AdjConsistent)
    (hwf : c.wf = some 0) {sim : List Nat → List Nat → Except ErrKind Bool}
    {term : KspTerm} {source target k : Nat} (hk : 1 ≤ k) (hts : target ≠ source)
    {fs rs pops : List Nat} {r : AlgResult α}
    (h : singleVia c g sim term source target k fs rs pops = .ok r) :
    ∃ first, r.routes.head? = some first ∧
      PermittedFrom c.fwd (initialState c.fwd.feats) none first ∧
      ∀ pairs, FrontierM.turnRestriction pairs ∈ c.frontier →
        ∀ i (hi : i + 1 < first.length), (first[i].edge, first[i + 1].edge) ∉ pairs := by
  obtain ⟨fres, h1, h2⟩ := single_via_first_is_underlying_route hk h
  have hz : SearchDiscipline.ZeroH c.fwd.inst := SearchDiscipline.config_zeroH c.fwd hwf
  obtain ⟨route, hroute, _, _, _, hhead, hlinks⟩ :=
    SearchDiscipline.route_links_fresh (c.fwd.inst_wf hf) hz hts h1
  have hperm : PermittedFrom c.fwd (initialState c.fwd.feats) none route :=
    permittedFrom_of_links (fun b hb => (hhead b hb).1) (fun i hi => (hlinks i hi).1)
  exact ⟨route, by rw [h2, hroute], hperm,
    fun pairs hm => PermittedFrom.no_restricted_turn (cf := c.fwd) hm hperm⟩

/-! ## single-via: distinct and dissimilar -/

/-- **no two returned routes have the same edge sequence, and no two are similar**: every route was
tested against every route accepted before it (`test_id_similarity` and
`similarity.test_similarity(this, earlier)`, in that argument order) and passed both -/
theorem single_via_distinct_dissimilar {c : Config α} {g : List α}
    {sim : List Nat → List Nat → Except ErrKind Bool} {term : KspTerm} {source target k : Nat}
    {fs rs pops : List Nat} {r : AlgResult α}
    (h : singleVia c g sim term source target k fs rs pops = .ok r) :
    r.routes.Pairwise (fun earlier later =>
      later.map (·.edge) ≠ earlier.map (·.edge) ∧
      sim (later.map (·.edge)) (earlier.map (·.edge)) = .ok false) := by
  obtain ⟨fres, tsp, _, _, ⟨_, rfl⟩ | ⟨rres, sol, it, _, hloop, rfl⟩⟩ := singleVia_ok h
  · exact (List.pairwise_singleton _ tsp).sublist (List.take_sublist _ _)
  · have hall := svLoop_invariant (fun s => s.Pairwise (fun earlier later =>
        later.map (·.edge) ≠ earlier.map (·.edge) ∧
        sim (later.map (·.edge)) (earlier.map (·.edge)) = .ok false)) ?_ _ _ _ _ _ ?_ hloop
    · exact hall.sublist (List.take_sublist _ _)
    · intro s v this hs _ _ _ hrej
      rw [List.pairwise_append]
      refine ⟨hs, List.pairwise_singleton _ _, ?_⟩
      intro a ha b hb
      simp only [List.mem_singleton] at hb
      subst hb
      obtain ⟨h1, h2⟩ := (rejectedBy_false_iff sim b s).1 hrej a ha
      refine ⟨?_, h1⟩
      intro heq
      rw [(sameIds_iff b a).2 heq] at h2
      cases h2
    · exact List.pairwise_singleton _ _

/-! ## `AcceptAll` -/

/-- (by definition of the model: `SimFn.test` of `.acceptAll` is the constant `false`, as the
repaired `is_similar`; the `ksim` stream compares it with the code)
**`AcceptAll` rejects no alternative for similarity**: its test is
`false` for every pair of routes, on every network — the only rejections left are the loop test, the
frontier validation and an identical edge sequence -/
theorem accept_all_rejects_none [HasSqrt α] (edges : List (EdgeRec α)) (a b : List Nat) :
    (SimFn.acceptAll : SimFn α).test edges a b = .ok false ∧
    (SimFn.acceptAll : SimFn α).test edges = simAcceptAll := by
  constructor <;> rfl

/-- under `AcceptAll` a candidate is turned down by the scan exactly when an accepted route has the
same edge sequence -/
theorem accept_all_scan (this : List (Branch α)) (sol : List (List (Branch α))) :
    rejectedBy simAcceptAll this sol = .ok (sol.any (fun s => sameIds this s)) :=
  rejectedBy_acceptAll this sol

/-- **`AcceptAll` returns at least as many routes as any similarity threshold** — PARTIAL: proved for
the SINGLE-VIA algorithm.  For the same query — same
configuration, `k`, termination criterion, same schedules of the two underlying searches and the
same replayed pop order of the intersection queue (the order depends on the queue's priorities,
never on the similarity setting) — the result under `AcceptAll` has at least as many routes as the
result under any similarity test whatsoever.

Full clause: the same for both algorithms.  Excluded: Yen's algorithm, where the clause is FALSE
(`yens_accept_all_fewer_counterexample` in PART B; oracle key `yens/accept-all-returns-fewer`): it
keeps no candidate from one turn to the next and spurs only off the route accepted last, so a short
route that `AcceptAll` accepts can end the enumeration which a threshold, turning that route down,
continues. -/
theorem accept_all_at_least_as_many_partial {c : Config α} {g : List α}
    {sim : List Nat → List Nat → Except ErrKind Bool} {term : KspTerm} {source target k : Nat}
    {fs rs pops : List Nat} {rA rT : AlgResult α}
    (hA : singleVia c g simAcceptAll term source target k fs rs pops = .ok rA)
    (hT : singleVia c g sim term source target k fs rs pops = .ok rT) :
    rT.routes.length ≤ rA.routes.length := by
  obtain ⟨fres, tsp, h1, htsp, hcA⟩ := singleVia_ok hA
  obtain ⟨fres', tsp', h1', htsp', hcT⟩ := singleVia_ok hT
  rw [h1] at h1'; cases h1'
  rw [htsp] at htsp'; cases htsp'
  rcases hcA with ⟨⟨e, he, _⟩, rfl⟩ | ⟨rres, solA, itA, h2, hloopA, rfl⟩
  · rcases hcT with ⟨_, rfl⟩ | ⟨rres', _, _, h2', _, _⟩
    · exact le_refl _
    · rw [he] at h2'; cases h2'
  · rcases hcT with ⟨⟨e, he, _⟩, _⟩ | ⟨rres', solT, itT, h2', hloopT, rfl⟩
    · rw [he] at h2; cases h2
    · rw [h2] at h2'; cases h2'
      exact svLoop_acceptAll_ge _ _ _ _ _ _ _ _ (covered_init sim tsp) (le_refl _) hloopA hloopT

/-- **the same, whatever the two pop orders** — PARTIAL in the same sense (single-via only; Yen:
`yens_accept_all_fewer_counterexample`), and for the SAME replay `fs rs` of the two underlying
searches (two real runs may also break ties inside those searches differently and then work on
different trees: that case is not covered by any theorem).  The order in which equal-priority
intersection
vertices are popped is not defined (it depends on `HashMap` iteration and on the third-party queue),
so two real runs of the same query may replay different pop sequences; `AcceptAll` still returns at
least as many routes — when it does not stop at `k` routes it has drained the queue and holds, up to
edge ids, every loop-free permitted candidate there is, while the other run's routes are pairwise
distinct candidates of the same queue -/
theorem accept_all_at_least_as_many_any_order_partial {c : Config α} {g : List α}
    {sim : List Nat → List Nat → Except ErrKind Bool} {term : KspTerm} {source target k : Nat}
    {fs rs popsA popsT : List Nat} {rA rT : AlgResult α}
    (hA : singleVia c g simAcceptAll term source target k fs rs popsA = .ok rA)
    (hT : singleVia c g sim term source target k fs rs popsT = .ok rT) :
    rT.routes.length ≤ rA.routes.length := by
  obtain ⟨fres, tsp, h1, htsp, hcA⟩ := singleVia_ok hA
  obtain ⟨fres', tsp', h1', htsp', hcT⟩ := singleVia_ok hT
  rw [h1] at h1'; cases h1'
  rw [htsp] at htsp'; cases htsp'
  rcases hcA with ⟨⟨e, he, _⟩, rfl⟩ | ⟨rres, solA, itA, h2, hloopA, rfl⟩
  · rcases hcT with ⟨_, rfl⟩ | ⟨rres', _, _, h2', _, _⟩
    · exact le_refl _
    · rw [he] at h2'; cases h2'
  · rcases hcT with ⟨⟨e, he, _⟩, _⟩ | ⟨rres', solT, itT, h2', hloopT, rfl⟩
    · rw [he] at h2; cases h2
    · rw [h2] at h2'; cases h2'
      exact svLoop_acceptAll_ge_any_order hloopA hloopT

/-! ## which failures propagate -/

/-- (after the repairs `ksp/single-via-reverse-search-failed`, `ksp/single-via-alternative-failed`
and the C10 repair 37e54f7) with consistent adjacency and distinct origin and destination
single-via fails only with **the forward search's error** — the query is then not answerable by the
underlying search either —, with **the reverse search stopped by a limit of the termination model**
(C10: a limit hit by any sub-search is the explicit `terminated` error, never a shortened answer;
the only other member of `stopsQuery` is a Rust panic), or with an error of the similarity function
on two id lists that consist of edges of the graph (`Ksp.GraphIds`: the candidate and an accepted
route — the function is never applied to anything else)
(or the replay is not one the queue could have produced).  Any other failure of the reverse search
yields the shortest route alone, a failed re-traversal drops that candidate; backtracking, the
tree-count checks, the loop test and the frontier validation never fail. -/
theorem single_via_failures {c : Config α} {g : List α} (hf : c.fwd.AdjConsistent)
    (hr : (c.rev g).AdjConsistent) {sim : List Nat → List Nat → Except ErrKind Bool}
    {term : KspTerm} {source target k : Nat} (hts : target ≠ source) {fs rs pops : List Nat}
    {e : ErrKind} (h : singleVia c g sim term source target k fs rs pops = .error e) :
    runVertexOriented c.fwd.inst source (some target) fs = .error e ∨
    (runVertexOriented (c.rev g).inst target (some source) rs = .error e ∧ e.stopsQuery = true) ∨
    e = .scheduleExhausted ∨ e = .badSchedule ∨
      (∃ a b, GraphIds c.edges a ∧ GraphIds c.edges b ∧ sim a b = .error e) :=
  singleVia_error hf hr hts h

/-- conversely **a reverse search stopped by a limit always fails the query with that error**
(the strict reading of C10 for the sub-searches of single-via) -/
theorem single_via_reverse_limit_propagates {c : Config α} {g : List α}
    {sim : List Nat → List Nat → Except ErrKind Bool} {term : KspTerm} {source target k : Nat}
    {fs rs pops : List Nat} {fres : SearchResult α} {ks : List TermKind}
    (hfwd : runVertexOriented c.fwd.inst source (some target) fs = .ok fres)
    (hrev : runVertexOriented (c.rev g).inst target (some source) rs = .error (.terminated ks)) :
    singleVia c g sim term source target k fs rs pops = .error (.terminated ks) := by
  unfold singleVia
  simp only [hfwd, hrev, ErrKind.stopsQuery, if_true]

/-- hence **an answerable query is never turned into another error**: a "no other error" theorem —
the conclusion is a result OR one of the model's two verdicts on the replay (no theorem shows that
an accepted complete replay exists; the correspondence run replays the code's own).  Premises: the
similarity function does not fail on id lists made of edges of the graph (`hsim`; met by all three
configured functions with NO further premise: `single_via_answers_answerable_configured`; the
earlier `∀ a b` form was false for the distance-weighted cosine, which fails on an id outside the
edge list), the underlying search answers the query, and the reverse search — if it fails at all —
fails with an error outside `ErrKind.stopsQuery` (`hrev`).  `hrev` excludes: a limit of the
termination model (then the query IS that error: `single_via_reverse_limit_propagates`, C10), the
frequency-0 panic of the termination model, and, in the model, a reverse replay that is exhausted or
not one the queue could produce. -/
theorem single_via_answers_answerable {c : Config α} {g : List α} (hf : c.fwd.AdjConsistent)
    (hr : (c.rev g).AdjConsistent) {sim : List Nat → List Nat → Except ErrKind Bool}
    (hsim : ∀ a b, GraphIds c.edges a → GraphIds c.edges b → ∃ x, sim a b = .ok x)
    {term : KspTerm} {source target k : Nat} (hts : target ≠ source) {fs rs pops : List Nat}
    {fres : SearchResult α}
    (hfwd : runVertexOriented c.fwd.inst source (some target) fs = .ok fres)
    (hrev : ∀ e, runVertexOriented (c.rev g).inst target (some source) rs = .error e →
      e.stopsQuery = false) :
    (∃ r, singleVia c g sim term source target k fs rs pops = .ok r) ∨
    singleVia c g sim term source target k fs rs pops = .error .scheduleExhausted ∨
    singleVia c g sim term source target k fs rs pops = .error .badSchedule := by
  cases hres : singleVia c g sim term source target k fs rs pops with
  | ok r => exact Or.inl ⟨r, rfl⟩
  | error e =>
    rcases single_via_failures hf hr hts hres with h | ⟨h, hs⟩ | h | h | ⟨a, b, ha, hb, h⟩
    · rw [hfwd] at h; cases h
    · rw [hrev e h] at hs; cases hs
    · exact Or.inr (Or.inl (by rw [h]))
    · exact Or.inr (Or.inr (by rw [h]))
    · obtain ⟨x, hx⟩ := hsim a b ha hb
      rw [hx] at h; cases h

/-! ### Non-vacuity (single-via): the diamond `0 → {1, 2} → 3`, Dijkstra, k = 2.  The hypotheses hold,
the run succeeds with two routes, and the theorems above apply to it.  (Also the witness of the
repaired `AcceptAll` defect: before the repair the similarity test was constantly `true`, which is
the second run below — one route.) -/

example : Example.diamond.fwd.AdjConsistent ∧ (Example.diamond.rev []).AdjConsistent :=
  Example.diamond_adj

example : Example.idsOf (singleVia Example.diamond (List.replicate 4 0) simAcceptAll .exact 0 3 2
    [0, 1, 3] [3, 1, 0] [1, 2]) = .ok [[0, 1], [2, 3]] := Example.diamond_accept_all

example : Example.idsOf (singleVia Example.diamond (List.replicate 4 0) (fun _ _ => .ok true) .exact
    0 3 2 [0, 1, 3] [3, 1, 0] [1, 2]) = .ok [[0, 1]] := Example.diamond_reject_all

example : ∃ rA rT, singleVia Example.diamond (List.replicate 4 0) simAcceptAll .exact 0 3 2
      [0, 1, 3] [3, 1, 0] [1, 2] = .ok rA ∧
    singleVia Example.diamond (List.replicate 4 0) (fun _ _ => .ok true) .exact 0 3 2
      [0, 1, 3] [3, 1, 0] [1, 2] = .ok rT ∧ rT.routes.length ≤ rA.routes.length ∧
    rA.routes.length ≤ 2 ∧ 1 ≤ rT.routes.length := by
  obtain ⟨rA, hA, _⟩ := Example.ok_of_idsOf Example.diamond_accept_all
  obtain ⟨rT, hT, _⟩ := Example.ok_of_idsOf Example.diamond_reject_all
  exact ⟨rA, rT, hA, hT, accept_all_at_least_as_many_partial hA hT, (single_via_count hA).1,
    (single_via_count hT).2 (by decide)⟩

/-- the alternative of that run is permitted link by link (`single_via_routes_permitted` applies) -/
example : ∃ r, singleVia Example.diamond (List.replicate 4 0) simAcceptAll .exact 0 3 2
      [0, 1, 3] [3, 1, 0] [1, 2] = .ok r ∧ r.routes.tail ≠ [] ∧
    ∀ route ∈ r.routes.tail, ∀ i (hi : i + 1 < route.length),
      Example.diamond.fwd.inst.valid route[i + 1].edge route[i].state (some route[i].edge) =
        .ok true := by
  obtain ⟨r, hr, hids⟩ := Example.ok_of_idsOf Example.diamond_accept_all
  refine ⟨r, hr, ?_, ?_⟩
  · intro h
    have := congrArg List.length hids
    cases hrr : r.routes with
    | nil => rw [hrr] at this; simp at this
    | cons a rest => rw [hrr] at h this; simp at h; subst h; simp at this
  · intro route hroute
    exact (single_via_routes_permitted Example.diamond_adj.1
      (rev_adj_irrel _ _ _ Example.diamond_adj.2) (by decide) hr route hroute).2.1

/-- the least-cost and state theorems apply to that run: the diamond is an edge-local Dijkstra
configuration (every hypothesis of `single_via_first_least_cost_dijkstra_partial` and
`single_via_routes_state_partial` instantiated), the first route is `[e0, e1]`, no walk 0 ⇝ 3 costs
less, and both routes are forward accumulations from the initial state -/
example : ∃ r first, singleVia Example.diamond (List.replicate 4 0) simAcceptAll .exact 0 3 2
      [0, 1, 3] [3, 1, 0] [1, 2] = .ok r ∧ r.routes.length = 2 ∧
    r.routes.head? = some first ∧ first.map (·.edge) = [0, 1] ∧
    (∀ es, SearchOpt.Walk Example.diamond.fwd.inst Example.diamond.fwd.okOf 0 es 3 →
      (first.map (fun b => b.access + b.traversal)).sum ≤
        SearchOpt.cost Example.diamond.fwd.costOf es) ∧
    ∀ route ∈ r.routes,
      Reaccumulated Example.diamond.fwd none (initialState Example.diamond.fwd.feats) route := by
  obtain ⟨r, hr, hids⟩ := Example.ok_of_idsOf Example.diamond_accept_all
  have hEL : Example.diamond.fwd.EdgeLocal := ⟨Example.diamond_adj.1, rfl, rfl⟩
  have hwf : Example.diamond.fwd.wf = some 0 := rfl
  obtain ⟨first, h1, _, _, _, hmin⟩ :=
    single_via_first_least_cost_dijkstra_partial (by decide) (by decide) hEL hwf hr
  refine ⟨r, first, hr, by simpa using congrArg List.length hids, h1, ?_, hmin, ?_⟩
  · cases hrr : r.routes with
    | nil => rw [hrr] at h1; simp at h1
    | cons a rest =>
      rw [hrr] at h1 hids
      simp only [List.head?_cons, Option.some.injEq] at h1
      simp only [List.map_cons, List.cons.injEq] at hids
      rw [← h1]; exact hids.1
  · exact single_via_routes_state_partial Example.diamond_adj.1
      (rev_adj_irrel _ _ _ Example.diamond_adj.2)
      ((SearchDiscipline.config_zeroH _ hwf).heur (Config.inst_wf _ Example.diamond_adj.1) true)
      (by decide) hr

/-! ## The three single-via defects found on the way — REPAIRED in /repo (aa21347, e5eb18e, bfda969).
Their witnesses, on which the counterexample theorems used to be proved, now satisfy the property;
the harness keeps them in its corpus under the same oracle keys. -/

/-- `ksp/single-via-restricted-turn` (repaired): `0 -e0→ 1 -e1→ 4`, `0 -e2→ 2 -e3→ 3 -e4→ 4` with
the turn (e3, e4) restricted, Dijkstra, AcceptAll, k = 2.  The alternative `[e2, e3, e4]` — offered
by both via vertices 2 and 3 — is turned down by the frontier validation in travel order; the
shortest route is returned alone, and no returned route contains the restricted turn.  (The plain
search refuses that turn too: on the network without the short branch it reports "no path".) -/
theorem single_via_restricted_turn_witness :
    ∃ (c : Config ℚ) (r : AlgResult ℚ),
      c.fwd.AdjConsistent ∧ (c.rev []).AdjConsistent ∧
      c.frontier = [.turnRestriction [(3, 4)]] ∧
      singleVia c (List.replicate 5 0) simAcceptAll .exact 0 4 2 [0, 1, 2, 4] [4, 1, 3, 0] [1, 2, 3] = .ok r ∧
      r.routes.map (·.map (·.edge)) = [[0, 1]] ∧
      (∀ route ∈ r.routes, ¬ [3, 4] <:+: route.map (·.edge)) ∧
      Example.idsOf (Example.restrictedTurnOnly.runVertex 0 (some 4) [0, 2, 3]) = .error .noPath := by
  obtain ⟨r, hr, hids⟩ := Example.ok_of_idsOf Example.restrictedTurn_singleVia
  refine ⟨Example.restrictedTurn, r, Example.restrictedTurn_adj.1, Example.restrictedTurn_adj.2, rfl,
    hr, hids, ?_, Example.restrictedTurn_plain⟩
  intro route hroute
  have hmem : route.map (·.edge) ∈ r.routes.map (·.map (·.edge)) := List.mem_map.2 ⟨route, hroute, rfl⟩
  rw [hids] at hmem
  simp only [List.mem_singleton] at hmem
  rw [hmem]
  decide

/-- `ksp/single-via-reverse-search-failed` (repaired): on `0 -e0→ 1 -e1→ 2` with the (untakeable)
pair (e1, e0) listed as a restricted turn the reverse search still fails with "no path" — searching
backwards it meets e0 with "previous" edge e1 — and single-via now answers with the shortest route
alone, like the underlying search -/
theorem single_via_reverse_failure_witness :
    ∃ (c : Config ℚ), c.fwd.AdjConsistent ∧ (c.rev []).AdjConsistent ∧
      Example.idsOf (c.fwd.runVertex 0 (some 2) [0, 1, 2]) = .ok [[0, 1]] ∧
      Example.idsOf (singleVia c (List.replicate 3 0) simAcceptAll .exact 0 2 2 [0, 1, 2] [2, 1] []) =
        .ok [[0, 1]] := by
  refine ⟨Example.reversedPair, ?_, ?_, Example.reversedPair_plain, Example.reversedPair_singleVia⟩
  · apply Example.adj_of_lists
    · decide +kernel
    · decide
  · apply Example.adj_of_lists
    · decide +kernel
    · decide

/-- `ksp/single-via-alternative-failed` (repaired): the alternative whose junction turn has no entry
in the turn-delay table (no search ever evaluated that turn: the via vertex was labelled but not
expanded) is dropped; the query is answered with the shortest route -/
theorem single_via_retraversal_failure_witness :
    Example.idsOf (Example.missingDelay.fwd.runVertex 0 (some 3) [0, 1, 3]) = .ok [[0, 1]] ∧
    Example.idsOf (singleVia Example.missingDelay (List.replicate 4 0) simAcceptAll .exact 0 3 2
      [0, 1, 3] [3, 1, 0] [1, 2]) = .ok [[0, 1]] :=
  Example.missingDelay_runs

/-! ## Configuration and the remaining arms of the anchor files

`KspTerminationCriteria` and `RouteSimilarityFunction` as deserialised from the `[algorithm]`
section, `Display`, the decision arithmetic for every `u64`, `rank_similarity` / `is_similar`, the
`SearchAlgorithm` configuration (`k`, `underlying`, `similarity`, `termination`; nested), the
refused reverse query, and the arms of the code that can never execute. -/

/-- `Factor`: stop at exactly `k` routes, provided `k ≤ factor * k` — i.e. `k = 0` or `factor ≥ 1` —
for EVERY `factor`, `k`, `size` (no wrap-around: the repaired code multiplies saturating) -/
theorem factor_terminate_iff (f k n : Nat) :
    (KspTerm.factor f).terminate k n = true ↔ n = k ∧ (k = 0 ∨ 1 ≤ f) := by
  simp only [KspTerm.terminate, Bool.and_eq_true, beq_iff_eq, decide_eq_true_eq]
  constructor
  · rintro ⟨rfl, h⟩
    refine ⟨rfl, ?_⟩
    by_contra hc
    have hf : f = 0 := by omega
    subst hf
    omega
  · rintro ⟨rfl, h | h⟩
    · subst h; simp
    · exact ⟨rfl, Nat.le_mul_of_pos_left _ (by omega)⟩

/-- the saturating product decides `factor * size ≥ k` exactly for every `k` a `usize` can hold -/
theorem saturating_mul_decides (f n k : Nat) (hk : k < 2 ^ 64) :
    k ≤ min (f * n) (2 ^ 64 - 1) ↔ k ≤ f * n := by
  constructor
  · intro h; exact le_trans h (min_le_left _ _)
  · intro h; exact le_min h (by omega)

/-- (ARITHMETIC ONLY: a statement about natural numbers, not about a function of the model — the
model has the repaired, saturating form alone; that the old code computed the wrapping product is
the harness's observation on the code before 407607c)
COUNTEREXAMPLE (the code before 407607c, release build): the wrapping product `factor * size mod
2^64` takes the wrong decision — factor 2^63, k = size = 2 wraps to 0, so the criterion never stopped
the search although `k ≤ factor * size` (debug builds panicked) -/
theorem factor_wrapping_counterexample :
    ∃ f n k : Nat, f < 2 ^ 64 ∧ k < 2 ^ 64 ∧ n = k ∧ k ≤ f * n ∧ ¬ k ≤ (f * n) % 2 ^ 64 :=
  ⟨2 ^ 63, 2, 2, by decide, by decide, rfl, by decide, by decide⟩

/-- in Yen's `while accepted.len() < k` no criterion can fire: `terminate_search` needs
`accepted.len() = k` (the `break` of `yens_algorithm.rs` is dead code) -/
theorem yens_criterion_never_fires (t : KspTerm) {k n : Nat} (h : n < k) : t.terminate k n = false := by
  cases ht : t.terminate k n with
  | false => rfl
  | true => have := terminate_length ht; omega

/-- (by definition of the model, `KspTerm.ofJson`: what it says about serde's derive rests on the
`kterm` / `cfg` correspondence streams)
`KspTerminationCriteria` from an object of the configuration: decided by the string under
`"type"`; `max` / `factor` must be unsigned integers; unknown keys are ignored -/
theorem term_config_object (kvs : List (String × Json)) :
    (Json.lookup kvs "type" = some (.str "exact") → KspTerm.ofJson (.obj kvs) = some .exact) ∧
    (Json.lookup kvs "type" = some (.str "max_iteration") →
      KspTerm.ofJson (.obj kvs) = ((Json.lookup kvs "max").bind Json.asU64?).map .maxIteration) ∧
    (Json.lookup kvs "type" = some (.str "factor") →
      KspTerm.ofJson (.obj kvs) = ((Json.lookup kvs "factor").bind Json.asU64?).map .factor) ∧
    (Json.lookup kvs "type" = none → KspTerm.ofJson (.obj kvs) = none) ∧
    (∀ t, Json.lookup kvs "type" = some (.str t) → t ≠ "exact" → t ≠ "max_iteration" →
      t ≠ "factor" → KspTerm.ofJson (.obj kvs) = none) := by
  refine ⟨?_, ?_, ?_, ?_, ?_⟩
  · intro h; simp [KspTerm.ofJson, tagged, h, Content.arity]
  · intro h
    simp only [KspTerm.ofJson, tagged, h, Content.arity, Content.req]
    cases Json.lookup kvs "max" <;> simp
  · intro h
    simp only [KspTerm.ofJson, tagged, h, Content.arity, Content.req]
    cases Json.lookup kvs "factor" <;> simp
  · intro h; simp [KspTerm.ofJson, tagged, h]
  · intro t h h1 h2 h3
    simp [KspTerm.ofJson, tagged, h, h1, h2, h3]

/-- (by definition of the model, `KspTerm.ofJson`)
the sequence form serde also accepts: the tag followed by exactly the variant's fields -/
theorem term_config_sequence (xs : List Json) :
    KspTerm.ofJson (.arr (.str "exact" :: xs)) = (if xs.length = 0 then some .exact else none) ∧
    KspTerm.ofJson (.arr (.str "max_iteration" :: xs)) =
      (if xs.length = 1 then (xs[0]?.bind Json.asU64?).map .maxIteration else none) ∧
    KspTerm.ofJson (.arr (.str "factor" :: xs)) =
      (if xs.length = 1 then (xs[0]?.bind Json.asU64?).map .factor else none) := by
  refine ⟨?_, ?_, ?_⟩
  · simp [KspTerm.ofJson, tagged, Content.arity]
  · simp only [KspTerm.ofJson, tagged, Content.arity, Content.req]
    by_cases h : xs.length = 1
    · simp only [h, beq_self_eq_true, Bool.not_true, if_true]
      cases xs[0]? <;> simp
    · simp [h]
  · simp only [KspTerm.ofJson, tagged, Content.arity, Content.req]
    by_cases h : xs.length = 1
    · simp only [h, beq_self_eq_true, Bool.not_true, if_true]
      cases xs[0]? <;> simp
    · simp [h]

/-- (by definition of the model, `KspTerm.ofJson`)
anything that is neither an object nor a sequence starting with a string is refused -/
theorem term_config_untagged :
    KspTerm.ofJson .null = none ∧ (∀ s, KspTerm.ofJson (.str s) = none) ∧
    (∀ l b, KspTerm.ofJson (.num l b) = none) ∧ KspTerm.ofJson (.arr []) = none := by
  refine ⟨rfl, fun _ => rfl, fun _ _ => rfl, rfl⟩

example : (KspTerm.maxIteration 3).display = "terminate with 3 routes found" ∧
    (KspTerm.factor 2).display = "terminate with k*2 routes found" ∧
    KspTerm.exact.display = "terminate with up to k routes found" := by decide

/-- **`test_similarity` = `is_similar ∘ rank_similarity`**, for every variant -/
theorem similarity_test_is_decision_of_rank [HasSqrt α] (f : SimFn α) (edges : List (EdgeRec α))
    (a b : List Nat) :
    f.test edges a b = (match f.rank edges a b with
                        | .error k => .error k
                        | .ok r => .ok (f.isSimilar r)) :=
  Ksp.SimFn.test_eq f edges a b

/-- (by definition of the model, `SimFn.rank` / `SimFn.isSimilar`; compared with the code by the `ksim`
stream)
`AcceptAll` ranks every pair 0 and is never similar; the cosine variants are similar exactly when
`threshold ≤ rank` -/
theorem similarity_decision (thr r : α) (edges : List (EdgeRec α)) (a b : List Nat) [HasSqrt α] :
    (SimFn.acceptAll : SimFn α).rank edges a b = .ok zero ∧
    (SimFn.acceptAll : SimFn α).isSimilar r = false ∧
    ((SimFn.edgeIdCosine thr).isSimilar r = true ↔ thr ≤ r) ∧
    ((SimFn.distanceWeightedCosine thr).isSimilar r = true ↔ thr ≤ r) := by
  refine ⟨rfl, rfl, ?_, ?_⟩ <;> simp [SimFn.isSimilar]

/-- **the similarity functions never fail on routes of the graph** — so the `?` after
`test_similarity` in both k-shortest-paths loops never propagates anything: candidate and accepted
routes consist of edges of the edge list (`single_via_routes_valid`, `yens_routes_valid`) -/
theorem similarity_never_fails_on_graph_edges [HasSqrt α] (f : SimFn α) (edges : List (EdgeRec α))
    {a b : List Nat} (h : ∀ e ∈ a ++ b, ∃ er, edges[e]? = some er) :
    (∃ r, f.rank edges a b = .ok r) ∧ ∃ x, f.test edges a b = .ok x :=
  ⟨Ksp.SimFn.rank_ok f edges h, Ksp.SimFn.test_ok f edges h⟩

/-- they fail only with the network error, only in the distance-weighted variant, only on an edge id
outside the graph -/
theorem similarity_fails_only_on_unknown_edge [HasSqrt α] (f : SimFn α) (edges : List (EdgeRec α))
    {a b : List Nat} {k : ErrKind} (h : f.rank edges a b = .error k) :
    k = .network ∧ (∃ thr, f = .distanceWeightedCosine thr) ∧ ∃ e ∈ a ++ b, edges[e]? = none :=
  Ksp.SimFn.rank_error f edges h

/-- (by definition of the model: `singleViaVertex` / `yensVertex` begin with the test of the direction
and of the destination, as the repaired code does; compared with the code by the nested cases of the
`cfg` stream)
**a reverse query is refused** by both k-shortest-paths algorithms (vfix ca2baf1: it used to be
answered as a forward query), as is a query without destination -/
theorem ksp_reverse_query_refused (c : Config α) (hrev : c.reverse = true) (gcRev : List α)
    (sim : List Nat → List Nat → Except ErrKind Bool) (term : Option KspTerm) (kDefault : Nat)
    (queryK : Option Json) (source : Nat) (target : Option Nat) (fs rs pops : List Nat)
    (scheds : List (List Nat)) :
    singleViaVertex c gcRev sim term kDefault queryK source target fs rs pops = .error .build ∧
    (∃ e, yensVertex c sim term kDefault queryK source target scheds = .err e ∧ e = .build) := by
  cases target with
  | none => exact ⟨rfl, _, rfl, rfl⟩
  | some t => simp [singleViaVertex, yensVertex, hrev]

/-- (by definition of the model, `AlgCfg.ofJson`)
**`SearchAlgorithm` from an object of the configuration**, for the tag `ksp_single_via` ONLY and
four situations: `k` missing — refused; `underlying` missing — refused; `k` present but not an
unsigned integer — refused; `k` an unsigned integer, `underlying` a well-formed section and
`similarity` and `termination` both ABSENT — the algorithm with no similarity and no criterion
(defaults `AcceptAll` / `Exact` at run time).  Nothing is stated here about the `yens` tag, about a
`null`, present or malformed `similarity` / `termination` sub-section or a malformed `underlying`:
those are exercised by the `cfg` correspondence stream only. -/
theorem alg_config_object (num : Json → Option α) (d : Nat) (kvs : List (String × Json))
    (htype : Json.lookup kvs "type" = some (.str "ksp_single_via")) :
    (Json.lookup kvs "k" = none → AlgCfg.ofJson num (d + 1) (.obj kvs) = none) ∧
    (Json.lookup kvs "underlying" = none → AlgCfg.ofJson num (d + 1) (.obj kvs) = none) ∧
    (∀ kj, Json.lookup kvs "k" = some kj → kj.asU64? = none →
      AlgCfg.ofJson num (d + 1) (.obj kvs) = none) ∧
    (∀ kj k uj u, Json.lookup kvs "k" = some kj → kj.asU64? = some k →
      Json.lookup kvs "underlying" = some uj → AlgCfg.ofJson num d uj = some u →
      Json.lookup kvs "similarity" = none → Json.lookup kvs "termination" = none →
      AlgCfg.ofJson num (d + 1) (.obj kvs) = some (.singleVia k u none none)) := by
  have htag : tagged (.obj kvs) = some ("ksp_single_via", .fields kvs) := by simp [tagged, htype]
  refine ⟨?_, ?_, ?_, ?_⟩
  · intro h; simp [AlgCfg.ofJson, htag, Content.arity, Content.req, h]
  · intro h
    simp only [AlgCfg.ofJson, htag, Content.arity, Content.req, h]
    cases Json.lookup kvs "k" <;> simp
  · intro kj h1 h2
    simp only [AlgCfg.ofJson, htag, Content.arity, Content.req, h1]
    cases Json.lookup kvs "underlying" with
    | none => simp
    | some uj => simp only [h2]; simp
  · intro kj k uj u h1 h2 h3 h4 h5 h6
    simp [AlgCfg.ofJson, htag, Content.arity, Content.req, Content.opt, optOfJson, h1, h2, h3, h4,
      h5, h6]

/-- **a k-shortest-paths algorithm as `underlying` of single-via** (vfix ca2baf1): the nested
algorithm's reverse run is refused, so the result is at most ONE route — the backtrack of the
nested forward run's first tree, which is the forward tree of the innermost search: a contiguous
loop-free walk origin ⇝ destination.  (Before the repair two forward trees were joined and routes
that are not walks were returned, e.g. `0→1, 1→2, 5→2` on the two-way 2 × 3 grid.) -/
theorem nested_single_via_shortest_alone {c : Config α} (hf : c.fwd.AdjConsistent)
    {source t k : Nat} (hts : t ≠ source) {fs : List Nat} {fres : SearchResult α}
    (hrun : runVertexOriented c.fwd.inst source (some t) fs = .ok fres)
    {fr r : AlgResult α} (htree : fr.trees.head? = some fres.final.sol)
    (h : shortestAlone c k source t fr = .ok r) :
    r.routes.length ≤ 1 ∧ r.routes.length ≤ k ∧ r.trees = fr.trees ∧
    ∀ route ∈ r.routes,
      GWalk c.edges source (route.map (·.edge)) t ∧
      (∃ vs, srcVertices c.fwd route = .ok vs ∧ vs.Nodup) ∧ (route.map (·.edge)).Nodup := by
  unfold shortestAlone at h
  rw [htree] at h
  simp only at h
  split at h
  · cases h
  · rename_i tsp hbt
    cases h
    obtain ⟨hinv, hedges⟩ := fwd_tree_of_run c hf hts hrun
    obtain ⟨hw, hl, _⟩ := fwd_backtrack_walk' hinv hedges hbt
    refine ⟨by simp [List.length_take], by simp [List.length_take], rfl, ?_⟩
    intro route hroute
    have := List.mem_of_mem_take hroute
    simp only [List.mem_singleton] at this
    subst this
    obtain ⟨vs, hvs, hnd, hed⟩ := routeContainsLoop_false hl
    exact ⟨hw, ⟨vs, hvs, hnd⟩, hed⟩

/-- the first tree of a single-via or Yen result over Dijkstra / A* is the forward tree of the
underlying search — the premise of `nested_single_via_shortest_alone` -/
theorem ksp_first_tree_is_forward_tree {c : Config α} (hf : c.fwd.AdjConsistent) {g : List α}
    {sim : List Nat → List Nat → Except ErrKind Bool} {term : KspTerm} {source target k : Nat}
    {fs rs pops : List Nat} {scheds : List (List Nat)} :
    (∀ fr, singleVia c g sim term source target k fs rs pops = .ok fr →
      ∃ fres, runVertexOriented c.fwd.inst source (some target) fs = .ok fres ∧
        fr.trees.head? = some fres.final.sol) ∧
    (∀ fr, yens c sim term source target k scheds = .ok fr →
      ∃ fres, runVertexOriented c.fwd.inst source (some target) (scheds.headD []) = .ok fres ∧
        fr.trees.head? = some fres.final.sol) := by
  constructor
  · intro fr h
    obtain ⟨fres, tsp, h1, _, ⟨_, rfl⟩ | ⟨rres, sol, it, _, _, rfl⟩⟩ := singleVia_ok h
    · exact ⟨fres, h1, rfl⟩
    · exact ⟨fres, h1, rfl⟩
  · intro fr h
    obtain ⟨fres, _, _, h1, _, _, _, ht⟩ := yens_ok hf h
    exact ⟨fres, h1, by rw [ht]; rfl⟩

/-! ## PART B — Yen's algorithm (`yens_algorithm::run`), as repaired

The model (`Model/Ksp.lean`: `yens`, `yenWhile`, `yenFor`, `yenSpur`, `yenDissimilar`) follows the
code after the eight repairs of `vfix/C13` (spur range without underflow; stop when a turn accepts
nothing; accept the best candidate once per turn and `take(k)`; dissimilar to ALL accepted routes;
a failed spur search — other than one stopped by a limit — only skips its spur index; the spur part
re-traversed from the root path's last edge and state; loop test; frontier validation in travel
order).  Before them the property was false of Yen's algorithm in almost every clause; the
`…_counterexample` theorems that recorded this are now the positive theorems below, at full
strength: for every configuration whose adjacency lists agree with the edge list, every origin and
destination, every `k`, an ARBITRARY similarity test, every criterion and every replayed schedule of
the underlying searches (Dijkstra and A* alike).  Their old witnesses follow as `…_witness`
theorems; the harness keeps each in its corpus under its old oracle key.

Three clauses are NOT at full strength: "least cost" and "correctly accumulated state of the whole
route" are `_partial` exactly as for single-via (`yens_first_least_cost_partial`,
`yens_routes_state_partial` with `routes_state_stale_link_counterexample`), and "`AcceptAll` returns
at least as many routes as any threshold" is FALSE of the repaired algorithm
(`yens_accept_all_fewer_counterexample`, known finding `yens/accept-all-returns-fewer`): there is no
Yen counterpart of `accept_all_at_least_as_many_partial`. -/

/-- **Yen's algorithm ends**, for every `k`, every route length (one edge, two edges, origin =
destination included), every similarity function and criterion: the model's `while` loop — a turn
either accepts one more route or stops — never runs out of the `k + 1` turns of fuel.  (Each turn's
`for` loop is over the finitely many spur indices of one route, each search is the terminating
`run_a_star`.) -/
theorem yens_terminates (c : Config α) (sim : List Nat → List Nat → Except ErrKind Bool)
    (term : KspTerm) (source target k : Nat) (scheds : List (List Nat)) (why : String) :
    yens c sim term source target k scheds ≠ .diverges why := by
  unfold yens
  split
  · exact fun h => by cases h
  · split
    · exact fun h => by cases h
    · exact yenWhile_terminates _ _ _ _ (by simp only [List.length_singleton]; omega) why

/-- **between one and k routes** -/
theorem yens_count {c : Config α} (hf : c.fwd.AdjConsistent)
    {sim : List Nat → List Nat → Except ErrKind Bool} {term : KspTerm} {source target k : Nat}
    {scheds : List (List Nat)} {r : AlgResult α}
    (h : yens c sim term source target k scheds = .ok r) :
    r.routes.length ≤ k ∧ (1 ≤ k → 1 ≤ r.routes.length) := by
  obtain ⟨_, _, acc, _, _, hacc, hr, _⟩ := yens_ok hf h
  rw [hr, List.length_take]
  have := List.length_pos_of_ne_nil hacc.ne_nil
  omega

/-- **best first**: the first returned route is the route of the underlying search, and the tree
returned is that search's tree (every configuration, Dijkstra and A*) -/
theorem yens_first_route {c : Config α} (hf : c.fwd.AdjConsistent)
    {sim : List Nat → List Nat → Except ErrKind Bool} {term : KspTerm} {source target k : Nat}
    (hk : 1 ≤ k) {scheds : List (List Nat)} {r : AlgResult α}
    (h : yens c sim term source target k scheds = .ok r) :
    ∃ fres, runVertexOriented c.fwd.inst source (some target) (scheds.headD []) = .ok fres ∧
      r.routes.head? = fres.route ∧ r.trees = [fres.final.sol] := by
  obtain ⟨fres, first, acc, h1, h2, hacc, hr, ht⟩ := yens_ok hf h
  refine ⟨fres, h1, ?_, ht⟩
  rw [hr, h2]
  have hh := hacc.head
  cases acc with
  | nil => simp at hh
  | cons a rest =>
    simp only [List.head?_cons, Option.some.injEq] at hh
    subst hh
    cases k with
    | zero => omega
    | succ k => simp

/-- **the first route is a least-cost route** — PARTIAL, exactly as
`single_via_first_least_cost_partial`: for edge-local configurations (no access model, no turn
restriction), a non-negative weight factor and an estimate admissible for the destination.  Excluded
for the reasons given there (C02 proves nothing else); without any premise the first route is the
underlying search's route (`yens_first_route`). -/
theorem yens_first_least_cost_partial {c : Config α}
    {sim : List Nat → List Nat → Except ErrKind Bool} {term : KspTerm} {source target k : Nat}
    (hk : 1 ≤ k) (hts : target ≠ source) {scheds : List (List Nat)} {r : AlgResult α}
    (hEL : c.fwd.EdgeLocal) (hwf : 0 ≤ c.fwd.wfOf)
    (hadm : SearchOpt.Admissible c.fwd.inst c.fwd.okOf c.fwd.costOf c.fwd.hOf target)
    (h : yens c sim term source target k scheds = .ok r) :
    ∃ first, r.routes.head? = some first ∧ first ≠ [] ∧
      SearchOpt.Walk c.fwd.inst c.fwd.okOf source (first.map (·.edge)) target ∧
      (first.map (fun b => b.access + b.traversal)).sum =
        SearchOpt.cost c.fwd.costOf (first.map (·.edge)) ∧
      ∀ es, SearchOpt.Walk c.fwd.inst c.fwd.okOf source es target →
        (first.map (fun b => b.access + b.traversal)).sum ≤ SearchOpt.cost c.fwd.costOf es := by
  obtain ⟨fres, h1, h2, _⟩ := yens_first_route hEL.adj hk h
  obtain ⟨first, hr, rest⟩ := first_route_least_cost c.fwd hEL hwf hts hadm h1
  exact ⟨first, by rw [h2, hr], rest⟩

/-- the same for Dijkstra as the underlying search: no admissibility premise -/
theorem yens_first_least_cost_dijkstra_partial {c : Config α}
    {sim : List Nat → List Nat → Except ErrKind Bool} {term : KspTerm} {source target k : Nat}
    (hk : 1 ≤ k) (hts : target ≠ source) {scheds : List (List Nat)} {r : AlgResult α}
    (hEL : c.fwd.EdgeLocal) (hwf : c.fwd.wf = some 0)
    (h : yens c sim term source target k scheds = .ok r) :
    ∃ first, r.routes.head? = some first ∧ first ≠ [] ∧
      SearchOpt.Walk c.fwd.inst c.fwd.okOf source (first.map (·.edge)) target ∧
      (first.map (fun b => b.access + b.traversal)).sum =
        SearchOpt.cost c.fwd.costOf (first.map (·.edge)) ∧
      ∀ es, SearchOpt.Walk c.fwd.inst c.fwd.okOf source es target →
        (first.map (fun b => b.access + b.traversal)).sum ≤ SearchOpt.cost c.fwd.costOf es :=
  yens_first_least_cost_partial hk hts hEL (by simp [Config.wfOf, hwf])
    (c.fwd.admissible_dijkstra hwf target) h

/-- **k ≤ 1**: exactly the underlying search's route for k = 1, no route for k = 0, the search's
tree and one iteration -/
theorem yens_k_le_one {c : Config α} {sim : List Nat → List Nat → Except ErrKind Bool}
    {term : KspTerm} {source target k : Nat} (hk : k ≤ 1) {scheds : List (List Nat)}
    {fres : SearchResult α} {first : List (Branch α)}
    (hrun : runVertexOriented c.fwd.inst source (some target) (scheds.headD []) = .ok fres)
    (hfirst : fres.route = some first) :
    yens c sim term source target k scheds =
      .ok { trees := [fres.final.sol], routes := [first].take k, iterations := 1 } := by
  unfold yens
  simp only [hrun, hfirst]
  unfold yenWhile
  have : ¬ (1 < k) := by omega
  simp [this]

/-- **every returned route is a contiguous loop-free walk origin ⇝ destination** in graph
orientation: no vertex is left twice (`route_contains_loop` is false), hence no edge is repeated -/
theorem yens_routes_valid {c : Config α} (hf : c.fwd.AdjConsistent)
    {sim : List Nat → List Nat → Except ErrKind Bool} {term : KspTerm} {source target k : Nat}
    (hts : target ≠ source) {scheds : List (List Nat)} {r : AlgResult α}
    (h : yens c sim term source target k scheds = .ok r) :
    ∀ route ∈ r.routes,
      GWalk c.edges source (route.map (·.edge)) target ∧
      (∃ vs, srcVertices c.fwd route = .ok vs ∧ vs.Nodup) ∧
      (route.map (·.edge)).Nodup := by
  obtain ⟨fres, first, acc, h1, h2, hacc, hr, _⟩ := yens_ok hf h
  intro route hroute
  rw [hr] at hroute
  have hmem := List.mem_of_mem_take hroute
  have hloop : routeContainsLoop c.fwd route = .ok false := by
    cases hacc' : acc with
    | nil => exact absurd hacc' hacc.ne_nil
    | cons a rest =>
      have hh := hacc.head
      rw [hacc'] at hh hmem
      simp only [List.head?_cons, Option.some.injEq] at hh
      rcases List.mem_cons.1 hmem with rfl | hm
      · -- the first route: from the forward tree
        subst hh
        obtain ⟨hinv, hedges⟩ := fwd_tree_of_run c hf hts h1
        obtain ⟨_, route', hr', hbt⟩ := SearchRoute.runVertexOriented_some h1
        rw [h2] at hr'; cases hr'
        exact (fwd_backtrack_walk' hinv hedges hbt).2.1
      · obtain ⟨before, _, halt⟩ := hacc.tail_alt route (by rw [hacc']; exact hm)
        exact halt.loopfree
  obtain ⟨vs, hvs, hnd, hed⟩ := routeContainsLoop_false hloop
  exact ⟨(hacc.good route hmem).walk, ⟨vs, hvs, hnd⟩, hed⟩

/-- what the alternatives of a Yen result are: each is a proper alternative (`Ksp.YenAlt`) of the
routes returned before it -/
theorem yens_alternatives {c : Config α} (hf : c.fwd.AdjConsistent)
    {sim : List Nat → List Nat → Except ErrKind Bool} {term : KspTerm} {source target k : Nat}
    {scheds : List (List Nat)} {r : AlgResult α}
    (h : yens c sim term source target k scheds = .ok r) :
    ∀ route ∈ r.routes.tail, ∃ before, before <+: r.routes ∧
      YenAlt c sim source target before route := by
  obtain ⟨_, first, acc, _, _, hacc, hr, _⟩ := yens_ok hf h
  -- the returned routes are themselves an accepted list: a prefix of one
  have hpre : ∀ (n : Nat) (l : List (List (Branch α))), YenAcc c sim source target first l →
      ∀ route ∈ (l.take n).tail, ∃ before, before <+: l.take n ∧
        YenAlt c sim source target before route := by
    intro n l hl
    induction hl with
    | base _ =>
      intro route hroute
      cases n with
      | zero => simp at hroute
      | succ n => simp at hroute
    | @snoc l' bp hl' halt ih =>
      intro route hroute
      by_cases hn : n ≤ l'.length
      · rw [List.take_append_of_le_length hn] at hroute ⊢
        exact ih route hroute
      · have hn' : l'.length < n := by omega
        have htk : (l' ++ [bp]).take n = l' ++ [bp] := by
          apply List.take_of_length_le
          simp only [List.length_append, List.length_singleton]; omega
        rw [htk] at hroute ⊢
        have htl : l'.take n = l' := List.take_of_length_le (by omega)
        rw [htl] at ih
        have hne := hl'.ne_nil
        cases l' with
        | nil => exact absurd rfl hne
        | cons a rest =>
          simp only [List.cons_append, List.tail_cons] at hroute
          rcases List.mem_append.1 hroute with hm | hm
          · obtain ⟨before, hb1, hb2⟩ := ih route (by simpa using hm)
            exact ⟨before, hb1.trans (List.prefix_append _ _), hb2⟩
          · simp only [List.mem_singleton] at hm
            subst hm
            exact ⟨a :: rest, List.prefix_append _ _, halt⟩
  rw [hr]
  exact hpre k acc hacc

/-- **the spur part of an alternative carries correctly accumulated state** (every configuration,
Dijkstra and A*; the state inside the root path and of the first route is
`yens_routes_state_partial`): every route after the first is the first `i + 1` elements of a
route returned before it followed by a part each of whose elements is
`EdgeTraversal::forward_traversal` of its edge from the previous element's edge and state, starting
from the last edge and state of that root path (the junction's access cost and turn delay included) -/
theorem yens_alternative_state {c : Config α} (hf : c.fwd.AdjConsistent)
    {sim : List Nat → List Nat → Except ErrKind Bool} {term : KspTerm} {source target k : Nat}
    {scheds : List (List Nat)} {r : AlgResult α}
    (h : yens c sim term source target k scheds = .ok r) :
    ∀ route ∈ r.routes.tail, ∃ prev ∈ r.routes, ∃ i spurRoute,
      route = prev.take (i + 1) ++ spurRoute ∧
      Reaccumulated c.fwd (lastEdge (prev.take (i + 1))) (lastState c.fwd (prev.take (i + 1)))
        spurRoute := by
  intro route hroute
  obtain ⟨before, hpre, halt⟩ := yens_alternatives hf h route hroute
  obtain ⟨prev, hprev, i, spurRoute, h1, h2⟩ := halt.shape
  exact ⟨prev, hpre.subset hprev, i, spurRoute, h1, h2⟩

/-- **every returned route carries correctly accumulated state** — PARTIAL, exactly as
`single_via_routes_state_partial`: when the underlying search's estimate is a consistent function of
the vertex (Dijkstra: `H = 0`), every returned route — the first, and every alternative: root path,
junction and spur part — is the forward accumulation from the initial state.  Origin = destination
included.  Excluded: A* with an estimate that is inconsistent for the network, where the clause is
false (`routes_state_stale_link_counterexample`). -/
theorem yens_routes_state_partial {c : Config α} (hf : c.fwd.AdjConsistent)
    {H : Nat → α} (hH : SearchDiscipline.Heur c.fwd.inst true H)
    {sim : List Nat → List Nat → Except ErrKind Bool} {term : KspTerm} {source target k : Nat}
    {scheds : List (List Nat)} {r : AlgResult α}
    (h : yens c sim term source target k scheds = .ok r) :
    ∀ route ∈ r.routes, Reaccumulated c.fwd none (initialState c.fwd.feats) route := by
  obtain ⟨fres, first, acc, h1, h2, hacc, hr, _⟩ := yens_ok hf h
  intro route hroute
  rw [hr] at hroute
  exact hacc.reaccumulated (first_route_reaccumulated (c.fwd.inst_wf hf) hH h1 h2) route
    (List.mem_of_mem_take hroute)

/-- COUNTEREXAMPLE to "every route with correctly accumulated state" without the discipline (the C03
finding `route/stale-link-after-reopening` through both algorithms; oracle keys
`yens/stale-link-after-reopening`, `ksp/stale-link-after-reopening`): on the C03 witness — A* whose
estimate is inconsistent for the network — Yen's algorithm and single-via both return
`[e1, e2, e3, e4]` whose third element reports distance 1100 and time 0, whereas `e3` traversed
after `e2` from the state the route itself reports there gives distance 300 and time 2000 -/
theorem routes_state_stale_link_counterexample :
    Example.yenStatesOf (yens Example.stale simAcceptAll .exact 0 4 1 [[0, 2, 1, 2, 3, 4]]) =
      some [[(1, [100, 0]), (2, [200, 0]), (3, [1100, 0]), (4, [1200, 0])]] ∧
    Example.svStatesOf (singleVia Example.stale [0, 0, 0, 0, 0] simAcceptAll .exact 0 4 1
      [0, 2, 1, 2, 3, 4] [4, 3, 2, 0] []) =
      some [[(1, [100, 0]), (2, [200, 0]), (3, [1100, 0]), (4, [1200, 0])]] ∧
    (edgeTraversal Example.stale.fwd 3 (some 2) [200, 0]).toOption.map (·.2.2) = some [300, 2000] :=
  Example.stale_link_through_ksp

/-- **every alternative is permitted by the frontier model, pairwise, in travel order** — the
junction of root path and spur path included; in particular it takes no turn listed by a
turn-restriction model of the configuration -/
theorem yens_routes_permitted {c : Config α} (hf : c.fwd.AdjConsistent)
    {sim : List Nat → List Nat → Except ErrKind Bool} {term : KspTerm} {source target k : Nat}
    {scheds : List (List Nat)} {r : AlgResult α}
    (h : yens c sim term source target k scheds = .ok r) :
    ∀ route ∈ r.routes.tail,
      PermittedFrom c.fwd (initialState c.fwd.feats) none route ∧
      ∀ pairs, FrontierM.turnRestriction pairs ∈ c.frontier →
        ∀ i (hi : i + 1 < route.length), (route[i].edge, route[i + 1].edge) ∉ pairs := by
  intro route hroute
  obtain ⟨_, _, halt⟩ := yens_alternatives hf h route hroute
  exact ⟨halt.permitted,
    fun pairs hm => PermittedFrom.no_restricted_turn (cf := c.fwd) hm halt.permitted⟩

/-- the same for **the first route under the Dijkstra discipline** (weight factor 0), as
`single_via_first_route_permitted` -/
theorem yens_first_route_permitted {c : Config α} (hf : c.fwd.AdjConsistent)
    (hwf : c.wf = some 0) {sim : List Nat → List Nat → Except ErrKind Bool}
    {term : KspTerm} {source target k : Nat} (hk : 1 ≤ k) (hts : target ≠ source)
    {scheds : List (List Nat)} {r : AlgResult α}
    (h : yens c sim term source target k scheds = .ok r) :
    ∃ first, r.routes.head? = some first ∧
      PermittedFrom c.fwd (initialState c.fwd.feats) none first ∧
      ∀ pairs, FrontierM.turnRestriction pairs ∈ c.frontier →
        ∀ i (hi : i + 1 < first.length), (first[i].edge, first[i + 1].edge) ∉ pairs := by
  obtain ⟨fres, h1, h2, _⟩ := yens_first_route hf hk h
  have hz : SearchDiscipline.ZeroH c.fwd.inst := SearchDiscipline.config_zeroH c.fwd hwf
  obtain ⟨route, hroute, _, _, _, hhead, hlinks⟩ :=
    SearchDiscipline.route_links_fresh (c.fwd.inst_wf hf) hz hts h1
  have hperm : PermittedFrom c.fwd (initialState c.fwd.feats) none route :=
    permittedFrom_of_links (fun b hb => (hhead b hb).1) (fun i hi => (hlinks i hi).1)
  exact ⟨route, by rw [h2, hroute], hperm,
    fun pairs hm => PermittedFrom.no_restricted_turn (cf := c.fwd) hm hperm⟩

/-- COUNTEREXAMPLE to "`AcceptAll` returns at least as many routes as any threshold" for Yen's
algorithm (oracle key `yens/accept-all-returns-fewer`, corpus `yen-accept-all-fewer`; the real code
returns the same two results).  `Example.net7`: `0 -e0→ 1 -e1→ 2 -e2→ 3 -e3→ 4` (lengths 1, 1/10,
2/5, 2/5), the direct edge `e4 : 1 → 4` (1) and the detours `2 -e5→ 5 -e6→ 4` (2, 2),
`2 -e7→ 6 -e8→ 4` (3, 3); Dijkstra, `Exact`, k = 3, consistent adjacency, the SAME replayed schedules.
`AcceptAll` returns TWO routes: its second route is the cheapest candidate `[e0, e4]`, which has two
edges, so the next turn has no spur index (`0..len.saturating_sub(2)`) and accepts nothing.
The distance-weighted cosine threshold 1/2 returns THREE — here through `Example.simCos7`, a
hand-written root-free SURROGATE of `SimFn.distanceWeightedCosine (1/2)` (ℚ has no square root, so
no Lean statement ties the two; the tie is the corpus run, where the real
`DistanceWeightedCosineSimilarity { threshold: 0.5 }` and the Float model give the same three
routes): it turns `[e0, e4]`
down (rank 0.61), accepts `[e0, e1, e5, e6]` (0.29) and, spurring off that, `[e0, e1, e7, e8]`. -/
theorem yens_accept_all_fewer_counterexample :
    (Example.net7).fwd.AdjConsistent ∧
    Example.obsOf (yens Example.net7 simAcceptAll .exact 0 4 3
      [[0, 1, 2, 3, 4], [1, 4], [2, 5, 6, 4], [1, 4], [2, 6, 4]]) =
        .routes [[0, 1, 2, 3], [0, 4]] ∧
    Example.obsOf (yens Example.net7 Example.simCos7 .exact 0 4 3
      [[0, 1, 2, 3, 4], [1, 4], [2, 5, 6, 4], [1, 4], [2, 6, 4]]) =
        .routes [[0, 1, 2, 3], [0, 1, 5, 6], [0, 1, 7, 8]] :=
  ⟨Example.net7_adj, Example.yen_accept_all_fewer⟩

/-- **no two returned routes have the same edge sequence, and no two are similar**: every accepted
route was tested (`test_similarity(earlier, later)`, in that argument order) against EVERY route
accepted before it -/
theorem yens_distinct_dissimilar {c : Config α} (hf : c.fwd.AdjConsistent)
    {sim : List Nat → List Nat → Except ErrKind Bool} {term : KspTerm} {source target k : Nat}
    {scheds : List (List Nat)} {r : AlgResult α}
    (h : yens c sim term source target k scheds = .ok r) :
    r.routes.Pairwise (fun earlier later =>
      earlier.map (·.edge) ≠ later.map (·.edge) ∧
      sim (earlier.map (·.edge)) (later.map (·.edge)) = .ok false) := by
  obtain ⟨_, _, acc, _, _, hacc, hr, _⟩ := yens_ok hf h
  rw [hr]
  exact hacc.pairwise.sublist (List.take_sublist _ _)

/-- **which failures propagate**: the error of the first search (the query is then not answerable
by the underlying search either), an error `e` with `e.stopsQuery = true` — a limit of the
termination model (C10), a Rust panic or, in the model, an invalid replay — that IS the outcome of a
search on a cut configuration (the statement does not tie that search to the spur searches the run
performed: its content is the error KIND), or an
error of the similarity function on two id lists that consist of edges of the graph (an accepted
route and the candidate).  A spur search that finds no path — or fails in any other way —,
a failed re-traversal, a loop, a refusal of the frontier model only cost a candidate. -/
theorem yens_failures {c : Config α} (hf : c.fwd.AdjConsistent)
    {sim : List Nat → List Nat → Except ErrKind Bool} {term : KspTerm} {source target k : Nat}
    {scheds : List (List Nat)} {e : ErrKind}
    (h : yens c sim term source target k scheds = .err e) :
    runVertexOriented c.fwd.inst source (some target) (scheds.headD []) = .error e ∨
    (∃ cut v sched, runVertexOriented (cutCfg c cut).inst v (some target) sched = .error e ∧
      e.stopsQuery = true) ∨
    (∃ a b, GraphIds c.edges a ∧ GraphIds c.edges b ∧ sim a b = .error e) := by
  unfold yens at h
  split at h
  · rename_i e' he'; cases h; exact Or.inl he'
  · rename_i fres hfres
    split at h
    · cases h
    · rename_i first hfirst
      exact Or.inr (yenWhile_error hf _ _ _ _ e
        (YenAcc.base (first_route_good hf hfres hfirst)) h)

/-- hence **an answerable query is never turned into another error because a spur search failed** —
a "NO OTHER ERROR" theorem, not "a result is returned": the conclusion is a result OR one of the
model's two verdicts on the replay, and no theorem shows that an accepted complete spur replay
exists (leaving the spur schedules out gives `scheduleExhausted` with every premise true; the
correspondence run replays the schedules the code itself took).  Premises: the underlying search
answers the query, the similarity function does not fail on id lists made of edges of the graph
(`hsim`; all three configured functions meet it with no further premise:
`yens_answers_answerable_configured`) and no search
on a cut configuration ends with a limit of the termination model or a panic (`hspur`).
The premise `hspur` is satisfiable: `yens_answers_answerable_without_limits` discharges it, but only
for the configurations named there.  (The earlier version required `e.stopsQuery = false` of every
failing run on every replay, which the empty schedule refutes: it was vacuous.) -/
theorem yens_answers_answerable {c : Config α} (hf : c.fwd.AdjConsistent)
    {sim : List Nat → List Nat → Except ErrKind Bool}
    (hsim : ∀ a b, GraphIds c.edges a → GraphIds c.edges b → ∃ x, sim a b = .ok x)
    {term : KspTerm} {source target k : Nat} {scheds : List (List Nat)} {fres : SearchResult α}
    (hfwd : runVertexOriented c.fwd.inst source (some target) (scheds.headD []) = .ok fres)
    (hspur : ∀ cut v sched e, runVertexOriented (cutCfg c cut).inst v (some target) sched = .error e →
      (∀ ks, e ≠ .terminated ks) ∧ (∀ s, e ≠ .panic s)) :
    (∃ r, yens c sim term source target k scheds = .ok r) ∨
    yens c sim term source target k scheds = .err .scheduleExhausted ∨
    yens c sim term source target k scheds = .err .badSchedule := by
  cases hres : yens c sim term source target k scheds with
  | ok r => exact Or.inl ⟨r, rfl⟩
  | diverges why => exact absurd hres (yens_terminates c sim term source target k scheds why)
  | err e =>
    rcases yens_failures hf hres with h | ⟨cut, v, sched, h, hs⟩ | ⟨a, b, ha, hb, h⟩
    · rw [hfwd] at h; cases h
    · obtain ⟨h1, h2⟩ := hspur cut v sched e h
      cases e with
      | terminated ks => exact absurd rfl (h1 ks)
      | panic s => exact absurd rfl (h2 s)
      | scheduleExhausted => exact Or.inr (Or.inl rfl)
      | badSchedule => exact Or.inr (Or.inr rfl)
      | _ => simp [ErrKind.stopsQuery] at hs
    · obtain ⟨x, hx⟩ := hsim a b ha hb
      rw [hx] at h; cases h

/-- **a configuration without limits**.  The premise `hterm` quantifies over ALL counters and is met
only by the EMPTY combined termination model `Combined []` (or a runtime limit whose clock stands
still): every iteration, size or advancing runtime limit fires at some counters.  The `[termination]`
section being mandatory in the application, this is the configuration `{type = "combined", models =
[]}` only; a form bounded by the counters a run can reach would need a bound on the iterations of
an A* search with an inconsistent estimate and is not proved here.  For it:
limits and panics can only come from the termination model (`Ksp.no_limit_never_stopped`: the
frontier, traversal, access, cost and estimate models report their own error kinds, the backtrack
of a valid tree never fails), so whenever the underlying search answers the query and the similarity
function does not fail, Yen's algorithm answers it — whatever happens to the spur searches -/
theorem yens_answers_answerable_without_limits {c : Config α} (hf : c.fwd.AdjConsistent)
    (hterm : ∀ sz it, c.term.test sz it = .ok ())
    {sim : List Nat → List Nat → Except ErrKind Bool}
    (hsim : ∀ a b, GraphIds c.edges a → GraphIds c.edges b → ∃ x, sim a b = .ok x)
    {term : KspTerm} {source target k : Nat} {scheds : List (List Nat)} {fres : SearchResult α}
    (hfwd : runVertexOriented c.fwd.inst source (some target) (scheds.headD []) = .ok fres) :
    (∃ r, yens c sim term source target k scheds = .ok r) ∨
    yens c sim term source target k scheds = .err .scheduleExhausted ∨
    yens c sim term source target k scheds = .err .badSchedule :=
  yens_answers_answerable hf hsim hfwd (no_limit_never_stopped c hf hterm target)

/-! ### the same for the three CONFIGURED similarity functions, with no similarity premise

`runAlgCfg` hands the algorithms `sim := f.test c.edges`; by `similarity_never_fails_on_graph_edges`
that function answers on id lists made of edges of the graph, for `AcceptAll`, the edge-id cosine
and the distance-weighted cosine alike, every threshold. -/

/-- every configured similarity function meets the premise `hsim` of the answerable theorems -/
theorem configured_similarity_meets_hsim [HasSqrt α] (f : SimFn α) (edges : List (EdgeRec α)) :
    ∀ a b, GraphIds edges a → GraphIds edges b → ∃ x, f.test edges a b = .ok x := by
  intro a b ha hb
  refine (similarity_never_fails_on_graph_edges f edges ?_).2
  intro e he
  rcases List.mem_append.1 he with h | h
  · exact ha e h
  · exact hb e h

/-- `single_via_answers_answerable` for `sim := f.test c.edges`, any `f` -/
theorem single_via_answers_answerable_configured [HasSqrt α] {c : Config α} {g : List α}
    (hf : c.fwd.AdjConsistent) (hr : (c.rev g).AdjConsistent) (f : SimFn α)
    {term : KspTerm} {source target k : Nat} (hts : target ≠ source) {fs rs pops : List Nat}
    {fres : SearchResult α}
    (hfwd : runVertexOriented c.fwd.inst source (some target) fs = .ok fres)
    (hrev : ∀ e, runVertexOriented (c.rev g).inst target (some source) rs = .error e →
      e.stopsQuery = false) :
    (∃ r, singleVia c g (f.test c.edges) term source target k fs rs pops = .ok r) ∨
    singleVia c g (f.test c.edges) term source target k fs rs pops = .error .scheduleExhausted ∨
    singleVia c g (f.test c.edges) term source target k fs rs pops = .error .badSchedule :=
  single_via_answers_answerable hf hr (configured_similarity_meets_hsim f c.edges) hts hfwd hrev

/-- `yens_answers_answerable` for `sim := f.test c.edges`, any `f` -/
theorem yens_answers_answerable_configured [HasSqrt α] {c : Config α} (hf : c.fwd.AdjConsistent)
    (f : SimFn α) {term : KspTerm} {source target k : Nat} {scheds : List (List Nat)}
    {fres : SearchResult α}
    (hfwd : runVertexOriented c.fwd.inst source (some target) (scheds.headD []) = .ok fres)
    (hspur : ∀ cut v sched e, runVertexOriented (cutCfg c cut).inst v (some target) sched = .error e →
      (∀ ks, e ≠ .terminated ks) ∧ (∀ s, e ≠ .panic s)) :
    (∃ r, yens c (f.test c.edges) term source target k scheds = .ok r) ∨
    yens c (f.test c.edges) term source target k scheds = .err .scheduleExhausted ∨
    yens c (f.test c.edges) term source target k scheds = .err .badSchedule :=
  yens_answers_answerable hf (configured_similarity_meets_hsim f c.edges) hfwd hspur

/-- `yens_answers_answerable_without_limits` for `sim := f.test c.edges`, any `f` (the premise
`hterm`: the empty combined termination model only, see there) -/
theorem yens_answers_answerable_without_limits_configured [HasSqrt α] {c : Config α}
    (hf : c.fwd.AdjConsistent) (hterm : ∀ sz it, c.term.test sz it = .ok ()) (f : SimFn α)
    {term : KspTerm} {source target k : Nat} {scheds : List (List Nat)} {fres : SearchResult α}
    (hfwd : runVertexOriented c.fwd.inst source (some target) (scheds.headD []) = .ok fres) :
    (∃ r, yens c (f.test c.edges) term source target k scheds = .ok r) ∨
    yens c (f.test c.edges) term source target k scheds = .err .scheduleExhausted ∨
    yens c (f.test c.edges) term source target k scheds = .err .badSchedule :=
  yens_answers_answerable_without_limits hf hterm (configured_similarity_meets_hsim f c.edges) hfwd

/-! ### Non-vacuity (Yen): `0 -e0→ 1 -e1→ 2 -e2→ 3` with the alternative `1 -e3→ 4 -e4→ 3`, k = 2 -/

example : ∃ r, yens (Example.alt3 []) simAcceptAll .exact 0 3 2 [[0, 1, 2, 4, 3], [1, 4, 3]] = .ok r ∧
    r.routes.map (·.map (·.edge)) = [[0, 1, 2], [0, 3, 4]] ∧ r.routes.length ≤ 2 ∧
    (∀ route ∈ r.routes.tail, PermittedFrom (Example.alt3 []).fwd
      (initialState (Example.alt3 []).fwd.feats) none route) ∧
    r.routes.Pairwise (fun a b => a.map (·.edge) ≠ b.map (·.edge) ∧
      simAcceptAll (a.map (·.edge)) (b.map (·.edge)) = .ok false) := by
  obtain ⟨r, hr, hids⟩ := Example.ok_of_obsOf Example.yen_state_accumulated.1
  exact ⟨r, hr, hids, (yens_count Example.alt3_adj hr).1,
    fun route hroute => (yens_routes_permitted Example.alt3_adj hr route hroute).1,
    yens_distinct_dissimilar Example.alt3_adj hr⟩

/-- the least-cost, state and answerable theorems apply to that run: `alt3 []` is an edge-local
Dijkstra configuration without limits, `AcceptAll` never fails, the first search answers — every
hypothesis of `yens_first_least_cost_dijkstra_partial`, `yens_routes_state_partial`,
`yens_first_route_permitted`, `yens_answers_answerable(_without_limits)` instantiated -/
example : ∃ r first, yens (Example.alt3 []) simAcceptAll .exact 0 3 2 [[0, 1, 2, 4, 3], [1, 4, 3]] =
      .ok r ∧ r.routes.length = 2 ∧ r.routes.head? = some first ∧
    (∀ es, SearchOpt.Walk (Example.alt3 []).fwd.inst (Example.alt3 []).fwd.okOf 0 es 3 →
      (first.map (fun b => b.access + b.traversal)).sum ≤
        SearchOpt.cost (Example.alt3 []).fwd.costOf es) ∧
    PermittedFrom (Example.alt3 []).fwd (initialState (Example.alt3 []).fwd.feats) none first ∧
    (∀ route ∈ r.routes, Reaccumulated (Example.alt3 []).fwd none
      (initialState (Example.alt3 []).fwd.feats) route) ∧
    (∀ cut v sched e,
      runVertexOriented (cutCfg (Example.alt3 []) cut).inst v (some 3) sched = .error e →
        (∀ ks, e ≠ .terminated ks) ∧ (∀ s, e ≠ .panic s)) := by
  obtain ⟨r, hr, hids⟩ := Example.ok_of_obsOf Example.yen_state_accumulated.1
  have hEL : (Example.alt3 []).fwd.EdgeLocal := ⟨Example.alt3_adj, rfl, rfl⟩
  have hwf : (Example.alt3 []).fwd.wf = some 0 := rfl
  have hterm : ∀ sz it, (Example.alt3 []).term.test sz it = .ok () :=
    SearchLimits.combined_nil_test
  obtain ⟨first, h1, _, _, _, hmin⟩ :=
    yens_first_least_cost_dijkstra_partial (by decide) (by decide) hEL hwf hr
  obtain ⟨first', h1', hperm, _⟩ :=
    yens_first_route_permitted Example.alt3_adj rfl (by decide) (by decide) hr
  rw [h1] at h1'; cases h1'
  obtain ⟨fres, hfwd, _⟩ := yens_first_route Example.alt3_adj (by decide) hr
  -- `yens_answers_answerable_without_limits` yields the run (first disjunct) on this replay
  have hans := yens_answers_answerable_without_limits (term := .exact) (k := 2) Example.alt3_adj
    hterm (sim := simAcceptAll) (fun _ _ _ _ => ⟨false, rfl⟩) hfwd
  rw [hr] at hans
  refine ⟨r, first, hr, by simpa using congrArg List.length hids, h1, hmin, hperm, ?_,
    no_limit_never_stopped _ Example.alt3_adj hterm 3⟩
  exact yens_routes_state_partial Example.alt3_adj
    ((SearchDiscipline.config_zeroH _ hwf).heur (Config.inst_wf _ Example.alt3_adj) true) hr

/-- the configured corollaries apply with the DISTANCE-WEIGHTED COSINE (threshold 1/2, any square
root function): on `alt3 []` (Yen; no limits, the first search answers) and on the diamond
(single-via; both searches answer) every premise of `yens_answers_answerable_configured`,
`yens_answers_answerable_without_limits_configured` and `single_via_answers_answerable_configured`
is met, and no similarity premise is left -/
example [HasSqrt ℚ] :
    ((∃ r, yens (Example.alt3 []) ((SimFn.distanceWeightedCosine (1 / 2)).test (Example.alt3 []).edges)
        .exact 0 3 2 [[0, 1, 2, 4, 3], [1, 4, 3]] = .ok r) ∨
      yens (Example.alt3 []) ((SimFn.distanceWeightedCosine (1 / 2)).test (Example.alt3 []).edges)
        .exact 0 3 2 [[0, 1, 2, 4, 3], [1, 4, 3]] = .err .scheduleExhausted ∨
      yens (Example.alt3 []) ((SimFn.distanceWeightedCosine (1 / 2)).test (Example.alt3 []).edges)
        .exact 0 3 2 [[0, 1, 2, 4, 3], [1, 4, 3]] = .err .badSchedule) ∧
    ((∃ r, singleVia Example.diamond (List.replicate 4 0)
        ((SimFn.distanceWeightedCosine (1 / 2)).test Example.diamond.edges) .exact 0 3 2
        [0, 1, 3] [3, 1, 0] [1, 2] = .ok r) ∨
      singleVia Example.diamond (List.replicate 4 0)
        ((SimFn.distanceWeightedCosine (1 / 2)).test Example.diamond.edges) .exact 0 3 2
        [0, 1, 3] [3, 1, 0] [1, 2] = .error .scheduleExhausted ∨
      singleVia Example.diamond (List.replicate 4 0)
        ((SimFn.distanceWeightedCosine (1 / 2)).test Example.diamond.edges) .exact 0 3 2
        [0, 1, 3] [3, 1, 0] [1, 2] = .error .badSchedule) := by
  constructor
  · obtain ⟨r, hr, _⟩ := Example.ok_of_obsOf Example.yen_state_accumulated.1
    obtain ⟨fres, hfwd, _⟩ := yens_first_route Example.alt3_adj (by decide) hr
    have hterm : ∀ sz it, (Example.alt3 []).term.test sz it = .ok () :=
      SearchLimits.combined_nil_test
    -- the general form, its premise `hspur` discharged by `no_limit_never_stopped` …
    have := yens_answers_answerable_configured (term := .exact) (k := 2) Example.alt3_adj
      (SimFn.distanceWeightedCosine (1 / 2 : ℚ)) hfwd
      (no_limit_never_stopped _ Example.alt3_adj hterm 3)
    -- … and the corollary for configurations without limits
    exact yens_answers_answerable_without_limits_configured Example.alt3_adj hterm _ hfwd
  · obtain ⟨r, hr, _⟩ := Example.ok_of_idsOf Example.diamond_accept_all
    obtain ⟨fres, hfwd, hcase⟩ := single_via_terminates hr
    have hrA := rev_adj_irrel _ [] (List.replicate 4 (0 : ℚ)) Example.diamond_adj.2
    refine single_via_answers_answerable_configured Example.diamond_adj.1 hrA _ (by decide) hfwd ?_
    intro e he
    rcases hcase with ⟨⟨e0, he0, hs⟩, _⟩ | ⟨rres, _, hrres, _⟩
    · rw [he0] at he; cases he; exact hs
    · rw [hrres] at he; cases he

/-! ### The old witnesses of Yen's defects, on the repaired algorithm (corpus keys in brackets) -/

/-- [`yens/diverges-one-edge-route`, `yens/diverges-two-edge-route`, `yens/error-without-spur-search`]
one-edge and two-edge shortest routes and origin = destination with k = 2: the call returns, with
the one route there is to offer from these spur ranges -/
theorem yens_short_route_witness :
    (Example.obsOf (yens Example.oneEdge simAcceptAll .exact 0 1 2 [[0, 1]]) = .routes [[0]] ∧
      Example.obsOf (yens Example.oneEdge (Example.shareAtLeast 1) .exact 0 1 2 [[0, 1]]) =
        .routes [[0]]) ∧
    Example.obsOf (yens Example.diamond simAcceptAll .exact 0 3 2 [[0, 1, 3]]) = .routes [[0, 1]] ∧
    Example.obsOf (yens Example.pair simAcceptAll .exact 0 0 2 [[]]) = .routes [[]] :=
  ⟨Example.yen_one_edge, Example.yen_two_edge, Example.yen_origin_is_destination⟩

/-- [`yens/diverges-later-short-route`, `yens/diverges-no-progress`] a later two-edge route, and a
turn whose only candidate is similar to an accepted route: the loop stops with what it has -/
theorem yens_no_progress_witness :
    Example.obsOf (yens Example.shortcut simAcceptAll .exact 0 3 3 [[0, 1, 2, 3], [1, 3]]) =
      .routes [[0, 1, 2], [0, 3]] ∧
    Example.obsOf (yens (Example.alt3 []) (Example.shareAtLeast 1) .exact 0 3 2
      [[0, 1, 2, 4, 3], [1, 4, 3]]) = .routes [[0, 1, 2]] :=
  ⟨Example.yen_later_short_route, Example.yen_no_dissimilar_candidate⟩

/-- [`yens/spur-failure-propagated`] `0 → 1 → 2 → 3` without any alternative, k = 2: the spur search
from 1 still finds no path, and the query is answered with the shortest route -/
theorem yens_spur_failure_witness :
    Example.idsOf (Example.line3.runVertex 0 (some 3) [0, 1, 2, 3]) = .ok [[0, 1, 2]] ∧
    Example.obsOf (yens Example.line3 simAcceptAll .exact 0 3 2 [[0, 1, 2, 3], [1, 3]]) =
      .routes [[0, 1, 2]] :=
  Example.yen_spur_failure

/-- [`yens/more-than-k`, `yens/duplicate-route`] the four-edge route with alternatives at both spur
vertices: k = 2 returns the shortest route and the cheaper alternative, k = 3 all three — once each;
k = 0 returns nothing -/
theorem yens_at_most_k_witness :
    (Example.obsOf (yens (Example.twoSpurs 3 (3 / 2)) simAcceptAll .exact 0 4 2
        [[0, 1, 2, 3, 6, 4], [1, 5, 4], [2, 6, 4]]) = .routes [[0, 1, 2, 3], [0, 1, 6, 7]] ∧
      Example.obsOf (yens (Example.twoSpurs 3 (3 / 2)) simAcceptAll .exact 0 4 3
        [[0, 1, 2, 3, 6, 4], [1, 5, 4], [2, 6, 4], [1, 5, 4], [2]]) =
        .routes [[0, 1, 2, 3], [0, 1, 6, 7], [0, 4, 5]]) ∧
    Example.obsOf (yens (Example.twoSpurs 2 3) simAcceptAll .exact 0 4 2
      [[0, 1, 2, 5, 3, 4], [1, 5, 4], [2, 6, 4]]) = .routes [[0, 1, 2, 3], [0, 4, 5]] ∧
    Example.obsOf (yens Example.diamond simAcceptAll .exact 0 3 0 [[0, 1, 3]]) = .routes [] :=
  ⟨Example.yen_at_most_k, Example.yen_no_duplicate, Example.yen_k0⟩

/-- [`yens/state-not-accumulated`] the alternative `[e0, e3, e4]` (lengths 1, 2, 2) now reports the
distances 1, 3, 5 -/
theorem yens_state_accumulated_witness :
    Example.obsOf (yens (Example.alt3 []) simAcceptAll .exact 0 3 2 [[0, 1, 2, 4, 3], [1, 4, 3]]) =
      .routes [[0, 1, 2], [0, 3, 4]] ∧
    Example.statesOf (yens (Example.alt3 []) simAcceptAll .exact 0 3 2 [[0, 1, 2, 4, 3], [1, 4, 3]]) =
      [[[1], [2], [3]], [[1], [3], [5]]] :=
  Example.yen_state_accumulated

/-- [`yens/loop-in-route`, `yens/similar-routes`, `yens/restricted-turn`] the candidate through the
origin, the candidate similar to the second accepted route, the candidate with the restricted
junction turn are all turned down -/
theorem yens_candidate_tests_witness :
    Example.obsOf (yens Example.loopy simAcceptAll .exact 0 3 2 [[0, 1, 4, 2, 3], [1, 0, 4, 3]]) =
      .routes [[0, 1, 2]] ∧
    Example.obsOf (yens Example.fan (Example.shareAtLeast 2) .exact 0 9 3
      [[0, 1, 2, 3, 6, 5, 4, 9], [1, 3, 6, 5, 4, 9], [1, 5, 9], [3, 4, 9]]) =
      .routes [[0, 1, 2], [0, 3, 8, 9], [0, 6, 7]] ∧
    Example.obsOf (yens (Example.alt3 [.turnRestriction [(0, 3)]]) simAcceptAll .exact 0 3 2
      [[0, 1, 2, 3], [1, 4, 3]]) = .routes [[0, 1, 2]] :=
  ⟨Example.yen_no_loop, Example.yen_dissimilar, Example.yen_restricted_turn⟩

end C13
end Compass

namespace Compass
namespace C13
open Src

/-! ### Source decision ties

The relational operators at the named comparison sites of the Rust source are re-extracted on every run
by `tools/gen_model.py` into `Compass/Gen/Decisions.lean` (`Src.<site> : Src.Rel`).  Each theorem below
says that the hand-written model decides at that site by exactly the operator the source has there
(`Rel.nat` / `Rel.int` / `Rel.num` interpret the extracted operator; an unrecognised line is `none`).  A
source change that turns `<` into `<=`, `>` into `>=`, … at a site changes the generated constant and this
proof obligation stops checking, whether or not a generated case lands on the tie. -/

theorem src_ksp_exact (k n : Nat) : some (KspTerm.exact.terminate k n) = ksp_exact.nat n k := by
  simp [KspTerm.terminate, ksp_exact, Rel.nat]

theorem src_ksp_max_iteration (max k n : Nat) :
    some ((KspTerm.maxIteration max).terminate k n) =
      (ksp_exact.nat n k).bind fun a => (ksp_max_iteration.nat max k).map fun b => a && b := by
  simp [KspTerm.terminate, ksp_exact, ksp_max_iteration, Rel.nat]

theorem src_ksp_factor (f k n : Nat) :
    some ((KspTerm.factor f).terminate k n) =
      (ksp_exact.nat n k).bind fun a => (ksp_factor.nat (f * n) k).map fun b => a && b := by
  simp [KspTerm.terminate, ksp_exact, ksp_factor, Rel.nat]

/-- shared by every search property: the label test of `run_a_star`'s relaxation (`improves`) is the
source's `tentative_gscore < existing_gscore`; with `<=` an equal-cost arrival re-labels an expanded vertex -/
theorem src_relax_improves {α : Type} [Field α] [LinearOrder α] [IsStrictOrderedRing α] [Lit α] [LawfulLit α] (tent ex : α) :
    some (improves tent (some ex)) = relax_improves.num tent ex := by
  simp [improves, relax_improves, Rel.num]

/-! ### Generated function bodies

`tools/gen_fns.py` re-translates the body of the Rust function on every run into `Compass/Gen/FnsC13.lean`
(`Gen.<Type>_<fn>`; conventions in the header of the tool).  Each `gen_*_eq` theorem below says that the
generated definition *is* the hand-written model function the property theorems are about.  A source
change to the function changes the generated definition and the proof stops checking (a body the
translator no longer recognises is not emitted: the theorem no longer elaborates). -/

/-- `k` is a `usize`: the hypothesis is the range of the type (`saturating_mul` is translated with its bound;
the model multiplies in `Nat` — the two agree on every `k` a `usize` can hold) -/
theorem gen_terminate_search_eq (t : KspTerm) (k n : Nat) (hk : k ≤ 18446744073709551615) :
    Gen.KspTerminationCriteria_terminate_search t k n = t.terminate k n := by
  cases t with
  | exact => simp [Gen.KspTerminationCriteria_terminate_search, KspTerm.terminate, beq_eq_decide]
  | maxIteration max => simp [Gen.KspTerminationCriteria_terminate_search, KspTerm.terminate, beq_eq_decide]
  | factor f =>
    simp only [Gen.KspTerminationCriteria_terminate_search, KspTerm.terminate, beq_eq_decide]
    congr 1
    simp only [ge_iff_le, decide_eq_decide, Nat.min_def]
    split <;> omega

end C13
end Compass
