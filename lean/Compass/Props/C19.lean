import Compass.Model.Sink

namespace Compass
namespace C19
open Sink

theorem stub : True := trivial

end C19
end Compass
